(** * Dealer model (router/dealer.go).  Definitions only.  Mirrors the repaired
    code.  Payload passthru options (ppt_scheme and friends) are outside this model. *)
From Nexus Require Export Router.Broker.

Record registration := mkReg {
  reg_id : N; reg_proc : string; reg_match : string; reg_policy : string;
  reg_disclose : list N;   (* the callees that asked for disclosure of the caller (and were allowed to): per callee *)
  reg_fwd_timeout : list N;   (* the callees that asked to handle call timeouts themselves (forward_timeout): per callee *)
  reg_next : N; reg_callees : list N }.

(** does callee [sid] of registration [r] get the caller's identity because it asked for it at REGISTER *)
Definition reg_discloses (r : registration) (sid : N) : bool := nmem sid (reg_disclose r).
(** did callee [sid] of registration [r] ask for forward_timeout at REGISTER *)
Definition reg_forwards (r : registration) (sid : N) : bool := nmem sid (reg_fwd_timeout r).

Definition callid := (N * N)%type.     (* (session id, request id) *)

Record invocation := mkInv {
  inv_call : callid; inv_callee : N; inv_canceled : bool; inv_inprogress : bool;
  inv_timer : option N;                  (* id of the cancellable timer *)
  inv_opts : dict }.

Record dealer := mkDealer {
  d_exact : list (string * N); d_pfx : list (string * N); d_wc : list (string * N);
  d_regs : list (N * registration);
  d_calls : list (callid * N);            (* call id -> caller *)
  d_invs : list (callid * invocation);    (* (callee, invocation id) -> invocation *)
  d_bycall : list (callid * callid);
  d_callee_regs : list (N * list N);
  d_timers : list (N * (N * callid));     (* timer id -> (deadline ms, call id) *)
  d_timergen : N;
  d_idgen : N }.

Definition empty_dealer : dealer := mkDealer [] [] [] [] [] [] [] [] [] 0 0.

Definition cget {V} (l : list (callid * V)) k := aget pair_eqb l k.
Definition cset {V} (l : list (callid * V)) k v := aset pair_eqb l k v.
Definition cdel {V} (l : list (callid * V)) k := adel pair_eqb l k.

Definition d_map (d : dealer) (k : mkind) :=
  match k with MExact => d_exact d | MPrefix => d_pfx d | MWildcard => d_wc d end.
Definition d_set_map (d : dealer) (k : mkind) m : dealer :=
  match k with
  | MExact => mkDealer m (d_pfx d) (d_wc d) (d_regs d) (d_calls d) (d_invs d) (d_bycall d) (d_callee_regs d) (d_timers d) (d_timergen d) (d_idgen d)
  | MPrefix => mkDealer (d_exact d) m (d_wc d) (d_regs d) (d_calls d) (d_invs d) (d_bycall d) (d_callee_regs d) (d_timers d) (d_timergen d) (d_idgen d)
  | MWildcard => mkDealer (d_exact d) (d_pfx d) m (d_regs d) (d_calls d) (d_invs d) (d_bycall d) (d_callee_regs d) (d_timers d) (d_timergen d) (d_idgen d)
  end.
Definition d_set_regs d x := mkDealer (d_exact d) (d_pfx d) (d_wc d) x (d_calls d) (d_invs d) (d_bycall d) (d_callee_regs d) (d_timers d) (d_timergen d) (d_idgen d).
Definition d_set_calls d x := mkDealer (d_exact d) (d_pfx d) (d_wc d) (d_regs d) x (d_invs d) (d_bycall d) (d_callee_regs d) (d_timers d) (d_timergen d) (d_idgen d).
Definition d_set_invs d x := mkDealer (d_exact d) (d_pfx d) (d_wc d) (d_regs d) (d_calls d) x (d_bycall d) (d_callee_regs d) (d_timers d) (d_timergen d) (d_idgen d).
Definition d_set_bycall d x := mkDealer (d_exact d) (d_pfx d) (d_wc d) (d_regs d) (d_calls d) (d_invs d) x (d_callee_regs d) (d_timers d) (d_timergen d) (d_idgen d).
Definition d_set_callee_regs d x := mkDealer (d_exact d) (d_pfx d) (d_wc d) (d_regs d) (d_calls d) (d_invs d) (d_bycall d) x (d_timers d) (d_timergen d) (d_idgen d).
Definition d_set_timers d x g := mkDealer (d_exact d) (d_pfx d) (d_wc d) (d_regs d) (d_calls d) (d_invs d) (d_bycall d) (d_callee_regs d) x g (d_idgen d).
Definition d_set_idgen d x := mkDealer (d_exact d) (d_pfx d) (d_wc d) (d_regs d) (d_calls d) (d_invs d) (d_bycall d) (d_callee_regs d) (d_timers d) (d_timergen d) x.

(** A meta event the dealer wants published through the meta session. *)
Record metapub := mkMetaPub { mp_topic : string; mp_args : list value; mp_kw : dict; mp_opts : dict }.

Definition str_prefix_wamp (s : string) : bool := String.prefix "wamp." s.

Definition policy_single := "single".
(** the invocation policies under which a registration may have several callees *)
Definition shared_policy (p : string) : bool :=
  String.eqb p "roundrobin" || String.eqb p "random" || String.eqb p "first" || String.eqb p "last".

(** ** REGISTER *)
Definition reg_dict (r : registration) : value :=
  VDict [("id", vid (reg_id r)); ("created", vstr created_placeholder);
         ("uri", vuri (reg_proc r)); ("match", vstr (reg_match r)); ("invoke", vstr (reg_policy r))].

Definition callee_add_reg (l : list (N * list N)) (sid id : N) :=
  match nget l sid with
  | Some ids => if nmem id ids then l else nset l sid (ids ++ [id])
  | None => nset l sid [id]
  end.

Definition register (cfg : config) (d : dealer) (callee : session) (req : N) (opts : dict) (proc : string)
  : dealer * list out * list metapub :=
  let sid := s_id callee in
  let m := opt_string opts "match" in
  if negb (valid_uri (c_strict cfg) m proc) then
    (d, [(sid, RError c_REGISTER req [] e_invalid_uri [vstr "<text>"] [])], [])
  else
    let wamp_uri := str_prefix_wamp proc in
    if wamp_uri && negb (N.eqb sid meta_id) then
      (d, [(sid, RError c_REGISTER req [] e_invalid_uri [vstr "<text>"] [])], [])
    else
      let disclose := opt_bool opts "disclose_caller" in
      if negb (c_disclose cfg) && disclose && negb (String.eqb (attr_of (s_details callee) "authrole") "trusted") then
        (d, [(sid, RError c_REGISTER req [] e_disclose_me [] [])], [])
      else
        let invoke := opt_string opts "invoke" in
        let fwd := opt_bool opts "forward_timeout" in
        let k := mkind_of m in
        let meta := negb wamp_uri in
        match match sget (d_map d k) proc with Some id => nget (d_regs d) id | None => None end with
        | None =>
            let id := idgen_next (d_idgen d) in
            let r := mkReg id proc m invoke (if disclose then [sid] else []) (if fwd then [sid] else []) 0 [sid] in
            let d1 := d_set_idgen d id in
            let d2 := d_set_regs d1 (nset (d_regs d1) id r) in
            let d3 := d_set_map d2 k (sset (d_map d2 k) proc id) in
            let d4 := d_set_callee_regs d3 (callee_add_reg (d_callee_regs d3) sid id) in
            (d4, [(sid, RRegistered req id)],
             if meta then [mkMetaPub t_reg_on_create [vid sid; reg_dict r] [] [];
                           mkMetaPub t_reg_on_register [vid sid; vid id] [] []] else [])
        | Some r =>
            if negb (shared_policy (reg_policy r))
               || negb (String.eqb (reg_policy r) invoke) || nmem sid (reg_callees r) then
              (d, [(sid, RError c_REGISTER req [] e_procedure_exists [] [])], [])
            else
              let r' := mkReg (reg_id r) (reg_proc r) (reg_match r) (reg_policy r)
                              (if disclose then reg_disclose r ++ [sid] else reg_disclose r)
                              (if fwd then reg_fwd_timeout r ++ [sid] else reg_fwd_timeout r)
                              (reg_next r) (reg_callees r ++ [sid]) in
              let d1 := d_set_regs d (nset (d_regs d) (reg_id r) r') in
              let d2 := d_set_callee_regs d1 (callee_add_reg (d_callee_regs d1) sid (reg_id r)) in
              (d2, [(sid, RRegistered req (reg_id r))],
               if meta then [mkMetaPub t_reg_on_register [vid sid; vid (reg_id r)] [] []] else [])
        end.

(** syncDelCalleeReg: Some true = registration deleted, Some false = callee
    removed, None = error *)
Definition del_callee_reg (d : dealer) (sid regid : N) : dealer * option bool :=
  match nget (d_regs d) regid with
  | None => (d, None)
  | Some r =>
      if negb (nmem sid (reg_callees r)) then (d, None)
      else
        let cs := nremove1 sid (reg_callees r) in
        match cs with
        | [] =>
            let d1 := d_set_regs d (ndel (d_regs d) regid) in
            let k := mkind_of (reg_match r) in
            (d_set_map d1 k (sdel (d_map d1 k) (reg_proc r)), Some true)
        | _ =>
            let r' := mkReg (reg_id r) (reg_proc r) (reg_match r) (reg_policy r) (nremove1 sid (reg_disclose r))
                            (nremove1 sid (reg_fwd_timeout r)) (reg_next r) cs in
            (d_set_regs d (nset (d_regs d) regid r'), Some false)
        end
  end.

Definition callee_del_reg (l : list (N * list N)) (sid id : N) :=
  match nget l sid with
  | Some ids => match nremove id ids with [] => ndel l sid | ids' => nset l sid ids' end
  | None => l
  end.

Definition unregister (d : dealer) (sid req regid : N) : dealer * list out * list metapub :=
  let d0 := d_set_callee_regs d (callee_del_reg (d_callee_regs d) sid regid) in
  match del_callee_reg d0 sid regid with
  | (_, None) => (d0, [(sid, RError c_UNREGISTER req [] e_no_such_registration [] [])], [])
  | (d1, Some deleted) =>
      (d1, [(sid, RUnregistered req)],
       mkMetaPub t_reg_on_unregister [vid sid; vid regid] [] [] ::
       (if deleted then [mkMetaPub t_reg_on_delete [vid sid; vid regid] [] []] else []))
  end.

(** ** Matching a procedure.  [oracle] resolves a tie between wildcard
    registrations of equal pattern List.length (Go map iteration order). *)
Definition longest (l : list (string * N)) : list (string * N) :=
  let mx := fold_left (fun m '((p, _) : string * N) => N.max m (slen p)) l 0 in
  filter (fun '((p, _) : string * N) => slen p =? mx) l.

Definition match_procedure (d : dealer) (proc : string) (oracle : N) : option registration :=
  match sget (d_exact d) proc with
  | Some id => nget (d_regs d) id
  | None =>
      match longest (filter (fun '((p, _) : string * N) => prefix_match proc p) (d_pfx d)) with
      | (_, id) :: _ => nget (d_regs d) id
      | [] =>
          let c := longest (filter (fun '((w, _) : string * N) => wildcard_match proc w) (d_wc d)) in
          match nth_error c (N.to_nat (oracle mod (N.max 1 (N.of_nat (List.length c))))) with
          | Some (_, id) => nget (d_regs d) id
          | None => None
          end
      end
  end.

(** ** Timers *)
Definition cancel_timer (d : dealer) (t : option N) : dealer :=
  match t with Some id => d_set_timers d (ndel (d_timers d) id) (d_timergen d) | None => d end.

(** ** CANCEL (syncCancel) *)
Definition f_call_canceling := "call_canceling".

Definition inv_set_canceled (i : invocation) (c : bool) : invocation :=
  mkInv (inv_call i) (inv_callee i) c (inv_inprogress i) (inv_timer i) (inv_opts i).
Definition inv_set_timer (i : invocation) (t : option N) : invocation :=
  mkInv (inv_call i) (inv_callee i) (inv_canceled i) (inv_inprogress i) t (inv_opts i).
Definition inv_set_inprogress (i : invocation) (p : bool) : invocation :=
  mkInv (inv_call i) (inv_callee i) (inv_canceled i) p (inv_timer i) (inv_opts i).

Definition drop_call (d : dealer) (cid ikey : callid) : dealer :=
  d_set_invs (d_set_bycall (d_set_calls d (cdel (d_calls d) cid)) (cdel (d_bycall d) cid)) (cdel (d_invs d) ikey).

Definition sync_cancel (lookup : N -> option session) (d : dealer) (caller req : N)
           (mode reason : string) (err_args : list value) : dealer * list out :=
  let cid := (caller, req) in
  match cget (d_calls d) cid with
  | None => (d, [])
  | Some _ =>
      match cget (d_bycall d) cid with
      | None => (d, [])
      | Some ikey =>
          match cget (d_invs d) ikey with
          | None => (d, [])
          | Some inv =>
              if inv_canceled inv then (d, [])
              else
                let d1 := cancel_timer d (inv_timer inv) in
                let inv1 := inv_set_timer (inv_set_canceled inv true) None in
                let d2 := d_set_invs d1 (cset (d_invs d1) ikey inv1) in
                let can := match lookup (inv_callee inv) with
                           | Some cs => sess_feature cs "callee" f_call_canceling | None => false end in
                let intr := if negb (String.eqb mode "skip") && can
                            then [(inv_callee inv, RInterrupt (snd ikey) [("reason", vuri reason); ("mode", vstr mode)])]
                            else [] in
                if negb (String.eqb mode "skip") && can && String.eqb mode "kill" then (d2, intr)
                else (drop_call d2 cid ikey, intr ++ [(caller, RError c_CALL req [] reason err_args [])])
          end
      end
  end.

Definition cancel (lookup : N -> option session) (d : dealer) (caller req : N) (opts : dict)
  : dealer * list out :=
  let mode := opt_string opts "mode" in
  if String.eqb mode "killnowait" || String.eqb mode "kill" || String.eqb mode "skip" then
    sync_cancel lookup d caller req mode e_canceled []
  else if String.eqb mode "" then sync_cancel lookup d caller req "killnowait" e_canceled []
  else (d, [(caller, RError c_CANCEL req [] e_invalid_argument [vstr "<text>"] [])]).

(** ** ERROR (INVOCATION) and YIELD *)
Definition sync_error (d : dealer) (callee req : N) (details : dict) (err : string)
           (args : list value) (kw : dict) : dealer * list out :=
  let ikey := (callee, req) in
  match cget (d_invs d) ikey with
  | None => (d, [])
  | Some inv =>
      let d1 := cancel_timer d (inv_timer inv) in
      let d2 := d_set_invs d1 (cdel (d_invs d1) ikey) in
      let cid := inv_call inv in
      let d3 := d_set_bycall d2 (cdel (d_bycall d2) cid) in
      match cget (d_calls d3) cid with
      | None => (d3, [])
      | Some caller =>
          (d_set_calls d3 (cdel (d_calls d3) cid),
           [(caller, RError c_CALL (snd cid) details err args kw)])
      end
  end.

(** the callee of a YIELD that uses passthru mode without having announced
    it is aborted (Realm.handle ends its session) *)
Definition yield_aborts (lookup : N -> option session) (d : dealer) (callee req : N) (opts : dict) : bool :=
  match cget (d_invs d) (callee, req) with
  | None => false
  | Some inv =>
      match cget (d_calls d) (inv_call inv) with
      | None => false
      | Some _ =>
          ppt_active opts &&
          match lookup callee with Some cs => negb (sess_feature cs "callee" f_ppt) | None => false end
      end
  end.

Definition ppt_error_details : dict := [("error", vstr "<text>")].

Definition sync_yield (lookup : N -> option session) (d : dealer) (callee req : N) (opts : dict)
           (args : list value) (kw : dict) : dealer * list out :=
  let progress := opt_bool opts "progress" in
  let ikey := (callee, req) in
  match cget (d_invs d) ikey with
  | None =>
      (d, if progress then [(callee, RInterrupt req [("mode", vstr "killnowait")])] else [])
  | Some inv =>
      let cid := inv_call inv in
      let d1 := if progress then d
                else let dd := cancel_timer d (inv_timer inv) in
                     d_set_invs dd (cset (d_invs dd) ikey (inv_set_timer inv None)) in
      (* a final YIELD ends the call, also while the caller is still sending chunks *)
      let finish (dd : dealer) := if progress then dd else drop_call dd cid ikey in
      match cget (d_calls d1) cid with
      | None => (finish d1, [])
      | Some caller =>
          let base := if progress then [("progress", VBool true)] else [] in
          let caller_err := if progress then []
                            else [(caller, RError c_CALL (snd cid) ppt_error_details e_feature_not_supported [] [])] in
          if ppt_active opts then
            let callee_ok := match lookup callee with Some cs => sess_feature cs "callee" f_ppt | None => false end in
            let caller_ok := match lookup caller with Some cs => sess_feature cs "caller" f_ppt | None => false end in
            if negb callee_ok then
              (finish d1, caller_err ++ [(callee, RAbort [("message", vstr "<text>")] e_protocol_violation)])
            else if negb caller_ok then
              (finish d1, (callee, RError c_YIELD req ppt_error_details e_feature_not_supported [] []) :: caller_err)
            else
              (finish d1, [(caller, RResult (snd cid) (ppt_into opts base) args kw)])
          else
            (finish d1, [(caller, RResult (snd cid) base args kw)])
      end
  end.

(** ** CALL (syncCall) *)
Definition f_prog_inv := "progressive_call_invocations".
Definition f_prog_res := "progressive_call_results".
Definition f_caller_ident := "caller_identification".
Definition f_call_timeout := "call_timeout".

Inductive call_result :=
| CallRefused (d : dealer) (o : list out)            (* answered; no call recorded (the round-robin cursor may have moved) *)
| CallAbort (o : list out)                           (* protocol violation: caller is aborted *)
| CallInvoked (d : dealer) (callee : session) (o : list out).   (* callee's id generator advanced *)

Definition select_callee (r : registration) (oracle : N) : option (N * N) :=   (* callee, new cursor *)
  let cs := reg_callees r in
  let n := N.of_nat (List.length cs) in
  match cs with
  | [] => None
  | [c] => Some (c, reg_next r)
  | _ =>
      let p := reg_policy r in
      if String.eqb p "first" then option_map (fun c => (c, reg_next r)) (nth_error cs 0)
      else if String.eqb p "last" then option_map (fun c => (c, reg_next r)) (nth_error cs (List.length cs - 1))
      else if String.eqb p "roundrobin" then
        let i := if n <=? reg_next r then 0 else reg_next r in
        option_map (fun c => (c, i + 1)) (nth_error cs (N.to_nat i))
      else if String.eqb p "random" then
        option_map (fun c => (c, reg_next r)) (nth_error cs (N.to_nat ((oracle / 8) mod n)))
      else None
  end.

(** Duration overflow is clamped by the repaired code, so a timeout in ms is
    used as is. *)
Definition call (cfg : config) (lookup : N -> option session) (now : N) (d : dealer)
           (caller : session) (req : N) (opts : dict) (proc : string) (args : list value) (kw : dict)
           (oracle : N) : call_result :=
  let csid := s_id caller in
  (* no registration: the ERROR is the final reply, so a pending progressive
     call with this request id (a refused further chunk) ends here *)
  let no_proc :=
    let cid0 := (csid, req) in
    let d' := match cget (d_bycall d) cid0 with
              | Some ikey0 =>
                  let dt := match cget (d_invs d) ikey0 with
                            | Some inv0 => cancel_timer d (inv_timer inv0) | None => d end in
                  drop_call dt cid0 ikey0
              | None => d
              end in
    CallRefused d' [(csid, RError c_CALL req [] e_no_such_procedure [] [])] in
  match match_procedure d proc oracle with
  | None => no_proc
  | Some r =>
      match reg_callees r with
      | [] => no_proc
      | _ =>
          let cid := (csid, req) in
          let in_progress := opt_bool opts "progress" in
          if in_progress && negb (sess_feature caller "caller" f_prog_inv) then
            CallAbort [(csid, RAbort [("message", vstr "<text>")] e_protocol_violation)]
          else
            match cget (d_bycall d) cid with
            | Some ikey =>
                (* a further chunk of a progressive call *)
                match cget (d_invs d) ikey with
                | None => CallRefused d []      (* unreachable under dealer_wf *)
                | Some inv =>
                    match lookup (inv_callee inv) with
                    | None => CallRefused d []  (* unreachable under dealer_wf *)
                    | Some callee =>
                        let inv1 := inv_set_inprogress inv in_progress in
                        let tmo := opt_int64 (inv_opts inv) "timeout" in
                        let local_timer := (0 <? tmo)%Z &&
                          negb (sess_feature callee "callee" f_call_timeout && reg_forwards r (inv_callee inv)) in
                        let '(d1, inv2) :=
                          if local_timer then
                            (* the timeout restarts: the previous chunk's timer is stopped *)
                            let dc := cancel_timer d (inv_timer inv1) in
                            let t := d_timergen dc + 1 in
                            (d_set_timers dc (nset (d_timers dc) t (now + Z.to_N tmo, cid)) t, inv_set_timer inv1 (Some t))
                          else (d, inv1) in
                        let d2 := d_set_invs d1 (cset (d_invs d1) ikey inv2) in
                        CallInvoked d2 callee
                          [(s_id callee, RInvocation (snd ikey) (reg_id r) [("progress", VBool in_progress)] args kw)]
                    end
                end
            | None =>
                match select_callee r oracle with
                | None => no_proc               (* the Go code panics here: unreachable, policies are checked at REGISTER *)
                | Some (callee_id, next) =>
                    match lookup callee_id with
                    | None => no_proc           (* unreachable under dealer_wf *)
                    | Some callee =>
                        let r' := mkReg (reg_id r) (reg_proc r) (reg_match r) (reg_policy r) (reg_disclose r)
                                        (reg_fwd_timeout r) next (reg_callees r) in
                        let d0 := d_set_regs d (nset (d_regs d) (reg_id r) r') in
                        if in_progress && negb (sess_feature callee "callee" f_prog_inv && sess_feature callee "callee" f_call_canceling) then
                          CallRefused d0 [(csid, RError c_CALL req [] e_feature_not_supported [] [])]
                        else
                          if ppt_active opts && negb (sess_feature caller "caller" f_ppt) then
                            CallAbort [(csid, RAbort [("message", vstr "<text>")] e_protocol_violation)]
                          else if ppt_active opts && negb (sess_feature callee "callee" f_ppt) then
                            CallRefused d0 [(csid, RError c_CALL req [] e_feature_not_supported [] [])]
                          else
                          let det0 := if ppt_active opts then ppt_into opts [("progress", VBool in_progress)]
                                      else [("progress", VBool in_progress)] in
                          let disclose_me := opt_bool opts "disclose_me" in
                          if negb (reg_discloses r callee_id) && disclose_me && negb (c_disclose cfg) then
                            CallRefused d0 [(csid, RError c_CALL req [] e_disclose_me [] [])]
                          else
                            let det1 :=
                              if reg_discloses r callee_id then disclose_dict "caller" csid (s_details caller) det0
                              else if disclose_me && sess_feature callee "callee" f_caller_ident
                                   then disclose_dict "caller" csid (s_details caller) det0 else det0 in
                            let det2 :=
                              if opt_bool opts "receive_progress" && sess_feature callee "callee" f_prog_res
                                 && sess_feature callee "callee" f_call_canceling
                              then dset det1 "receive_progress" (VBool true) else det1 in
                            let det3 := if String.eqb (reg_match r) match_exact then det2
                                        else dset det2 "procedure" (vuri proc) in
                            let invid := idgen_next (s_invgen callee) in
                            let callee' := set_invgen callee invid in
                            let ikey := (callee_id, invid) in
                            let tmo := opt_int64 opts "timeout" in
                            let fwd := sess_feature callee "callee" f_call_timeout && reg_forwards r callee_id in
                            let det4 := if (0 <? tmo)%Z && fwd then dset det3 "timeout" (VInt KInt64 tmo) else det3 in
                            let local_timer := (0 <? tmo)%Z && negb fwd in
                            let '(d1, timer) :=
                              if local_timer then
                                let t := d_timergen d0 + 1 in
                                (d_set_timers d0 (nset (d_timers d0) t (now + Z.to_N tmo, cid)) t, Some t)
                              else (d0, None) in
                            let inv := mkInv cid callee_id false in_progress timer opts in
                            let d2 := d_set_calls d1 (cset (d_calls d1) cid csid) in
                            let d3 := d_set_invs d2 (cset (d_invs d2) ikey inv) in
                            let d4 := d_set_bycall d3 (cset (d_bycall d3) cid ikey) in
                            CallInvoked d4 callee' [(callee_id, RInvocation invid (reg_id r) det4 args kw)]
                    end
                end
            end
      end
  end.


(** The dealer as an ABORTED CALL leaves it ([call] = [CallAbort _]): when the
    protocol violation is found after a callee was selected (payload passthru
    without the feature), the round-robin cursor of the registration has already
    moved; the earlier violation (progressive call invocation without the
    feature) is found before any selection.  Used by [Realm.handle] only in
    the [CallAbort] branch. *)
Definition call_abort_dealer (lookup : N -> option session) (d : dealer) (caller : session) (req : N)
           (opts : dict) (proc : string) (oracle : N) : dealer :=
  match match_procedure d proc oracle with
  | None => d
  | Some r =>
      match reg_callees r with
      | [] => d
      | _ =>
          if opt_bool opts "progress" && negb (sess_feature caller "caller" f_prog_inv) then d
          else match cget (d_bycall d) (s_id caller, req) with
               | Some _ => d
               | None =>
                   match select_callee r oracle with
                   | None => d
                   | Some (callee_id, next) =>
                       match lookup callee_id with
                       | None => d
                       | Some _ =>
                           d_set_regs d (nset (d_regs d) (reg_id r)
                             (mkReg (reg_id r) (reg_proc r) (reg_match r) (reg_policy r) (reg_disclose r)
                                    (reg_fwd_timeout r) next (reg_callees r)))
                       end
                   end
               end
      end
  end.

(** ** syncRemoveSession *)
Definition remove_callee_reg (sid : N) (acc : dealer * list metapub) (regid : N) : dealer * list metapub :=
  let '(d, mp) := acc in
  match del_callee_reg d sid regid with
  | (_, None) => acc                    (* the Go code panics: unreachable under dealer_wf *)
  | (d1, Some deleted) =>
      (d1, mp ++ mkMetaPub t_reg_on_unregister [vid sid; vid regid] [] [] ::
                 (if deleted then [mkMetaPub t_reg_on_delete [vid sid; vid regid] [] []] else []))
  end.

Definition cancel_served (lookup : N -> option session) (sid : N) (acc : dealer * list out)
           (e : callid * invocation) : dealer * list out :=
  let '(d, o) := acc in
  let '(ikey, _) := e in
  match cget (d_invs d) ikey with
  | None => acc
  | Some inv =>
      if negb (N.eqb (inv_callee inv) sid) then acc
      else match cget (d_calls d) (inv_call inv) with
           | None => acc
           | Some caller =>
               let d1 := cancel_timer d (inv_timer inv) in
               let d2 := d_set_invs d1 (cset (d_invs d1) ikey (inv_set_timer (inv_set_canceled inv false) None)) in
               let '(d3, o3) := sync_cancel lookup d2 caller (snd (inv_call inv)) "skip" e_canceled [vstr "callee gone"] in
               (d3, o ++ o3)
           end
  end.

Definition drop_own_call (sid : N) (d : dealer) (e : callid * N) : dealer :=
  let '(cid, caller) := e in
  if negb (N.eqb caller sid) then d
  else
    let d1 := d_set_calls d (cdel (d_calls d) cid) in
    match cget (d_bycall d1) cid with
    | None => d1
    | Some ikey =>
        let d2 := match cget (d_invs d1) ikey with Some inv => cancel_timer d1 (inv_timer inv) | None => d1 end in
        d_set_invs (d_set_bycall d2 (cdel (d_bycall d2) cid)) (cdel (d_invs d2) ikey)
    end.

Definition dealer_remove_session (lookup : N -> option session) (d : dealer) (sid : N)
  : dealer * list out * list metapub :=
  let regs := match nget (d_callee_regs d) sid with Some l => l | None => [] end in
  let '(d1, mp) := fold_left (remove_callee_reg sid) regs (d, []) in
  let d2 := d_set_callee_regs d1 (ndel (d_callee_regs d1) sid) in
  let '(d3, o) := fold_left (cancel_served lookup sid) (d_invs d2) (d2, []) in
  let d4 := fold_left (drop_own_call sid) (d_calls d3) d3 in
  (d4, o, mp).

(** ** Call timers: fire every timer whose deadline has been reached, earliest first. *)
Fixpoint insert_timer (t : N * (N * callid)) (l : list (N * (N * callid))) :=
  match l with
  | [] => [t]
  | x :: r => if (fst (snd t) <? fst (snd x)) || ((fst (snd t) =? fst (snd x)) && (fst t <? fst x))
              then t :: l else x :: insert_timer t r
  end.
Definition sort_timers l := fold_right insert_timer [] l.

Definition fire_timers (lookup : N -> option session) (now : N) (d : dealer) : dealer * list out :=
  let due := sort_timers (filter (fun '((_, (dl, _)) : N * (N * callid)) => dl <=? now) (d_timers d)) in
  fold_left (fun '((d, o) : dealer * list out) '((tid, (_, cid)) : N * (N * callid)) =>
    if amem N.eqb (d_timers d) tid then
      let d1 := d_set_timers d (ndel (d_timers d) tid) (d_timergen d) in
      let '(d2, o2) := sync_cancel lookup d1 (fst cid) (snd cid) "killnowait" e_timeout [vstr "call timeout"] in
      (d2, o ++ o2)
    else (d, o)) due (d, []).
