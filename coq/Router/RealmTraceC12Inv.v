(** * Histories of the whole model, C12 part 4: one [step] and the caller
    identity in the INVOCATION it sends ([step_inv]).

    An INVOCATION leaves [step] only in a CALL step routed to a client callee
    (INVOCATIONs for the meta session are consumed inside the step).  A further
    chunk of a progressive call carries [progress] only.  A first chunk
    carries the caller's identity exactly when THIS callee is in the
    registration's [reg_disclose] (it asked with [disclose_caller] at its own
    REGISTER and was allowed to), or the
    caller asked ([disclose_me]), the realm allows it and the callee's record
    (in the state before the step) announces caller_identification; the values
    are the caller's own. *)
From Nexus Require Import Router.Realm Router.AssocLemmas Router.RealmLib Router.RealmProofs
     Router.RealmMetaProofs Router.RealmLeave.
From Nexus Require Import Router.DealerLib Router.DealerProofs Router.DealerReg Router.DealerCall Router.DealerWf
     Router.DealerWfCalls Router.DealerWfRegs Router.DealerRemove Router.DealerReply Router.DealerTimers
     Router.DealerOwned.
From Nexus Require Import Router.RealmWf Router.RealmStep Router.RealmC05 Router.RealmOutputs.
From Nexus Require Import Router.RealmTraceLib Router.RealmTrace Router.RealmTraceC05 Router.RealmTraceInv.
From Nexus Require Import Router.RealmTraceC12Dealer.
From Coq Require Import Lia ZifyN ZifyNat ZifyBool.

Definition caller_keys (det : dict) : bool :=
  dhas det "caller" || dhas det "caller_authid" || dhas det "caller_authrole".

Definition is_call (m : cmsg) : bool := match m with CCall _ _ _ _ _ => true | _ => false end.

Lemma leave_noinv : forall r sid, noinv (snd (leave r sid)).
Proof. intros r sid. destruct (leave_qstep r sid) as [A _ _ _]. exact A. Qed.

Lemma handle_noinv : forall r s m oracle, is_call m = false -> noinv (snd (handle r s m oracle)).
Proof.
  intros r s m oracle Hm.
  destruct m; cbn [handle]; try discriminate Hm.
  - pose proof (publish_allb (r_cfg r) (lookup r) (r_now r) (r_broker r) (r_pubgen r) s req opts topic args kw) as P.
    destruct (publish _ _ _ _ _ _ _ _ _ _ _) as [[b pg] o]. cbn [snd] in P.
    destruct (publish_aborts _ _ _ _); [|cbn [snd]; now apply allb_noinv].
    pose proof (leave_noinv r (s_id s)) as L. destruct (leave r (s_id s)) as [r1 o1]. cbn [snd] in *.
    apply noinv_app; [now apply allb_noinv|exact L].
  - pose proof (subscribe_allb (r_cfg r) (r_broker r) (r_pubgen r) (s_id s) req opts topic) as P.
    destruct (subscribe _ _ _ _ _ _ _) as [[b pg] o]. cbn [fst snd] in *. now apply allb_noinv.
  - pose proof (unsubscribe_allb (r_broker r) (r_pubgen r) (s_id s) req sub) as P.
    destruct (unsubscribe _ _ _ _ _) as [[b pg] o]. cbn [fst snd] in *. now apply allb_noinv.
  - pose proof (register_noinv (r_cfg r) (r_dealer r) s req opts proc) as Rn.
    destruct (register _ _ _ _ _ _) as [[d o] mps]. cbn [fst snd] in *.
    pose proof (meta_publish_all_allb mps (r_set_dealer r d)) as Mp.
    destruct (meta_publish_all _ mps) as [r1 o1]. cbn [fst snd] in *.
    apply noinv_app; [exact Rn|now apply allb_noinv].
  - pose proof (unregister_dq (r_dealer r) (s_id s) req reg) as [Rn _ _].
    destruct (unregister _ _ _ _) as [[d o] mps]. cbn [fst snd] in *.
    pose proof (meta_publish_all_allb mps (r_set_dealer r d)) as Mp.
    destruct (meta_publish_all _ mps) as [r1 o1]. cbn [fst snd] in *.
    apply noinv_app; [exact Rn|now apply allb_noinv].
  - pose proof (cancel_dq (lookup r) (r_dealer r) (s_id s) req opts) as [D _ _].
    destruct (cancel _ _ _ _ _) as [d o]. exact D.
  - pose proof (sync_yield_dq (lookup r) (r_dealer r) (s_id s) req opts args kw) as [D _ _].
    destruct (sync_yield _ _ _ _ _ _ _) as [d o]. cbn [fst snd] in *.
    destruct (yield_aborts _ _ _ _ _); [|exact D].
    pose proof (leave_noinv (r_set_dealer r d) (s_id s)) as L.
    destruct (leave (r_set_dealer r d) (s_id s)) as [r1 o1]. cbn [snd] in *. now apply noinv_app.
  - destruct (negb (ty =? c_INVOCATION)).
    + pose proof (leave_noinv r (s_id s)) as L. destruct (leave r (s_id s)) as [r1 o1]. cbn [snd] in *.
      apply noinv_cons; [reflexivity|exact L].
    + pose proof (sync_error_dq (r_dealer r) (s_id s) req details err args kw) as [D _ _].
      destruct (sync_error _ _ _ _ _ _ _) as [d o]. exact D.
  - pose proof (leave_noinv r (s_id s)) as L. destruct (leave r (s_id s)) as [r1 o1]. cbn [snd] in *.
    apply noinv_cons; [reflexivity|exact L].
  - pose proof (leave_noinv r (s_id s)) as L. destruct (leave r (s_id s)) as [r1 o1]. cbn [snd] in *.
    apply noinv_cons; [reflexivity|exact L].
Qed.

(** the first chunk of a call of [x] (record [xs]) with options [opts],
    delivered to [y] under registration [rid] with details [det] *)
Definition inv_first (r : realm) (x : N) (xs : session) (opts : dict) (y rid : N) (det : dict) : Prop :=
  exists rg ys,
    nget (d_regs (r_dealer r)) rid = Some rg /\ In y (reg_callees rg) /\
    find_session (r_clients r) y = Some ys /\
    let allowed := reg_discloses rg y ||
                   (opt_bool opts "disclose_me" && c_disclose (r_cfg r) && sess_feature ys "callee" f_caller_ident) in
    dget det "caller" = (if allowed then Some (vid x) else None) /\
    dget det "caller_authid" = (if allowed then dget (s_details xs) "authid" else None) /\
    dget det "caller_authrole" = (if allowed then dget (s_details xs) "authrole" else None).

Theorem step_inv : forall r o,
    realm_wf r ->
    forall y b rid det a k, In (y, RInvocation b rid det a k) (snd (step r o)) ->
      y <> meta_id /\
      exists x m orc xs q opts proc,
        o = OMsg x m orc /\ find_session (r_clients r) x = Some xs /\
        gate r xs m = inl (CCall q opts proc a k) /\
        ((cget (d_bycall (r_dealer r)) (x, q) <> None /\ det = [("progress", VBool (opt_bool opts "progress"))]) \/
         (cget (d_bycall (r_dealer r)) (x, q) = None /\ inv_first r x xs opts y rid det)).
Proof.
  intros r o W y b rid det a k.
  pose proof (rw_dealer r W) as Wd.
  pose proof (lookup_ok_realm r (rw_meta_id r W)) as LOK.
  assert (No : forall out, noinv out -> In (y, RInvocation b rid det a k) out -> False).
  { intros out Hn Hin. specialize (Hn _ Hin). discriminate Hn. }
  destruct o as [sid lc h|sid m oracle|sid|ms].
  - cbn [step]. unfold join. destruct (negb (has_role h) || is_some (lookup r sid)); [intros []|].
    intros Hin. exfalso. eapply No; [|exact Hin]. apply allb_noinv. apply meta_publish_allb.
  - rewrite step_msg_eq. destruct (find_session (r_clients r) sid) as [s|] eqn:F; [|intros []].
    pose proof (find_session_id _ _ _ F) as Es.
    destruct (gate r s m) as [m'|out] eqn:Eg.
    2:{ cbn [snd]. intros Hin. exfalso.
        destruct (gate_refusal_shape r s m out Eg) as [->|(dt & e & ar & ->)]; [destruct Hin|].
        destruct Hin as [H|[]]. discriminate H. }
    destruct (is_call m') eqn:Ic.
    2:{ intros Hin. exfalso. eapply No; [|exact Hin]. now apply handle_noinv. }
    destruct m'; try discriminate Ic. clear Ic. cbn [handle].
    pose proof (call_c12 (r_cfg r) (lookup r) (r_now r) (r_dealer r) s req opts proc args kw oracle Wd LOK) as CF.
    destruct (call _ _ _ _ _ _ _ _ _ _ _) as [d o0|o0|d callee' o0] eqn:Ecall.
    + cbn [snd]. intros Hin. exfalso. eapply No; [|exact Hin]. exact (proj2 CF).
    + cbv zeta. pose proof (leave_noinv (r_set_dealer r (call_abort_dealer (lookup r) (r_dealer r) s req opts proc oracle)) (s_id s)) as L.
      destruct (leave _ (s_id s)) as [r1 o1]. cbn [snd] in *.
      intros Hin. exfalso. eapply No; [|exact Hin]. apply noinv_app; [exact (proj2 CF)|exact L].
    + destruct CF as (_ & (b0 & rid0 & det0 & Eo) & _).
      destruct (N.eqb_spec (s_id callee') meta_id) as [Em|Em].
      * rewrite Eo, Em. intros Hin. exfalso. eapply No; [|exact Hin].
        destruct (run_meta_invocation_meta_qstep (update_session (r_set_dealer r d) callee') b0 rid0 det0 args kw oracle)
          as [A _ _ _]. exact A.
      * rewrite Eo, (run_meta_invocation_client _ (s_id callee') b0 rid0 det0 args kw oracle Em). cbn [snd].
        intros [Hin|[]]. injection Hin as E1 E2 E3 E4 E5 E6. subst y b rid det a k.
        split; [exact Em|].
        exists sid, m, oracle, s, req, opts, proc. split; [reflexivity|]. split; [exact F|]. split; [exact Eg|].
        rewrite <- Es.
        destruct (cget (d_bycall (r_dealer r)) (s_id s, req)) as [ikey|] eqn:Hb.
        -- left. split; [discriminate|].
           destruct (chunk_spec_proof _ _ _ _ _ _ _ _ _ _ _ _ _ _ _ Ecall Hb) as (rg & inv & _ & _ & _ & Eo' & _).
           rewrite Eo in Eo'. injection Eo' as _ _ Ed. exact Ed.
        -- right. split; [reflexivity|].
           destruct (invocation_spec_proof _ _ _ _ _ _ _ _ _ _ _ _ _ _ Ecall Hb)
             as (rg & cid0 & next & callee & Hm & _ & Hinc & Hl & Rest).
           cbv zeta in Rest. destruct Rest as (Eo' & _).
           destruct (invocation_disclose_iff_proof _ _ _ _ _ _ _ _ _ _ _ _ _ _ Ecall Hb)
             as (rg' & cid' & callee2 & invid & det' & Hm' & Hl' & Eo'' & Rest2).
           cbv zeta in Rest2.
           assert (rg' = rg) by congruence. subst rg'.
           rewrite Eo in Eo', Eo''.
           injection Eo' as Ec1 _ Er1 _. injection Eo'' as Ec2 _ _ Ed2.
           subst cid0 cid' det' rid0.
           assert (callee2 = callee) by congruence. subst callee2.
           destruct (best_match_sound (lookup r) (r_dealer r) Wd proc oracle rg Hm) as [Hr _].
           unfold registered in Hr.
           assert (Hf : find_session (r_clients r) (s_id callee') = Some callee).
           { unfold lookup in Hl. destruct (N.eqb_spec (s_id callee') meta_id); [contradiction|exact Hl]. }
           exists rg, callee. split; [exact Hr|]. split; [exact Hinc|]. split; [exact Hf|exact Rest2].
  - cbn [step]. intros Hin. exfalso. eapply No; [|exact Hin]. apply leave_noinv.
  - cbn [step]. set (r1 := r_set_now r (r_now r + ms)).
    pose proof (fire_timers_dq (lookup r1) (r_now r1) (r_dealer r1)) as [D _ _].
    destruct (fire_timers _ _ _) as [d out]. cbn [fst snd] in *. intros Hin. exfalso. eapply No; eauto.
Qed.

(** the same, read as "only if": identity present => allowed *)
Corollary step_inv_only_if : forall r o,
    realm_wf r ->
    forall y b rid det a k, In (y, RInvocation b rid det a k) (snd (step r o)) -> caller_keys det = true ->
      exists x m orc xs q opts proc rg ys,
        o = OMsg x m orc /\ find_session (r_clients r) x = Some xs /\
        gate r xs m = inl (CCall q opts proc a k) /\
        cget (d_bycall (r_dealer r)) (x, q) = None /\
        nget (d_regs (r_dealer r)) rid = Some rg /\ In y (reg_callees rg) /\
        find_session (r_clients r) y = Some ys /\ y <> meta_id /\
        (reg_discloses rg y = true \/
         (opt_bool opts "disclose_me" = true /\ c_disclose (r_cfg r) = true /\
          sess_feature ys "callee" f_caller_ident = true)) /\
        dget det "caller" = Some (vid x) /\
        dget det "caller_authid" = dget (s_details xs) "authid" /\
        dget det "caller_authrole" = dget (s_details xs) "authrole".
Proof.
  intros r o W y b rid det a k Hin Hk.
  destruct (step_inv r o W y b rid det a k Hin) as (Hy & x & m & orc & xs & q & opts & proc & Eo & Fx & Eg & Kind).
  destruct Kind as [(_ & ->)|(Hb & rg & ys & Hr & Hc & Fy & Rest)]; [discriminate Hk|].
  cbv zeta in Rest. destruct Rest as (D1 & D2 & D3).
  exists x, m, orc, xs, q, opts, proc, rg, ys.
  destruct (reg_discloses rg y || (opt_bool opts "disclose_me" && c_disclose (r_cfg r) && sess_feature ys "callee" f_caller_ident)) eqn:Al.
  - repeat (split; [assumption|]). split; [|repeat split; assumption].
    apply orb_true_iff in Al. destruct Al as [Al|Al]; [now left|right].
    apply andb_true_iff in Al. destruct Al as [Al A3]. apply andb_true_iff in Al. destruct Al as [A1 A2]. auto.
  - exfalso. unfold caller_keys, dhas, amem in Hk. unfold dget in D1, D2, D3. rewrite D1, D2, D3 in Hk. discriminate Hk.
Qed.
