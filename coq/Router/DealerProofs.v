(** * Dealer proofs, part 1: vocabulary, the invariant [dealer_wf] (definition),
    one characterising lemma per dealer function and outcome, and the
    theorems that follow from them directly (C13 cancel modes, C03 sharing
    rules / best match / callee selection / invocation contents / answer
    routing, C12 dealer half).  The model (Router/Dealer.v) is not touched. *)
From Nexus Require Import Router.Dealer Router.DealerLib.
From Coq Require Import Lia ZifyN ZifyBool.

(** ** Vocabulary *)

(** projections through the setters *)
Ltac dproj :=
  cbn [d_exact d_pfx d_wc d_regs d_calls d_invs d_bycall d_callee_regs d_timers d_timergen d_idgen
       d_set_regs d_set_calls d_set_invs d_set_bycall d_set_callee_regs d_set_timers d_set_idgen].
Ltac dproj_in H :=
  cbn [d_exact d_pfx d_wc d_regs d_calls d_invs d_bycall d_callee_regs d_timers d_timergen d_idgen
       d_set_regs d_set_calls d_set_invs d_set_bycall d_set_callee_regs d_set_timers d_set_idgen] in H.

Lemma ct_calls d t : d_calls (cancel_timer d t) = d_calls d. Proof. destruct t; reflexivity. Qed.
Lemma ct_invs d t : d_invs (cancel_timer d t) = d_invs d. Proof. destruct t; reflexivity. Qed.
Lemma ct_bycall d t : d_bycall (cancel_timer d t) = d_bycall d. Proof. destruct t; reflexivity. Qed.
Lemma ct_regs d t : d_regs (cancel_timer d t) = d_regs d. Proof. destruct t; reflexivity. Qed.
Lemma ct_exact d t : d_exact (cancel_timer d t) = d_exact d. Proof. destruct t; reflexivity. Qed.
Lemma ct_pfx d t : d_pfx (cancel_timer d t) = d_pfx d. Proof. destruct t; reflexivity. Qed.
Lemma ct_wc d t : d_wc (cancel_timer d t) = d_wc d. Proof. destruct t; reflexivity. Qed.
Lemma ct_map d t k : d_map (cancel_timer d t) k = d_map d k. Proof. destruct t, k; reflexivity. Qed.
Lemma ct_callee_regs d t : d_callee_regs (cancel_timer d t) = d_callee_regs d. Proof. destruct t; reflexivity. Qed.
Lemma ct_timergen d t : d_timergen (cancel_timer d t) = d_timergen d. Proof. destruct t; reflexivity. Qed.
Lemma ct_idgen d t : d_idgen (cancel_timer d t) = d_idgen d. Proof. destruct t; reflexivity. Qed.
Lemma ct_timers d t k :
  nget (d_timers (cancel_timer d t)) k = match t with Some id => if N.eqb k id then None else nget (d_timers d) k | None => nget (d_timers d) k end.
Proof. destruct t; cbn [cancel_timer]; dproj; [apply nget_ndel | reflexivity]. Qed.
#[export] Hint Rewrite ct_calls ct_invs ct_bycall ct_regs ct_exact ct_pfx ct_wc ct_map ct_callee_regs ct_timergen ct_idgen : dealer.

(** A call [cid] is pending, served by invocation [ikey] ↦ [inv], caller [x]. *)
Definition pending (d : dealer) (cid ikey : callid) (inv : invocation) (x : N) : Prop :=
  cget (d_calls d) cid = Some x /\ cget (d_bycall d) cid = Some ikey /\ cget (d_invs d) ikey = Some inv.
(** ... and nothing is left of it. *)
Definition gone (d : dealer) (cid ikey : callid) : Prop :=
  cget (d_calls d) cid = None /\ cget (d_bycall d) cid = None /\ cget (d_invs d) ikey = None.
(** The three call tables are the same in both states. *)
Definition same_calls (d d' : dealer) : Prop :=
  d_calls d' = d_calls d /\ d_invs d' = d_invs d /\ d_bycall d' = d_bycall d.

Definition attached (lookup : N -> option session) (sid : N) : Prop := lookup sid <> None.
Definition lookup_ok (lookup : N -> option session) : Prop :=
  forall sid s, lookup sid = Some s -> s_id s = sid.

Definition registered (d : dealer) (r : registration) : Prop := nget (d_regs d) (reg_id r) = Some r.
Definition reg_kind (r : registration) : mkind := mkind_of (reg_match r).
Definition callee_reg_ids (d : dealer) (sid : N) : list N :=
  match nget (d_callee_regs d) sid with Some l => l | None => [] end.

(** ** The invariant

    Registration side: the three procedure maps, [d_regs] and [d_callee_regs]
    describe one relation.  Call side: [d_calls], [d_invs], [d_bycall] are in
    bijection and every armed timer belongs to a pending call.  The parts that
    mention the session table ([lookup]) are kept apart ([regs_att],
    [calls_att]) because a departing session changes it. *)
Record regs_core (d : dealer) : Prop := {
  rw_map : forall k p id, sget (d_map d k) p = Some id ->
           exists r, nget (d_regs d) id = Some r /\ reg_proc r = p /\ reg_kind r = k;
  rw_reg : forall id r, nget (d_regs d) id = Some r ->
           reg_id r = id /\ sget (d_map d (reg_kind r)) (reg_proc r) = Some id /\ id <= d_idgen d;
  rw_callees : forall id r, nget (d_regs d) id = Some r ->
           reg_callees r <> [] /\ NoDup (reg_callees r) /\
           ((2 <= List.length (reg_callees r))%nat -> shared_policy (reg_policy r) = true);
  rw_mapkeys : forall k, NoDup (map fst (d_map d k));
  rw_regkeys : NoDup (map fst (d_regs d));
  rw_crkeys : NoDup (map fst (d_callee_regs d))
}.

(** [d_callee_regs] lists for [sid] exactly the registrations it is a callee of *)
Definition cr_ok (d : dealer) (sid : N) : Prop :=
  forall id, In id (callee_reg_ids d sid) <-> exists r, nget (d_regs d) id = Some r /\ In sid (reg_callees r).

Definition regs_att (lookup : N -> option session) (d : dealer) : Prop :=
  forall id r c, nget (d_regs d) id = Some r -> In c (reg_callees r) -> attached lookup c.

Record calls_core (d : dealer) : Prop := {
  cw_bycall : forall cid ikey, cget (d_bycall d) cid = Some ikey ->
           exists inv, cget (d_invs d) ikey = Some inv /\ inv_call inv = cid;
  cw_inv : forall ikey inv, cget (d_invs d) ikey = Some inv ->
           cget (d_bycall d) (inv_call inv) = Some ikey /\ inv_callee inv = fst ikey;
  cw_call : forall cid x, cget (d_calls d) cid = Some x -> x = fst cid /\ cget (d_bycall d) cid <> None;
  cw_bycall_call : forall cid ikey, cget (d_bycall d) cid = Some ikey -> cget (d_calls d) cid <> None;
  cw_timer : forall t dl cid, nget (d_timers d) t = Some (dl, cid) ->
           t <= d_timergen d /\
           exists ikey inv, cget (d_bycall d) cid = Some ikey /\ cget (d_invs d) ikey = Some inv /\
                            inv_timer inv = Some t;
  cw_inv_timer : forall ikey inv t, cget (d_invs d) ikey = Some inv -> inv_timer inv = Some t ->
           t <= d_timergen d;
  cw_timer_inj : forall ikey inv t dl cid, cget (d_invs d) ikey = Some inv -> inv_timer inv = Some t ->
           nget (d_timers d) t = Some (dl, cid) -> inv_call inv = cid;
  cw_timerkeys : NoDup (map fst (d_timers d))
}.

Record calls_att (lookup : N -> option session) (d : dealer) : Prop := {
  ca_inv : forall ikey inv, cget (d_invs d) ikey = Some inv ->
           exists s, lookup (fst ikey) = Some s /\ snd ikey <= s_invgen s;
  ca_call : forall cid x, cget (d_calls d) cid = Some x -> attached lookup (fst cid)
}.

Record dealer_wf (lookup : N -> option session) (d : dealer) : Prop := {
  wf_regs : regs_core d;
  wf_cr : forall sid, cr_ok d sid;
  wf_regs_att : regs_att lookup d;
  wf_calls : calls_core d;
  wf_calls_att : calls_att lookup d
}.

Section WfProjections.
  Variables (lookup : N -> option session) (d : dealer).
  Hypothesis WF : dealer_wf lookup d.
  Lemma wf_map : forall k p id, sget (d_map d k) p = Some id ->
      exists r, nget (d_regs d) id = Some r /\ reg_proc r = p /\ reg_kind r = k.
  Proof. apply (rw_map _ (wf_regs _ _ WF)). Qed.
  Lemma wf_reg : forall id r, nget (d_regs d) id = Some r ->
      reg_id r = id /\ sget (d_map d (reg_kind r)) (reg_proc r) = Some id /\ id <= d_idgen d.
  Proof. apply (rw_reg _ (wf_regs _ _ WF)). Qed.
  Lemma wf_callees : forall id r, nget (d_regs d) id = Some r ->
      reg_callees r <> [] /\ NoDup (reg_callees r) /\
      ((2 <= List.length (reg_callees r))%nat -> shared_policy (reg_policy r) = true) /\
      forall c, In c (reg_callees r) -> attached lookup c.
  Proof.
    intros id r H. destruct (rw_callees _ (wf_regs _ _ WF) id r H) as (A & B & C).
    repeat split; auto. intros c Hc. eapply (wf_regs_att _ _ WF); eauto.
  Qed.
  Lemma wf_mapkeys : forall k, NoDup (map fst (d_map d k)).
  Proof. apply (rw_mapkeys _ (wf_regs _ _ WF)). Qed.
  Lemma wf_bycall : forall cid ikey, cget (d_bycall d) cid = Some ikey ->
      exists inv, cget (d_invs d) ikey = Some inv /\ inv_call inv = cid.
  Proof. apply (cw_bycall _ (wf_calls _ _ WF)). Qed.
  Lemma wf_inv : forall ikey inv, cget (d_invs d) ikey = Some inv ->
      cget (d_bycall d) (inv_call inv) = Some ikey /\ inv_callee inv = fst ikey /\
      exists s, lookup (fst ikey) = Some s /\ snd ikey <= s_invgen s.
  Proof.
    intros ikey inv H. destruct (cw_inv _ (wf_calls _ _ WF) ikey inv H) as (A & B).
    repeat split; auto. eapply (ca_inv _ _ (wf_calls_att _ _ WF)); eauto.
  Qed.
  Lemma wf_call : forall cid x, cget (d_calls d) cid = Some x ->
      x = fst cid /\ attached lookup x /\ cget (d_bycall d) cid <> None.
  Proof.
    intros cid x H. destruct (cw_call _ (wf_calls _ _ WF) cid x H) as (A & B).
    repeat split; auto. subst x. eapply (ca_call _ _ (wf_calls_att _ _ WF)); eauto.
  Qed.
  Lemma wf_bycall_call : forall cid ikey, cget (d_bycall d) cid = Some ikey -> cget (d_calls d) cid <> None.
  Proof. apply (cw_bycall_call _ (wf_calls _ _ WF)). Qed.

  (** a recorded invocation determines the whole pending call *)
  Lemma wf_inv_pending : forall ikey inv, cget (d_invs d) ikey = Some inv ->
      pending d (inv_call inv) ikey inv (fst (inv_call inv)).
  Proof.
    intros ikey inv H. destruct (wf_inv ikey inv H) as (Hb & _).
    pose proof (wf_bycall_call _ _ Hb) as Hc.
    destruct (cget (d_calls d) (inv_call inv)) as [x|] eqn:E; [|congruence].
    destruct (wf_call _ _ E) as (-> & _). unfold pending. auto.
  Qed.
  Lemma wf_pending_call : forall cid ikey inv x, pending d cid ikey inv x ->
      inv_call inv = cid /\ x = fst cid /\ inv_callee inv = fst ikey.
  Proof.
    intros cid ikey inv x (Hc & Hb & Hi).
    destruct (wf_bycall _ _ Hb) as (inv' & Hi' & E). assert (inv' = inv) by congruence. subst inv'.
    destruct (wf_call _ _ Hc) as (-> & _). destruct (wf_inv _ _ Hi) as (_ & Hce & _). auto.
  Qed.
End WfProjections.

(** ** CANCEL *)
Definition callee_can_cancel (lookup : N -> option session) (inv : invocation) : bool :=
  match lookup (inv_callee inv) with
  | Some cs => sess_feature cs "callee" f_call_canceling
  | None => false
  end.

(** the state after a cancel has been noted on the invocation *)
Definition cancel_state (d : dealer) (ikey : callid) (inv : invocation) : dealer :=
  let d1 := cancel_timer d (inv_timer inv) in
  d_set_invs d1 (cset (d_invs d1) ikey (inv_set_timer (inv_set_canceled inv true) None)).

Definition interrupt_msg (ikey : callid) (inv : invocation) (reason mode : string) : out :=
  (inv_callee inv, RInterrupt (snd ikey) [("reason", vuri reason); ("mode", vstr mode)]).

Lemma sync_cancel_live : forall lookup d caller req mode reason ea ikey inv x,
    pending d (caller, req) ikey inv x -> inv_canceled inv = false ->
    sync_cancel lookup d caller req mode reason ea =
    if negb (String.eqb mode "skip") && callee_can_cancel lookup inv && String.eqb mode "kill"
    then (cancel_state d ikey inv, [interrupt_msg ikey inv reason mode])
    else (drop_call (cancel_state d ikey inv) (caller, req) ikey,
          (if negb (String.eqb mode "skip") && callee_can_cancel lookup inv
           then [interrupt_msg ikey inv reason mode] else [])
          ++ [(caller, RError c_CALL req [] reason ea [])]).
Proof.
  intros lookup d caller req mode reason ea ikey inv x (Hc & Hb & Hi) Hcan.
  unfold sync_cancel. rewrite Hc, Hb, Hi, Hcan. fold (callee_can_cancel lookup inv).
  destruct (negb (String.eqb mode "skip")), (callee_can_cancel lookup inv), (String.eqb mode "kill"); reflexivity.
Qed.

Lemma sync_cancel_noop : forall lookup d caller req mode reason ea,
    (cget (d_calls d) (caller, req) = None \/
     cget (d_bycall d) (caller, req) = None \/
     (exists ikey, cget (d_bycall d) (caller, req) = Some ikey /\ cget (d_invs d) ikey = None) \/
     (exists ikey inv, cget (d_bycall d) (caller, req) = Some ikey /\ cget (d_invs d) ikey = Some inv /\
                       inv_canceled inv = true)) ->
    sync_cancel lookup d caller req mode reason ea = (d, []).
Proof.
  intros lookup d caller req mode reason ea H. unfold sync_cancel.
  destruct (cget (d_calls d) (caller, req)); [|reflexivity].
  destruct H as [H|[H|[(ikey & Hb & Hi)|(ikey & inv & Hb & Hi & Hc)]]]; try discriminate.
  - rewrite H; reflexivity.
  - rewrite Hb, Hi; reflexivity.
  - rewrite Hb, Hi, Hc; reflexivity.
Qed.

(** Either a no-op or the live case: the general shape of [sync_cancel]. *)
Lemma sync_cancel_cases : forall lookup d caller req mode reason ea,
    sync_cancel lookup d caller req mode reason ea = (d, []) \/
    exists ikey inv x, pending d (caller, req) ikey inv x /\ inv_canceled inv = false.
Proof.
  intros. unfold sync_cancel, pending.
  destruct (cget (d_calls d) (caller, req)) as [x|]; [|auto].
  destruct (cget (d_bycall d) (caller, req)) as [ikey|]; [|auto].
  destruct (cget (d_invs d) ikey) as [inv|] eqn:Hi; [|auto].
  destruct (inv_canceled inv) eqn:Hc; [auto|].
  right. exists ikey, inv, x. auto.
Qed.

Lemma cs_calls d ikey inv : d_calls (cancel_state d ikey inv) = d_calls d.
Proof. unfold cancel_state; dproj; apply ct_calls. Qed.
Lemma cs_bycall d ikey inv : d_bycall (cancel_state d ikey inv) = d_bycall d.
Proof. unfold cancel_state; dproj; apply ct_bycall. Qed.
Lemma cs_invs d ikey inv :
  d_invs (cancel_state d ikey inv) = cset (d_invs d) ikey (inv_set_timer (inv_set_canceled inv true) None).
Proof. unfold cancel_state; dproj; rewrite ct_invs; reflexivity. Qed.

Lemma dc_calls d cid ikey : d_calls (drop_call d cid ikey) = cdel (d_calls d) cid.
Proof. reflexivity. Qed.
Lemma dc_bycall d cid ikey : d_bycall (drop_call d cid ikey) = cdel (d_bycall d) cid.
Proof. reflexivity. Qed.
Lemma dc_invs d cid ikey : d_invs (drop_call d cid ikey) = cdel (d_invs d) ikey.
Proof. reflexivity. Qed.

Lemma gone_drop_call : forall d cid ikey, gone (drop_call d cid ikey) cid ikey.
Proof. intros; unfold gone; rewrite dc_calls, dc_bycall, dc_invs, !cget_cdel_same; auto. Qed.

Lemma cancel_valid_mode : forall lookup d caller req opts,
    let mode := opt_string opts "mode" in
    mode = "killnowait" \/ mode = "kill" \/ mode = "skip" ->
    cancel lookup d caller req opts = sync_cancel lookup d caller req mode e_canceled [].
Proof.
  intros lookup d caller req opts mode H. unfold cancel. fold mode.
  destruct H as [H|[H|H]]; rewrite H; reflexivity.
Qed.

Lemma cancel_empty_mode : forall lookup d caller req opts,
    opt_string opts "mode" = "" ->
    cancel lookup d caller req opts = sync_cancel lookup d caller req "killnowait" e_canceled [].
Proof. intros lookup d caller req opts H. unfold cancel. rewrite H. reflexivity. Qed.

(** the final ERROR a cancelled caller receives *)
Definition canceled_reply (caller req : N) : out := (caller, RError c_CALL req [] e_canceled [] []).

Theorem cancel_skip_proof : forall lookup d caller req opts ikey inv x,
    opt_string opts "mode" = "skip" ->
    pending d (caller, req) ikey inv x -> inv_canceled inv = false ->
    exists d', cancel lookup d caller req opts = (d', [canceled_reply caller req]) /\
               d' = drop_call (cancel_state d ikey inv) (caller, req) ikey /\
               gone d' (caller, req) ikey.
Proof.
  intros lookup d caller req opts ikey inv x Hm Hp Hc.
  eexists. split; [|split; [reflexivity | apply gone_drop_call]].
  rewrite cancel_valid_mode by (rewrite Hm; auto). rewrite Hm.
  rewrite (sync_cancel_live _ _ _ _ _ _ _ _ _ _ Hp Hc). reflexivity.
Qed.

Theorem cancel_killnowait_proof : forall lookup d caller req opts ikey inv x,
    opt_string opts "mode" = "killnowait" \/ opt_string opts "mode" = "" ->
    pending d (caller, req) ikey inv x -> inv_canceled inv = false ->
    exists d', cancel lookup d caller req opts =
               (d', (if callee_can_cancel lookup inv then [interrupt_msg ikey inv e_canceled "killnowait"] else [])
                    ++ [canceled_reply caller req]) /\
               d' = drop_call (cancel_state d ikey inv) (caller, req) ikey /\
               gone d' (caller, req) ikey.
Proof.
  intros lookup d caller req opts ikey inv x Hm Hp Hc.
  eexists. split; [|split; [reflexivity | apply gone_drop_call]].
  destruct Hm as [Hm|Hm].
  - rewrite cancel_valid_mode by (rewrite Hm; auto). rewrite Hm.
    rewrite (sync_cancel_live _ _ _ _ _ _ _ _ _ _ Hp Hc).
    destruct (callee_can_cancel lookup inv); reflexivity.
  - rewrite cancel_empty_mode by assumption.
    rewrite (sync_cancel_live _ _ _ _ _ _ _ _ _ _ Hp Hc).
    destruct (callee_can_cancel lookup inv); reflexivity.
Qed.

(** kill mode, callee supports call_canceling: exactly one INTERRUPT, the call
    stays pending, marked canceled, its timer stopped. *)
Theorem cancel_kill_proof : forall lookup d caller req opts ikey inv x,
    opt_string opts "mode" = "kill" ->
    pending d (caller, req) ikey inv x -> inv_canceled inv = false ->
    callee_can_cancel lookup inv = true ->
    exists d', cancel lookup d caller req opts = (d', [interrupt_msg ikey inv e_canceled "kill"]) /\
               d' = cancel_state d ikey inv /\
               pending d' (caller, req) ikey (inv_set_timer (inv_set_canceled inv true) None) x.
Proof.
  intros lookup d caller req opts ikey inv x Hm Hp Hc Hf.
  eexists. split; [|split; [reflexivity|]].
  - rewrite cancel_valid_mode by (rewrite Hm; auto). rewrite Hm.
    rewrite (sync_cancel_live _ _ _ _ _ _ _ _ _ _ Hp Hc). rewrite Hf. reflexivity.
  - destruct Hp as (H1 & H2 & H3). unfold pending.
    rewrite cs_calls, cs_bycall, cs_invs, cget_cset_same. auto.
Qed.

(** kill mode, callee cannot be interrupted: as skip *)
Theorem cancel_kill_degrades_proof : forall lookup d caller req opts ikey inv x,
    opt_string opts "mode" = "kill" ->
    pending d (caller, req) ikey inv x -> inv_canceled inv = false ->
    callee_can_cancel lookup inv = false ->
    exists d', cancel lookup d caller req opts = (d', [canceled_reply caller req]) /\
               d' = drop_call (cancel_state d ikey inv) (caller, req) ikey /\
               gone d' (caller, req) ikey.
Proof.
  intros lookup d caller req opts ikey inv x Hm Hp Hc Hf.
  eexists. split; [|split; [reflexivity | apply gone_drop_call]].
  rewrite cancel_valid_mode by (rewrite Hm; auto). rewrite Hm.
  rewrite (sync_cancel_live _ _ _ _ _ _ _ _ _ _ Hp Hc). rewrite Hf. reflexivity.
Qed.

Theorem cancel_bad_mode_proof : forall lookup d caller req opts,
    let mode := opt_string opts "mode" in
    mode <> "killnowait" -> mode <> "kill" -> mode <> "skip" -> mode <> "" ->
    cancel lookup d caller req opts =
    (d, [(caller, RError c_CANCEL req [] e_invalid_argument [vstr "<text>"] [])]).
Proof.
  intros lookup d caller req opts mode H1 H2 H3 H4. unfold cancel. fold mode.
  destruct (String.eqb_spec mode "killnowait"); [congruence|].
  destruct (String.eqb_spec mode "kill"); [congruence|].
  destruct (String.eqb_spec mode "skip"); [congruence|].
  destruct (String.eqb_spec mode ""); [congruence|]. reflexivity.
Qed.

Definition valid_cancel_mode (m : string) : Prop :=
  m = "killnowait" \/ m = "kill" \/ m = "skip" \/ m = "".

Lemma cancel_is_sync_cancel : forall lookup d caller req opts,
    valid_cancel_mode (opt_string opts "mode") ->
    exists mode, cancel lookup d caller req opts = sync_cancel lookup d caller req mode e_canceled [].
Proof.
  intros lookup d caller req opts [H|[H|[H|H]]].
  - eexists; apply cancel_valid_mode; auto.
  - eexists; apply cancel_valid_mode; auto.
  - eexists; apply cancel_valid_mode; auto.
  - eexists; apply cancel_empty_mode; auto.
Qed.

(** unknown call (this covers a foreign session: the key contains the
    sender), finished call, or a call already cancelled in kill mode *)
Theorem cancel_noop_proof : forall lookup d caller req opts,
    valid_cancel_mode (opt_string opts "mode") ->
    (cget (d_calls d) (caller, req) = None \/
     exists ikey inv, cget (d_bycall d) (caller, req) = Some ikey /\ cget (d_invs d) ikey = Some inv /\
                      inv_canceled inv = true) ->
    cancel lookup d caller req opts = (d, []).
Proof.
  intros lookup d caller req opts Hm H.
  destruct (cancel_is_sync_cancel lookup d caller req opts Hm) as [mode ->].
  apply sync_cancel_noop. destruct H as [H|H]; auto.
Qed.

(** ** YIELD and ERROR *)
Lemma sync_yield_unknown : forall lookup d callee req opts args kw,
    cget (d_invs d) (callee, req) = None ->
    sync_yield lookup d callee req opts args kw =
    (d, if opt_bool opts "progress" then [(callee, RInterrupt req [("mode", vstr "killnowait")])] else []).
Proof. intros. unfold sync_yield. rewrite H. reflexivity. Qed.

(** state after a non-progress YIELD was noted (timer stopped) *)
Definition yield_state (d : dealer) (ikey : callid) (inv : invocation) : dealer :=
  let dd := cancel_timer d (inv_timer inv) in
  d_set_invs dd (cset (d_invs dd) ikey (inv_set_timer inv None)).

Lemma ys_calls d ikey inv : d_calls (yield_state d ikey inv) = d_calls d.
Proof. unfold yield_state; dproj; apply ct_calls. Qed.
Lemma ys_bycall d ikey inv : d_bycall (yield_state d ikey inv) = d_bycall d.
Proof. unfold yield_state; dproj; apply ct_bycall. Qed.
Lemma ys_invs d ikey inv : d_invs (yield_state d ikey inv) = cset (d_invs d) ikey (inv_set_timer inv None).
Proof. unfold yield_state; dproj; rewrite ct_invs; reflexivity. Qed.

Definition result_msg (caller : N) (cid : callid) (progress : bool) (args : list value) (kw : dict) : out :=
  (caller, RResult (snd cid) (if progress then [("progress", VBool true)] else []) args kw).

(** the session announced payload passthru mode for that role *)
Definition has_ppt (lookup : N -> option session) (sid : N) (role : string) : bool :=
  match lookup sid with Some cs => sess_feature cs role f_ppt | None => false end.

(** the state a YIELD of the invocation's owner leaves *)
Definition yield_result_state (d : dealer) (callee req : N) (inv : invocation) (progress : bool) : dealer :=
  if progress then d
  else drop_call (yield_state d (callee, req) inv) (inv_call inv) (callee, req).

(** the ERROR a caller gets for a final passthru YIELD that cannot be delivered *)
Definition ppt_caller_err (caller : N) (cid : callid) : out :=
  (caller, RError c_CALL (snd cid) ppt_error_details e_feature_not_supported [] []).

(** what a YIELD of the invocation's owner sends when the caller is recorded *)
Definition yield_out (lookup : N -> option session) (callee req : N) (opts : dict)
           (args : list value) (kw : dict) (cid : callid) (caller : N) : list out :=
  let progress := opt_bool opts "progress" in
  let base := if progress then [("progress", VBool true)] else [] in
  let caller_err := if progress then [] else [ppt_caller_err caller cid] in
  if ppt_active opts then
    if negb (has_ppt lookup callee "callee") then
      caller_err ++ [(callee, RAbort [("message", vstr "<text>")] e_protocol_violation)]
    else if negb (has_ppt lookup caller "caller") then
      (callee, RError c_YIELD req ppt_error_details e_feature_not_supported [] []) :: caller_err
    else [(caller, RResult (snd cid) (ppt_into opts base) args kw)]
  else [(caller, RResult (snd cid) base args kw)].

Lemma sync_yield_owner : forall lookup d callee req opts args kw inv,
    cget (d_invs d) (callee, req) = Some inv ->
    sync_yield lookup d callee req opts args kw =
    (yield_result_state d callee req inv (opt_bool opts "progress"),
     match cget (d_calls d) (inv_call inv) with
     | Some caller => yield_out lookup callee req opts args kw (inv_call inv) caller
     | None => []
     end).
Proof.
  intros lookup d callee req opts args kw inv H. unfold sync_yield, yield_result_state, yield_out. rewrite H.
  destruct (opt_bool opts "progress").
  - destruct (cget (d_calls d) (inv_call inv)) as [caller|]; [|reflexivity].
    unfold has_ppt, ppt_caller_err.
    destruct (ppt_active opts); [|reflexivity].
    destruct (negb _); [reflexivity|]. destruct (negb _); reflexivity.
  - fold (yield_state d (callee, req) inv). rewrite ys_calls.
    destruct (cget (d_calls d) (inv_call inv)) as [caller|]; [|reflexivity].
    unfold has_ppt, ppt_caller_err.
    destruct (ppt_active opts); [|reflexivity].
    destruct (negb _); [reflexivity|]. destruct (negb _); reflexivity.
Qed.

(** without passthru mode the caller gets the RESULT *)
Lemma yield_out_plain : forall lookup callee req opts args kw cid caller,
    ppt_active opts = false ->
    yield_out lookup callee req opts args kw cid caller = [result_msg caller cid (opt_bool opts "progress") args kw].
Proof. intros. unfold yield_out. rewrite H. reflexivity. Qed.

Lemma sync_error_unknown : forall d callee req det err args kw,
    cget (d_invs d) (callee, req) = None ->
    sync_error d callee req det err args kw = (d, []).
Proof. intros. unfold sync_error. rewrite H. reflexivity. Qed.

Definition error_state (d : dealer) (ikey : callid) (inv : invocation) : dealer :=
  let d1 := cancel_timer d (inv_timer inv) in
  let d2 := d_set_invs d1 (cdel (d_invs d1) ikey) in
  d_set_bycall d2 (cdel (d_bycall d2) (inv_call inv)).

Lemma es_calls d ikey inv : d_calls (error_state d ikey inv) = d_calls d.
Proof. unfold error_state; dproj; apply ct_calls. Qed.
Lemma es_bycall d ikey inv : d_bycall (error_state d ikey inv) = cdel (d_bycall d) (inv_call inv).
Proof. unfold error_state; dproj; rewrite ct_bycall; reflexivity. Qed.
Lemma es_invs d ikey inv : d_invs (error_state d ikey inv) = cdel (d_invs d) ikey.
Proof. unfold error_state; dproj; rewrite ct_invs; reflexivity. Qed.

Lemma sync_error_owner : forall d callee req det err args kw inv,
    cget (d_invs d) (callee, req) = Some inv ->
    sync_error d callee req det err args kw =
    match cget (d_calls d) (inv_call inv) with
    | None => (error_state d (callee, req) inv, [])
    | Some caller =>
        (d_set_calls (error_state d (callee, req) inv) (cdel (d_calls d) (inv_call inv)),
         [(caller, RError c_CALL (snd (inv_call inv)) det err args kw)])
    end.
Proof.
  intros d callee req det err args kw inv H. unfold sync_error. rewrite H.
  fold (error_state d (callee, req) inv). rewrite es_calls.
  destruct (cget (d_calls d) (inv_call inv)); reflexivity.
Qed.
