(** * Histories, broker side, part 12 (C20): who the publications of a history
    are by — a client whose PUBLISH the gate admitted, or the meta session
    (session meta events, registration meta events, testaments). *)
From Nexus Require Import Router.Realm Router.RealmProofs Router.RealmMetaProofs Router.RealmLeave Router.BrokerRun.
From Nexus Require Import Router.RealmTraceLib Router.RealmTraceC01Seg Router.RealmTraceC20Store.
From Coq Require Import Lia.

(** a publication of the meta session, made in some realm state [r'] *)
Definition meta_pub (o : bop) : Prop :=
  exists r' mp, o = mp_bop r' mp.

Definition is_pub (o : bop) : Prop := exists pg lk now pub req opts topic args kw, o = BPublish pg lk now pub req opts topic args kw.

Lemma mps_pubs : forall mps r o, In o (bops_of (segs_mps r mps)) -> meta_pub o.
Proof.
  induction mps as [|mp mps IH]; intros r o H; [destruct H|].
  cbn [segs_mps bops_of flat_map app] in H. destruct H as [<-|H]; [exists r, mp; reflexivity|]. eapply IH; eauto.
Qed.

Lemma leave_pubs : forall r sid o, In o (bops_of (segs_leave r sid)) -> is_pub o -> meta_pub o.
Proof.
  intros r sid o H P. unfold segs_leave in H. destruct (find_session (r_clients r) sid) as [s|]; [|destruct H].
  destruct (dealer_remove_session _ _ sid) as [[d o1] mps]. cbn [bops_of flat_map app] in H.
  destruct H as [<-|H]; [destruct P as (pg & lk & now & pub & req & opts & topic & args & kw & E); discriminate E|].
  eapply mps_pubs; eauto.
Qed.

Lemma kill_pubs : forall sids r g o, In o (bops_of (segs_kill r sids g)) -> is_pub o -> meta_pub o.
Proof.
  induction sids as [|sid sids IH]; intros r g o H P; [destruct H|].
  cbn [segs_kill] in H. change (SO [(sid, g)] :: ?l) with ([SO [(sid, g)]] ++ l) in H.
  rewrite !bops_of_app in H. cbn [bops_of flat_map app] in H. apply in_app_or in H. destruct H as [H|H].
  - eapply leave_pubs; eauto.
  - eapply IH; eauto.
Qed.

Lemma rmi_pubs : forall r out oracle o, In o (bops_of (segs_rmi r out oracle)) -> is_pub o -> meta_pub o.
Proof.
  intros r out oracle o H P. unfold segs_rmi in H.
  destruct out as [|[rcv m] l]; [destruct H|]. destruct m; try (destruct H; fail). destruct l; [|destruct H].
  destruct (negb (N.eqb rcv meta_id)); [destruct H|].
  destruct (nget (r_metaprocs r) reg) as [proc|]; [|destruct H].
  destruct (meta_call r proc details args kw oracle) as [[r1 resp] kills].
  destruct (match resp with MYield a k => _ | MError e => _ end) as [d o1].
  cbn [bops_of flat_map app] in H. destruct kills as [[sids g]|]; [|destruct H].
  eapply kill_pubs; eauto.
Qed.

(** the publications of one step *)
Theorem step_pubs_by : forall r o pg lk now pub req opts topic args kw,
    In (BPublish pg lk now pub req opts topic args kw) (bops_of (segs_step r o)) ->
    (exists sid m orc, o = OMsg sid m orc /\ find_session (r_clients r) sid = Some pub /\
                       gate r pub m = inl (CPublish req opts topic args kw) /\
                       pg = r_pubgen r /\ lk = lookup r /\ now = r_now r) \/
    meta_pub (BPublish pg lk now pub req opts topic args kw).
Proof.
  intros r o pg lk now pub req opts topic args kw H.
  assert (P : is_pub (BPublish pg lk now pub req opts topic args kw)) by (do 9 eexists; reflexivity).
  destruct o as [sid l h|sid m oracle|sid|ms]; cbn [segs_step] in H.
  - right. destruct (negb (has_role h) || is_some (lookup r sid)); [destruct H|].
    cbn [bops_of flat_map app] in H. destruct H as [<-|[]]. eexists _, _. reflexivity.
  - destruct (find_session (r_clients r) sid) as [s|] eqn:F; [|destruct H].
    destruct (gate r s m) as [m'|out] eqn:G; [|destruct H].
    assert (Lv : forall r0 pre, In (BPublish pg lk now pub req opts topic args kw) (bops_of (SO pre :: segs_leave r0 (s_id s))) ->
                                meta_pub (BPublish pg lk now pub req opts topic args kw)).
    { intros r0 pre Hin. cbn [bops_of flat_map app] in Hin. eapply leave_pubs; eauto. }
    destruct m'; cbn [segs_handle] in H.
    + cbn [bops_of flat_map app] in H. destruct H as [E|H].
      * inversion E; subst. left. exists sid, m, oracle. repeat split; assumption || reflexivity.
      * right. destruct (publish_aborts (r_cfg r) s opts0 topic0); [|destruct H]. eapply leave_pubs; eauto.
    + cbn [bops_of flat_map app] in H. destruct H as [E|[]]. discriminate E.
    + cbn [bops_of flat_map app] in H. destruct H as [E|[]]. discriminate E.
    + right. destruct (register _ _ _ _ _ _) as [[d o0] mps]. cbn [bops_of flat_map app] in H. eapply mps_pubs; eauto.
    + right. destruct (unregister _ _ _ _) as [[d o0] mps]. cbn [bops_of flat_map app] in H. eapply mps_pubs; eauto.
    + right. destruct (call _ _ _ _ _ _ _ _ _ _ _) as [d o0|o0|d callee o0].
      * destruct H.
      * eapply Lv; eauto.
      * eapply rmi_pubs; eauto.
    + destruct H.
    + right. destruct (sync_yield _ _ _ _ _ _ _) as [d o0]. destruct (yield_aborts _ _ _ _ _); [eapply Lv; eauto|destruct H].
    + right. destruct (negb (N.eqb ty c_INVOCATION)); [eapply Lv; eauto|destruct H].
    + right. eapply Lv; eauto.
    + right. eapply Lv; eauto.
  - right. eapply leave_pubs; eauto.
  - destruct H.
Qed.

(** the publications of a history are those of its steps *)
Theorem realm_pubs_In : forall cfg ops o,
    In o (realm_pubs cfg ops) ->
    exists pre op post, ops = pre ++ op :: post /\ In o (bops_of (segs_step (fst (run (init_realm cfg) pre)) op)).
Proof.
  intros cfg ops. unfold realm_pubs. generalize (init_realm cfg) as r0.
  induction ops as [|op ops IH] using rev_ind; intros r0 o H; [destruct H|].
  rewrite segs_run_app, bops_of_app in H. apply in_app_or in H. destruct H as [H|H].
  - destruct (IH r0 o H) as (pre & op' & post & -> & Hin). exists pre, op', (post ++ [op]).
    split; [now rewrite <- app_assoc|exact Hin].
  - cbn [segs_run] in H. rewrite app_nil_r in H. exists ops, op, []. split; [reflexivity|exact H].
Qed.

(** an admitted client PUBLISH (no passthru violation) is the one publication of its step *)
Theorem step_pubs_client : forall r sid s m req opts topic args kw oracle,
    find_session (r_clients r) sid = Some s ->
    gate r s m = inl (CPublish req opts topic args kw) ->
    publish_aborts (r_cfg r) s opts topic = false ->
    bops_of (segs_step r (OMsg sid m oracle)) = [BPublish (r_pubgen r) (lookup r) (r_now r) s req opts topic args kw].
Proof.
  intros r sid s m req opts topic args kw oracle F G Ab. cbn [segs_step]. rewrite F, G. cbn [segs_handle].
  rewrite Ab. reflexivity.
Qed.

Theorem realm_pubs_by_proof : forall cfg ops pg lk now pub req opts topic args kw,
    In (BPublish pg lk now pub req opts topic args kw) (realm_pubs cfg ops) ->
    exists pre op post,
      ops = pre ++ op :: post /\
      let r := fst (run (init_realm cfg) pre) in
      ((exists sid m orc, op = OMsg sid m orc /\ find_session (r_clients r) sid = Some pub /\
                          gate r pub m = inl (CPublish req opts topic args kw) /\
                          pg = r_pubgen r /\ lk = lookup r /\ now = r_now r) \/
       (exists r' mp, BPublish pg lk now pub req opts topic args kw =
                      BPublish (r_pubgen r') (lookup r') (r_now r') (r_meta r') 0
                               (mp_opts mp) (mp_topic mp) (mp_args mp) (mp_kw mp))).
Proof.
  intros cfg ops pg lk now pub req opts topic args kw H.
  destruct (realm_pubs_In cfg ops _ H) as (pre & op & post & E & Hin).
  exists pre, op, post. split; [exact E|]. exact (step_pubs_by _ _ _ _ _ _ _ _ _ _ _ Hin).
Qed.
