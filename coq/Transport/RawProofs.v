(** * Framing theorems for every [params] that meets the interface of
    RawSpec.v.  All statements quantify over arbitrary byte streams, message
    lists and sizes; nothing here is bounded. *)

From Coq Require Import String ZArith List Bool Lia.
From Nexus Require Import Transport.GoArith Transport.RawOps Transport.RawFrame Transport.RawSpec.
Import ListNotations.
Open Scope Z_scope.

(** ** small facts *)

Lemma len_app : forall a b, len (a ++ b) = len a + len b.
Proof. intros; unfold len; rewrite app_length; lia. Qed.

Lemma len_nonneg : forall l, 0 <= len l.
Proof. intros; unfold len; lia. Qed.

Lemma firstn_len_app : forall (m rest : list Z), firstn (Z.to_nat (len m)) (m ++ rest) = m.
Proof.
  intros. unfold len. rewrite Nat2Z.id.
  rewrite firstn_app, Nat.sub_diag, firstn_all. cbn. apply app_nil_r.
Qed.

Lemma skipn_len_app : forall (m rest : list Z), skipn (Z.to_nat (len m)) (m ++ rest) = rest.
Proof.
  intros. unfold len. rewrite Nat2Z.id.
  rewrite skipn_app, Nat.sub_diag, skipn_all. reflexivity.
Qed.

Lemma len3_bytes : forall n, 0 <= n <= max_len -> Forall is_byte (len3 n).
Proof.
  intros n H. unfold len3, max_len, is_byte in *.
  repeat constructor.
  - apply Z.div_pos; lia.
  - apply Z.div_lt_upper_bound; lia.
  - apply Z.mod_pos_bound; lia.
  - apply Z.mod_pos_bound; lia.
  - apply Z.mod_pos_bound; lia.
  - apply Z.mod_pos_bound; lia.
Qed.

Lemma len3_value : forall n, 0 <= n ->
  (n / 65536) * 65536 + ((n / 256) mod 256) * 256 + n mod 256 = n.
Proof.
  intros n H.
  pose proof (Z.div_mod n 256 ltac:(lia)).
  pose proof (Z.div_mod (n / 256) 256 ltac:(lia)).
  assert (n / 256 / 256 = n / 65536) by (rewrite Z.div_div; try lia; reflexivity).
  lia.
Qed.

Lemma gtb_false : forall a b, a <= b -> (a >? b) = false.
Proof. intros. rewrite Z.gtb_ltb. apply Z.ltb_ge. lia. Qed.

Lemma gtb_true : forall a b, a > b -> (a >? b) = true.
Proof. intros. rewrite Z.gtb_ltb. apply Z.ltb_lt. lia. Qed.

(** ** the receive loop is well defined: enough fuel is any fuel *)

Lemma run_ops_shrinks : forall d ops hdr inp buf msg out rest evs,
  run_ops d ops hdr inp buf msg out = CNext rest evs -> (length rest <= length inp)%nat.
Proof.
  induction ops as [|o t IH]; intros hdr inp buf msg out rest evs H; cbn in H.
  - inversion H; subst; lia.
  - destruct o.
    + destruct (n <? 0); [discriminate|]. destruct (len inp <? n); [discriminate|].
      apply IH in H. rewrite skipn_length in H. lia.
    + destruct (d buf); [eauto|]. inversion H; subst; lia.
    + eauto.
    + eauto.
    + destruct (n <=? 0); [eauto|]. destruct (len inp <? n); [discriminate|].
      apply IH in H. rewrite skipn_length in H. lia.
    + destruct (n <=? 0); [eauto|]. destruct (len inp <? n); [discriminate|].
      apply IH in H. rewrite skipn_length in H. lia.
    + eauto.
    + eauto.
    + inversion H; subst; lia.
    + discriminate.
Qed.

Lemma Forall_skipn : forall (Q : Z -> Prop) n l, Forall Q l -> Forall Q (skipn n l).
Proof.
  intros Q n l H. rewrite <- (firstn_skipn n l) in H.
  apply Forall_app in H. tauto.
Qed.

Lemma run_ops_keeps_bytes : forall d ops hdr inp buf msg out rest evs,
  Forall is_byte inp ->
  run_ops d ops hdr inp buf msg out = CNext rest evs -> Forall is_byte rest.
Proof.
  induction ops as [|o t IH]; intros hdr inp buf msg out rest evs Hi H; cbn in H.
  - inversion H; subst; assumption.
  - destruct o.
    + destruct (n <? 0); [discriminate|]. destruct (len inp <? n); [discriminate|].
      eapply IH; [|eassumption]. apply Forall_skipn; assumption.
    + destruct (d buf); [eauto|]. inversion H; subst; assumption.
    + eauto.
    + eauto.
    + destruct (n <=? 0); [eauto|]. destruct (len inp <? n); [discriminate|].
      eapply IH; [|eassumption]. apply Forall_skipn; assumption.
    + destruct (n <=? 0); [eauto|]. destruct (len inp <? n); [discriminate|].
      eapply IH; [|eassumption]. apply Forall_skipn; assumption.
    + eauto.
    + eauto.
    + inversion H; subst; assumption.
    + discriminate.
Qed.

Lemma read_n_4 : forall inp hdr rest,
  read_n 4 inp = Some (hdr, rest) ->
  exists h a b c, hdr = [h; a; b; c] /\ inp = h :: a :: b :: c :: rest.
Proof.
  intros inp hdr rest H. unfold read_n in H.
  destruct inp as [|h [|a [|b [|c r]]]]; cbn in H; try discriminate.
  inversion H; subst. eauto 10.
Qed.

Lemma recv_loop_S : forall d P f lim inp,
  recv_loop d P (S f) lim inp =
  match read_n 4 inp with
  | None => [EvEOF]
  | Some (hdr, rest) =>
      match run_ops d (select_ops P lim hdr) hdr rest [] None [] with
      | CNext rest' evs => evs ++ recv_loop d P f lim rest'
      | CStop evs => evs
      end
  end.
Proof. reflexivity. Qed.

Lemma recv_loop_fuel : forall d P lim f1 f2 inp,
  (length inp < f1)%nat -> (length inp < f2)%nat ->
  recv_loop d P f1 lim inp = recv_loop d P f2 lim inp.
Proof.
  induction f1 as [|f1 IH]; intros f2 inp H1 H2; [lia|].
  destruct f2 as [|f2]; [lia|]. rewrite !recv_loop_S.
  destruct (read_n 4 inp) as [[hdr rest]|] eqn:R; [|reflexivity].
  destruct (read_n_4 _ _ _ R) as (h & a & b & c & -> & ->).
  destruct (run_ops d (select_ops P lim [h; a; b; c]) [h; a; b; c] rest [] None []) as [r e|e] eqn:E; [|reflexivity].
  apply run_ops_shrinks in E. f_equal. apply IH; cbn in *; lia.
Qed.

Lemma recv_step : forall d P lim h a b c rest,
  recv d P lim (h :: a :: b :: c :: rest) =
  match run_ops d (select_ops P lim [h; a; b; c]) [h; a; b; c] rest [] None [] with
  | CNext r e => e ++ recv d P lim r
  | CStop e => e
  end.
Proof.
  intros. unfold recv. rewrite recv_loop_S.
  change (read_n 4 (h :: a :: b :: c :: rest)) with (Some ([h; a; b; c], rest)).
  cbv beta iota.
  destruct (run_ops d (select_ops P lim [h; a; b; c]) [h; a; b; c] rest [] None []) as [r e|e] eqn:E; [|reflexivity].
  apply run_ops_shrinks in E. f_equal. apply recv_loop_fuel; cbn [length]; lia.
Qed.

Lemma recv_short : forall d P lim inp, (length inp < 4)%nat -> recv d P lim inp = [EvEOF].
Proof.
  intros. unfold recv. rewrite recv_loop_S. unfold read_n.
  destruct (length inp <? 4)%nat eqn:E; [reflexivity|]. apply Nat.ltb_ge in E. lia.
Qed.

(** ** one frame at a time *)

Section Frames.
  Variable d : list Z -> bool.
  Variable P : params.
  Hypothesis RO : recv_ok P.

  Definition hlen (a b c : Z) : Z := a * 65536 + b * 256 + c.

  Lemma hlen_nonneg : forall a b c, is_byte a -> is_byte b -> is_byte c -> 0 <= hlen a b c.
  Proof. unfold is_byte, hlen; intros; lia. Qed.

  Lemma select_ops_spec : forall lim h a b c,
    is_byte h -> is_byte a -> is_byte b -> is_byte c ->
    select_ops P lim [h; a; b; c] =
    if hlen a b c >? lim then p_recv_over_ops P else ops_for P (h mod 8) (hlen a b c).
  Proof.
    intros. unfold select_ops. rewrite (ro_length P RO), (ro_over P RO), (ro_tag P RO) by assumption.
    reflexivity.
  Qed.

  Definition deliver (m : list Z) : event := if d m then EvMsg m else EvIgnore m.

  (** a frame whose length field exceeds the limit: the connection is closed,
      whatever the type and whatever follows *)
  Lemma recv_over_frame : forall lim h a b c rest,
    is_byte h -> is_byte a -> is_byte b -> is_byte c ->
    hlen a b c > lim ->
    recv d P lim (h :: a :: b :: c :: rest) = [EvClose].
  Proof.
    intros. rewrite recv_step, select_ops_spec by assumption.
    rewrite (gtb_true (hlen a b c) lim) by lia.
    rewrite (ro_over_ops P RO). reflexivity.
  Qed.

  Lemma recv_reserved_frame : forall lim h a b c rest,
    is_byte h -> is_byte a -> is_byte b -> is_byte c ->
    3 <= h mod 8 ->
    recv d P lim (h :: a :: b :: c :: rest) = [EvClose].
  Proof.
    intros. rewrite recv_step, select_ops_spec by assumption.
    destruct (hlen a b c >? lim).
    - rewrite (ro_over_ops P RO). reflexivity.
    - rewrite (ro_reserved P RO); [reflexivity|].
      pose proof (Z.mod_pos_bound h 8). lia.
  Qed.

  Lemma recv_msg_frame : forall lim h a b c m rest,
    is_byte h -> is_byte a -> is_byte b -> is_byte c ->
    h mod 8 = 0 -> hlen a b c = len m -> len m <= lim ->
    recv d P lim (h :: a :: b :: c :: m ++ rest) = deliver m :: recv d P lim rest.
  Proof.
    intros lim h a b c m rest Hh Ha Hb Hc Ht Hl Hlim.
    rewrite recv_step, select_ops_spec by assumption.
    rewrite (gtb_false (hlen a b c) lim) by lia.
    rewrite Ht, Hl, (ro_msg P RO) by apply len_nonneg.
    rewrite len_app.
    replace (len m + len rest <? len m) with false
      by (symmetry; apply Z.ltb_ge; pose proof (len_nonneg rest); lia).
    cbv zeta. rewrite firstn_len_app, skipn_len_app. reflexivity.
  Qed.

  Lemma recv_ping_frame : forall lim h a b c p rest,
    is_byte h -> is_byte a -> is_byte b -> is_byte c ->
    h mod 8 = 1 -> hlen a b c = len p -> len p <= lim ->
    recv d P lim (h :: a :: b :: c :: p ++ rest) = EvPong ([2; a; b; c] ++ p) :: recv d P lim rest.
  Proof.
    intros lim h a b c p rest Hh Ha Hb Hc Ht Hl Hlim.
    rewrite recv_step, select_ops_spec by assumption.
    rewrite (gtb_false (hlen a b c) lim) by lia.
    rewrite Ht, Hl.
    destruct (ro_ping P RO d (len p) h a b c (p ++ rest) (len_nonneg p)) as [E _].
    rewrite E by (rewrite len_app; pose proof (len_nonneg rest); lia).
    rewrite firstn_len_app, skipn_len_app. reflexivity.
  Qed.

  Lemma recv_pong_frame : forall lim h a b c p rest,
    is_byte h -> is_byte a -> is_byte b -> is_byte c ->
    h mod 8 = 2 -> hlen a b c = len p -> len p <= lim ->
    recv d P lim (h :: a :: b :: c :: p ++ rest) = recv d P lim rest.
  Proof.
    intros lim h a b c p rest Hh Ha Hb Hc Ht Hl Hlim.
    rewrite recv_step, select_ops_spec by assumption.
    rewrite (gtb_false (hlen a b c) lim) by lia.
    rewrite Ht, Hl, (ro_pong P RO) by apply len_nonneg.
    rewrite len_app.
    replace (len p + len rest <? len p) with false
      by (symmetry; apply Z.ltb_ge; pose proof (len_nonneg rest); lia).
    rewrite skipn_len_app. reflexivity.
  Qed.

  (** ** sequences of well-formed frames *)

  Inductive wframe :=
  | FMsg (m : list Z)
  | FPing (flags : Z) (p : list Z)    (* flags: the five reserved upper bits of the type byte *)
  | FPong (flags : Z) (p : list Z).

  Definition wf_bytes (f : wframe) : list Z :=
    match f with
    | FMsg m => frame 0 m
    | FPing fl p => frame (fl * 8 + 1) p
    | FPong fl p => frame (fl * 8 + 2) p
    end.

  Definition wf_payload (f : wframe) : list Z :=
    match f with FMsg m => m | FPing _ p => p | FPong _ p => p end.

  Definition wf_flags (f : wframe) : Z :=
    match f with FMsg _ => 0 | FPing fl _ => fl | FPong fl _ => fl end.

  Definition wf_ok (lim : Z) (f : wframe) : Prop :=
    len (wf_payload f) <= lim /\ len (wf_payload f) <= max_len /\ 0 <= wf_flags f < 32.

  Definition wf_events (f : wframe) : list event :=
    match f with
    | FMsg m => [deliver m]
    | FPing _ p => [EvPong (frame 2 p)]
    | FPong _ _ => []
    end.

  Lemma frame_parts : forall t m, 0 <= len m <= max_len ->
    frame t m = t :: (len m / 65536) :: ((len m / 256) mod 256) :: (len m mod 256) :: m.
  Proof. reflexivity. Qed.

  Lemma recv_wframe : forall lim f rest, wf_ok lim f ->
    recv d P lim (wf_bytes f ++ rest) = wf_events f ++ recv d P lim rest.
  Proof.
    intros lim f rest (Hl & Hm & Hf).
    pose proof (len_nonneg (wf_payload f)) as Hn.
    pose proof (len3_bytes (len (wf_payload f)) (conj Hn Hm)) as Hb.
    pose proof (len3_value (len (wf_payload f)) Hn) as Hv.
    unfold len3 in Hb. inversion Hb as [|? ? B1 Hb1]; subst. inversion Hb1 as [|? ? B2 Hb2]; subst.
    inversion Hb2 as [|? ? B3 _]; subst.
    destruct f as [m|fl p|fl p]; cbn [wf_bytes wf_payload wf_flags wf_events] in *;
      unfold frame, len3; cbn [app].
    - apply recv_msg_frame; auto; unfold is_byte, hlen; try lia.
    - apply recv_ping_frame; auto; unfold is_byte, hlen; try lia.
      rewrite Z.add_comm, Z.mod_add by lia. reflexivity.
    - apply recv_pong_frame; auto; unfold is_byte, hlen; try lia.
      rewrite Z.add_comm, Z.mod_add by lia. reflexivity.
  Qed.

  Theorem recv_wframes : forall lim fs, Forall (wf_ok lim) fs ->
    recv d P lim (concat (map wf_bytes fs)) = flat_map wf_events fs ++ [EvEOF].
  Proof.
    induction fs as [|f fs IH]; intro H.
    - cbn [map concat flat_map app]. apply recv_short. cbn; lia.
    - inversion H; subst. cbn [map concat flat_map].
      rewrite recv_wframe by assumption. rewrite IH by assumption. apply app_assoc.
  Qed.

  (** ** the properties *)

  Theorem frames_intact_g : forall lim ms,
    Forall (fun m => len m <= lim /\ len m <= max_len) ms ->
    recv d P lim (concat (map (frame 0) ms)) = map deliver ms ++ [EvEOF].
  Proof.
    intros lim ms H.
    replace (map (frame 0) ms) with (map wf_bytes (map FMsg ms)) by (rewrite map_map; reflexivity).
    rewrite recv_wframes.
    - f_equal. induction ms; cbn; [reflexivity|]. f_equal. apply IHms. inversion H; assumption.
    - rewrite Forall_map. eapply Forall_impl; [|exact H].
      intros m [? ?]. unfold wf_ok; cbn. lia.
  Qed.

  Theorem reserved_closes_g : forall lim h a b c rest,
    is_byte h -> is_byte a -> is_byte b -> is_byte c ->
    (3 <= h mod 8 \/ hlen a b c > lim) ->
    recv d P lim (h :: a :: b :: c :: rest) = [EvClose].
  Proof.
    intros lim h a b c rest Hh Ha Hb Hc [H|H].
    - apply recv_reserved_frame; assumption.
    - apply recv_over_frame; assumption.
  Qed.

  Theorem ping_pong_g : forall lim fl p rest,
    0 <= fl < 32 -> len p <= lim -> len p <= max_len ->
    recv d P lim (frame (fl * 8 + 1) p ++ rest) = EvPong (frame 2 p) :: recv d P lim rest.
  Proof.
    intros. apply (recv_wframe lim (FPing fl p) rest). unfold wf_ok; cbn; lia.
  Qed.

  (** no stream whatsoever makes the reader deliver a nil message or panic *)
  Lemma run_ops_sound_events : forall lim h a b c rest,
    is_byte h -> is_byte a -> is_byte b -> is_byte c ->
    forall evs, (run_ops d (select_ops P lim [h; a; b; c]) [h; a; b; c] rest [] None [] = CStop evs \/
                 exists r, run_ops d (select_ops P lim [h; a; b; c]) [h; a; b; c] rest [] None [] = CNext r evs) ->
    ~ In EvNil evs /\ ~ In EvPanic evs.
  Proof.
    intros lim h a b c rest Hh Ha Hb Hc evs H.
    rewrite select_ops_spec in H by assumption.
    pose proof (hlen_nonneg a b c Ha Hb Hc) as Hn.
    destruct (hlen a b c >? lim).
    { rewrite (ro_over_ops P RO) in H. destruct H as [H|[r H]]; inversion H; subst.
      cbn; split; intros [X|[]]; discriminate. }
    pose proof (Z.mod_pos_bound h 8 ltac:(lia)) as Hm.
    assert (h mod 8 = 0 \/ h mod 8 = 1 \/ h mod 8 = 2 \/ 3 <= h mod 8 <= 7) as [E|[E|[E|E]]] by lia.
    - rewrite E, (ro_msg P RO) in H by assumption.
      destruct (len rest <? hlen a b c).
      + destruct H as [H|[r H]]; inversion H; subst. cbn; split; intros [X|[]]; discriminate.
      + cbv zeta in H. destruct H as [H|[r H]]; inversion H; subst.
        destruct (d (firstn (Z.to_nat (hlen a b c)) rest)); cbn; split; intros [X|[]]; discriminate.
    - rewrite E in H.
      destruct (ro_ping P RO d (hlen a b c) h a b c rest Hn) as [E1 E2].
      destruct (Z_le_gt_dec (hlen a b c) (len rest)) as [L|L].
      + rewrite (E1 L) in H. destruct H as [H|[r H]]; inversion H; subst.
        cbn; split; intros [X|[]]; discriminate.
      + destruct (E2 ltac:(lia)) as (evs' & E3 & E4). rewrite E3 in H.
        destruct H as [H|[r H]]; inversion H; subst.
        destruct E4 as [->|[w ->]]; cbn; split; intros X; intuition discriminate.
    - rewrite E, (ro_pong P RO) in H by assumption.
      destruct (len rest <? hlen a b c); destruct H as [H|[r H]]; inversion H; subst;
        cbn; split; intros X; intuition discriminate.
    - rewrite (ro_reserved P RO) in H by assumption.
      destruct H as [H|[r H]]; inversion H; subst. cbn; split; intros [X|[]]; discriminate.
  Qed.

  Theorem never_nil_g : forall lim inp, Forall is_byte inp ->
    ~ In EvNil (recv d P lim inp) /\ ~ In EvPanic (recv d P lim inp).
  Proof.
    intros lim inp. remember (length inp) as n eqn:Hn. revert inp Hn.
    induction n as [n IH] using lt_wf_ind. intros inp Hn Hb.
    destruct inp as [|h [|a [|b [|c rest]]]];
      try (rewrite recv_short by (cbn; lia); cbn; split; intros [X|[]]; discriminate).
    inversion Hb as [|? ? Bh Hb1]; subst. inversion Hb1 as [|? ? Ba Hb2]; subst.
    inversion Hb2 as [|? ? Bb Hb3]; subst. inversion Hb3 as [|? ? Bc Hb4]; subst.
    rewrite recv_step.
    destruct (run_ops d (select_ops P lim [h; a; b; c]) [h; a; b; c] rest [] None []) as [r e|e] eqn:E.
    - destruct (run_ops_sound_events lim h a b c rest Bh Ba Bb Bc e) as [N1 N2]; [right; exists r; exact E|].
      pose proof (run_ops_shrinks _ _ _ _ _ _ _ _ _ E) as Hs.
      assert (Forall is_byte r) as Hr.
      { eapply run_ops_keeps_bytes; eassumption. }
      destruct (IH (length r) ltac:(cbn in *; lia) r eq_refl Hr) as [M1 M2].
      split; intro X; apply in_app_or in X; tauto.
    - apply (run_ops_sound_events lim h a b c rest Bh Ba Bb Bc e). left; exact E.
  Qed.
End Frames.

(** ** sender, and sender composed with receiver *)

Section Send.
  Variable d : list Z -> bool.
  Variable P : params.
  Hypothesis RO : recv_ok P.
  Hypothesis SO : send_ok P.

  Definition sendable (lim : Z) (m : list Z) : bool := (len m <=? lim) && (len m <=? max_len).

  Lemma concat_flat_writes : forall (hdr body : list Z) ops,
    concat (flat_map (fun o => match o with
                               | WWrite ps => [concat (map (part_bytes hdr body) ps)]
                               | _ => []
                               end) ops) =
    concat (map (part_bytes hdr body) (flat_map wparts ops)).
  Proof.
    induction ops as [|o t IH]; [reflexivity|].
    destruct o; cbn [flat_map wparts app]; try exact IH.
    rewrite map_app, concat_app. cbn [concat]. rewrite IH. reflexivity.
  Qed.

  Lemma send_writes_bytes : forall lim m,
    concat (send_writes P lim m) = if sendable lim m then frame 0 m else [].
  Proof.
    intros. unfold send_writes, sendable. rewrite (so_drop P SO).
    destruct ((len m <=? lim) && (len m <=? max_len)) eqn:E; cbn [negb]; [|reflexivity].
    rewrite concat_flat_writes, (so_ops P SO). cbn [map concat part_bytes].
    apply andb_true_iff in E. destruct E as [_ E]. apply Z.leb_le in E.
    rewrite (so_header P SO) by (pose proof (len_nonneg m); lia).
    rewrite app_nil_r. reflexivity.
  Qed.

  (** the wire carries exactly the frames of the sendable messages, in order:
      an oversized message is dropped as a whole *)
  Theorem send_stream_frames : forall lim ms,
    send_stream P lim ms = concat (map (frame 0) (filter (sendable lim) ms)).
  Proof.
    intros lim ms. unfold send_stream.
    induction ms as [|m t IH]; [reflexivity|].
    cbn [flat_map filter]. rewrite concat_app, IH, send_writes_bytes.
    destruct (sendable lim m); reflexivity.
  Qed.

  Theorem oversize_dropped_whole_g : forall lim ms,
    recv d P lim (send_stream P lim ms) = map (deliver d) (filter (sendable lim) ms) ++ [EvEOF].
  Proof.
    intros. rewrite send_stream_frames. apply frames_intact_g; [assumption|].
    apply Forall_forall. intros m Hm. apply filter_In in Hm. destruct Hm as [_ Hm].
    unfold sendable in Hm. apply andb_true_iff in Hm. destruct Hm as [A B].
    apply Z.leb_le in A, B. lia.
  Qed.
End Send.
