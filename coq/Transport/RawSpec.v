(** * What the generated arithmetic and handler shapes must mean
    (definitions only)

    [recv_ok] / [send_ok] are the semantic interface between the generated
    code and the framing theorems: every theorem of RawProofs.v is proved for
    an arbitrary [params] that satisfies them, and RawConform*.v proves, on
    every run, that the parameters regenerated from /repo do.  They speak
    about meanings (the function computed, the effect of a case body on an
    arbitrary input) and not about syntax, so a refactoring of the Go code
    that keeps the meaning keeps them provable.

    [spec_params] is the reference instance (and the witness that the
    interface is satisfiable). *)

From Coq Require Import String ZArith List Bool.
From Nexus Require Import Transport.GoArith Transport.RawOps Transport.RawFrame.
Import ListNotations.
Open Scope Z_scope.

Definition ops_for (P : params) (t n : Z) : list rop :=
  match assocZ t (p_frame_cases P n) with
  | Some o => o
  | None => p_frame_default P n
  end.

(** no message is delivered and nothing but a possible partial echo happens
    when the stream ends inside a PING *)
Definition eof_only (evs : list event) : Prop :=
  evs = [EvEOF] \/ exists w, evs = [EvPong w; EvEOF].

Record recv_ok (P : params) : Prop := {
  ro_length : forall h a b c, is_byte a -> is_byte b -> is_byte c ->
      p_recv_length P [h; a; b; c] = a * 65536 + b * 256 + c;
  ro_over : forall l lim, p_recv_over P l lim = (l >? lim);
  ro_over_ops : forall d hdr inp,
      run_ops d (p_recv_over_ops P) hdr inp [] None [] = CStop [EvClose];
  ro_tag : forall h a b c, is_byte h -> p_frame_tag P [h; a; b; c] = h mod 8;
  (* type 0: a WAMP message *)
  ro_msg : forall d n hdr inp, 0 <= n ->
      run_ops d (ops_for P 0 n) hdr inp [] None [] =
      if len inp <? n then CStop [EvEOF]
      else let b := firstn (Z.to_nat n) inp in
           CNext (skipn (Z.to_nat n) inp) [if d b then EvMsg b else EvIgnore b];
  (* type 1: PING, answered by PONG carrying the same length bytes and payload *)
  ro_ping : forall d n h a b c inp, 0 <= n ->
      (n <= len inp ->
       run_ops d (ops_for P 1 n) [h; a; b; c] inp [] None [] =
       CNext (skipn (Z.to_nat n) inp) [EvPong ([2; a; b; c] ++ firstn (Z.to_nat n) inp)]) /\
      (len inp < n ->
       exists evs, run_ops d (ops_for P 1 n) [h; a; b; c] inp [] None [] = CStop evs /\ eof_only evs);
  (* type 2: PONG, consumed *)
  ro_pong : forall d n hdr inp, 0 <= n ->
      run_ops d (ops_for P 2 n) hdr inp [] None [] =
      if len inp <? n then CStop [EvEOF] else CNext (skipn (Z.to_nat n) inp) [];
  (* types 3..7: reserved *)
  ro_reserved : forall d t n hdr inp, 3 <= t <= 7 ->
      run_ops d (ops_for P t n) hdr inp [] None [] = CStop [EvClose]
}.

Definition wparts (o : wop) : list part :=
  match o with WWrite ps => ps | _ => [] end.

Record send_ok (P : params) : Prop := {
  so_drop : forall l lim, p_send_drop P l lim = negb ((l <=? lim) && (l <=? max_len));
  so_header : forall l, 0 <= l <= max_len -> p_send_header P l = 0 :: len3 l;
  so_ops : flat_map wparts (p_send_ops P) = [PHeader; PPayload]
}.

(** ** reference instance *)

Definition spec_params : params := {|
  p_recv_length := fun hdr => match hdr with
                              | [_; a; b; c] => a * 65536 + b * 256 + c
                              | _ => 0
                              end;
  p_recv_over := fun l lim => l >? lim;
  p_recv_over_ops := [RCloseReturn];
  p_frame_tag := fun hdr => idx hdr 0 mod 8;
  p_frame_cases := fun n =>
    [(0, [RReadBody n; RDeserialize]);
     (1, [RReadBody n; RSetHeader 0 2; RLock "wrMutex"%string; RWrite [PHeader]; RWrite [PPayload];
          RUnlock "wrMutex"%string; RContinue]);
     (2, [RDiscard n; RContinue])];
  p_frame_default := fun _ => [RCloseReturn];
  p_send_drop := fun l lim => (l >? lim) || (l >? max_len);
  p_send_header := fun l => 0 :: len3 l;
  p_send_ops := [WLock "wrMutex"%string; WWrite [PHeader]; WWrite [PPayload]; WUnlock "wrMutex"%string]
|}.
