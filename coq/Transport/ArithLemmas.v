(** * Lemmas and tactics about the Go arithmetic wrappers of GoArith.v.

    They normalise the bit operations the translator emits ([Z.land] with a
    mask, [Z.shiftr], [shl_u], [Z.lor] of disjoint bit ranges, wraps of values
    that are in range) into [/], [mod], [*], [+] so that [lia] finishes, and
    provide brute force over a byte for everything that depends on one byte
    only.  The conformance proofs are written with these so that they do not
    depend on the exact syntax the Go code uses. *)

From Coq Require Import String ZArith List Bool Lia.
From Nexus Require Import Transport.GoArith.
Import ListNotations.
Open Scope Z_scope.

(** ** wraps of in-range values *)

Lemma wrap_u_small : forall k x, 0 <= x < 2 ^ k -> wrap_u k x = x.
Proof. intros. unfold wrap_u. apply Z.mod_small. assumption. Qed.

Lemma wrap_u_mod : forall k x, 0 < k -> wrap_u k (x mod 2 ^ k) = x mod 2 ^ k.
Proof. intros. unfold wrap_u. apply Z.mod_mod. apply Z.pow_nonzero; lia. Qed.

Lemma wrap_s_small : forall k x, 0 < k -> - 2 ^ (k - 1) <= x < 2 ^ (k - 1) -> wrap_s k x = x.
Proof.
  intros k x Hk H. unfold wrap_s.
  assert (2 ^ k = 2 * 2 ^ (k - 1)) as E.
  { replace k with (Z.succ (k - 1)) at 1 by lia. apply Z.pow_succ_r. lia. }
  rewrite Z.mod_small; lia.
Qed.

Lemma shl_u_small : forall k x s, 0 <= s < k -> 0 <= x -> x * 2 ^ s < 2 ^ k ->
  shl_u k x s = x * 2 ^ s.
Proof.
  intros k x s Hs Hx H. unfold shl_u.
  replace (s <? k) with true by (symmetry; apply Z.ltb_lt; lia).
  rewrite Z.shiftl_mul_pow2 by lia. apply wrap_u_small.
  split; [|assumption]. apply Z.mul_nonneg_nonneg; [assumption|]. apply Z.pow_nonneg; lia.
Qed.

Lemma shl_s_small : forall k x s, 0 <= s < k -> 0 <= x -> x * 2 ^ s < 2 ^ (k - 1) ->
  shl_s k x s = x * 2 ^ s.
Proof.
  intros k x s Hs Hx H. unfold shl_s.
  replace (s <? k) with true by (symmetry; apply Z.ltb_lt; lia).
  rewrite Z.shiftl_mul_pow2 by lia. apply wrap_s_small; [lia|].
  split; [|assumption].
  assert (0 <= x * 2 ^ s) by (apply Z.mul_nonneg_nonneg; [assumption|apply Z.pow_nonneg; lia]).
  assert (0 < 2 ^ (k - 1)) by (apply Z.pow_pos_nonneg; lia). lia.
Qed.

Lemma shr_div : forall x s, 0 <= s -> shr x s = x / 2 ^ s.
Proof. intros. unfold shr. apply Z.shiftr_div_pow2. assumption. Qed.

Lemma land_ones_mod : forall x k, 0 <= k -> Z.land x (2 ^ k - 1) = x mod 2 ^ k.
Proof. intros. rewrite <- Z.land_ones by assumption. rewrite Z.ones_equiv. reflexivity. Qed.

(** [Z.lor] of two numbers occupying disjoint bit ranges is their sum *)
Lemma lor_disjoint_add : forall lo hi k, 0 <= k -> 0 <= lo < 2 ^ k ->
  Z.lor lo (hi * 2 ^ k) = lo + hi * 2 ^ k.
Proof.
  intros lo hi k Hk Hlo.
  assert (Z.land lo (hi * 2 ^ k) = 0) as D.
  { apply Z.bits_inj'. intros n Hn. rewrite Z.land_spec, Z.bits_0.
    destruct (Z_lt_ge_dec n k).
    - rewrite (Z.mul_pow2_bits_low hi k n) by lia. apply andb_false_r.
    - replace lo with (lo mod 2 ^ k) by (apply Z.mod_small; assumption).
      rewrite Z.mod_pow2_bits_high by lia. reflexivity. }
  rewrite <- Z.lxor_lor by assumption. symmetry. apply Z.add_nocarry_lxor. assumption.
Qed.

Lemma lor_disjoint_add' : forall lo hi k, 0 <= k -> 0 <= lo < 2 ^ k ->
  Z.lor (hi * 2 ^ k) lo = hi * 2 ^ k + lo.
Proof. intros. rewrite Z.lor_comm, lor_disjoint_add by assumption. lia. Qed.

(** ** boolean comparisons to propositions *)

Ltac bool_to_prop :=
  repeat match goal with
  | |- context [?a >? ?b] =>
      let E := fresh "E" in destruct (a >? b) eqn:E;
      [apply Z.gtb_lt in E | rewrite Z.gtb_ltb in E; apply Z.ltb_ge in E]
  | |- context [?a >=? ?b] =>
      let E := fresh "E" in destruct (a >=? b) eqn:E;
      [apply Z.geb_le in E | rewrite Z.geb_leb in E; apply Z.leb_gt in E]
  | |- context [?a <? ?b] =>
      let E := fresh "E" in destruct (a <? b) eqn:E;
      [apply Z.ltb_lt in E | apply Z.ltb_ge in E]
  | |- context [?a <=? ?b] =>
      let E := fresh "E" in destruct (a <=? b) eqn:E;
      [apply Z.leb_le in E | apply Z.leb_gt in E]
  | |- context [?a =? ?b] =>
      let E := fresh "E" in destruct (a =? b) eqn:E;
      [apply Z.eqb_eq in E | apply Z.eqb_neq in E]
  end.

Ltac bool_lia := bool_to_prop; cbn [negb andb orb]; try reflexivity; try discriminate; try lia.

(** ** brute force over one byte / one nibble *)

Definition zrange (n : nat) : list Z := map Z.of_nat (seq 0 n).

Lemma zrange_complete : forall n x, 0 <= x < Z.of_nat n -> In x (zrange n).
Proof.
  intros n x H. unfold zrange. apply in_map_iff. exists (Z.to_nat x). split; [lia|].
  apply in_seq. lia.
Qed.

Lemma forall_zrange : forall (f : Z -> bool) n,
  forallb f (zrange n) = true -> forall x, 0 <= x < Z.of_nat n -> f x = true.
Proof.
  intros f n H x Hx. rewrite forallb_forall in H. apply H. apply zrange_complete. assumption.
Qed.

Lemma forall_byte : forall (f : Z -> bool),
  forallb f (zrange 256) = true -> forall x, is_byte x -> f x = true.
Proof. intros f H x Hx. apply (forall_zrange f 256 H). exact Hx. Qed.

Lemma forall_byte_prop : forall (Q : Z -> Prop) (dec : forall x, {Q x} + {~ Q x}),
  forallb (fun x => if dec x then true else false) (zrange 256) = true ->
  forall x, is_byte x -> Q x.
Proof.
  intros Q dec H x Hx. pose proof (forall_byte _ H x Hx) as E. cbv beta in E.
  destruct (dec x); [assumption|discriminate].
Qed.

(** a Z equation whose two sides depend on the byte [h] only: try all 256 values *)
Ltac byte_brute h Hh :=
  apply Z.eqb_eq; revert h Hh;
  match goal with
  | |- forall h, is_byte h -> @?f h = true => apply (forall_byte f); vm_compute; reflexivity
  end.
