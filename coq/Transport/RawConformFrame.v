(** * Per-run conformance: the receive loop and the sender regenerated from
    /repo meet the semantic interface of RawSpec.v ([recv_ok], [send_ok]).
    Re-proved against [gen/GenC15.v] on every check.  Also shows that the
    reference instance meets it (the interface is satisfiable). *)

From Coq Require Import String ZArith List Bool Lia.
From Nexus Require Import Transport.GoArith Transport.RawOps Transport.RawFrame Transport.RawSpec
  Transport.RawProofs Transport.ArithLemmas Transport.RawGen Transport.RawConformArith gen.GenC15.
Import ListNotations.
Open Scope Z_scope.

(** symbolic execution of a concrete case body on an arbitrary input *)
Ltac run_case :=
  cbn [run_ops assocZ fst snd flush app concat map part_bytes set_idx];
  repeat match goal with
  | H : 0 <= ?n |- context [?n <? 0] => rewrite (proj2 (Z.ltb_ge n 0) H)
  | |- context [if ?c then _ else _] =>
      let E := fresh "E" in destruct c eqn:E;
      cbn [run_ops assocZ flush app concat map part_bytes set_idx]
  end.

Ltac zero_len :=
  try match goal with
  | H1 : ?n <= 0, H2 : 0 <= ?n |- _ =>
      let Z0 := fresh in assert (n = 0) as Z0 by lia; subst n; cbn [Z.to_nat skipn firstn]
  end.

Ltac finish_case :=
  RawConformArith.hyps_to_prop; zero_len;
  ArithLemmas.bool_to_prop;
  repeat match goal with
  | |- context [len ?l] => lazymatch goal with
                           | _ : 0 <= len l |- _ => fail
                           | _ => pose proof (len_nonneg l)
                           end
  end;
  repeat match goal with
  | _ : context [len ?l] |- _ => lazymatch goal with
                                 | _ : 0 <= len l |- _ => fail
                                 | _ => pose proof (len_nonneg l)
                                 end
  end;
  cbn [flush app concat map part_bytes set_idx];
  rewrite ?app_nil_r, ?app_nil_l; cbn [app flush];
  try reflexivity; try lia; try discriminate.

Ltac unfold_params :=
  cbn [p_recv_length p_recv_over p_recv_over_ops p_frame_tag p_frame_cases p_frame_default
       p_send_drop p_send_header p_send_ops spec_params gen_params].

(** the proof script below is run twice: on the reference instance and on
    the generated one *)
Ltac prove_recv_ok len_lemma :=
  constructor;
  [ (* ro_length *)
    intros h a b c Ha Hb Hc; apply len_lemma; assumption
  | (* ro_over *)
    intros l lim; unfold_params; try unfold recv_over; bool_lia
  | (* ro_over_ops *)
    intros d hdr inp; reflexivity
  | (* ro_tag *)
    idtac
  | (* ro_msg *)
    intros d n hdr inp Hn; unfold ops_for; unfold_params;
    try unfold frame_cases, frame_default; cbn [assocZ Z.eqb];
    run_case; finish_case
  | (* ro_ping *)
    intros d n h a b c inp Hn; unfold ops_for; unfold_params;
    try unfold frame_cases, frame_default; cbn [assocZ Z.eqb Pos.eqb];
    split; intro Hl;
    [ run_case; finish_case
    | run_case; RawConformArith.hyps_to_prop; try lia;
      eexists; (split; [reflexivity|]); unfold eof_only; cbn [flush app];
      first [left; reflexivity | right; eexists; reflexivity] ]
  | (* ro_pong *)
    intros d n hdr inp Hn; unfold ops_for; unfold_params;
    try unfold frame_cases, frame_default; cbn [assocZ Z.eqb Pos.eqb];
    run_case; finish_case
  | (* ro_reserved *)
    intros d t n hdr inp Ht; unfold ops_for; unfold_params;
    try unfold frame_cases, frame_default; cbn [assocZ];
    repeat match goal with
    | |- context [t =? ?k] =>
        replace (t =? k) with false by (symmetry; apply Z.eqb_neq; lia)
    end;
    reflexivity
  ].

Lemma spec_len : forall h a b c, is_byte a -> is_byte b -> is_byte c ->
  p_recv_length spec_params [h; a; b; c] = a * 65536 + b * 256 + c.
Proof. reflexivity. Qed.

Lemma gen_len : forall h a b c, is_byte a -> is_byte b -> is_byte c ->
  p_recv_length gen_params [h; a; b; c] = a * 65536 + b * 256 + c.
Proof.
  intros h a b c Ha Hb Hc. cbn [p_recv_length gen_params]. unfold recv_length.
  change (skipn (Z.to_nat 1) [h; a; b; c]) with [a; b; c].
  apply gen_bytes_to_int3; assumption.
Qed.

Lemma spec_recv_ok : recv_ok spec_params.
Proof.
  prove_recv_ok spec_len.
  intros h a b c Hh. reflexivity.
Qed.

(** ** the generated receive loop *)

Lemma gen_frame_tag : forall h a b c, is_byte h -> frame_tag [h; a; b; c] = h mod 8.
Proof.
  intros h a b c Hh. unfold frame_tag. change (idx [h; a; b; c] 0) with h.
  byte_brute h Hh.
Qed.

Theorem gen_recv_ok : recv_ok gen_params.
Proof.
  prove_recv_ok gen_len.
  intros h a b c Hh. cbn [p_frame_tag gen_params]. apply gen_frame_tag; assumption.
Qed.

(** ** the sender *)

Lemma spec_send_ok : send_ok spec_params.
Proof.
  constructor.
  - intros l lim. cbn [p_send_drop spec_params]. unfold max_len. bool_lia.
  - intros l H. reflexivity.
  - reflexivity.
Qed.

Theorem gen_send_ok : send_ok gen_params.
Proof.
  constructor.
  - intros l lim. cbn [p_send_drop gen_params]. unfold send_drop, max_len. bool_lia.
  - intros l H. cbn [p_send_header gen_params]. unfold send_header.
    rewrite gen_int_to_bytes by assumption. reflexivity.
  - vm_compute. reflexivity.
Qed.
