(** * Per-run conformance: both websocket sender loops regenerated from /repo
    skip an unserialisable message and go on. *)

From Coq Require Import String ZArith List Bool.
From Nexus Require Import Transport.GoArith Transport.RawOps Transport.WsPeer gen.GenC15.
Import ListNotations.

Lemma gen_ws_plain_ok : ws_shape_ok GenC15.ws_send_plain = true.
Proof. vm_compute. reflexivity. Qed.

Lemma gen_ws_keepalive_ok : ws_shape_ok GenC15.ws_send_keepalive = true.
Proof. vm_compute. reflexivity. Qed.

(** keep-alive on or off: the same loop as far as messages are concerned *)
Lemma gen_ws_same_loop :
  (ws_on_ser_error ws_send_plain, ws_ser_error_writes ws_send_plain, ws_on_write_ok ws_send_plain,
   ws_ok_writes ws_send_plain, ws_on_write_error ws_send_plain) =
  (ws_on_ser_error ws_send_keepalive, ws_ser_error_writes ws_send_keepalive, ws_on_write_ok ws_send_keepalive,
   ws_ok_writes ws_send_keepalive, ws_on_write_error ws_send_keepalive).
Proof. vm_compute. reflexivity. Qed.
