(** * Websocket sender loop: an unserialisable message is dropped alone *)

From Coq Require Import String ZArith List Bool.
From Nexus Require Import Transport.GoArith Transport.RawOps Transport.WsPeer.
Import ListNotations.
Open Scope Z_scope.

Theorem ws_send_keeps : forall (M : Type) (ser : M -> option (list Z)) sh,
  ws_shape_ok sh = true -> forall msgs, ws_send M ser sh msgs = keep_ser M ser msgs.
Proof.
  intros M ser sh H. unfold ws_shape_ok in H.
  destruct (ws_on_ser_error sh) eqn:E1; [|discriminate].
  destruct (ws_on_write_ok sh) eqn:E2; [|discriminate].
  apply andb_true_iff in H. destruct H as [H1 H2]. apply negb_true_iff in H1.
  induction msgs as [|m t IH]; [reflexivity|].
  cbn [ws_send keep_ser]. rewrite E1, E2, H1, H2, IH. destruct (ser m); reflexivity.
Qed.

(** a sender that stops at a message it cannot serialize loses the rest *)
Example ws_stop_loses_the_rest :
  ws_send nat (fun n => if Nat.eqb n 1 then None else Some [Z.of_nat n])
          {| ws_on_ser_error := WsStop; ws_ser_error_writes := false;
             ws_on_write_ok := WsNext; ws_ok_writes := true; ws_on_write_error := WsStop |}
          [0; 1; 2; 3]%nat = [[0]].
Proof. reflexivity. Qed.
