(** * Per-run conformance and theorems of the handshake, proved about the
    functions regenerated from /repo.

    Method: everything that depends on the length/serializer byte and on the
    announced nibbles is decided by exhaustive evaluation ([vm_compute] over
    256 x 16 (x 3) cases, through [forallb]); the tests on the magic byte and
    the reserved bytes are case-split symbolically.  The proofs therefore do
    not depend on how the Go code spells its bit operations. *)

From Coq Require Import String ZArith List Bool Lia.
From Nexus Require Import Transport.GoArith Transport.RawOps Transport.ArithLemmas
  Transport.RawFrame Transport.RawSpec Transport.RawProofs
  Transport.RawConformArith Transport.RawHandshake gen.GenC15.
Import ListNotations.
Open Scope Z_scope.

(** ** reflection helpers *)

Lemma forall_nib_byte : forall f : Z -> Z -> bool,
  forallb (fun k => forallb (f k) (zrange 256)) (zrange 16) = true ->
  forall k, 0 <= k <= 15 -> forall b, is_byte b -> f k b = true.
Proof.
  intros f H k Hk b Hb.
  pose proof (forall_zrange _ 16 H k ltac:(lia)) as H1. cbv beta in H1.
  exact (forall_zrange _ 256 H1 b Hb).
Qed.

Lemma forall_nib_proto_byte : forall f : Z -> Z -> Z -> bool,
  forallb (fun k => forallb (fun p => forallb (f k p) (zrange 256)) [1; 2; 3]) (zrange 16) = true ->
  forall k, 0 <= k <= 15 -> forall p, 1 <= p <= 3 -> forall b, is_byte b -> f k p b = true.
Proof.
  intros f H k Hk p Hp b Hb.
  pose proof (forall_zrange _ 16 H k ltac:(lia)) as H1. cbv beta in H1.
  rewrite forallb_forall in H1.
  assert (In p [1; 2; 3]) as Ip by (cbn; lia).
  exact (forall_zrange _ 256 (H1 p Ip) b Hb).
Qed.

Lemma forall_nib_nib_proto : forall f : Z -> Z -> Z -> bool,
  forallb (fun k => forallb (fun k' => forallb (f k k') [1; 2; 3]) (zrange 16)) (zrange 16) = true ->
  forall k, 0 <= k <= 15 -> forall k', 0 <= k' <= 15 -> forall p, 1 <= p <= 3 -> f k k' p = true.
Proof.
  intros f H k Hk k' Hk' p Hp.
  pose proof (forall_zrange _ 16 H k ltac:(lia)) as H1. cbv beta in H1.
  pose proof (forall_zrange _ 16 H1 k' ltac:(lia)) as H2. cbv beta in H2.
  rewrite forallb_forall in H2. apply H2. cbn; lia.
Qed.

Lemma list_eqb_eq : forall a b, list_eqb a b = true -> a = b.
Proof.
  unfold list_eqb. induction a as [|x a IH]; destruct b as [|y b]; cbn; intros H; try reflexivity;
    try discriminate.
  apply andb_true_iff in H. destruct H as [L H]. apply andb_true_iff in H. destruct H as [E H].
  apply Z.eqb_eq in E. subst. f_equal. apply IH. rewrite L. exact H.
Qed.

Lemma writes_eqb_eq : forall a b, writes_eqb a b = true -> a = b.
Proof.
  unfold writes_eqb. induction a as [|x a IH]; destruct b as [|y b]; cbn; intros H; try reflexivity;
    try discriminate.
  apply andb_true_iff in H. destruct H as [L H]. apply andb_true_iff in H. destruct H as [E H].
  apply list_eqb_eq in E. subst. f_equal. apply IH. rewrite L. exact H.
Qed.

Lemma serializer_eqb_eq : forall a b, serializer_eqb a b = true -> a = b.
Proof. destruct a, b; cbn; intros; try reflexivity; discriminate. Qed.

Lemma hs_eqb_peer : forall a w s sl rl,
  hs_eqb a (HsPeer w s sl rl) = true -> a = HsPeer w s sl rl.
Proof.
  intros [w' e|w' s' sl' rl'] w s sl rl H; cbn [hs_eqb] in H; [discriminate|].
  apply andb_true_iff in H. destruct H as [H H0].
  apply andb_true_iff in H. destruct H as [H H1].
  apply andb_true_iff in H. destruct H as [H H2].
  apply writes_eqb_eq in H. apply serializer_eqb_eq in H2. apply Z.eqb_eq in H1, H0. subst.
  reflexivity.
Qed.

Lemma hs_eqb_err : forall a w e,
  hs_eqb a (HsErr w e) = true -> exists e', a = HsErr w e'.
Proof.
  intros [w' e'|w' s' sl' rl'] w e H; cbn [hs_eqb] in H; [|discriminate].
  apply writes_eqb_eq in H. subst. eauto.
Qed.

(** split on every comparison that does not mention a bound variable *)
Ltac split_free_tests :=
  repeat match goal with
  | |- context [?a =? ?b] => destruct (a =? b)
  end.

(** ** the server side, for every first four bytes *)

Theorem gen_server_spec : forall cfg outQ b0 b1 b2 b3 rest, is_byte b1 ->
  hs_eqb (server_handshake cfg outQ (b0 :: b1 :: b2 :: b3 :: rest))
         (spec_server (fit_recv_limit cfg) b0 b1 b2 b3) = true.
Proof.
  intros cfg outQ b0 b1 b2 b3 rest Hb1.
  pose proof (gen_fit_range cfg) as Hk.
  unfold server_handshake, spec_server.
  change (read_n 4 (b0 :: b1 :: b2 :: b3 :: rest)) with (Some ([b0; b1; b2; b3], rest)).
  cbv beta iota zeta.
  change (idx [b0; b1; b2; b3] 0) with b0. change (idx [b0; b1; b2; b3] 1) with b1.
  change (idx [b0; b1; b2; b3] 2) with b2. change (idx [b0; b1; b2; b3] 3) with b3.
  generalize dependent (fit_recv_limit cfg). intros k Hk. revert k Hk b1 Hb1.
  match goal with
  | |- forall k, _ -> forall b, _ -> @?f k b = true => apply (forall_nib_byte f)
  end.
  split_free_tests; vm_compute; reflexivity.
Qed.

Theorem gen_server_short : forall cfg outQ input, (length input < 4)%nat ->
  exists e, server_handshake cfg outQ input = HsErr [] e.
Proof.
  intros cfg outQ input H. unfold server_handshake, read_n.
  replace (length input <? 4)%nat with true by (symmetry; apply Nat.ltb_lt; exact H).
  cbv beta iota zeta. eauto.
Qed.

(** ** the client side, for every reply *)

Theorem gen_client_spec : forall proto cfg r0 r1 r2 r3 rest, 1 <= proto <= 3 -> is_byte r1 ->
  hs_eqb (client_handshake proto cfg (r0 :: r1 :: r2 :: r3 :: rest))
         (spec_client (fit_recv_limit cfg) proto r0 r1) = true.
Proof.
  intros proto cfg r0 r1 r2 r3 rest Hp Hr1.
  pose proof (gen_fit_range cfg) as Hk.
  unfold client_handshake, spec_client.
  change (read_n 4 (r0 :: r1 :: r2 :: r3 :: rest)) with (Some ([r0; r1; r2; r3], rest)).
  cbv beta iota zeta.
  change (idx [r0; r1; r2; r3] 0) with r0. change (idx [r0; r1; r2; r3] 1) with r1.
  generalize dependent (fit_recv_limit cfg). intros k Hk. revert k Hk proto Hp r1 Hr1.
  match goal with
  | |- forall k, _ -> forall p, _ -> forall b, _ -> @?f k p b = true =>
      apply (forall_nib_proto_byte f)
  end.
  split_free_tests; vm_compute; reflexivity.
Qed.

Theorem gen_client_short : forall proto cfg input, 1 <= proto <= 3 -> (length input < 4)%nat ->
  exists e, client_handshake proto cfg input = HsErr [spec_hello (fit_recv_limit cfg) proto] e.
Proof.
  intros proto cfg input Hp H.
  pose proof (gen_fit_range cfg) as Hk.
  unfold client_handshake, read_n.
  replace (length input <? 4)%nat with true by (symmetry; apply Nat.ltb_lt; exact H).
  cbv beta iota zeta.
  match goal with
  | |- exists e, HsErr ?w _ = HsErr ?w' _ => assert (writes_eqb w w' = true) as W
  end.
  { generalize dependent (fit_recv_limit cfg). intros k Hk. revert k Hk proto Hp.
    assert (forall f : Z -> Z -> bool,
              forallb (fun k => forallb (f k) [1; 2; 3]) (zrange 16) = true ->
              forall k, 0 <= k <= 15 -> forall p, 1 <= p <= 3 -> f k p = true) as R.
    { intros f F k Hk p Hp. pose proof (forall_zrange _ 16 F k ltac:(lia)) as F1. cbv beta in F1.
      rewrite forallb_forall in F1. apply F1. cbn; lia. }
    match goal with
    | |- forall k, _ -> forall p, _ -> @?f k p = true => apply (R f)
    end.
    vm_compute. reflexivity. }
  apply writes_eqb_eq in W. rewrite W. eauto.
Qed.

(** ** both sides together *)

Theorem gen_client_hello : forall proto cfg, 1 <= proto <= 3 ->
  client_hello proto cfg = spec_hello (fit_recv_limit cfg) proto.
Proof.
  intros proto cfg Hp. unfold client_hello.
  destruct (gen_client_short proto cfg [] Hp ltac:(cbn; lia)) as [e E]. rewrite E.
  cbn [hs_written concat app]. reflexivity.
Qed.

Theorem gen_handshake_agree : forall proto cfgC cfgS outQ, 1 <= proto <= 3 ->
  let kC := fit_recv_limit cfgC in
  let kS := fit_recv_limit cfgS in
  handshake_run proto cfgC cfgS outQ =
  (HsPeer [spec_hello kS proto] (ser_of_byte proto) (announced kC) (announced kS),
   HsPeer [spec_hello kC proto] (ser_of_byte proto) (announced kS) (announced kC)).
Proof.
  intros proto cfgC cfgS outQ Hp kC kS.
  pose proof (gen_fit_range cfgC) as HkC. pose proof (gen_fit_range cfgS) as HkS.
  fold kC in HkC. fold kS in HkS.
  unfold handshake_run. rewrite gen_client_hello by assumption. fold kC. unfold spec_hello.
  (* server on the client's hello *)
  assert (is_byte (kC * 16 + proto)) as Hb by (unfold is_byte; lia).
  pose proof (gen_server_spec cfgS outQ 127 (kC * 16 + proto) 0 0 [] Hb) as S. fold kS in S.
  assert (spec_server kS 127 (kC * 16 + proto) 0 0 =
          HsPeer [spec_hello kS proto] (ser_of_byte proto) (announced kC) (announced kS)) as ES.
  { unfold spec_server. cbn [Z.eqb negb orb Pos.eqb].
    replace ((kC * 16 + proto) mod 16) with proto
      by (rewrite Z.add_comm, Z.mod_add by lia; symmetry; apply Z.mod_small; lia).
    replace ((kC * 16 + proto) / 16) with kC
      by (rewrite Z.add_comm, Z.div_add by lia; rewrite Z.div_small by lia; lia).
    cbv zeta.
    replace (proto =? 0) with false by (symmetry; apply Z.eqb_neq; lia).
    replace (3 <? proto) with false by (symmetry; apply Z.ltb_ge; lia).
    reflexivity. }
  rewrite ES in S. apply hs_eqb_peer in S. unfold spec_hello in S. rewrite S.
  cbn [hs_written concat app].
  (* client on the server's reply *)
  assert (is_byte (kS * 16 + proto)) as Hb' by (unfold is_byte; lia).
  pose proof (gen_client_spec proto cfgC 127 (kS * 16 + proto) 0 0 [] Hp Hb') as C. fold kC in C.
  assert (spec_client kC proto 127 (kS * 16 + proto) =
          HsPeer [spec_hello kC proto] (ser_of_byte proto) (announced kS) (announced kC)) as EC.
  { unfold spec_client. cbn [Z.eqb negb Pos.eqb].
    replace ((kS * 16 + proto) mod 16) with proto
      by (rewrite Z.add_comm, Z.mod_add by lia; symmetry; apply Z.mod_small; lia).
    replace ((kS * 16 + proto) / 16) with kS
      by (rewrite Z.add_comm, Z.div_add by lia; rewrite Z.div_small by lia; lia).
    cbv zeta.
    replace (proto =? 0) with false by (symmetry; apply Z.eqb_neq; lia).
    rewrite Z.eqb_refl. reflexivity. }
  rewrite EC in C. apply hs_eqb_peer in C. unfold spec_hello in C. rewrite C. reflexivity.
Qed.

(** a handshake the server does not accept never yields a peer; it answers
    with one of the two error replies (serializer nibble 0) or says nothing *)
Theorem gen_handshake_fail_clean_server : forall cfg outQ input,
  (forall b0 b1 b2 b3 rest, input = b0 :: b1 :: b2 :: b3 :: rest ->
     is_byte b1 /\ ~ (b0 = 127 /\ b2 = 0 /\ b3 = 0 /\ 1 <= b1 mod 16 <= 3)) ->
  exists w e, server_handshake cfg outQ input = HsErr w e /\
              (w = [] \/ w = [[127; 48; 0; 0]] \/ w = [[127; 16; 0; 0]]).
Proof.
  intros cfg outQ input H.
  destruct input as [|b0 [|b1 [|b2 [|b3 rest]]]].
  1-4: match goal with
       | |- context [server_handshake _ _ ?i] =>
           destruct (gen_server_short cfg outQ i) as [e E]; [cbn; lia|rewrite E; eauto 6]
       end.
  destruct (H b0 b1 b2 b3 rest eq_refl) as [Hb1 Hn].
  pose proof (gen_server_spec cfg outQ b0 b1 b2 b3 rest Hb1) as S.
  unfold spec_server in S. revert S.
  pose proof (Z.mod_pos_bound b1 16 ltac:(lia)) as Hm.
  destruct (b0 =? 127) eqn:E0; cbn [negb];
    [|intro S; apply hs_eqb_err in S; destruct S as [e ->]; eauto 6].
  destruct (b2 =? 0) eqn:E2; cbn [negb orb];
    [|intro S; apply hs_eqb_err in S; destruct S as [e ->]; eauto 6].
  destruct (b3 =? 0) eqn:E3; cbn [negb orb];
    [|intro S; apply hs_eqb_err in S; destruct S as [e ->]; eauto 6].
  cbv zeta.
  destruct (b1 mod 16 =? 0) eqn:E4;
    [intro S; apply hs_eqb_err in S; destruct S as [e ->]; eauto 6|].
  destruct (3 <? b1 mod 16) eqn:E5;
    [intro S; apply hs_eqb_err in S; destruct S as [e ->]; eauto 8|].
  exfalso. apply Hn. apply Z.eqb_eq in E0, E2, E3. apply Z.eqb_neq in E4. apply Z.ltb_ge in E5. lia.
Qed.

Theorem gen_handshake_fail_clean_client : forall proto cfg input, 1 <= proto <= 3 ->
  (forall r0 r1 r2 r3 rest, input = r0 :: r1 :: r2 :: r3 :: rest ->
     is_byte r1 /\ ~ (r0 = 127 /\ r1 mod 16 = proto)) ->
  exists e, client_handshake proto cfg input = HsErr [spec_hello (fit_recv_limit cfg) proto] e.
Proof.
  intros proto cfg input Hp H.
  destruct input as [|r0 [|r1 [|r2 [|r3 rest]]]].
  1-4: apply gen_client_short; [assumption|cbn; lia].
  destruct (H r0 r1 r2 r3 rest eq_refl) as [Hr1 Hn].
  pose proof (gen_client_spec proto cfg r0 r1 r2 r3 rest Hp Hr1) as S.
  unfold spec_client in S. revert S.
  destruct (r0 =? 127) eqn:E0; cbn [negb];
    [|intro S; apply hs_eqb_err in S; exact S].
  cbv zeta.
  destruct (r1 mod 16 =? 0) eqn:E1; [intro S; apply hs_eqb_err in S; exact S|].
  destruct (r1 mod 16 =? proto) eqn:E2; cbn [negb]; [|intro S; apply hs_eqb_err in S; exact S].
  exfalso. apply Hn. apply Z.eqb_eq in E0, E2. tauto.
Qed.

(** ** the wrappers and the protocol table *)

Lemma gen_wrappers_close : accept_closes_on_error = true /\ connect_closes_on_error = true.
Proof. split; reflexivity. Qed.

Lemma gen_wrappers_pass : forall r q i p,
  accept_handshake r q i = server_handshake r q i /\
  connect_handshake r p i = client_handshake p r i.
Proof. intros; split; reflexivity. Qed.

Lemma gen_proto_table :
  forallb (fun e => (1 <=? snd e) && (snd e <=? 3)) get_proto_byte = true /\
  map snd (filter (fun e => String.eqb (fst e) "JSON") get_proto_byte) = [c_rawsocketJSON] /\
  map snd (filter (fun e => String.eqb (fst e) "MSGPACK") get_proto_byte) = [c_rawsocketMsgpack] /\
  map snd (filter (fun e => String.eqb (fst e) "CBOR") get_proto_byte) = [c_rawsocketCBOR] /\
  (c_rawsocketJSON, c_rawsocketMsgpack, c_rawsocketCBOR, c_magic) = (1, 2, 3, 127).
Proof. vm_compute. repeat split; reflexivity. Qed.

Lemma gen_server_args : forall r q,
  fst (server_accept_args r q) = r /\ server_attaches_peer = true.
Proof. intros; split; reflexivity. Qed.
