(** * The model instantiated with the code regenerated from /repo
    (definitions only) *)

From Coq Require Import String ZArith List Bool.
From Nexus Require Import Transport.GoArith Transport.RawOps Transport.RawFrame
  Transport.PeerDiscipline gen.GenC15.
Import ListNotations.
Open Scope Z_scope.

Definition gen_params : params := {|
  p_recv_length := GenC15.recv_length;
  p_recv_over := GenC15.recv_over;
  p_recv_over_ops := GenC15.recv_over_ops;
  p_frame_tag := GenC15.frame_tag;
  p_frame_cases := GenC15.frame_cases;
  p_frame_default := GenC15.frame_default;
  p_send_drop := GenC15.send_drop;
  p_send_header := GenC15.send_header;
  p_send_ops := GenC15.send_ops
|}.

(** the PING case of the generated frame switch *)
Definition gen_ping_ops : list rop :=
  match assocZ 1 (GenC15.frame_cases 0) with Some o => o | None => GenC15.frame_default 0 end.

(** ** the two writing goroutines *)

Definition gen_mutex : String.string :=
  match first_lock GenC15.send_ops with Some m => m | None => ""%string end.

(** programs of the two goroutines for given message bodies and given PINGs
    (header, payload) *)
Definition writer_frames (P : params) (m : String.string) (bodies : list (list Z)) : list (list act) :=
  map (frame_acts_w P m) bodies.

Definition reader_frames (pops : list rop) (m : String.string) (pings : list (list Z * list Z)) : list (list act) :=
  map (fun hp => frame_acts_r pops m (fst hp) (snd hp)) pings.

