(** * RawSocket handshake (definitions only)

    The client and server sides of the handshake are the functions
    [GenC15.client_handshake] and [GenC15.server_handshake], translated from
    the Go code on every run: functions from the bytes the other side sends to
    what is written and whether a peer (with which serializer and limits)
    results.  This file adds the composition of the two and the protocol-level
    description they are compared with. *)

From Coq Require Import String ZArith List Bool.
From Nexus Require Import Transport.GoArith Transport.RawOps gen.GenC15.
From Nexus Require Export Transport.RawHandshakeSpec.
Import ListNotations.
Open Scope Z_scope.

(** ** both sides together *)

(** what the client writes before it reads anything *)
Definition client_hello (proto cfgC : Z) : list Z :=
  concat (hs_written (client_handshake proto cfgC [])).

(** the client connects to the server: (server outcome, client outcome) *)
Definition handshake_run (proto cfgC cfgS outQ : Z) : hs_result * hs_result :=
  let s := server_handshake cfgS outQ (client_hello proto cfgC) in
  let c := client_handshake proto cfgC (concat (hs_written s)) in
  (s, c).
