(** * RawSocket handshake (definitions only)

    The client and server sides of the handshake are the functions
    [GenC15.client_handshake] and [GenC15.server_handshake], translated from
    the Go code on every run: functions from the bytes the other side sends to
    what is written and whether a peer (with which serializer and limits)
    results.  This file adds the composition of the two and the protocol-level
    description they are compared with. *)

From Coq Require Import String ZArith List Bool.
From Nexus Require Import Transport.GoArith Transport.RawOps gen.GenC15.
Import ListNotations.
Open Scope Z_scope.

Definition hs_written (r : hs_result) : list (list Z) :=
  match r with HsErr w _ => w | HsPeer w _ _ _ => w end.

Definition hs_is_peer (r : hs_result) : bool :=
  match r with HsPeer _ _ _ _ => true | _ => false end.

(** equality of outcomes up to the text of the error *)
Definition list_eqb (a b : list Z) : bool :=
  (length a =? length b)%nat && forallb (fun p => fst p =? snd p) (combine a b).

Definition writes_eqb (a b : list (list Z)) : bool :=
  (length a =? length b)%nat && forallb (fun p => list_eqb (fst p) (snd p)) (combine a b).

Definition hs_eqb (a b : hs_result) : bool :=
  match a, b with
  | HsErr w _, HsErr w' _ => writes_eqb w w'
  | HsPeer w s sl rl, HsPeer w' s' sl' rl' =>
      writes_eqb w w' && serializer_eqb s s' && (sl =? sl') && (rl =? rl')
  | _, _ => false
  end.

Definition ser_of_byte (p : Z) : serializer :=
  if p =? 1 then SerJSON else if p =? 2 then SerMsgpack else if p =? 3 then SerCBOR else SerNone.

(** the length a nibble announces *)
Definition announced (k : Z) : Z := 2 ^ (k + 9).

(** ** protocol-level description *)

(** server: [k] is the nibble it announces (fit of its configured limit) *)
Definition spec_server (k b0 b1 b2 b3 : Z) : hs_result :=
  if negb (b0 =? 127) then HsErr [] "not a rawsocket handshake"
  else if negb (b2 =? 0) || negb (b3 =? 0) then HsErr [[127; 48; 0; 0]] "reserved bits"
  else let ser := b1 mod 16 in
       if ser =? 0 then HsErr [] "illegal serializer"
       else if 3 <? ser then HsErr [[127; 16; 0; 0]] "serializer unsupported"
       else HsPeer [[127; k * 16 + ser; 0; 0]] (ser_of_byte ser) (announced (b1 / 16)) (announced k).

(** client with protocol byte [proto], announcing nibble [k] *)
Definition spec_hello (k proto : Z) : list Z := [127; k * 16 + proto; 0; 0].

Definition spec_client (k proto r0 r1 : Z) : hs_result :=
  if negb (r0 =? 127) then HsErr [spec_hello k proto] "not a rawsocket handshake"
  else let ser := r1 mod 16 in
       if ser =? 0 then HsErr [spec_hello k proto] "error reply"
       else if negb (ser =? proto) then HsErr [spec_hello k proto] "serializer mismatch"
       else HsPeer [spec_hello k proto] (ser_of_byte proto) (announced (r1 / 16)) (announced k).

(** ** both sides together *)

(** what the client writes before it reads anything *)
Definition client_hello (proto cfgC : Z) : list Z :=
  concat (hs_written (client_handshake proto cfgC [])).

(** the client connects to the server: (server outcome, client outcome) *)
Definition handshake_run (proto cfgC cfgS outQ : Z) : hs_result * hs_result :=
  let s := server_handshake cfgS outQ (client_hello proto cfgC) in
  let c := client_handshake proto cfgC (concat (hs_written s)) in
  (s, c).
