(** * The C15 theorems about the code regenerated from /repo: the generic
    framing theorems of RawProofs.v instantiated through the per-run
    conformance lemmas, and the discipline theorems instantiated with the
    programs derived from the generated op lists. *)

From Coq Require Import String ZArith List Bool Lia.
From Nexus Require Import Transport.GoArith Transport.RawOps Transport.RawFrame Transport.RawSpec
  Transport.RawProofs Transport.ArithLemmas Transport.RawGen Transport.RawConformArith
  Transport.RawConformFrame Transport.RawHandshake Transport.RawConformHandshake
  Transport.PeerDiscipline Transport.PeerDisciplineProofs Transport.RawLegacy
  Transport.WsPeer Transport.WsPeerProofs Transport.RawConformWs gen.GenC15.
Import ListNotations.
Open Scope Z_scope.

Theorem frames_intact_gen : forall d lim ms,
  Forall (fun m => len m <= lim /\ len m <= max_len) ms ->
  recv d gen_params lim (concat (map (frame 0) ms)) = map (deliver d) ms ++ [EvEOF].
Proof. intros. apply frames_intact_g; [exact gen_recv_ok|assumption]. Qed.

Theorem oversize_dropped_whole_gen : forall d lim ms,
  send_stream gen_params lim ms = concat (map (frame 0) (filter (sendable lim) ms)) /\
  recv d gen_params lim (send_stream gen_params lim ms) =
    map (deliver d) (filter (sendable lim) ms) ++ [EvEOF].
Proof.
  intros. split.
  - apply send_stream_frames. exact gen_send_ok.
  - apply oversize_dropped_whole_g; [exact gen_recv_ok|exact gen_send_ok].
Qed.

Theorem reserved_closes_gen : forall d lim h a b c rest,
  is_byte h -> is_byte a -> is_byte b -> is_byte c ->
  (3 <= h mod 8 \/ hlen a b c > lim) ->
  recv d gen_params lim (h :: a :: b :: c :: rest) = [EvClose].
Proof. intros. apply reserved_closes_g; try assumption. exact gen_recv_ok. Qed.

Theorem never_nil_gen : forall d lim inp, Forall is_byte inp ->
  ~ In EvNil (recv d gen_params lim inp) /\ ~ In EvPanic (recv d gen_params lim inp).
Proof. intros. apply never_nil_g; [exact gen_recv_ok|assumption]. Qed.

Theorem ping_pong_gen : forall d lim fl p rest,
  0 <= fl < 32 -> len p <= lim -> len p <= max_len ->
  recv d gen_params lim (frame (fl * 8 + 1) p ++ rest) =
  EvPong (frame 2 p) :: recv d gen_params lim rest.
Proof. intros. apply ping_pong_g; try assumption. exact gen_recv_ok. Qed.

(** any interleaving of messages, PINGs and PONGs from a conforming peer *)
Theorem mixed_frames_gen : forall d lim fs, Forall (wf_ok lim) fs ->
  recv d gen_params lim (concat (map wf_bytes fs)) = flat_map (wf_events d) fs ++ [EvEOF].
Proof. intros. apply recv_wframes; [exact gen_recv_ok|assumption]. Qed.

(** ** the two writers *)

Theorem no_interleave_gen :
  discipline_ok GenC15.send_ops gen_ping_ops = true ->
  forall bodies pings sched,
    contiguous (tags (run sched (init (writer_frames gen_params gen_mutex bodies)
                                      (reader_frames gen_ping_ops gen_mutex pings)))).
Proof.
  intros D bodies pings sched. unfold discipline_ok in D. unfold gen_mutex.
  destruct (first_lock send_ops) as [m|]; [|discriminate].
  apply andb_true_iff in D. destruct D as [Dw Dr].
  apply no_interleave_locked.
  - unfold writer_frames. apply Forall_forall. intros f Hf. apply in_map_iff in Hf.
    destruct Hf as (b & <- & _). unfold frame_acts_w. apply sk_shape_locked. exact Dw.
  - unfold reader_frames. apply Forall_forall. intros f Hf. apply in_map_iff in Hf.
    destruct Hf as (hp & <- & _). unfold frame_acts_r. apply sk_shape_locked. exact Dr.
Qed.

(** the unlocked shape: refuted ... *)
Theorem no_interleave_refuted_legacy :
  exists bodies pings sched,
    let s := run sched (init (writer_frames legacy_params "m" bodies)
                             (reader_frames (legacy_ping_ops 1) "m" pings)) in
    finished s = true /\ ~ contiguous (tags s).
Proof.
  exists [ex_body], [(ex_ping_hdr, ex_ping_payload)], [W; R; R; W].
  cbv zeta. split; [vm_compute; reflexivity|].
  intro C. apply contiguousb_spec in C. vm_compute in C. discriminate.
Qed.

Lemma skel_fill_writes : forall h b l,
  forallb (fun s => match s with SWrite _ => true | _ => false end) l = true ->
  Forall is_write (map (fill h b) l).
Proof.
  induction l as [|s t IH]; intro H; [constructor|].
  cbn in H. apply andb_true_iff in H. destruct H as [Hs Ht].
  constructor; [|apply IH; exact Ht]. destruct s; try discriminate. eexists; reflexivity.
Qed.

(** ... and true again when no goroutine writes while the other is between
    two Writes of one frame (for the unlocked shape, with any PING length) *)
Theorem no_interleave_partial_legacy : forall n bodies pings sched,
  let s0 := init (writer_frames legacy_params "m" bodies)
                 (reader_frames (legacy_ping_ops n) "m" pings) in
  calm sched s0 -> contiguous (tags (run sched s0)).
Proof.
  intros n bodies pings sched s0 C. apply no_interleave_calm; [| |exact C].
  - unfold writer_frames. apply Forall_forall. intros f Hf. apply in_map_iff in Hf.
    destruct Hf as (b & <- & _). unfold frame_acts_w. apply skel_fill_writes. reflexivity.
  - unfold reader_frames. apply Forall_forall. intros f Hf. apply in_map_iff in Hf.
    destruct Hf as (hp & <- & _). unfold frame_acts_r. apply skel_fill_writes. reflexivity.
Qed.

(** ** websocket sender loops *)

Theorem ws_unserialisable_dropped_alone_gen : forall (M : Type) (ser : M -> option (list Z)) msgs,
  ws_send M ser GenC15.ws_send_plain msgs = keep_ser M ser msgs /\
  ws_send M ser GenC15.ws_send_keepalive msgs = keep_ser M ser msgs.
Proof.
  intros. split; apply ws_send_keeps; [exact gen_ws_plain_ok|exact gen_ws_keepalive_ok].
Qed.
