(** * RawSocket framing: the sender and the receive loop (definitions only)

    The model is an interpreter for the shapes the translator extracts from
    [sendHandler] and [recvHandler] ([RawOps.wop], [RawOps.rop]) over the
    generated arithmetic, collected in a [params] record so that the same
    interpreter runs the generated code ([gen_params], in RawGen.v), the
    reference description ([spec_params], RawSpec.v) and the unpatched code
    ([legacy_params], RawLegacy.v).

    The receive loop is a function of the whole byte stream the other side
    sends before closing; its result is what the reader goroutine does:
    messages delivered on the [rd] channel, bytes written back to the
    connection, and how it ends. *)

From Coq Require Import String ZArith List Bool.
From Nexus Require Import Transport.GoArith Transport.RawOps.
Import ListNotations.
Open Scope Z_scope.

Record params := mkParams {
  p_recv_length : list Z -> Z;            (* length := bytesToInt(header[1:]) *)
  p_recv_over : Z -> Z -> bool;           (* length > rs.recvLimit *)
  p_recv_over_ops : list rop;             (* what happens then *)
  p_frame_tag : list Z -> Z;              (* header[0] & 0x07 *)
  p_frame_cases : Z -> list (Z * list rop);
  p_frame_default : Z -> list rop;
  p_send_drop : Z -> Z -> bool;           (* len(b) > rs.sendLimit ... *)
  p_send_header : Z -> list Z;
  p_send_ops : list wop
}.

(** what the reader goroutine does, in order *)
Inductive event :=
| EvMsg (body : list Z)     (* body deserialized, message delivered on rd *)
| EvIgnore (body : list Z)  (* body did not deserialize: logged, loop continues *)
| EvPong (bytes : list Z)   (* bytes written to the connection while handling one frame *)
| EvNil                     (* a nil message delivered on rd *)
| EvClose                   (* conn.Close() by the reader; handler returns; rd closed *)
| EvEOF                     (* read error (stream ended inside or between frames); handler returns *)
| EvPanic.                  (* make([]byte, n) with negative n *)

Inductive cres :=
| CNext (rest : list Z) (evs : list event)   (* next loop iteration on rest *)
| CStop (evs : list event).                  (* handler returned *)

Definition part_bytes (hdr body : list Z) (p : part) : list Z :=
  match p with PHeader => hdr | PPayload => body end.

Definition flush (out : list Z) : list event :=
  match out with [] => [] | _ => [EvPong out] end.

Section Interp.
  (** whether [Deserialize] accepts a body: behaviour of an external
      component (the codecs are property C14's subject) *)
  Variable deser_ok : list Z -> bool.

  (** one case body of the frame switch.  [hdr]: the (mutable) header array;
      [inp]: unread input; [buf]: the last buffer read; [msg]: the message
      variable ([None] = nil); [out]: bytes written so far in this iteration *)
  Fixpoint run_ops (ops : list rop) (hdr inp buf : list Z) (msg : option (list Z)) (out : list Z) : cres :=
    match ops with
    | [] =>
        CNext inp (flush out ++ [match msg with Some b => EvMsg b | None => EvNil end])
    | RReadBody n :: t =>
        if n <? 0 then CStop (flush out ++ [EvPanic])
        else if len inp <? n then CStop (flush out ++ [EvEOF])
        else run_ops t hdr (skipn (Z.to_nat n) inp) (firstn (Z.to_nat n) inp) msg out
    | RDeserialize :: t =>
        if deser_ok buf then run_ops t hdr inp buf (Some buf) out
        else CNext inp (flush out ++ [EvIgnore buf])
    | RSetHeader i v :: t => run_ops t (set_idx hdr i v) inp buf msg out
    | RWrite ps :: t => run_ops t hdr inp buf msg (out ++ concat (map (part_bytes hdr buf) ps))
    | REcho n :: t =>
        if n <=? 0 then run_ops t hdr inp buf msg out
        else if len inp <? n then CStop (flush (out ++ inp) ++ [EvEOF])
        else run_ops t hdr (skipn (Z.to_nat n) inp) buf msg (out ++ firstn (Z.to_nat n) inp)
    | RDiscard n :: t =>
        if n <=? 0 then run_ops t hdr inp buf msg out
        else if len inp <? n then CStop (flush out ++ [EvEOF])
        else run_ops t hdr (skipn (Z.to_nat n) inp) buf msg out
    | RLock _ :: t | RUnlock _ :: t => run_ops t hdr inp buf msg out
    | RContinue :: _ => CNext inp (flush out)
    | RCloseReturn :: _ => CStop (flush out ++ [EvClose])
    end.

  Fixpoint assocZ {A} (k : Z) (l : list (Z * A)) : option A :=
    match l with
    | [] => None
    | (k', v) :: t => if k =? k' then Some v else assocZ k t
    end.

  Variable P : params.

  (** the ops selected by one frame header *)
  Definition select_ops (lim : Z) (hdr : list Z) : list rop :=
    let length := p_recv_length P hdr in
    if p_recv_over P length lim then p_recv_over_ops P
    else match assocZ (p_frame_tag P hdr) (p_frame_cases P length) with
         | Some o => o
         | None => p_frame_default P length
         end.

  Fixpoint recv_loop (fuel : nat) (lim : Z) (inp : list Z) : list event :=
    match fuel with
    | O => []
    | S f =>
        match read_n 4 inp with
        | None => [EvEOF]
        | Some (hdr, rest) =>
            match run_ops (select_ops lim hdr) hdr rest [] None [] with
            | CNext rest' evs => evs ++ recv_loop f lim rest'
            | CStop evs => evs
            end
        end
    end.

  (** every iteration consumes the 4 header bytes: [S (length inp)] is enough fuel *)
  Definition recv (lim : Z) (inp : list Z) : list event := recv_loop (S (length inp)) lim inp.

  (** ** sender *)

  (** the [conn.Write] calls for one serialized message, in order *)
  Definition send_writes (lim : Z) (body : list Z) : list (list Z) :=
    if p_send_drop P (len body) lim then []
    else flat_map (fun o => match o with
                            | WWrite ps => [concat (map (part_bytes (p_send_header P (len body)) body) ps)]
                            | _ => []
                            end) (p_send_ops P).

  Definition send_stream (lim : Z) (ms : list (list Z)) : list Z :=
    concat (flat_map (send_writes lim) ms).
End Interp.

(** the frame of a message as the protocol defines it *)
Definition len3 (n : Z) : list Z := [n / 65536; (n / 256) mod 256; n mod 256].
Definition frame (t : Z) (m : list Z) : list Z := t :: len3 (len m) ++ m.
Definition max_len : Z := 16777215.   (* 2^24 - 1: what three length bytes can carry *)
