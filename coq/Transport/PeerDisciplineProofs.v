(** * Frames of the two writing goroutines never interleave when each frame is
    written inside one critical section of a common mutex -- for every
    schedule, any number of frames, any chunking.  Without the mutex the
    statement is refuted by a four-step schedule, and holds again when no
    goroutine writes while the other one is in the middle of a frame. *)

From Coq Require Import String ZArith List Bool Lia.
From Nexus Require Import Transport.GoArith Transport.RawOps Transport.RawFrame
  Transport.PeerDiscipline.
Import ListNotations.
Open Scope Z_scope.

(** ** tags, collapse *)

Lemma who_eqb_eq : forall a b, who_eqb a b = true <-> a = b.
Proof. destruct a, b; cbn; split; intro; try reflexivity; discriminate. Qed.

Lemma tag_eqb_eq : forall a b : tag, tag_eqb a b = true <-> a = b.
Proof.
  intros [p i] [q j]. unfold tag_eqb; cbn. rewrite andb_true_iff, who_eqb_eq, Nat.eqb_eq.
  split; [intros [-> ->]; reflexivity|intro H; inversion H; auto].
Qed.

Lemma tag_eqb_neq : forall a b : tag, tag_eqb a b = false <-> a <> b.
Proof.
  intros a b. destruct (tag_eqb a b) eqn:E.
  - apply tag_eqb_eq in E. split; [discriminate|intro N; contradiction].
  - split; [|reflexivity]. intros _ H. apply tag_eqb_eq in H. congruence.
Qed.

Definition lastt (l : list tag) : option tag :=
  match rev l with [] => None | x :: _ => Some x end.

Lemma lastt_snoc : forall l x, lastt (l ++ [x]) = Some x.
Proof. intros. unfold lastt. rewrite rev_app_distr. reflexivity. Qed.

Lemma lastt_cons : forall x y l, lastt (x :: y :: l) = lastt (y :: l).
Proof.
  intros. unfold lastt. cbn [rev]. destruct (rev l ++ [y]) eqn:E.
  - destruct (rev l); discriminate.
  - reflexivity.
Qed.

Lemma collapse_In : forall l x, In x (collapse l) -> In x l.
Proof.
  induction l as [|a [|b t] IH]; intros x H.
  - contradiction.
  - exact H.
  - cbn [collapse] in H. destruct (tag_eqb a b).
    + right. apply IH. exact H.
    + destruct H as [H|H]; [left; exact H|right; apply IH; exact H].
Qed.

Lemma collapse_cons2 : forall a b t,
  collapse (a :: b :: t) = if tag_eqb a b then collapse (b :: t) else a :: collapse (b :: t).
Proof. reflexivity. Qed.

Lemma collapse_snoc_same : forall l x, lastt l = Some x -> collapse (l ++ [x]) = collapse l.
Proof.
  induction l as [|a [|b t] IH]; intros x H.
  - discriminate.
  - unfold lastt in H; cbn in H. inversion H; subst. cbn.
    replace (tag_eqb x x) with true by (symmetry; apply tag_eqb_eq; reflexivity). reflexivity.
  - rewrite lastt_cons in H. change ((a :: b :: t) ++ [x]) with (a :: b :: (t ++ [x])).
    rewrite !collapse_cons2. change (b :: t ++ [x]) with ((b :: t) ++ [x]).
    destruct (tag_eqb a b); rewrite (IH x H); reflexivity.
Qed.

Lemma collapse_snoc_diff : forall l x, lastt l <> Some x -> collapse (l ++ [x]) = collapse l ++ [x].
Proof.
  induction l as [|a [|b t] IH]; intros x H.
  - reflexivity.
  - cbn. destruct (tag_eqb a x) eqn:E; [|reflexivity].
    apply tag_eqb_eq in E. subst. exfalso. apply H. reflexivity.
  - rewrite lastt_cons in H. change ((a :: b :: t) ++ [x]) with (a :: b :: (t ++ [x])).
    rewrite !collapse_cons2. change (b :: t ++ [x]) with ((b :: t) ++ [x]).
    destruct (tag_eqb a b); rewrite (IH x H); reflexivity.
Qed.

Lemma NoDup_snoc : forall (l : list tag) x, NoDup l -> ~ In x l -> NoDup (l ++ [x]).
Proof.
  induction l as [|a t IH]; intros x N H.
  - constructor; [intros []|constructor].
  - inversion N; subst. cbn. constructor.
    + intro I. apply in_app_or in I. destruct I as [I|[I|[]]]; [contradiction|].
      subst. apply H. left; reflexivity.
    + apply IH; [assumption|]. intro I. apply H. right; exact I.
Qed.

Lemma contiguous_snoc : forall l x,
  contiguous l -> (lastt l = Some x \/ ~ In x l) -> contiguous (l ++ [x]).
Proof.
  intros l x C [H|H]; unfold contiguous in *.
  - rewrite collapse_snoc_same by assumption. exact C.
  - destruct (lastt l) as [y|] eqn:L.
    + assert (y <> x) as N.
      { intro E; subst. apply H. unfold lastt in L. destruct (rev l) eqn:R; [discriminate|].
        inversion L; subst. apply in_rev. rewrite R. left; reflexivity. }
      rewrite collapse_snoc_diff by (rewrite L; congruence).
      apply NoDup_snoc; [assumption|]. intro I. apply H. apply collapse_In. exact I.
    + rewrite collapse_snoc_diff by (rewrite L; discriminate).
      apply NoDup_snoc; [assumption|]. intro I. apply H. apply collapse_In. exact I.
Qed.

Lemma nodupb_spec : forall l, nodupb l = true <-> NoDup l.
Proof.
  induction l as [|x t IH]; cbn.
  - split; [constructor|reflexivity].
  - rewrite andb_true_iff, negb_true_iff, IH. split.
    + intros [E N]. constructor; [|assumption]. intro I.
      assert (existsb (tag_eqb x) t = true) as X
        by (apply existsb_exists; exists x; split; [assumption|apply tag_eqb_eq; reflexivity]).
      congruence.
    + intro N. inversion N; subst. split; [|assumption].
      destruct (existsb (tag_eqb x) t) eqn:E; [|reflexivity].
      apply existsb_exists in E. destruct E as (y & I & E). apply tag_eqb_eq in E. subst. contradiction.
Qed.

Lemma contiguousb_spec : forall l, contiguousb l = true <-> contiguous l.
Proof. intro l. apply nodupb_spec. Qed.

(** ** shapes of programs *)

(** a frame written under the mutex: lock, writes, unlock *)
Definition locked_frame (f : list act) : Prop :=
  exists cs, f = ALock :: map AWrite cs ++ [AUnlock].

Lemma writes_then_unlock_fill : forall h b l, writes_then_unlock l = true ->
  exists cs, map (fill h b) l = map AWrite cs ++ [AUnlock].
Proof.
  induction l as [|s t IH]; intro H; [discriminate|].
  destruct s; cbn in H.
  - discriminate.
  - destruct t; [|discriminate]. exists []. reflexivity.
  - destruct (IH H) as [cs E]. exists (concat (map (part_bytes h b) ps) :: cs). cbn. rewrite E. reflexivity.
Qed.

Lemma sk_shape_locked : forall h b l, sk_shape_ok l = true -> locked_frame (map (fill h b) l).
Proof.
  intros h b [|s t] H; [discriminate|]. destruct s; try discriminate.
  destruct t as [|s' t']; [discriminate|]. destruct s'; try discriminate.
  cbn [sk_shape_ok] in H. destruct (writes_then_unlock_fill h b _ H) as [cs E].
  exists cs. cbn [map fill]. cbn [map fill] in E. rewrite E. reflexivity.
Qed.

Inductive rest_ok : nat -> prog -> Prop :=
| rest_nil : forall j, rest_ok j []
| rest_cons : forall j i cs pr, (j <= i)%nat -> rest_ok (S i) pr ->
    rest_ok j ((i, ALock) :: map (pair (A:=nat) (B:=act) i) (map AWrite cs ++ [AUnlock]) ++ pr).

Definition mid_ok (i : nat) (p : prog) : Prop :=
  exists cs pr, p = map (pair (A:=nat) (B:=act) i) (map AWrite cs ++ [AUnlock]) ++ pr /\ rest_ok (S i) pr.

Lemma rest_ok_weaken : forall j j' p, rest_ok j p -> (j' <= j)%nat -> rest_ok j' p.
Proof. intros j j' p H L. destruct H; constructor; [lia|assumption]. Qed.

Lemma number_rest_ok : forall fs i, Forall locked_frame fs -> rest_ok i (number i fs).
Proof.
  induction fs as [|f t IH]; intros i H; [constructor|].
  inversion H as [|? ? [cs E] Ht]; subst. cbn [number map app].
  apply rest_cons; [lia|]. apply IH. assumption.
Qed.

(** ** the invariant *)

Definition below (p : who) (j : nat) (l : list tag) : Prop :=
  forall i, In (p, i) l -> (i < j)%nat.

Definition Inv (s : state) : Prop :=
  contiguous (tags s) /\
  match holder s with
  | None => forall p, exists j, rest_ok j (prog_of s p) /\ below p j (tags s)
  | Some h =>
      (exists i, mid_ok i (prog_of s h) /\ below h (S i) (tags s) /\
                 (lastt (tags s) = Some (h, i) \/ ~ In (h, i) (tags s))) /\
      (exists j, rest_ok j (prog_of s (other h)) /\ below (other h) j (tags s))
  end.

Lemma below_snoc_same : forall p j l i, below p j l -> (i < j)%nat -> below p j (l ++ [(p, i)]).
Proof.
  intros p j l i B L k I. apply in_app_or in I. destruct I as [I|[I|[]]]; [apply B; exact I|].
  inversion I; subst. exact L.
Qed.

Lemma below_snoc_other : forall p q j l i, below p j l -> p <> q -> below p j (l ++ [(q, i)]).
Proof.
  intros p q j l i B N k I. apply in_app_or in I. destruct I as [I|[I|[]]]; [apply B; exact I|].
  inversion I; subst. contradiction.
Qed.

Lemma tags_snoc : forall (w : list (who * nat * list Z)) (p : who) (i : nat) (b : list Z),
  map fst (w ++ [(p, i, b)]) = map fst w ++ [(p, i)].
Proof. intros. rewrite map_app. reflexivity. Qed.

Ltac holder_moves i j cs pr0 Rh Bh Lh Ro Bo C HS :=
  destruct cs as [|c cs]; cbn [map app] in HS; inversion HS; subst; clear HS;
  cbn [holder wire prog_of progW progR other];
  [ (* unlock *)
    split; [exact C|];
    intros [|]; cbn [prog_of progW progR];
    first [exists (S i); split; assumption | exists j; split; assumption]
  | (* write one chunk *)
    rewrite tags_snoc; split; [apply contiguous_snoc; assumption|];
    split;
    [ exists i; split; [exists cs, pr0; split; [reflexivity|assumption]|];
      split; [apply below_snoc_same; [assumption|lia]|left; apply lastt_snoc]
    | exists j; split; [assumption|apply below_snoc_other; [assumption|discriminate]] ] ].

Lemma step_inv : forall p s s', Inv s -> step p s = Some s' -> Inv s'.
Proof.
  intros p [pw pr ho wi] s' [C I] S. unfold Inv, step, tags in *.
  cbn [holder wire prog_of progW progR] in *.
  destruct ho as [h|].
  - (* somebody holds the mutex *)
    destruct I as [(i & (cs & pr0 & Eh & Rh) & Bh & Lh) (j & Ro & Bo)].
    destruct p, h; cbn [prog_of other progW progR set_prog holder wire] in *.
    + subst pw. holder_moves i j cs pr0 Rh Bh Lh Ro Bo C S.
    + (* W while R holds: W is finished or blocked *)
      inversion Ro as [j0 E|j0 i0 cs0 pr1 L0 R0 E]; subst; discriminate.
    + inversion Ro as [j0 E|j0 i0 cs0 pr1 L0 R0 E]; subst; discriminate.
    + subst pr. holder_moves i j cs pr0 Rh Bh Lh Ro Bo C S.
  - (* the mutex is free: only a lock can happen *)
    destruct (I p) as (j & Rp & Bp).
    destruct (I (other p)) as (jo & Ro & Bo).
    destruct p; cbn [prog_of other progW progR set_prog holder wire] in *;
      (inversion Rp as [j0 E|j0 i0 cs0 pr1 L0 R0 E]; subst; [discriminate|]);
      inversion S; subst; clear S; cbn [holder wire prog_of progW progR other];
      (split; [exact C|]); split;
      [ exists i0; split; [exists cs0, pr1; split; [reflexivity|assumption]|];
        split; [intros k Ik; specialize (Bp k Ik); lia|right; intro Ik; specialize (Bp i0 Ik); lia]
      | exists jo; split; assumption
      | exists i0; split; [exists cs0, pr1; split; [reflexivity|assumption]|];
        split; [intros k Ik; specialize (Bp k Ik); lia|right; intro Ik; specialize (Bp i0 Ik); lia]
      | exists jo; split; assumption ].
Qed.

Lemma run_inv : forall sched s, Inv s -> Inv (run sched s).
Proof.
  induction sched as [|p t IH]; intros s I; [exact I|]. cbn [run].
  destruct (step p s) as [s'|] eqn:E; [apply IH; eapply step_inv; eassumption|apply IH; exact I].
Qed.

Lemma init_inv : forall fw fr, Forall locked_frame fw -> Forall locked_frame fr -> Inv (init fw fr).
Proof.
  intros fw fr Hw Hr. split; [constructor|]. cbn [holder init]. intro p. exists 0%nat.
  split; [destruct p; apply number_rest_ok; assumption|intros i []].
Qed.

(** ** the theorem *)

Theorem no_interleave_locked : forall fw fr sched,
  Forall locked_frame fw -> Forall locked_frame fr ->
  contiguous (tags (run sched (init fw fr))).
Proof. intros. apply (run_inv sched (init fw fr)). apply init_inv; assumption. Qed.

(** ** without the mutex *)

Definition is_write (a : act) : Prop := exists b, a = AWrite b.

(** the next action of [p] continues a frame [p] has already started *)
Definition mid_frame (p : who) (s : state) : Prop :=
  match prog_of s p with
  | (i, _) :: _ => In (p, i) (tags s)
  | [] => False
  end.

(** a schedule in which no goroutine writes while the other one is between
    two Writes of one frame *)
Fixpoint calm (sched : list who) (s : state) : Prop :=
  match sched with
  | [] => True
  | p :: t => ~ mid_frame (other p) s /\
              match step p s with Some s' => calm t s' | None => calm t s end
  end.

Fixpoint nondecr (j : nat) (p : prog) : Prop :=
  match p with
  | [] => True
  | (i, a) :: t => (j <= i)%nat /\ is_write a /\ nondecr i t
  end.

Lemma nondecr_weaken : forall p j j', nondecr j p -> (j' <= j)%nat -> nondecr j' p.
Proof. destruct p as [|[i a] t]; cbn; intros; [exact I|]. intuition lia. Qed.

Lemma nondecr_app : forall f i t, Forall is_write f -> nondecr (S i) t ->
  nondecr i (map (pair (A:=nat) (B:=act) i) f ++ t).
Proof.
  induction f as [|a f IH]; intros i t Hf Ht.
  - cbn. eapply nondecr_weaken; [eassumption|lia].
  - inversion Hf; subst. cbn. split; [lia|]. split; [assumption|]. apply IH; assumption.
Qed.

Lemma number_nondecr : forall fs i, Forall (Forall is_write) fs -> nondecr i (number i fs).
Proof.
  induction fs as [|f t IH]; intros i H; [exact I|].
  inversion H; subst. cbn [number]. apply nondecr_app; [assumption|]. apply IH. assumption.
Qed.

Definition Inv2 (s : state) : Prop :=
  contiguous (tags s) /\ holder s = None /\
  forall p, (exists j, nondecr j (prog_of s p) /\ forall i, In (p, i) (tags s) -> (i <= j)%nat) /\
            (mid_frame p s -> exists i a t, prog_of s p = (i, a) :: t /\ lastt (tags s) = Some (p, i)).

Lemma tag_in_dec : forall (x : tag) l, {In x l} + {~ In x l}.
Proof.
  intros. apply in_dec. intros [p i] [q j].
  destruct (Nat.eq_dec i j) as [->|N]; [|right; congruence].
  destruct p, q; (left; reflexivity) || (right; discriminate).
Qed.

Lemma in_snoc_other : forall (l : list tag) p q i k, p <> q -> In (p, k) (l ++ [(q, i)]) -> In (p, k) l.
Proof.
  intros l p q i k N I. apply in_app_or in I. destruct I as [I|[I|[]]]; [exact I|].
  inversion I; subst. contradiction.
Qed.

Lemma step_inv2 : forall p s s', Inv2 s -> ~ mid_frame (other p) s -> step p s = Some s' -> Inv2 s'.
Proof.
  intros p [pw pr ho wi] s' (C & H & I) Q HS. unfold Inv2, step, mid_frame, tags in *.
  cbn [holder wire prog_of progW progR] in *. subst ho.
  destruct (I p) as [(j & N & B) M]. destruct (I (other p)) as [(jo & No & Bo) Mo].
  destruct p; cbn [prog_of other progW progR set_prog holder wire] in *.
  - (* the writer moves *)
    destruct pw as [|[i a] t]; [discriminate|].
    cbn [nondecr] in N. destruct N as (Lj & [b ->] & Nt).
    inversion HS; subst; clear HS. cbn [holder wire prog_of progW progR].
    rewrite tags_snoc.
    assert (lastt (map fst wi) = Some (W, i) \/ ~ In (W, i) (map fst wi)) as LN.
    { destruct (tag_in_dec (W, i) (map fst wi)) as [Y|Y]; [left|right; exact Y].
      destruct (M Y) as (i' & a' & t' & E' & L). inversion E'; subst. exact L. }
    split; [apply contiguous_snoc; assumption|]. split; [reflexivity|].
    intros [|]; cbn [prog_of progW progR]; split.
    + exists i. split; [exact Nt|]. intros k Ik. apply in_app_or in Ik.
      destruct Ik as [Ik|[Ik|[]]]; [specialize (B k Ik); lia|inversion Ik; lia].
    + destruct t as [|[i' a'] t']; [intros []|]. intro Ik.
      exists i', a', t'. split; [reflexivity|]. rewrite lastt_snoc.
      cbn [nondecr] in Nt. destruct Nt as (Li & _ & _).
      apply in_app_or in Ik. destruct Ik as [Ik|[Ik|[]]].
      * specialize (B i' Ik). f_equal. f_equal. lia.
      * inversion Ik; subst. reflexivity.
    + exists jo. split; [exact No|]. intros k Ik. apply Bo.
      eapply in_snoc_other; [|exact Ik]. discriminate.
    + destruct pr as [|[iq aq] tq]; [intros []|]. intro Ik. exfalso. apply Q.
      eapply in_snoc_other; [|exact Ik]. discriminate.
  - (* the reader moves *)
    destruct pr as [|[i a] t]; [discriminate|].
    cbn [nondecr] in N. destruct N as (Lj & [b ->] & Nt).
    inversion HS; subst; clear HS. cbn [holder wire prog_of progW progR].
    rewrite tags_snoc.
    assert (lastt (map fst wi) = Some (R, i) \/ ~ In (R, i) (map fst wi)) as LN.
    { destruct (tag_in_dec (R, i) (map fst wi)) as [Y|Y]; [left|right; exact Y].
      destruct (M Y) as (i' & a' & t' & E' & L). inversion E'; subst. exact L. }
    split; [apply contiguous_snoc; assumption|]. split; [reflexivity|].
    intros [|]; cbn [prog_of progW progR]; split.
    + exists jo. split; [exact No|]. intros k Ik. apply Bo.
      eapply in_snoc_other; [|exact Ik]. discriminate.
    + destruct pw as [|[iq aq] tq]; [intros []|]. intro Ik. exfalso. apply Q.
      eapply in_snoc_other; [|exact Ik]. discriminate.
    + exists i. split; [exact Nt|]. intros k Ik. apply in_app_or in Ik.
      destruct Ik as [Ik|[Ik|[]]]; [specialize (B k Ik); lia|inversion Ik; lia].
    + destruct t as [|[i' a'] t']; [intros []|]. intro Ik.
      exists i', a', t'. split; [reflexivity|]. rewrite lastt_snoc.
      cbn [nondecr] in Nt. destruct Nt as (Li & _ & _).
      apply in_app_or in Ik. destruct Ik as [Ik|[Ik|[]]].
      * specialize (B i' Ik). f_equal. f_equal. lia.
      * inversion Ik; subst. reflexivity.
Qed.

Lemma run_inv2 : forall sched s, Inv2 s -> calm sched s -> Inv2 (run sched s).
Proof.
  induction sched as [|p t IH]; intros s I C; [exact I|]. cbn [run calm] in *.
  destruct C as [Q C]. destruct (step p s) as [s'|] eqn:E.
  - apply IH; [eapply step_inv2; eassumption|exact C].
  - apply IH; assumption.
Qed.

Lemma init_inv2 : forall fw fr, Forall (Forall is_write) fw -> Forall (Forall is_write) fr ->
  Inv2 (init fw fr).
Proof.
  intros fw fr Hw Hr. split; [constructor|]. split; [reflexivity|].
  intro p. split.
  - exists 0%nat. split; [destruct p; apply number_nondecr; assumption|intros i []].
  - unfold mid_frame. cbn. destruct (prog_of (init fw fr) p) as [|[i a] t]; intros [].
Qed.

(** without a mutex the frames stay contiguous exactly as long as no goroutine
    writes while the other is in the middle of a frame *)
Theorem no_interleave_calm : forall fw fr sched,
  Forall (Forall is_write) fw -> Forall (Forall is_write) fr ->
  calm sched (init fw fr) ->
  contiguous (tags (run sched (init fw fr))).
Proof. intros. apply (run_inv2 sched (init fw fr)); [apply init_inv2; assumption|assumption]. Qed.
