(** * RawSocket handshake: outcome vocabulary and the protocol-level
    description (definitions only; independent of the generated code, so that
    it can also be extracted on its own as the monitor of the check) *)

From Coq Require Import String ZArith List Bool.
From Nexus Require Import Transport.GoArith Transport.RawOps.
Import ListNotations.
Open Scope Z_scope.

Definition hs_written (r : hs_result) : list (list Z) :=
  match r with HsErr w _ => w | HsPeer w _ _ _ => w end.

Definition hs_is_peer (r : hs_result) : bool :=
  match r with HsPeer _ _ _ _ => true | _ => false end.

(** equality of outcomes up to the text of the error *)
Definition list_eqb (a b : list Z) : bool :=
  (length a =? length b)%nat && forallb (fun p => fst p =? snd p) (combine a b).

Definition writes_eqb (a b : list (list Z)) : bool :=
  (length a =? length b)%nat && forallb (fun p => list_eqb (fst p) (snd p)) (combine a b).

Definition hs_eqb (a b : hs_result) : bool :=
  match a, b with
  | HsErr w _, HsErr w' _ => writes_eqb w w'
  | HsPeer w s sl rl, HsPeer w' s' sl' rl' =>
      writes_eqb w w' && serializer_eqb s s' && (sl =? sl') && (rl =? rl')
  | _, _ => false
  end.

Definition ser_of_byte (p : Z) : serializer :=
  if p =? 1 then SerJSON else if p =? 2 then SerMsgpack else if p =? 3 then SerCBOR else SerNone.

(** the length a nibble announces *)
Definition announced (k : Z) : Z := 2 ^ (k + 9).

(** ** protocol-level description *)

(** server: [k] is the nibble it announces (fit of its configured limit) *)
Definition spec_server (k b0 b1 b2 b3 : Z) : hs_result :=
  if negb (b0 =? 127) then HsErr [] "not a rawsocket handshake"
  else if negb (b2 =? 0) || negb (b3 =? 0) then HsErr [[127; 48; 0; 0]] "reserved bits"
  else let ser := b1 mod 16 in
       if ser =? 0 then HsErr [] "illegal serializer"
       else if 3 <? ser then HsErr [[127; 16; 0; 0]] "serializer unsupported"
       else HsPeer [[127; k * 16 + ser; 0; 0]] (ser_of_byte ser) (announced (b1 / 16)) (announced k).

(** client with protocol byte [proto], announcing nibble [k] *)
Definition spec_hello (k proto : Z) : list Z := [127; k * 16 + proto; 0; 0].

Definition spec_client (k proto r0 r1 : Z) : hs_result :=
  if negb (r0 =? 127) then HsErr [spec_hello k proto] "not a rawsocket handshake"
  else let ser := r1 mod 16 in
       if ser =? 0 then HsErr [spec_hello k proto] "error reply"
       else if negb (ser =? proto) then HsErr [spec_hello k proto] "serializer mismatch"
       else HsPeer [spec_hello k proto] (ser_of_byte proto) (announced (r1 / 16)) (announced k).

(** the nibble a peer announces for a configured receive limit: the least k
    with limit <= 2^(9+k), 15 when the limit is not positive or too large *)
Definition spec_fit (r : Z) : Z :=
  if r <=? 0 then 15
  else match for_range_first 15 0 (fun k => if r <=? 2 ^ (k + 9) then Some k else None) with
       | Some k => k
       | None => 15
       end.

(** the whole exchange as functions of the bytes the other side sends *)
Definition spec_accept (cfg : Z) (input : list Z) : hs_result :=
  match input with
  | b0 :: b1 :: b2 :: b3 :: _ => spec_server (spec_fit cfg) b0 b1 b2 b3
  | _ => HsErr [] "read error"
  end.

Definition spec_connect (cfg proto : Z) (input : list Z) : hs_result :=
  match input with
  | r0 :: r1 :: _ :: _ :: _ => spec_client (spec_fit cfg) proto r0 r1
  | _ => HsErr [spec_hello (spec_fit cfg) proto] "read error"
  end.
