(** * Writer goroutine + reader goroutine + connection: who writes what to
    the wire, in which order (definitions only)

    A rawSocketPeer has two goroutines that call [conn.Write]: [sendHandler]
    (one frame per message: header and body) and [recvHandler] (the PONG
    answering a PING: header and payload).  Each [conn.Write] call is atomic
    on the connection, but nothing else is: the two goroutines are two
    processes whose [Write]s land on the wire in schedule order.  The machine
    below has exactly that: two programs of [ALock] / [AUnlock] / [AWrite]
    actions over one mutex and one wire, and a scheduler that picks the next
    process arbitrarily.  The programs are derived from the op lists the
    translator extracts from the Go code. *)

From Coq Require Import String ZArith List Bool.
From Nexus Require Import Transport.GoArith Transport.RawOps Transport.RawFrame.
Import ListNotations.
Open Scope Z_scope.

Inductive who := W | R.   (* writer goroutine (sendHandler), reader goroutine (recvHandler) *)

Definition who_eqb (a b : who) : bool :=
  match a, b with W, W | R, R => true | _, _ => false end.

Definition other (p : who) : who := match p with W => R | R => W end.

(** skeleton of what a goroutine does for ONE frame, relative to mutex [m] *)
Inductive sk := SLock | SUnlock | SWrite (ps : list part).

Definition skel_w (m : String.string) (ops : list wop) : list sk :=
  flat_map (fun o => match o with
                     | WLock m' => if String.eqb m m' then [SLock] else []
                     | WUnlock m' => if String.eqb m m' then [SUnlock] else []
                     | WWrite ps => [SWrite ps]
                     end) ops.

(** [REcho] (io.CopyN from the connection to itself) is at least one Write of
    payload bytes *)
Definition skel_r (m : String.string) (ops : list rop) : list sk :=
  flat_map (fun o => match o with
                     | RLock m' => if String.eqb m m' then [SLock] else []
                     | RUnlock m' => if String.eqb m m' then [SUnlock] else []
                     | RWrite ps => [SWrite ps]
                     | REcho _ => [SWrite [PPayload]]
                     | _ => []
                     end) ops.

(** lock; one or more writes; unlock *)
Fixpoint writes_then_unlock (l : list sk) : bool :=
  match l with
  | [SUnlock] => true
  | SWrite _ :: t => writes_then_unlock t
  | _ => false
  end.

Definition sk_shape_ok (l : list sk) : bool :=
  match l with
  | SLock :: (SWrite _ :: _) as t => writes_then_unlock t
  | _ => false
  end.

Definition first_lock (ops : list wop) : option String.string :=
  match filter (fun o => match o with WLock _ => true | _ => false end) ops with
  | WLock m :: _ => Some m
  | _ => None
  end.

(** both goroutines write each of their frames inside one critical section of
    one common mutex *)
Definition discipline_ok (sops : list wop) (pops : list rop) : bool :=
  match first_lock sops with
  | Some m => sk_shape_ok (skel_w m sops) && sk_shape_ok (skel_r m pops)
  | None => false
  end.

(** ** the machine *)

Inductive act := ALock | AUnlock | AWrite (bytes : list Z).

Definition fill (hdr body : list Z) (s : sk) : act :=
  match s with
  | SLock => ALock
  | SUnlock => AUnlock
  | SWrite ps => AWrite (concat (map (part_bytes hdr body) ps))
  end.

(** a program: the actions of successive frames, each tagged with its frame number *)
Definition prog := list (nat * act).

Fixpoint number (i : nat) (frames : list (list act)) : prog :=
  match frames with
  | [] => []
  | f :: t => map (pair i) f ++ number (S i) t
  end.

Record state := mkState {
  progW : prog;
  progR : prog;
  holder : option who;
  wire : list (who * nat * list Z)     (* owner, frame number, bytes of one Write *)
}.

Definition prog_of (s : state) (p : who) : prog := match p with W => progW s | R => progR s end.

Definition set_prog (s : state) (p : who) (pr : prog) : state :=
  match p with
  | W => mkState pr (progR s) (holder s) (wire s)
  | R => mkState (progW s) pr (holder s) (wire s)
  end.

(** one step of process [p]; [None] when [p] is finished or blocked on the mutex *)
Definition step (p : who) (s : state) : option state :=
  match prog_of s p with
  | [] => None
  | (i, a) :: t =>
      match a with
      | ALock => match holder s with
                 | None => let s' := set_prog s p t in
                           Some (mkState (progW s') (progR s') (Some p) (wire s'))
                 | Some _ => None
                 end
      | AUnlock => let s' := set_prog s p t in
                   Some (mkState (progW s') (progR s') None (wire s'))
      | AWrite b => let s' := set_prog s p t in
                    Some (mkState (progW s') (progR s') (holder s') (wire s' ++ [(p, i, b)]))
      end
  end.

(** run a schedule: a process that cannot move is skipped *)
Fixpoint run (sched : list who) (s : state) : state :=
  match sched with
  | [] => s
  | p :: t => match step p s with Some s' => run t s' | None => run t s end
  end.

Definition init (fw fr : list (list act)) : state :=
  mkState (number 0 fw) (number 0 fr) None [].

Definition finished (s : state) : bool :=
  match progW s, progR s with [], [] => true | _, _ => false end.

(** ** contiguity *)

Definition tag := (who * nat)%type.

Definition tag_eqb (a b : tag) : bool := who_eqb (fst a) (fst b) && Nat.eqb (snd a) (snd b).

Definition tags (s : state) : list tag := map fst (wire s).

(** drop repetitions of the same tag in a row *)
Fixpoint collapse (l : list tag) : list tag :=
  match l with
  | [] => []
  | x :: t => match t with
              | y :: _ => if tag_eqb x y then collapse t else x :: collapse t
              | [] => [x]
              end
  end.

(** every frame's Writes are adjacent on the wire: after collapsing runs of
    equal tags no tag occurs twice *)
Definition contiguous (l : list tag) : Prop := NoDup (collapse l).

Fixpoint nodupb (l : list tag) : bool :=
  match l with
  | [] => true
  | x :: t => negb (existsb (tag_eqb x) t) && nodupb t
  end.

Definition contiguousb (l : list tag) : bool := nodupb (collapse l).

Definition wire_bytes (s : state) : list Z := concat (map snd (wire s)).

(** ** programs of the two goroutines, from the extracted op lists *)

Definition frame_acts_w (P : params) (m : String.string) (body : list Z) : list act :=
  map (fill (p_send_header P (len body)) body) (skel_w m (p_send_ops P)).

(** the reader answering a PING whose header is [hdr] and payload [p]: the
    header it writes back has the type byte replaced (RSetHeader) *)
Definition apply_sets (ops : list rop) (hdr : list Z) : list Z :=
  fold_left (fun h o => match o with RSetHeader i v => set_idx h i v | _ => h end) ops hdr.

Definition frame_acts_r (pops : list rop) (m : String.string) (hdr p : list Z) : list act :=
  map (fill (apply_sets pops hdr) p) (skel_r m pops).
