(** * Vocabulary shared by the generated file [gen/GenC15.v] and the model
    (definitions only).

    The translator emits the arithmetic of [rawsocketpeer.go] as Gallina
    functions and the *shape* of the handshake functions and of the two
    handler goroutines as values of the types below. *)

From Coq Require Import String ZArith List Bool.
Import ListNotations.
Open Scope Z_scope.

(** ** Handshake outcome *)

Inductive serializer := SerNone | SerJSON | SerMsgpack | SerCBOR.

(** [HsErr w e]: the handshake function returned [nil, error] after the
    [conn.Write] calls [w] (each element one call); the exported wrapper
    ([AcceptRawSocket] / [ConnectRawSocketPeer]) then closes the connection.
    [HsPeer w ser s r]: it returned [newRawSocketPeer(conn, ser, _, s, r, _)]. *)
Inductive hs_result :=
| HsErr (written : list (list Z)) (err : String.string)
| HsPeer (written : list (list Z)) (ser : serializer) (sendLimit recvLimit : Z).

(** ** Handler goroutine shapes *)

Inductive part := PHeader | PPayload.

(** what [sendHandler] does with one serialized message that passed the limit
    test, in order.  [WWrite ps] is ONE call of [conn.Write] whose argument is
    the concatenation of [ps]. *)
Inductive wop :=
| WLock (m : String.string)
| WUnlock (m : String.string)
| WWrite (ps : list part).

(** what one [case] of the frame-type switch of [recvHandler] does, in order.
    An I/O error on a read ends the handler through "close the connection and
    return" (the translator checks that shape); running off the end of the
    list leaves the switch, i.e. the current value of [msg] is delivered on
    the [rd] channel. *)
Inductive rop :=
| RReadBody (n : Z)               (* buf := make([]byte, n); io.ReadFull(conn, buf) *)
| RDeserialize                    (* msg, err = Deserialize(buf); err -> continue loop *)
| RSetHeader (i : nat) (v : Z)    (* header[i] = v *)
| RWrite (ps : list part)         (* one conn.Write *)
| REcho (n : Z)                   (* io.CopyN(conn, conn, n) *)
| RDiscard (n : Z)                (* io.CopyN(io.Discard, conn, n) *)
| RLock (m : String.string)
| RUnlock (m : String.string)
| RContinue                       (* continue MsgLoop *)
| RCloseReturn.                   (* conn.Close(); return  (or break out of the loop) *)

(** ** websocket sender loops *)

(** what a websocket sender loop does with one queued message: whether the
    loop goes on with the next message or the goroutine returns, and whether
    [WriteMessage] is called, when [Serialize] fails / when everything
    succeeds / when the write fails *)
Inductive ws_after := WsNext | WsStop.

Record ws_send_shape := {
  ws_on_ser_error : ws_after;
  ws_ser_error_writes : bool;
  ws_on_write_ok : ws_after;
  ws_ok_writes : bool;
  ws_on_write_error : ws_after
}.

Definition serializer_eqb (a b : serializer) : bool :=
  match a, b with
  | SerNone, SerNone | SerJSON, SerJSON | SerMsgpack, SerMsgpack | SerCBOR, SerCBOR => true
  | _, _ => false
  end.
