(** * The rawsocket peer as it is in the unpatched tree: a hand transcription
    used to state what is wrong with it (definitions and concrete witnesses).

    Three differences from [RawSpec.spec_params]:
    - the frame-type switch has no default clause: for the reserved types 3..7
      control leaves the switch with [msg] still nil and nil is delivered;
    - the send-side limit test is only [len(b) > sendLimit], so with the
      largest announced limit (2^24) a body of exactly 2^24 bytes is framed;
      its length does not fit three bytes and is written as 0;
    - header and body of a frame are two [conn.Write] calls with no mutual
      exclusion against the PONG reply the reader goroutine writes. *)

From Coq Require Import String ZArith List Bool Lia.
From Nexus Require Import Transport.GoArith Transport.RawOps Transport.RawFrame Transport.RawSpec
  Transport.PeerDiscipline.
Import ListNotations.
Open Scope Z_scope.

Definition legacy_ping_ops (n : Z) : list rop :=
  [RSetHeader 0 2; RWrite [PHeader]; REcho n; RContinue].

Definition legacy_send_ops : list wop := [WWrite [PHeader]; WWrite [PPayload]].

Definition legacy_params : params := {|
  p_recv_length := p_recv_length spec_params;
  p_recv_over := fun l lim => l >? lim;
  p_recv_over_ops := [RCloseReturn];
  p_frame_tag := p_frame_tag spec_params;
  p_frame_cases := fun n =>
    [(0, [RReadBody n; RDeserialize]); (1, legacy_ping_ops n); (2, [RDiscard n; RContinue])];
  p_frame_default := fun _ => [];
  p_send_drop := fun l lim => l >? lim;
  (* intToBytes keeps the low 24 bits *)
  p_send_header := fun l => [0; (l / 65536) mod 256; (l / 256) mod 256; l mod 256];
  p_send_ops := legacy_send_ops
|}.

(** (a) a frame of reserved type makes the reader deliver nil *)
Example legacy_reserved_delivers_nil :
  recv (fun _ => true) legacy_params 512 [3; 0; 0; 0] = [EvNil; EvEOF].
Proof. vm_compute. reflexivity. Qed.

(** (b) a body of exactly 2^24 bytes is not dropped and its header says 0 *)
Example legacy_limit_wraps :
  p_send_drop legacy_params 16777216 16777216 = false /\
  p_send_header legacy_params 16777216 = [0; 0; 0; 0].
Proof. vm_compute. split; reflexivity. Qed.

(** (c) the reader's PONG between the writer's header and body *)
Definition ex_body : list Z := [91; 93].                 (* "[]" *)
Definition ex_ping_hdr : list Z := [1; 0; 0; 1].
Definition ex_ping_payload : list Z := [7].

Definition legacy_example_state : state :=
  run [W; R; R; W]
      (init [frame_acts_w legacy_params "m" ex_body]
            [frame_acts_r (legacy_ping_ops 1) "m" ex_ping_hdr ex_ping_payload]).

Example legacy_example_wire :
  wire_bytes legacy_example_state = [0; 0; 0; 2] ++ [2; 0; 0; 1] ++ [7] ++ [91; 93] /\
  finished legacy_example_state = true /\
  contiguousb (tags legacy_example_state) = false.
Proof. vm_compute. repeat split; reflexivity. Qed.

(** what a correct receiver makes of that wire: a two-byte "message" made of
    PONG header bytes, then garbage *)
Example legacy_example_parse :
  recv (fun _ => true) spec_params 512 (wire_bytes legacy_example_state) = [EvMsg [2; 0]; EvClose].
Proof. vm_compute. reflexivity. Qed.
