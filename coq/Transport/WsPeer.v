(** * The websocket peer's sender loops (definitions only)

    One websocket message per WAMP message: gorilla/websocket does the
    framing (not modelled).  What is modelled is the loop of [sendHandler] /
    [sendHandlerKeepAlive] around it, as the translator extracts it
    ([RawOps.ws_send_shape]): what is written for a queue of messages some of
    which the codec cannot encode.  Writes succeed in the model. *)

From Coq Require Import String ZArith List Bool.
From Nexus Require Import Transport.GoArith Transport.RawOps.
Import ListNotations.
Open Scope Z_scope.

Section WsSend.
  Variable M : Type.
  (** the codec: [None] when the message cannot be serialized *)
  Variable ser : M -> option (list Z).
  Variable sh : ws_send_shape.

  (** the [WriteMessage] calls for the queue [msgs], in order *)
  Fixpoint ws_send (msgs : list M) : list (list Z) :=
    match msgs with
    | [] => []
    | m :: t =>
        match ser m with
        | Some b =>
            (if ws_ok_writes sh then [b] else []) ++
            match ws_on_write_ok sh with WsNext => ws_send t | WsStop => [] end
        | None =>
            (if ws_ser_error_writes sh then [[]] else []) ++
            match ws_on_ser_error sh with WsNext => ws_send t | WsStop => [] end
        end
    end.

  (** the serializable messages, in order *)
  Fixpoint keep_ser (msgs : list M) : list (list Z) :=
    match msgs with
    | [] => []
    | m :: t => match ser m with Some b => b :: keep_ser t | None => keep_ser t end
    end.
End WsSend.

(** a message that cannot be serialized is skipped, nothing is written for it,
    and the loop goes on; a serializable one is written and the loop goes on *)
Definition ws_shape_ok (sh : ws_send_shape) : bool :=
  match ws_on_ser_error sh, ws_on_write_ok sh with
  | WsNext, WsNext => negb (ws_ser_error_writes sh) && ws_ok_writes sh
  | _, _ => false
  end.

Definition ws_spec_shape : ws_send_shape :=
  {| ws_on_ser_error := WsNext; ws_ser_error_writes := false;
     ws_on_write_ok := WsNext; ws_ok_writes := true; ws_on_write_error := WsStop |}.
