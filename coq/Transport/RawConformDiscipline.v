(** * Per-run conformance: how the two writing goroutines of the regenerated
    code exclude each other.  Either both write their frames inside one
    critical section of a common mutex ([discipline_ok], the theorem
    [no_interleave] then applies), or the code has exactly the known unlocked
    shape for which [no_interleave_refuted] / [no_interleave_partial] are
    stated.  Anything else is a broken tie. *)

From Coq Require Import String ZArith List Bool.
From Nexus Require Import Transport.GoArith Transport.RawOps Transport.RawFrame Transport.RawSpec
  Transport.PeerDiscipline Transport.RawGen Transport.RawLegacy gen.GenC15.
Import ListNotations.
Open Scope Z_scope.

Lemma gen_discipline_classified :
  discipline_ok GenC15.send_ops gen_ping_ops = true \/
  (GenC15.send_ops = legacy_send_ops /\ gen_ping_ops = legacy_ping_ops 0).
Proof. first [left; vm_compute; reflexivity | right; split; reflexivity]. Qed.
