(** * Per-run conformance: the arithmetic regenerated from /repo computes
    what the protocol says (byteToLength, fitRecvLimit, intToBytes,
    bytesToInt).  Re-proved against [gen/GenC15.v] on every check. *)

From Coq Require Import String ZArith List Bool Lia.
From Nexus Require Import Transport.GoArith Transport.RawOps Transport.RawFrame
  Transport.RawSpec Transport.RawProofs Transport.ArithLemmas gen.GenC15.
Import ListNotations.
Open Scope Z_scope.

(** ** byteToLength: the announced nibble k stands for 2^(9+k) *)

Lemma gen_byte_to_length : forall k, 0 <= k <= 15 -> byte_to_length k = 2 ^ (k + 9).
Proof.
  intros k H. apply Z.eqb_eq. revert k H.
  assert (forall k, 0 <= k < Z.of_nat 16 -> (byte_to_length k =? 2 ^ (k + 9)) = true) as A.
  { apply forall_zrange. vm_compute. reflexivity. }
  intros k H. apply A. lia.
Qed.

(** ** fitRecvLimit: the least announced limit that is >= the configured one,
    the maximum (15) for a non-positive or too large configuration *)

Definition fit_ok (r k : Z) : Prop :=
  0 <= k <= 15 /\
  (r <= 0 -> k = 15) /\
  (0 < r -> (r <= 2 ^ (k + 9) \/ k = 15) /\ (k = 0 \/ 2 ^ (k + 8) < r)).

Ltac closed_wrt r t := lazymatch t with context [r] => fail | _ => idtac end.

(** evaluate the closed integer subterms (everything not mentioning [r]) *)
Ltac eval_closed r :=
  repeat match goal with
  | |- context [byte_to_length ?a] =>
      closed_wrt r a; let v := eval vm_compute in (byte_to_length a) in
      progress change (byte_to_length a) with v
  | |- context [shl_s ?k ?a ?s] =>
      closed_wrt r a; closed_wrt r s; let v := eval vm_compute in (shl_s k a s) in
      progress change (shl_s k a s) with v
  | |- context [shl_u ?k ?a ?s] =>
      closed_wrt r a; closed_wrt r s; let v := eval vm_compute in (shl_u k a s) in
      progress change (shl_u k a s) with v
  | |- context [Z.add ?a ?b] =>
      closed_wrt r a; closed_wrt r b; let v := eval vm_compute in (Z.add a b) in
      progress change (Z.add a b) with v
  end.

Ltac hyps_to_prop :=
  repeat match goal with
  | H : (_ >? _) = true |- _ => apply Z.gtb_lt in H
  | H : (_ >? _) = false |- _ => rewrite Z.gtb_ltb in H; apply Z.ltb_ge in H
  | H : (_ >=? _) = true |- _ => apply Z.geb_le in H
  | H : (_ >=? _) = false |- _ => rewrite Z.geb_leb in H; apply Z.leb_gt in H
  | H : (_ <? _) = true |- _ => apply Z.ltb_lt in H
  | H : (_ <? _) = false |- _ => apply Z.ltb_ge in H
  | H : (_ <=? _) = true |- _ => apply Z.leb_le in H
  | H : (_ <=? _) = false |- _ => apply Z.leb_gt in H
  | H : (_ =? _) = true |- _ => apply Z.eqb_eq in H
  | H : (_ =? _) = false |- _ => apply Z.eqb_neq in H
  end.

Lemma gen_fit_recv_limit : forall r, fit_ok r (fit_recv_limit r).
Proof.
  intro r. unfold fit_recv_limit. cbn [for_range_first]. eval_closed r.
  repeat (match goal with
          | |- context [if ?c then _ else _] => let E := fresh "E" in destruct c eqn:E
          end; cbv beta iota);
    hyps_to_prop; unfold fit_ok;
    repeat match goal with
    | |- context [2 ^ (?a + ?b)] =>
        let v := eval vm_compute in (2 ^ (a + b)) in change (2 ^ (a + b)) with v
    end;
    lia.
Qed.

Lemma gen_fit_range : forall r, 0 <= fit_recv_limit r <= 15.
Proof. intro r. apply (gen_fit_recv_limit r). Qed.

(** ** intToBytes / bytesToInt: big-endian 24-bit length *)

Lemma gen_int_to_bytes : forall n, 0 <= n <= max_len -> int_to_bytes n = len3 n.
Proof.
  intros n H. unfold int_to_bytes, len3, max_len in *.
  rewrite !shr_div by lia.
  change 255 with (2 ^ 8 - 1). rewrite !land_ones_mod by lia.
  rewrite !wrap_u_mod by lia.
  change (2 ^ 8) with 256. change (2 ^ 16) with 65536.
  rewrite (Z.mod_small (n / 65536) 256)
    by (split; [apply Z.div_pos; lia|apply Z.div_lt_upper_bound; lia]).
  reflexivity.
Qed.

Lemma gen_bytes_to_int3 : forall a b c, is_byte a -> is_byte b -> is_byte c ->
  bytes_to_int [a; b; c] = a * 65536 + b * 256 + c.
Proof.
  intros a b c Ha Hb Hc. unfold is_byte in *.
  unfold bytes_to_int. cbv [rev app fold_left].
  repeat match goal with
  | |- context [wrap_u 64 (?x + 8)] =>
      let v := eval vm_compute in (wrap_u 64 (x + 8)) in change (wrap_u 64 (x + 8)) with v
  end.
  rewrite (shl_u_small 64 c 0), (shl_u_small 64 b 8), (shl_u_small 64 a 16) by lia.
  change (2 ^ 0) with 1. change (2 ^ 8) with 256. change (2 ^ 16) with 65536.
  rewrite Z.lor_0_l, Z.mul_1_r.
  change 256 with (2 ^ 8) at 1. rewrite (lor_disjoint_add c b 8) by lia.
  change 65536 with (2 ^ 16) at 1. rewrite (lor_disjoint_add (c + b * 2 ^ 8) a 16) by lia.
  rewrite wrap_s_small by lia. change (2 ^ 8) with 256. change (2 ^ 16) with 65536. lia.
Qed.

Lemma gen_length_roundtrip : forall n, 0 <= n < 2 ^ 24 -> bytes_to_int (int_to_bytes n) = n.
Proof.
  intros n H. change (2 ^ 24) with 16777216 in H.
  rewrite gen_int_to_bytes by (unfold max_len; lia).
  pose proof (len3_bytes n ltac:(unfold max_len; lia)) as B.
  unfold len3 in *. inversion B as [|? ? B1 B']; subst. inversion B' as [|? ? B2 B'']; subst.
  inversion B'' as [|? ? B3 _]; subst.
  rewrite gen_bytes_to_int3 by assumption. apply len3_value. lia.
Qed.
