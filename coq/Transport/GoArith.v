(** * Go integer semantics used by the C15 translator (definitions only)

    The translator [/verif/go/cmd/genc15] turns the straight-line integer
    code of [transport/rawsocketpeer.go] into Gallina over [Z].  A Go value of
    an integer type is represented by the mathematical integer it denotes;
    every operation whose Go result may leave the range of its type is emitted
    through one of the wrappers below, so wrap-around is explicit in the
    generated terms.  Platform assumption (amd64, as the baseline builds):
    [int] and [uint] are 64 bits wide.

    This file is part of the trusted reading of Go (DESIGN section 9). *)

From Coq Require Import ZArith List Bool.
Import ListNotations.
Open Scope Z_scope.

(** unsigned wrap to [k] bits: the value modulo 2^k *)
Definition wrap_u (k x : Z) : Z := x mod 2 ^ k.

(** signed wrap to [k] bits: two's complement reinterpretation *)
Definition wrap_s (k x : Z) : Z := (x + 2 ^ (k - 1)) mod 2 ^ k - 2 ^ (k - 1).

(** [x << s] at an unsigned / signed type of [k] bits.  Go: a shift count at
    least the width gives 0; the count is never negative here (the translator
    only accepts unsigned or constant counts). *)
Definition shl_u (k x s : Z) : Z := if s <? k then wrap_u k (Z.shiftl x s) else 0.
Definition shl_s (k x s : Z) : Z := if s <? k then wrap_s k (Z.shiftl x s) else 0.

(** [x >> s]: arithmetic for signed, logical for unsigned; on mathematical
    integers inside the type's range both are [Z.shiftr]. *)
Definition shr (x s : Z) : Z := Z.shiftr x s.

(** [for v := range n { if ... { return ... } }] with a constant [n] and a
    body that either returns or falls through: the first [Some] wins. *)
Fixpoint for_range_first {A : Type} (n : nat) (start : Z) (body : Z -> option A) : option A :=
  match n with
  | O => None
  | S n' => match body start with
            | Some r => Some r
            | None => for_range_first n' (start + 1) body
            end
  end.

(** [io.ReadFull(conn, buf[:])] on a peer that sends [input] and then closes:
    the first [n] bytes and the rest, or [None] (read error). *)
Definition read_n (n : nat) (input : list Z) : option (list Z * list Z) :=
  if (length input <? n)%nat then None else Some (firstn n input, skipn n input).

(** slice / array indexing with a constant or in-range index *)
Definition idx (l : list Z) (i : Z) : Z := nth (Z.to_nat i) l 0.

(** [a[i] = v] *)
Fixpoint set_idx (l : list Z) (i : nat) (v : Z) : list Z :=
  match l, i with
  | [], _ => []
  | _ :: t, O => v :: t
  | h :: t, S i' => h :: set_idx t i' v
  end.

Definition len (l : list Z) : Z := Z.of_nat (length l).

Definition is_byte (b : Z) : Prop := 0 <= b < 256.
Definition is_byteb (b : Z) : bool := (0 <=? b) && (b <? 256).
