(** C08 — the attribution table is what the LTS does: in every reachable
    state, a message of an owned kind is enqueued by its owner and by nobody
    else.  (The ordering proofs use exactly this: InvEvent/InvCall/InvScan/
    InvRec/InvYield discharge the "somebody else sends" cases with it.) *)
From Coq Require Import List NArith Bool String.
From Nexus Require Import Order.Model Order.Spec Order.SpecProofs Order.InvBase Order.InvSend
  Order.InvEvent Order.Sites.
Import ListNotations.
Open Scope N_scope.

Definition kind_of (m : smsg) : mkind :=
  match m with
  | SEvent _ _ _ _ => KEvent
  | SSubscribed _ => KSubscribed
  | SUnsubscribed _ => KUnsubscribed
  | SPublished _ => KPublished
  | SInvocation _ _ _ _ _ _ => KInvocation
  | SRegistered _ => KRegistered
  | SUnregistered _ => KUnregistered
  | SResult _ _ _ _ _ => KResult
  | SErrorCall _ _ => KErrorCall
  | SOther _ => KOtherMsg
  end.

Definition gor_of (who : sender) : gor :=
  match who with
  | ByWorker Broker => GBroker
  | ByWorker Dealer => GDealer
  | ByHandler => GHandler
  end.

Theorem model_owner_sound : forall cf st l st',
  reach cf st -> step cf st l = Some st' -> sends l = true ->
  exists r m ok who,
    att st' = upd (att st) r (att st r ++ [(m, ok)]) /\
    forall g, owner (kind_of m) = Some g -> gor_of who = g.
Proof.
  intros cf st l st' Hr H S. apply base_reach in Hr as [B _].
  destruct (send_step _ _ _ _ S H) as [r0 [m [ok [who [Ea [_ [_ [_ [_ [_ Hw]]]]]]]]]].
  exists r0, m, ok, who. split; auto. intros g Hg.
  destruct who as [w|].
  - destruct Hw as [_ [_ [from [q [cm [again [op [rest [Ew [Ehd _]]]]]]]]]].
    destruct w.
    + pose proof (b_broker st B) as Wb. unfold wf_broker in Wb. rewrite Ew in Wb.
      simpl in Wb. apply andb_true_iff in Wb as [Wb _].
      destruct (bop_ok_inv _ Wb) as [r1 [m1 [-> Km]]]. simpl in Ehd. inv Ehd.
      destruct m; simpl in *; try discriminate; inv Hg; reflexivity.
    + pose proof (b_dealer st B) as Wd. unfold wf_dealer in Wd. rewrite Ew in Wd.
      destruct Wd as [Wd _]. simpl in Wd. apply andb_true_iff in Wd as [Wd _].
      pose proof (dop_head_kind _ _ _ Wd Ehd) as Km.
      destruct m; simpl in *; try discriminate; inv Hg; reflexivity.
  - destruct Hw as [_ [_ [_ [tl [Eh _]]]]].
    pose proof (b_hpost st B r0 _ Eh) as Kh. simpl in Kh. apply andb_true_iff in Kh as [Kh _].
    destruct m; simpl in *; try discriminate.
Qed.

(** the LTS's hand-over discipline, as stated in [model_shape] / [submit_ok]:
    YIELD closures are waited for; a closure is started only by an idle worker
    (rendezvous on an unbuffered channel, one worker per channel) *)
Lemma model_yield_waits : forall inv p, waits (CYield inv p) = true.
Proof. reflexivity. Qed.

Lemma model_rendezvous : forall cf st s w st',
  step cf st (Submit s w) = Some st' -> wst st w = WIdle.
Proof. intros cf st s w st' H. simpl in H. dm H; auto. Qed.

Lemma model_table_conforms_to_itself : shape_ok model_shape = true.
Proof. reflexivity. Qed.
