(** C08 — per-peer ordering under concurrency: the labelled transition system.

    Definitions only (proofs are in OrderInv*.v / OrderThm.v).

    What is modelled (see /verif/docs/C08.md for the reading of the code):

    - any number of sessions ([sid = N], all per-session components are
      functions of the session id);
    - per session an INBOX (the sequence of messages the client sends, each
      stamped with a ghost sequence number taken from one global counter),
      ONE handler process (router/realm.go handleInboundMessages) and an
      OUTBOX (transport/localpeer.go: a Go channel of capacity [cap]), the
      delivered prefix [dlv] and the ghost attempt log [att] (every try-send
      ever made to that session, with its outcome);
    - two worker processes, broker and dealer (router/broker.go run,
      router/dealer.go run).  Submission is a rendezvous on the unbuffered
      actionChan: [Submit] needs the worker to be [WIdle].  A closure is
      executed as a list of micro operations, one LTS step each, so that the
      sends of the two workers, of the handlers and the receptions of the
      clients interleave in every possible way;
    - the routing tables as far as the ordering claims need them:
      subscription holders, registration callees, call records
      (call -> caller / callee / invocation);
    - everything the code decides from data that is not modelled (URI match,
      callee selection, filters, cancel mode, retry deadline, refusals, map
      iteration order) is an ORACLE carried by the [WorkerRun] label; theorems
      quantify over all oracles. *)
From Coq Require Import List NArith Bool.
Import ListNotations.
Open Scope N_scope.

Definition sid := N.

Inductive worker := Broker | Dealer.

(** Messages a client sends to the router (what the handler dispatches on).
    [CLeaveB] is internal: second phase of leaving (broker.removeSession). *)
Inductive cmsg :=
| CPublish (topic : N) (ack : bool)
| CSubscribe (sb : N)
| CUnsubscribe (sb : N)
| CRegister (rg : N)
| CUnregister (rg : N)
| CCall (req : N) (more : bool)          (* more = CALL.Options.progress *)
| CYield (inv : N) (progress : bool)
| CError (inv : N)
| CCancel (req : N)
| CGoodbye
| CLeaveB.

(** Messages the router sends to a client.  Ghost fields: [pseq] = sequence
    number of the PUBLISH, [cseq] of the CALL message, [yseq] of the YIELD,
    [cid] = sequence number of the first CALL message of the call (also used
    as invocation id), [from] = the yielding session, [closes] = the call
    record was erased together with this reply. *)
Inductive smsg :=
| SEvent (sb : N) (pub : option sid) (topic : N) (pseq : N)
| SSubscribed (sb : N)
| SUnsubscribed (sb : N)
| SPublished (pseq : N)
| SInvocation (rg : N) (inv : N) (caller : sid) (cid : N) (cseq : N) (first : bool)
| SRegistered (rg : N)
| SUnregistered (rg : N)
| SResult (cid : N) (yseq : N) (from : sid) (progress : bool) (closes : bool)
| SErrorCall (cid : N) (closes : bool)
| SOther (k : N).

Record crec := mkcrec {
  c_cid : N; c_caller : sid; c_req : N; c_callee : sid;
  c_inprog : bool; c_canceled : bool }.

(** Micro operations of a closure. *)
Inductive sop :=
| SSend (r : sid) (m : smsg)        (* trySend; no table effect *)
| SReply (r : sid) (m : smsg)       (* erase the call record of m, then trySend m *)
| SAgain.                            (* syncYield returns true *)

Inductive wop :=
| OSimple (o : sop)
| OTry (r : sid) (m : smsg) (eraseok erasefail : bool) (onfail : list sop).
   (* select { case r.Send() <- m: (erase the call record if eraseok)
               default: (erase if erasefail); onfail } *)

Inductive wstate :=
| WIdle
| WBusy (from : sid) (q : N) (m : cmsg)                       (* closure received, not started *)
| WRun (from : sid) (q : N) (m : cmsg) (again : bool) (ops : list wop).

Inductive hstate :=
| HIdle
| HHold (q : N) (m : cmsg)
| HWait (q : N) (m : cmsg)
| HDone (q : N) (m : cmsg) (again : bool)
| HRetry (q : N) (m : cmsg)
| HPost (l : list smsg)
| HGone.

Record oracle := mkoracle {
  o_refuse : bool;             (* the closure takes its refusal branch *)
  o_tg : list (N * sid);       (* (subscription, subscriber) pairs served, in map order *)
  o_callee : sid; o_rg : N;    (* callee / registration selected for a CALL *)
  o_mode : N;                  (* CANCEL mode: 0 skip, 1 kill, other killnowait *)
  o_intr : bool;               (* callee supports call canceling *)
  o_canretry : bool }.         (* YIELD: deadline not reached *)

Inductive label :=
| ClientSend (s : sid) (m : cmsg)
| HandlerTake (s : sid)
| HandlerReject (s : sid)
| Submit (s : sid) (w : worker)
| YieldRetry (s : sid)
| TimerFire (s : sid) (req : N)
| WorkerRun (w : worker) (o : oracle)
| Emit (w : worker)
| Drop (w : worker)
| Tau (w : worker)
| WorkerDone (w : worker)
| HandlerResume (s : sid)
| HandlerEmit (s : sid)
| HandlerDrop (s : sid)
| ClientRecv (s : sid).

Record config := mkconfig {
  cap : nat;             (* capacity of every router-to-client queue *)
  repaired : bool }.     (* a refused continuation chunk of a pending call erases the call
                            (fixes/C08-refused-chunk); false = the code as it is *)

Record state := mkstate {
  gseq : N;                              (* next ghost sequence number *)
  gcid : N;                              (* next ghost call id *)
  inbox : sid -> list (N * cmsg);
  hst : sid -> hstate;
  wst : worker -> wstate;
  subs : list (N * sid);
  regs : list (N * sid);
  calls : list crec;
  outq : sid -> list smsg;
  dlv : sid -> list smsg;
  att : sid -> list (smsg * bool) }.

Definition init : state :=
  mkstate 1 1 (fun _ => []) (fun _ => HIdle) (fun _ => WIdle) [] [] []
          (fun _ => []) (fun _ => []) (fun _ => []).

(* ---------------------------------------------------------------- helpers *)

Definition upd {A} (f : N -> A) (k : N) (v : A) : N -> A :=
  fun x => if x =? k then v else f x.

Definition weqb (a b : worker) : bool :=
  match a, b with Broker, Broker | Dealer, Dealer => true | _, _ => false end.

Definition updw {A} (f : worker -> A) (k : worker) (v : A) : worker -> A :=
  fun x => if weqb x k then v else f x.

Definition pair_eqb (a b : N * N) : bool := (fst a =? fst b) && (snd a =? snd b).

Definition mem_pair (a : N * N) (l : list (N * N)) : bool := existsb (pair_eqb a) l.

Definition add_pair (a : N * N) (l : list (N * N)) : list (N * N) :=
  if mem_pair a l then l else a :: l.

Definition del_pair (a : N * N) (l : list (N * N)) : list (N * N) :=
  filter (fun b => negb (pair_eqb a b)) l.

Definition del_sess (s : sid) (l : list (N * N)) : list (N * N) :=
  filter (fun b => negb (snd b =? s)) l.

Fixpoint nodup_pairs (l : list (N * N)) : bool :=
  match l with
  | [] => true
  | a :: t => negb (mem_pair a t) && nodup_pairs t
  end.

Definition tg_ok (tg holders : list (N * N)) : bool :=
  nodup_pairs tg && forallb (fun a => mem_pair a holders) tg.

Definition erase (cid : N) (l : list crec) : list crec :=
  filter (fun c => negb (c_cid c =? cid)) l.

Definition find_call (caller : sid) (req : N) (l : list crec) : option crec :=
  find (fun c => (c_caller c =? caller) && (c_req c =? req)) l.

Definition find_inv (callee : sid) (inv : N) (l : list crec) : option crec :=
  find (fun c => (c_cid c =? inv) && (c_callee c =? callee)) l.

Definition set_rec (c' : crec) (l : list crec) : list crec :=
  map (fun c => if c_cid c =? c_cid c' then c' else c) l.

Definition cid_of (m : smsg) : N :=
  match m with
  | SResult cid _ _ _ _ => cid
  | SErrorCall cid _ => cid
  | _ => 0
  end.

Definition target (m : cmsg) : worker :=
  match m with
  | CPublish _ _ | CSubscribe _ | CUnsubscribe _ | CLeaveB => Broker
  | _ => Dealer
  end.

(** Does the submitting call wait for the closure (done channel)? *)
Definition waits (m : cmsg) : bool :=
  match m with
  | CRegister _ | CUnregister _ | CYield _ _ | CGoodbye => true
  | _ => false
  end.

Definition after_submit (q : N) (m : cmsg) : hstate :=
  match m with
  | CPublish _ true => HPost [SPublished q]
  | CLeaveB => HGone
  | _ => HIdle
  end.

Definition after_done (q : N) (m : cmsg) (again : bool) : hstate :=
  match m with
  | CYield _ _ => if again then HRetry q m else HIdle
  | CGoodbye => HHold q CLeaveB
  | _ => HIdle
  end.

Definition meta_ops (q : N) (tg : list (N * sid)) : list wop :=
  map (fun a => OSimple (SSend (snd a) (SEvent (fst a) None 0 q))) tg.

(* ---------------------------------------------------------------- closures *)

(** [plan_broker] / [plan_dealer]: what a closure does to the tables when it
    starts and which micro operations it then performs.  [None] = the oracle
    is not admissible in this state. *)
Definition plan_broker (st : state) (from : sid) (q : N) (m : cmsg) (o : oracle)
  : option (list (N * sid) * list wop) :=
  match m with
  | CPublish t _ =>
      if tg_ok (o_tg o) (subs st) then
        Some (subs st,
              map (fun a => OSimple (SSend (snd a) (SEvent (fst a) (Some from) t q))) (o_tg o))
      else None
  | CSubscribe sb =>
      let subs' := add_pair (sb, from) (subs st) in
      if tg_ok (o_tg o) subs' then
        Some (subs', OSimple (SSend from (SSubscribed sb)) :: meta_ops q (o_tg o))
      else None
  | CUnsubscribe sb =>
      if o_refuse o then Some (subs st, [OSimple (SSend from (SOther 1))])
      else
        let subs' := del_pair (sb, from) (subs st) in
        if tg_ok (o_tg o) subs' then
          Some (subs', OSimple (SSend from (SUnsubscribed sb)) :: meta_ops q (o_tg o))
        else None
  | CLeaveB =>
      let subs' := del_sess from (subs st) in
      if tg_ok (o_tg o) subs' then Some (subs', meta_ops q (o_tg o)) else None
  | _ => None
  end.

Definition err_reply (c : crec) : sop := SReply (c_caller c) (SErrorCall (c_cid c) true).

(** result: (registrations, call records, next call id, operations) *)
Definition plan_dealer (cf : config) (st : state) (from : sid) (q : N) (m : cmsg) (o : oracle)
  : option (list (N * sid) * list crec * N * list wop) :=
  let same := fun ops => Some (regs st, calls st, gcid st, ops) in
  match m with
  | CRegister rg =>
      if o_refuse o then same [OSimple (SSend from (SOther 2))]
      else Some (add_pair (rg, from) (regs st), calls st, gcid st,
                 [OSimple (SSend from (SRegistered rg))])
  | CUnregister rg =>
      if o_refuse o then same [OSimple (SSend from (SOther 2))]
      else Some (del_pair (rg, from) (regs st), calls st, gcid st,
                 [OSimple (SSend from (SUnregistered rg))])
  | CCall req more =>
      match find_call from req (calls st) with
      | None =>
          (* first CALL message of a call: d.calls[...] is set before the checks *)
          let cid := gcid st in
          let c := mkcrec cid from req (o_callee o) more false in
          if o_refuse o then
            Some (regs st, c :: calls st, N.succ cid, [OSimple (err_reply c)])
          else if mem_pair (o_rg o, o_callee o) (regs st) then
            Some (regs st, c :: calls st, N.succ cid,
                  [OTry (o_callee o) (SInvocation (o_rg o) cid from cid q true) false false
                        [err_reply c]])
          else None
      | Some c =>
          (* a further chunk of a pending call (progressive call invocation) *)
          if o_refuse o then
            if repaired cf then same [OSimple (err_reply c)]
            else same [OSimple (SSend from (SErrorCall (c_cid c) false))]
          else
            let c' := mkcrec (c_cid c) (c_caller c) (c_req c) (c_callee c) more (c_canceled c) in
            Some (regs st, set_rec c' (calls st), gcid st,
                  [OTry (c_callee c) (SInvocation (o_rg o) (c_cid c) from (c_cid c) q false)
                        false false [err_reply c]])
      end
  | CYield inv progress =>
      match find_inv from inv (calls st) with
      | None => same (if progress then [OSimple (SSend from (SOther 3))] else [])
      | Some c =>
          let closes := negb progress && negb (c_inprog c) in
          if o_refuse o then
            (* PPT refusal: an ERROR of type YIELD goes out, the deferred cleanup runs *)
            Some (regs st, (if closes then erase (c_cid c) (calls st) else calls st), gcid st,
                  [OSimple (SSend (c_caller c) (SOther 4))])
          else if o_canretry o then
            same [OTry (c_caller c) (SResult (c_cid c) q from progress closes) closes false [SAgain]]
          else if c_canceled c then
            same [OTry (c_caller c) (SResult (c_cid c) q from progress closes) closes closes []]
          else
            same [OTry (c_caller c) (SResult (c_cid c) q from progress closes) closes false
                       ((if o_intr o then [SSend from (SOther 3)] else []) ++ [err_reply c])]
      end
  | CError inv =>
      match find_inv from inv (calls st) with
      | None => same []
      | Some c => same [OSimple (err_reply c)]
      end
  | CCancel req =>
      match find_call from req (calls st) with
      | None => same []
      | Some c =>
          if c_canceled c then same []
          else
            let c' := mkcrec (c_cid c) (c_caller c) (c_req c) (c_callee c) (c_inprog c) true in
            let cs := set_rec c' (calls st) in
            if (o_mode o =? 0) || negb (o_intr o) then
              Some (regs st, cs, gcid st, [OSimple (err_reply c)])
            else if o_mode o =? 1 then
              Some (regs st, cs, gcid st,
                    [OTry (c_callee c) (SOther 3) false false [err_reply c]])
            else
              Some (regs st, cs, gcid st,
                    [OSimple (SSend (c_callee c) (SOther 3)); OSimple (err_reply c)])
      end
  | CGoodbye =>
      (* syncRemoveSession: registrations of the session go; every pending,
         not yet canceled invocation it serves is answered with ERROR; the
         records of its own calls are erased (here: at once, unless an ERROR
         for the same record is still to be sent - the tables are private to
         the dealer goroutine, so only the order of its sends is observable) *)
      let gone := fun c => (c_callee c =? from) && negb (c_canceled c) in
      Some (del_sess from (regs st),
            filter (fun c => negb (c_caller c =? from) || gone c) (calls st), gcid st,
            map (fun c => OSimple (err_reply c)) (filter gone (calls st)))
  | _ => None
  end.

(* ---------------------------------------------------------------- steps *)

Definition full (cf : config) (st : state) (r : sid) : bool :=
  Nat.leb (cap cf) (length (outq st r)).

Definition set_hst st s h :=
  mkstate (gseq st) (gcid st) (inbox st) (upd (hst st) s h) (wst st) (subs st) (regs st) (calls st)
          (outq st) (dlv st) (att st).
Definition set_wst st w x :=
  mkstate (gseq st) (gcid st) (inbox st) (hst st) (updw (wst st) w x) (subs st) (regs st) (calls st)
          (outq st) (dlv st) (att st).
Definition set_calls st cs :=
  mkstate (gseq st) (gcid st) (inbox st) (hst st) (wst st) (subs st) (regs st) cs
          (outq st) (dlv st) (att st).

(** a try-send of [m] to [r]: accepted (appended to the queue) or dropped;
    either way it is recorded in the attempt log. *)
Definition enqueue st (r : sid) (m : smsg) (ok : bool) :=
  mkstate (gseq st) (gcid st) (inbox st) (hst st) (wst st) (subs st) (regs st) (calls st)
          (if ok then upd (outq st) r (outq st r ++ [m]) else outq st)
          (dlv st)
          (upd (att st) r (att st r ++ [(m, ok)])).

(** Execute the head operation of worker [w].  [ok] = the label claims the
    try-send is accepted ([Emit]) or dropped ([Drop]); [Tau] for operations
    that do not send. *)
Definition exec (cf : config) (st : state) (w : worker) (lab : option bool) : option state :=
  match wst st w with
  | WRun from q cm again (op :: rest) =>
      match op, lab with
      | OSimple (SSend r m), Some ok =>
          if eqb ok (negb (full cf st r)) then
            Some (enqueue (set_wst st w (WRun from q cm again rest)) r m ok)
          else None
      | OSimple (SReply r m), Some ok =>
          if eqb ok (negb (full cf st r)) then
            Some (enqueue (set_calls (set_wst st w (WRun from q cm again rest))
                                     (erase (cid_of m) (calls st))) r m ok)
          else None
      | OSimple SAgain, None =>
          Some (set_wst st w (WRun from q cm true rest))
      | OTry r m eraseok erasefail onfail, Some ok =>
          if eqb ok (negb (full cf st r)) then
            Some (enqueue (set_calls (set_wst st w (WRun from q cm again
                                                     (if ok then rest else map OSimple onfail ++ rest)))
                                     (if (if ok then eraseok else erasefail)
                                      then erase (cid_of m) (calls st) else calls st))
                          r m ok)
          else None
      | _, _ => None
      end
  | _ => None
  end.

Definition step (cf : config) (st : state) (l : label) : option state :=
  match l with
  | ClientSend s m =>
      match m with
      | CLeaveB => None
      | _ =>
        Some (mkstate (N.succ (gseq st)) (gcid st) (upd (inbox st) s (inbox st s ++ [(gseq st, m)]))
                      (hst st) (wst st) (subs st) (regs st) (calls st)
                      (outq st) (dlv st) (att st))
      end
  | HandlerTake s =>
      match hst st s, inbox st s with
      | HIdle, (q, m) :: rest =>
          Some (mkstate (gseq st) (gcid st) (upd (inbox st) s rest) (upd (hst st) s (HHold q m))
                        (wst st) (subs st) (regs st) (calls st) (outq st) (dlv st) (att st))
      | _, _ => None
      end
  | HandlerReject s =>
      match hst st s with
      | HHold q CGoodbye | HHold q CLeaveB => None
      | HHold q m => Some (set_hst st s (HPost [SOther 9]))
      | _ => None
      end
  | Submit s w =>
      match hst st s, wst st w with
      | HHold q m, WIdle =>
          if weqb w (target m) then
            Some (set_wst (set_hst st s (if waits m then HWait q m else after_submit q m))
                          w (WBusy s q m))
          else None
      | _, _ => None
      end
  | YieldRetry s =>
      match hst st s, wst st Dealer with
      | HRetry q m, WIdle =>
          Some (set_wst (set_hst st s (HWait q m)) Dealer (WBusy s q m))
      | _, _ => None
      end
  | TimerFire s req =>
      match wst st Dealer with
      | WIdle => Some (set_wst st Dealer (WBusy s 0 (CCancel req)))
      | _ => None
      end
  | WorkerRun w o =>
      match wst st w with
      | WBusy from q m =>
          match w with
          | Broker =>
              match plan_broker st from q m o with
              | Some (subs', ops) =>
                  Some (mkstate (gseq st) (gcid st) (inbox st) (hst st)
                                (updw (wst st) w (WRun from q m false ops))
                                subs' (regs st) (calls st) (outq st) (dlv st) (att st))
              | None => None
              end
          | Dealer =>
              match plan_dealer cf st from q m o with
              | Some (regs', calls', gcid', ops) =>
                  Some (mkstate (gseq st) gcid' (inbox st) (hst st)
                                (updw (wst st) w (WRun from q m false ops))
                                (subs st) regs' calls' (outq st) (dlv st) (att st))
              | None => None
              end
          end
      | _ => None
      end
  | Emit w => exec cf st w (Some true)
  | Drop w => exec cf st w (Some false)
  | Tau w => exec cf st w None
  | WorkerDone w =>
      match wst st w with
      | WRun from q cm again [] =>
          let st' := set_wst st w WIdle in
          if waits cm then
            match hst st from with
            | HWait q' m => Some (set_hst st' from (HDone q' m again))
            | _ => None
            end
          else Some st'
      | _ => None
      end
  | HandlerResume s =>
      match hst st s with
      | HDone q m again => Some (set_hst st s (after_done q m again))
      | _ => None
      end
  | HandlerEmit s =>
      match hst st s with
      | HPost (m :: l) =>
          if full cf st s then None
          else Some (enqueue (set_hst st s (match l with [] => HIdle | _ => HPost l end)) s m true)
      | _ => None
      end
  | HandlerDrop s =>
      match hst st s with
      | HPost (m :: l) =>
          if full cf st s then
            Some (enqueue (set_hst st s (match l with [] => HIdle | _ => HPost l end)) s m false)
          else None
      | _ => None
      end
  | ClientRecv s =>
      match outq st s with
      | m :: rest =>
          Some (mkstate (gseq st) (gcid st) (inbox st) (hst st) (wst st) (subs st) (regs st) (calls st)
                        (upd (outq st) s rest) (upd (dlv st) s (dlv st s ++ [m])) (att st))
      | [] => None
      end
  end.

Fixpoint run (cf : config) (st : state) (tr : list label) : option state :=
  match tr with
  | [] => Some st
  | l :: tr' => match step cf st l with Some st' => run cf st' tr' | None => None end
  end.

(** A state is reachable when some trace (any interleaving the LTS admits,
    any length, any sessions) leads to it from [init]. *)
Definition reach (cf : config) (st : state) : Prop :=
  exists tr, run cf init tr = Some st.

(** What a client observes: delivered messages followed by the queue. *)
Definition stream (st : state) (r : sid) : list smsg := dlv st r ++ outq st r.

Definition accepted (l : list (smsg * bool)) : list smsg :=
  map fst (filter snd l).
