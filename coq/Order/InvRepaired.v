(** C08 — with the repair of fixes/C08-refused-chunk every ERROR(CALL) the
    dealer sends erases the call record (is "closing"). *)
From Coq Require Import List NArith Bool Sorted Lia.
From Nexus Require Import Order.Model Order.Spec Order.SpecProofs Order.InvBase Order.InvSend
  Order.InvEvent Order.InvScan Order.InvRec.
Import ListNotations.
Open Scope N_scope.

Definition open_err (m : smsg) : bool := match m with SErrorCall _ false => true | _ => false end.

Record ecinv (st : state) : Prop := mkec {
  ec_att : forall r m, In m (map fst (att st r)) -> open_err m = false;
  ec_ops : forall r m, In (r, m) (all_msgs (wops st Dealer)) -> open_err m = false }.

Lemma plan_dealer_repaired : forall cf st from q m o regs' calls' g' ops,
  repaired cf = true ->
  plan_dealer cf st from q m o = Some (regs', calls', g', ops) ->
  forall r m', In (r, m') (all_msgs ops) -> open_err m' = false.
Proof.
  intros cf st from q m o regs' calls' g' ops Hr H r m' Hin. unfold plan_dealer in H.
  rewrite Hr in H.
  destruct m; try discriminate; dm H; inv H; simpl in Hin;
  repeat (destruct Hin as [Hin|Hin]; [inv Hin; reflexivity|]); try contradiction.
  apply err_reply_msgs in Hin as [c [_ [_ ->]]]. reflexivity.
Qed.

Lemma all_msgs_rest : forall op rest rest' ok x,
  (match op with OTry _ _ _ _ onf => (ok = true /\ rest' = rest) \/
                                     (ok = false /\ rest' = map OSimple onf ++ rest)
               | _ => rest' = rest end) ->
  In x (all_msgs rest') -> In x (all_msgs (op :: rest)).
Proof.
  intros op rest rest' ok x Hr Hin. unfold all_msgs in *. simpl. apply in_or_app.
  destruct op as [[| |]|r1 m1 eo ef onf]; try (subst; right; auto; fail).
  destruct Hr as [[_ ->]|[_ ->]]; auto.
  rewrite flat_map_app in Hin. apply in_app_or in Hin as [Hin|Hin]; auto.
  left. simpl. right. fold (all_msgs (map OSimple onf)) in Hin. rewrite all_msgs_onf in Hin. auto.
Qed.

Lemma head_in_all_msgs : forall op rest r m,
  head_msg op = Some (r, m) -> In (r, m) (all_msgs (op :: rest)).
Proof.
  intros op rest r m H. unfold all_msgs. simpl. apply in_or_app; left.
  destruct op as [[r1 m1|r1 m1|]|r1 m1 eo ef onf]; simpl in H; inv H; simpl; auto.
Qed.

Theorem ecinv_step : forall cf st l st',
  repaired cf = true -> base st -> ecinv st -> step cf st l = Some st' -> ecinv st'.
Proof.
  intros cf st l st' Hrep B I H. destruct (sends l) eqn:S.
  - destruct (send_step _ _ _ _ S H) as [r0 [m [ok [who [Ea [Eg [Ei [Es [Er [Ec Hw]]]]]]]]]].
    assert (Hatt : open_err m = false ->
                   forall r x, In x (map fst (att st' r)) -> open_err x = false).
    { intros Hm r x Hin. apply (in_att_snoc st st' r0 m ok) in Hin; auto.
      destruct Hin as [Hin|[_ ->]]; auto. apply (ec_att st I r x); auto. }
    destruct who as [w|].
    + destruct Hw as [Hl [Eh [from [q [cm [again [op [rest [Ew [Ehd [Eo [Ecl [rest' [Ew' Hr]]]]]]]]]]]]]].
      destruct w.
      * pose proof (b_broker st B) as Wb. unfold wf_broker in Wb. rewrite Ew in Wb.
        simpl in Wb. apply andb_true_iff in Wb as [Wb _].
        destruct (bop_ok_inv _ Wb) as [r1 [m1 [-> Km]]]. simpl in Ehd. inv Ehd.
        constructor.
        -- apply Hatt. destruct m; simpl in *; auto; discriminate.
        -- unfold wops. rewrite (Eo Dealer) by discriminate. apply (ec_ops st I).
      * assert (Wops : wops st Dealer = op :: rest) by (unfold wops; rewrite Ew; auto).
        constructor.
        -- apply Hatt. apply (ec_ops st I r0 m). rewrite Wops. apply head_in_all_msgs; auto.
        -- intros r x Hin. unfold wops in Hin. rewrite Ew' in Hin.
           apply (ec_ops st I r x). rewrite Wops. eapply all_msgs_rest; eauto.
    + destruct Hw as [Hl [Ew [Ecs [tl [Eh Eh']]]]].
      pose proof (b_hpost st B r0 _ Eh) as Kh. simpl in Kh. apply andb_true_iff in Kh as [Kh _].
      constructor.
      * apply Hatt. destruct m; simpl in *; auto; discriminate.
      * unfold wops. rewrite Ew. apply (ec_ops st I).
  - pose proof (att_same _ _ _ _ S H) as Ea.
    constructor; [rewrite Ea; apply (ec_att st I)|].
    destruct (touches Dealer l) eqn:T.
    { destruct l; simpl in S, T; try discriminate; try (destruct w; try discriminate);
        simpl in H; unfold exec in H; dm H; inv H; unfold wops; simpl; rewrite ?updw_same; simpl;
        try (intros; contradiction).
      - intros r x Hin. eapply plan_dealer_repaired; eauto.
      - intros r x Hin. apply (ec_ops st I r x). unfold wops. rewrite E. auto. }
    unfold wops. rewrite (wst_same _ _ _ _ Dealer T H). apply (ec_ops st I).
Qed.

Lemma ecinv_init : ecinv init.
Proof. constructor; simpl; unfold wops; simpl; intros; contradiction. Qed.
