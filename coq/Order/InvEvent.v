(** C08 — event_order: the invariant and its preservation by every step. *)
From Coq Require Import List NArith Bool Sorted Lia.
From Nexus Require Import Order.Model Order.Spec Order.SpecProofs Order.InvBase Order.InvSend.
Import ListNotations.
Open Scope N_scope.

Definition ev_in (st : state) (r : sid) (sb : N) (p : sid) (t y : N) : Prop :=
  In (SEvent sb (Some p) t y) (map fst (att st r)).

Definition ev_target (o : wop) : list (N * sid) :=
  match o with
  | OSimple (SSend r (SEvent sb (Some _) _ _)) => [(sb, r)]
  | _ => []
  end.

Definition ev_targets (ops : list wop) : list (N * sid) := flat_map ev_target ops.

Record evinv (st : state) : Prop := mkevinv {
  ev_ord : forall r, ordered_by sel_event_pub (map fst (att st r));
  ev_bound : forall r sb p t y, ev_in st r sb p t y ->
             y < gseq st /\ forall x, In x (pipeline st p) -> y < x;
  ev_broker :
    match wst st Broker with
    | WIdle => True
    | WBusy from q m => forall r sb t y, ev_in st r sb from t y -> y < q
    | WRun from q m _ ops =>
        (forall r sb t y, ev_in st r sb from t y ->
                          y <= q /\ (y = q -> ~ In (sb, r) (ev_targets ops))) /\
        (forall r sb p t y, In (OSimple (SSend r (SEvent sb (Some p) t y))) ops ->
                            p = from /\ y = q) /\
        NoDup (ev_targets ops)
    end }.

(* ---------------------------------------------------------------- helpers *)

Lemma bop_ok_inv : forall o, bop_ok o = true -> exists r m, o = OSimple (SSend r m) /\ kind_broker m = true.
Proof. intros o H; destruct o as [[r m|r m|]|]; simpl in H; try discriminate. eauto. Qed.

Lemma sop_kind : forall o r m, sop_ok o = true -> (o = SSend r m \/ o = SReply r m) -> kind_dealer m = true.
Proof.
  intros o r m H [-> | ->]; simpl in H; destruct m; try discriminate; reflexivity.
Qed.

Lemma dop_head_kind : forall o r m, dop_ok o = true -> head_msg o = Some (r, m) -> kind_dealer m = true.
Proof.
  intros o r m H E. destruct o as [[r' m'|r' m'|]|r' m' eo ef onf]; simpl in *; inv E;
  destruct m; simpl in *; try discriminate; auto.
Qed.

Lemma target_broker_nowait : forall m, target m = Broker -> waits m = false.
Proof. destruct m; simpl; congruence. Qed.

Lemma mem_pair_in : forall a l, mem_pair a l = true <-> In a l.
Proof.
  intros a l; unfold mem_pair. rewrite existsb_exists. split.
  - intros [x [Hin E]]. unfold pair_eqb in E. apply andb_true_iff in E as [E1 E2].
    apply N.eqb_eq in E1, E2. destruct a, x; simpl in *; subst; auto.
  - intros H; exists a; split; auto. unfold pair_eqb. rewrite !N.eqb_refl; reflexivity.
Qed.

Lemma nodup_pairs_NoDup : forall l, nodup_pairs l = true -> NoDup l.
Proof.
  induction l as [|a l IH]; simpl; intros H; constructor.
  - apply andb_true_iff in H as [H _]. intros Hin. apply mem_pair_in in Hin.
    rewrite Hin in H; discriminate.
  - apply andb_true_iff in H as [_ H]; auto.
Qed.

Lemma ev_targets_meta : forall q tg, ev_targets (meta_ops q tg) = [].
Proof. intros q tg; unfold meta_ops, ev_targets; induction tg; simpl; auto. Qed.

Lemma in_meta_ops : forall q tg r sb p t y,
  ~ In (OSimple (SSend r (SEvent sb (Some p) t y))) (meta_ops q tg).
Proof.
  intros q tg r sb p t y H. unfold meta_ops in H. apply in_map_iff in H as [a [E _]]. discriminate.
Qed.

Lemma ev_targets_pub : forall from t q (tg : list (N * sid)),
  ev_targets (map (fun a => OSimple (SSend (snd a) (SEvent (fst a) (Some from) t q))) tg) = tg.
Proof.
  intros from t q tg; unfold ev_targets; induction tg as [|[sb r] tg IH]; simpl; auto.
  rewrite IH; reflexivity.
Qed.

Lemma plan_broker_events : forall st from q m o subs' ops,
  plan_broker st from q m o = Some (subs', ops) ->
  (forall r sb p t y, In (OSimple (SSend r (SEvent sb (Some p) t y))) ops -> p = from /\ y = q) /\
  NoDup (ev_targets ops).
Proof.
  intros st from q m o subs' ops H. unfold plan_broker in H.
  destruct m; try discriminate; dm H; inv H; simpl.
  1: { split.
    + intros r sb p t y Hin. apply in_map_iff in Hin as [a [Ea _]]. inv Ea; auto.
    + rewrite ev_targets_pub. unfold tg_ok in E. apply andb_true_iff in E as [E _].
      apply nodup_pairs_NoDup; auto. }
  all: split;
    [intros r sb' p t y Hin; simpl in Hin;
     repeat (destruct Hin as [Hin|Hin]; try discriminate);
     try contradiction; try (apply in_meta_ops in Hin; contradiction)
    |rewrite ?ev_targets_meta; constructor].
Qed.

Lemma ev_in_snoc : forall st st' r0 m ok r sb p t y,
  att st' = upd (att st) r0 (att st r0 ++ [(m, ok)]) ->
  (ev_in st' r sb p t y <-> ev_in st r sb p t y \/ (r = r0 /\ m = SEvent sb (Some p) t y)).
Proof.
  intros st st' r0 m ok r sb p t y E. unfold ev_in. rewrite E.
  destruct (N.eq_dec r r0) as [->|Hn].
  - rewrite upd_same, map_app, in_app_iff. simpl. intuition (subst; auto).
  - rewrite upd_other by auto. intuition.
Qed.

Lemma kind_dealer_not_event : forall m sb p t y, kind_dealer m = true -> m <> SEvent sb p t y.
Proof. intros m sb p t y H E; subst; discriminate. Qed.

Lemma kind_handler_not_event : forall m sb p t y, kind_handler m = true -> m <> SEvent sb p t y.
Proof. intros m sb p t y H E; subst; discriminate. Qed.

Lemma sel_event_pub_some : forall m k y, sel_event_pub m = Some (k, y) ->
  exists sb p t, m = SEvent sb (Some p) t y /\ k = (sb, p, 0).
Proof.
  intros m k y H; destruct m; simpl in H; try discriminate. destruct pub; try discriminate.
  inv H. eauto.
Qed.

(* ---------------------------------------------------------------- steps that do not send *)

Lemma ev_in_same : forall st st' r sb p t y,
  att st' = att st -> (ev_in st' r sb p t y <-> ev_in st r sb p t y).
Proof. intros; unfold ev_in; rewrite H; tauto. Qed.

Lemma ev_bound_frame : forall cf st l st',
  evinv st -> step cf st l = Some st' ->
  forall r sb p t y, ev_in st r sb p t y ->
    y < gseq st' /\ forall x, In x (pipeline st' p) -> y < x.
Proof.
  intros cf st l st' I H r sb p t y Hin.
  destruct (ev_bound st I r sb p t y Hin) as [Hg Hp].
  pose proof (gseq_mono _ _ _ _ H). split; [lia|].
  intros x Hx. destruct (pipeline_step _ _ _ _ p x H Hx) as [Hold|[-> _]]; auto.
Qed.

Lemma evinv_nosend : forall cf st l st',
  base st -> evinv st -> sends l = false -> step cf st l = Some st' -> evinv st'.
Proof.
  intros cf st l st' B I S H.
  pose proof (att_same _ _ _ _ S H) as Ea.
  constructor.
  - intros r; rewrite Ea; apply (ev_ord st I).
  - intros r sb p t y Hin. apply (ev_in_same st st') in Hin; auto.
    eapply ev_bound_frame; eauto.
  - destruct (touches Broker l) eqn:T.
    2:{ rewrite (wst_same _ _ _ _ Broker T H). pose proof (ev_broker st I) as Eb.
        destruct (wst st Broker); auto.
        - intros r sb t y Hin. apply (ev_in_same st st') in Hin; eauto.
        - destruct Eb as [E1 [E2 E3]]. split; [|split]; auto.
          intros r sb t y Hin. apply (ev_in_same st st') in Hin; eauto. }
    pose proof (ev_broker st I) as Eb.
    destruct l; simpl in S, T; try discriminate; destruct w; try discriminate.
    + (* Submit s Broker *)
      simpl in H. dm H; inv H; simpl.
      all: intros r sb t y Hin; unfold ev_in in Hin; simpl in Hin;
        destruct (ev_bound st I r sb s t y Hin) as [_ Hp]; apply Hp;
        unfold pipeline; rewrite E; left; reflexivity.
    + (* WorkerRun Broker *)
      simpl in H. dm H; inv H; simpl.
      destruct (plan_broker_events _ _ _ _ _ _ _ E0) as [P1 P2].
      split; [|split]; auto.
      intros r sb t y Hin. unfold ev_in in Hin; simpl in Hin. apply Eb in Hin.
      split; [lia|]. intros ->; lia.
    + (* Tau Broker: a broker closure has no silent operation *)
      simpl in H. unfold exec in H. pose proof (b_broker st B) as Wb. unfold wf_broker in Wb.
      dm H; simpl in Wb; discriminate.
    + (* WorkerDone Broker *)
      simpl in H. dm H; inv H; simpl; rewrite ?updw_same; auto.
Qed.

(* ---------------------------------------------------------------- steps that send *)

Lemma pipeline_same : forall st st' s,
  inbox st' = inbox st -> cur (hst st' s) = cur (hst st s) -> pipeline st' s = pipeline st s.
Proof. intros; unfold pipeline; rewrite H, H0; reflexivity. Qed.

Lemma in_ev_targets : forall sb r ops,
  In (sb, r) (ev_targets ops) <->
  exists p t y, In (OSimple (SSend r (SEvent sb (Some p) t y))) ops.
Proof.
  intros sb r ops; unfold ev_targets. rewrite in_flat_map. split.
  - intros [o [Hin Ho]]. destruct o as [[r' m|r' m|]|]; simpl in Ho; try contradiction.
    destruct m; simpl in Ho; try contradiction. destruct pub; simpl in Ho; try contradiction.
    destruct Ho as [Ho|[]]. inv Ho. eauto.
  - intros [p [t [y Hin]]]. eexists; split; eauto. simpl; auto.
Qed.

(** appending a message that is not an EVENT of a session changes nothing *)
Lemma evinv_send_other : forall st st' r0 m ok,
  evinv st ->
  att st' = upd (att st) r0 (att st r0 ++ [(m, ok)]) ->
  (forall sb p t y, m <> SEvent sb p t y) ->
  gseq st' = gseq st -> (forall s, pipeline st' s = pipeline st s) ->
  wst st' Broker = wst st Broker ->
  evinv st'.
Proof.
  intros st st' r0 m ok I Ea Hm Eg Ep Ew.
  assert (Hev : forall r sb p t y, ev_in st' r sb p t y <-> ev_in st r sb p t y).
  { intros. rewrite (ev_in_snoc st st' r0 m ok) by auto. split; auto.
    intros [|[_ E]]; auto. exfalso; eapply Hm; eauto. }
  constructor.
  - intros r. rewrite Ea. destruct (N.eq_dec r r0) as [->|Hn].
    + rewrite upd_same, map_app. simpl. apply ordered_by_app_none; [|apply (ev_ord st I)].
      destruct m; simpl; auto. destruct pub; auto. exfalso; eapply Hm; eauto.
    + rewrite upd_other by auto. apply (ev_ord st I).
  - intros r sb p t y Hin. apply Hev in Hin. rewrite Eg, Ep. apply (ev_bound st I _ _ _ _ _ Hin).
  - rewrite Ew. pose proof (ev_broker st I) as Eb. destruct (wst st Broker); auto.
    + intros r sb t y Hin. apply Hev in Hin. eauto.
    + destruct Eb as [E1 [E2 E3]]. split; [|split]; auto.
      intros r sb t y Hin. apply Hev in Hin. eauto.
Qed.

Lemma evinv_send : forall cf st l st',
  base st -> evinv st -> sends l = true -> step cf st l = Some st' -> evinv st'.
Proof.
  intros cf st l st' B I S H.
  destruct (send_step _ _ _ _ S H) as [r0 [m [ok [who [Ea [Eg [Ei [Es [Er [Ec Hw]]]]]]]]]].
  destruct who as [w|].
  - destruct Hw as [Hl [Eh [from [q [cm [again [op [rest [Ew [Ehd [Eo [Ecl [rest' [Ew' Hr]]]]]]]]]]]]]].
    assert (Hp : forall s, pipeline st' s = pipeline st s).
    { intros; apply pipeline_same; auto. rewrite Eh; auto. }
    destruct w.
    + (* the broker sends *)
      pose proof (b_broker st B) as Wb. unfold wf_broker in Wb. rewrite Ew in Wb.
      simpl in Wb. apply andb_true_iff in Wb as [Wb _].
      destruct (bop_ok_inv _ Wb) as [r1 [m1 [-> Km]]]. simpl in Ehd. inv Ehd.
      pose proof (ev_broker st I) as Eb. rewrite Ew in Eb. destruct Eb as [E1 [E2 E3]].
      pose proof (b_link st B Broker) as L. unfold wlink in L. rewrite Ew in L.
      destruct L as [Lt [Lq Lw]]. rewrite (target_broker_nowait _ Lt) in Lw.
      assert (Hnew : forall sb p t y, m = SEvent sb (Some p) t y -> p = from /\ y = q).
      { intros sb p t y ->. apply (E2 r0 sb p t y). left; reflexivity. }
      constructor.
      * intros r. rewrite Ea. destruct (N.eq_dec r r0) as [->|Hn]; [|rewrite upd_other by auto; apply (ev_ord st I)].
        rewrite upd_same, map_app. simpl. apply ordered_by_snoc. split; [apply (ev_ord st I)|].
        intros k y Hk m1 y1 Hin1 Hk1.
        apply sel_event_pub_some in Hk as [sb [p [t [-> ->]]]].
        apply sel_event_pub_some in Hk1 as [sb1 [p1 [t1 [-> Ek]]]]. inv Ek.
        destruct (Hnew _ _ _ _ eq_refl) as [-> ->].
        destruct (E1 r0 _ t1 y1 Hin1) as [Hle Hne].
        assert (y1 <> q). { intros ->. apply Hne; auto. simpl. left; reflexivity. }
        lia.
      * intros r sb p t y Hin. rewrite (ev_in_snoc st st' r0 m ok) in Hin by auto.
        rewrite Eg, Hp. destruct Hin as [Hin|[-> ->]]; [apply (ev_bound st I _ _ _ _ _ Hin)|].
        destruct (Hnew _ _ _ _ eq_refl) as [-> ->]. split; auto.
      * rewrite Ew'. simpl in E3. split; [|split].
        -- intros r sb t y Hin. rewrite (ev_in_snoc st st' r0 m ok) in Hin by auto.
           destruct Hin as [Hin|[-> ->]].
           ++ destruct (E1 r sb t y Hin) as [Hle Hne]. split; auto.
              intros Hy Hin'. apply Hne; auto. simpl. apply in_or_app; auto.
           ++ destruct (Hnew _ _ _ _ eq_refl) as [_ ->]. split; [lia|]. intros _.
              simpl in E3. inversion E3; auto.
        -- intros r sb p t y Hin. apply (E2 r sb p t y). right; auto.
        -- destruct m; simpl in E3; auto. destruct pub; simpl in E3; auto. inversion E3; auto.
    + (* the dealer sends *)
      pose proof (b_dealer st B) as Wd. unfold wf_dealer in Wd. rewrite Ew in Wd.
      destruct Wd as [Wd _]. simpl in Wd. apply andb_true_iff in Wd as [Wd _].
      pose proof (dop_head_kind _ _ _ Wd Ehd) as Km.
      eapply evinv_send_other; eauto.
      * intros; apply kind_dealer_not_event; auto.
      * apply Eo; discriminate.
  - destruct Hw as [Hl [Ew [Ecs [tl [Eh Eh']]]]].
    pose proof (b_hpost st B r0 _ Eh) as Kh. simpl in Kh. apply andb_true_iff in Kh as [Kh _].
    eapply evinv_send_other; eauto.
    + intros; apply kind_handler_not_event; auto.
    + intros s. apply pipeline_same; auto. rewrite Eh'. destruct (N.eq_dec s r0) as [->|Hn].
      * rewrite upd_same, Eh. destruct tl; reflexivity.
      * rewrite upd_other; auto.
    + rewrite Ew; auto.
Qed.

Theorem evinv_step : forall cf st l st',
  base st -> evinv st -> step cf st l = Some st' -> evinv st'.
Proof.
  intros cf st l st' B I H. destruct (sends l) eqn:S.
  - eapply evinv_send; eauto.
  - eapply evinv_nosend; eauto.
Qed.

Lemma evinv_init : evinv init.
Proof.
  constructor; simpl; auto.
  - intros r; apply ordered_by_nil.
  - intros r sb p t y [].
Qed.
