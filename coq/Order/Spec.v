(** C08 — the seven order predicates, as properties of ONE receiver's message
    sequence (a [list smsg]), and their executable versions (the monitor that
    is extracted and run on the logs of the real router).  Definitions only. *)
From Coq Require Import List NArith Bool Sorted.
From Nexus Require Import Order.Model.
Import ListNotations.
Open Scope N_scope.

Definition key := (N * N * N)%type.

Definition key_eqb (a b : key) : bool :=
  match a, b with (a1, a2, a3), (b1, b2, b3) => (a1 =? b1) && (a2 =? b2) && (a3 =? b3) end.

(** [ordered_by sel l]: among the messages of [l] that [sel] maps to the same
    key, the sequence numbers are strictly increasing in list order. *)
Definition ordered_by (sel : smsg -> option (key * N)) (l : list smsg) : Prop :=
  forall l1 m1 l2 m2 l3 k y1 y2,
    l = l1 ++ m1 :: l2 ++ m2 :: l3 ->
    sel m1 = Some (k, y1) -> sel m2 = Some (k, y2) -> y1 < y2.

(** EVENTs: key = (subscription, publisher, topic), number = publication. *)
Definition sel_event (m : smsg) : option (key * N) :=
  match m with
  | SEvent sb (Some p) t y => Some ((sb, p, t), y)
  | _ => None
  end.

(** the same without the topic (what is actually invariant; implies the above) *)
Definition sel_event_pub (m : smsg) : option (key * N) :=
  match m with
  | SEvent sb (Some p) t y => Some ((sb, p, 0), y)
  | _ => None
  end.

(** INVOCATIONs at one callee: key = caller, number = the CALL message. *)
Definition sel_inv (m : smsg) : option (key * N) :=
  match m with
  | SInvocation rg inv c cid y first => Some ((c, 0, 0), y)
  | _ => None
  end.

(** RESULTs at one caller: key = call, number = the YIELD message. *)
Definition sel_res (m : smsg) : option (key * N) :=
  match m with
  | SResult cid y e pr cl => Some ((cid, 0, 0), y)
  | _ => None
  end.

(** replies to a call, and the closing ones *)
Definition is_reply (cid : N) (m : smsg) : bool :=
  match m with
  | SResult c _ _ _ _ => c =? cid
  | SErrorCall c _ => c =? cid
  | _ => false
  end.

Definition closing (cid : N) (m : smsg) : bool :=
  match m with
  | SResult c _ _ false true => c =? cid
  | SErrorCall c true => c =? cid
  | _ => false
  end.

(** what a client regards as the final reply, whatever the router's tables say *)
Definition final_looking (cid : N) (m : smsg) : bool :=
  match m with
  | SResult c _ _ false _ => c =? cid
  | SErrorCall c _ => c =? cid
  | _ => false
  end.

(** the final reply as the dealer means it when every ERROR erases the call
    (fixes/C08-refused-chunk applied): any ERROR, or the RESULT that closed the call *)
Definition final_reply (cid : N) (m : smsg) : bool :=
  match m with
  | SResult c _ _ false true => c =? cid
  | SErrorCall c _ => c =? cid
  | _ => false
  end.

Definition nothing_after (fin : N -> smsg -> bool) (l : list smsg) : Prop :=
  forall cid pre f post m,
    l = pre ++ f :: post -> fin cid f = true -> In m post -> is_reply cid m = false.

(** open / close / use marks for the "X before the first Y, no Y after Z" claims *)
Inductive mark := MOpen | MClose | MUse | MNone.

Definition sub_mark (sb : N) (m : smsg) : mark :=
  match m with
  | SSubscribed s => if s =? sb then MOpen else MNone
  | SUnsubscribed s => if s =? sb then MClose else MNone
  | SEvent s _ _ _ => if s =? sb then MUse else MNone
  | _ => MNone
  end.

Definition reg_mark (rg : N) (m : smsg) : mark :=
  match m with
  | SRegistered r => if r =? rg then MOpen else MNone
  | SUnregistered r => if r =? rg then MClose else MNone
  | SInvocation r _ _ _ _ true => if r =? rg then MUse else MNone
  | _ => MNone
  end.

(** every use is preceded by an open *)
Definition opened_before (cls : smsg -> mark) (l : list smsg) : Prop :=
  forall pre u post, l = pre ++ u :: post -> cls u = MUse ->
    exists o, In o pre /\ cls o = MOpen.

(** between a close and a later use there is an open *)
Definition none_after_close (cls : smsg -> mark) (l : list smsg) : Prop :=
  forall pre c mid u post, l = pre ++ c :: mid ++ u :: post ->
    cls c = MClose -> cls u = MUse -> exists o, In o mid /\ cls o = MOpen.

(* ---------------------------------------------------------------- executable *)

Fixpoint scan (cls : smsg -> mark) (l : list smsg) (b : bool) : option bool :=
  match l with
  | [] => Some b
  | m :: t =>
      match cls m with
      | MOpen => scan cls t true
      | MClose => scan cls t false
      | MUse => if b then scan cls t b else None
      | MNone => scan cls t b
      end
  end.

Definition scan_ok (cls : smsg -> mark) (l : list smsg) : bool :=
  match scan cls l false with Some _ => true | None => false end.

Fixpoint proj (sel : smsg -> option (key * N)) (k : key) (l : list smsg) : list N :=
  match l with
  | [] => []
  | m :: t =>
      match sel m with
      | Some (k', y) => if key_eqb k' k then y :: proj sel k t else proj sel k t
      | None => proj sel k t
      end
  end.

Fixpoint incrb (l : list N) : bool :=
  match l with
  | a :: t => match t with b :: _ => (a <? b) && incrb t | [] => true end
  | [] => true
  end.

Definition keys (sel : smsg -> option (key * N)) (l : list smsg) : list key :=
  flat_map (fun m => match sel m with Some (k, _) => [k] | None => [] end) l.

Fixpoint dedup (l : list key) : list key :=
  match l with
  | [] => []
  | a :: t => if existsb (key_eqb a) t then dedup t else a :: dedup t
  end.

(** keys whose projection is not strictly increasing *)
Definition bad_keys (sel : smsg -> option (key * N)) (l : list smsg) : list key :=
  filter (fun k => negb (incrb (proj sel k l))) (dedup (keys sel l)).

Definition ordered_byb (sel : smsg -> option (key * N)) (l : list smsg) : bool :=
  match bad_keys sel l with [] => true | _ => false end.

Fixpoint fin_ok (fin : N -> smsg -> bool) (cid : N) (l : list smsg) (alive : bool) : bool :=
  match l with
  | [] => true
  | m :: t =>
      if is_reply cid m then alive && fin_ok fin cid t (negb (fin cid m))
      else fin_ok fin cid t alive
  end.

Definition reply_cids (l : list smsg) : list N :=
  flat_map (fun m => match m with
                     | SResult c _ _ _ _ => [c] | SErrorCall c _ => [c] | _ => [] end) l.

Definition nothing_afterb (fin : N -> smsg -> bool) (l : list smsg) : bool :=
  forallb (fun cid => fin_ok fin cid l true) (reply_cids l).

Definition sub_ids (l : list smsg) : list N :=
  flat_map (fun m => match m with
                     | SEvent s _ _ _ => [s] | SSubscribed s => [s] | SUnsubscribed s => [s]
                     | _ => [] end) l.

Definition reg_ids (l : list smsg) : list N :=
  flat_map (fun m => match m with
                     | SInvocation r _ _ _ _ _ => [r] | SRegistered r => [r]
                     | SUnregistered r => [r] | _ => [] end) l.

(** The monitor: one boolean per claim, for one receiver's log. *)
Definition mon_event_order (l : list smsg) : bool := ordered_byb sel_event l.
Definition mon_call_order (l : list smsg) : bool := ordered_byb sel_inv l.
Definition mon_progress_order (l : list smsg) : bool :=
  ordered_byb sel_res l && nothing_afterb final_looking l.
Definition mon_sub (l : list smsg) : bool :=
  forallb (fun sb => scan_ok (sub_mark sb) l) (sub_ids l).
Definition mon_reg (l : list smsg) : bool :=
  forallb (fun rg => scan_ok (reg_mark rg) l) (reg_ids l).

(** failing claims of a log, as numbers 1..5 (for the driver's output):
    1 event_order, 2 call_order, 3 progress_order,
    4 subscribed_before_event / no_event_after_unsubscribed,
    5 registered_before_invocation / no_invocation_after_unregistered *)
Definition monitor (l : list smsg) : list N :=
  (if mon_event_order l then [] else [1]) ++
  (if mon_call_order l then [] else [2]) ++
  (if mon_progress_order l then [] else [3]) ++
  (if mon_sub l then [] else [4]) ++
  (if mon_reg l then [] else [5]).
