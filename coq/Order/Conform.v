(** C08 — per-run conformance of the attribution table regenerated from
    /repo (coq/gen/GenC08Sites.v) with the table the proofs rest on. *)
From Coq Require Import List NArith Bool String.
From Nexus Require Import Order.Sites gen.GenC08Sites.
Import ListNotations.

(* for the check's diagnosis: the names of the obligations that fail *)
Eval vm_compute in (failed_checks gen_sites gen_submits gen_shape).

Theorem send_sites_conform : conforms gen_sites gen_submits gen_shape = true.
Proof. vm_compute. reflexivity. Qed.

Theorem sites_attribution_equal : sites_ok gen_sites = true.
Proof. vm_compute. reflexivity. Qed.

Theorem handover_discipline : submits_ok gen_submits = true.
Proof. vm_compute. reflexivity. Qed.

Theorem shape_facts : shape_ok gen_shape = true.
Proof. vm_compute. reflexivity. Qed.
