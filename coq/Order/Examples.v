(** C08 — concrete traces of the LTS (non-vacuity witnesses and the refutation
    witness).  Definitions and the observation helper only. *)
From Coq Require Import List NArith Bool.
From Nexus Require Import Order.Model Order.Spec.
Import ListNotations.
Open Scope N_scope.

Definition o0 := mkoracle false [] 0 0 0 false false.
Definition otg (tg : list (N * sid)) := mkoracle false tg 0 0 0 false false.
Definition ocall (callee : sid) (rg : N) := mkoracle false [] callee rg 0 false false.
Definition orefuse := mkoracle true [] 0 0 0 false false.
Definition oretry := mkoracle false [] 0 0 0 false true.

Definition cfg8 := mkconfig 8 false.      (* the code as it is *)
Definition cfg8r := mkconfig 8 true.      (* with fixes/C08-refused-chunk *)
Definition cfg1 := mkconfig 1 false.      (* queues of capacity one *)

(** what session [r] has received / has queued after trace [tr] *)
Definition obs (cf : config) (tr : list label) (r : sid) : option (list smsg) :=
  match run cf init tr with Some st => Some (stream st r) | None => None end.

Definition attempts (cf : config) (tr : list label) (r : sid) : option (list (smsg * bool)) :=
  match run cf init tr with Some st => Some (att st r) | None => None end.

(** one message through the handler to a worker, closure executed, [n] sends accepted *)
Definition through (s : sid) (w : worker) (o : oracle) (emits : nat) : list label :=
  [HandlerTake s; Submit s w; WorkerRun w o] ++ repeat (Emit w) emits ++ [WorkerDone w].

(* A: 1 subscribes to 5, 2 publishes twice (acknowledged), 1 unsubscribes,
      2 publishes again (nobody is served), 1 subscribes again, 2 publishes *)
Definition tr_events : list label :=
  [ClientSend 1 (CSubscribe 5)] ++ through 1 Broker o0 1 ++
  [ClientSend 2 (CPublish 7 true); ClientSend 2 (CPublish 7 false)] ++
  through 2 Broker (otg [(5, 1)]) 1 ++ [HandlerEmit 2] ++
  through 2 Broker (otg [(5, 1)]) 1 ++
  [ClientSend 1 (CUnsubscribe 5)] ++ through 1 Broker o0 1 ++
  [ClientSend 2 (CPublish 7 false)] ++ through 2 Broker o0 0 ++
  [ClientSend 1 (CSubscribe 5)] ++ through 1 Broker o0 1 ++
  [ClientSend 2 (CPublish 7 false)] ++ through 2 Broker (otg [(5, 1)]) 1.

(* B: 1 registers 9; 2 calls twice *)
Definition tr_calls : list label :=
  [ClientSend 1 (CRegister 9)] ++ through 1 Dealer o0 1 ++ [HandlerResume 1] ++
  [ClientSend 2 (CCall 1 false); ClientSend 2 (CCall 2 false)] ++
  through 2 Dealer (ocall 1 9) 1 ++ through 2 Dealer (ocall 1 9) 1.

(* C: ... 1 answers the first call with a progressive and then the final result *)
Definition tr_progress : list label :=
  tr_calls ++
  [ClientSend 1 (CYield 1 true); ClientSend 1 (CYield 1 false)] ++
  through 1 Dealer o0 1 ++ [HandlerResume 1] ++
  through 1 Dealer o0 1 ++ [HandlerResume 1].

(* D: queues of capacity 1.  The caller's queue is full when the second YIELD
      arrives: the RESULT is dropped, the YIELD is retried while the callee's
      third YIELD waits in its inbox and cannot overtake *)
Definition tr_retry : list label :=
  [ClientSend 1 (CRegister 9)] ++ through 1 Dealer o0 1 ++ [HandlerResume 1; ClientRecv 1] ++
  [ClientSend 2 (CCall 1 false)] ++ through 2 Dealer (ocall 1 9) 1 ++
  [ClientSend 1 (CYield 1 true); ClientSend 1 (CYield 1 true); ClientSend 1 (CYield 1 false)] ++
  through 1 Dealer oretry 1 ++ [HandlerResume 1] ++
  [HandlerTake 1; Submit 1 Dealer; WorkerRun Dealer oretry; Drop Dealer; Tau Dealer;
   WorkerDone Dealer; HandlerResume 1;
   ClientRecv 2; YieldRetry 1; WorkerRun Dealer oretry; Emit Dealer; WorkerDone Dealer;
   HandlerResume 1; ClientRecv 2] ++
  through 1 Dealer oretry 1 ++ [HandlerResume 1].

(* R: the refused continuation chunk (router/dealer.go syncCall, first branch):
      2 opens a progressive call, its second CALL message is refused
      (no_such_procedure) without erasing the call, 1 then yields *)
Definition tr_refused : list label :=
  [ClientSend 1 (CRegister 9)] ++ through 1 Dealer o0 1 ++ [HandlerResume 1] ++
  [ClientSend 2 (CCall 7 true)] ++ through 2 Dealer (ocall 1 9) 1 ++
  [ClientSend 2 (CCall 7 false)] ++ through 2 Dealer orefuse 1 ++
  [ClientSend 1 (CYield 1 true)] ++ through 1 Dealer o0 1 ++ [HandlerResume 1].
