(** C08 — structural invariants of the LTS: sequence numbers, the per-session
    pipeline (what the handler still has to process, in order), the link
    between a worker's closure and the submitting handler, which goroutine
    sends which kind of message, queue = accepted attempts. *)
From Coq Require Import List NArith Bool Sorted Lia.
From Nexus Require Import Order.Model Order.Spec Order.SpecProofs.
Import ListNotations.
Open Scope N_scope.

(* ---------------------------------------------------------------- tactics *)

Ltac dm H :=
  repeat match type of H with
         | context [match ?x with _ => _ end] =>
             let E := fresh "E" in destruct x eqn:E; try discriminate H
         end.

Ltac inv H := inversion H; subst; clear H.

Ltac step_cases H :=
  match type of H with
  | step _ _ ?l = Some _ => destruct l; simpl in H; unfold exec in H; dm H; inv H
  end.

Lemma upd_same : forall A (f : N -> A) k v, upd f k v k = v.
Proof. intros; unfold upd; rewrite N.eqb_refl; reflexivity. Qed.

Lemma upd_other : forall A (f : N -> A) k v x, x <> k -> upd f k v x = f x.
Proof. intros; unfold upd. destruct (N.eqb_spec x k); congruence. Qed.

Lemma weqb_eq : forall a b, weqb a b = true <-> a = b.
Proof. destruct a, b; simpl; split; congruence. Qed.

Lemma updw_same : forall A (f : worker -> A) k v, updw f k v k = v.
Proof. intros; unfold updw. destruct k; reflexivity. Qed.

Lemma updw_other : forall A (f : worker -> A) k v x, x <> k -> updw f k v x = f x.
Proof. intros; unfold updw. destruct x, k; simpl; congruence. Qed.

Ltac updsimp :=
  repeat match goal with
         | |- context [upd ?f ?k ?v ?x] =>
             let E := fresh "E" in
             destruct (N.eq_dec x k) as [E|E];
             [try subst x; try subst k; rewrite ?upd_same in *
             |rewrite ?(upd_other _ f k v x E) in *]
         | H : context [upd ?f ?k ?v ?x] |- _ =>
             let E := fresh "E" in
             destruct (N.eq_dec x k) as [E|E];
             [try subst x; try subst k; rewrite ?upd_same in *
             |rewrite ?(upd_other _ f k v x E) in *]
         end.

Lemma weqb_neq : forall a b, weqb a b = false -> a <> b.
Proof. destruct a, b; simpl; congruence. Qed.

Ltac updwsimp :=
  repeat match goal with
         | |- context [updw ?f ?k ?v ?x] =>
             let E := fresh "E" in
             destruct (weqb x k) eqn:E;
             [apply weqb_eq in E; try subst x; try subst k; rewrite ?updw_same in *
             |apply weqb_neq in E; rewrite ?(updw_other _ f k v x E) in *]
         | H : context [updw ?f ?k ?v ?x] |- _ =>
             let E := fresh "E" in
             destruct (weqb x k) eqn:E;
             [apply weqb_eq in E; try subst x; try subst k; rewrite ?updw_same in *
             |apply weqb_neq in E; rewrite ?(updw_other _ f k v x E) in *]
         end.

(* ---------------------------------------------------------------- pipeline *)

Definition cur (h : hstate) : list N :=
  match h with
  | HHold q _ | HWait q _ | HDone q _ _ | HRetry q _ => [q]
  | _ => []
  end.

Definition pipeline (st : state) (s : sid) : list N :=
  cur (hst st s) ++ map fst (inbox st s).

Lemma cur_after_submit : forall q m, cur (after_submit q m) = [].
Proof. intros q m; destruct m; simpl; auto. destruct ack; auto. Qed.

Lemma cur_after_done : forall q m a x, In x (cur (after_done q m a)) -> x = q.
Proof.
  intros q m a x; destruct m; simpl; try tauto; destruct a; simpl; intuition.
Qed.

(** Every step leaves the pipelines alone, shortens one, or appends the fresh
    sequence number. *)
Lemma pipeline_step : forall cf st l st' s x,
  step cf st l = Some st' -> In x (pipeline st' s) ->
  In x (pipeline st s) \/ (x = gseq st /\ gseq st' = N.succ (gseq st)).
Proof.
  intros cf st l st' s x H Hin. unfold pipeline in *.
  step_cases H; simpl in *; auto; updsimp; simpl in *; auto;
  repeat match goal with E : hst _ _ = _ |- _ => rewrite E in *; clear E end;
  repeat match goal with E : inbox _ _ = _ |- _ => rewrite E in *; clear E end;
  simpl in *; rewrite ?map_app in *; simpl in *; auto; try tauto;
  try (rewrite ?in_app_iff in *; simpl in *; intuition (subst; auto)).
  - rewrite cur_after_submit in H; destruct H.
  - apply cur_after_done in H; auto.
Qed.

Lemma gseq_step : forall cf st l st', step cf st l = Some st' ->
  gseq st' = gseq st \/ gseq st' = N.succ (gseq st).
Proof.
  intros cf st l st' H.
  step_cases H; simpl; auto.
Qed.

(* ---------------------------------------------------------------- base invariants *)

Definition wf_seq (st : state) : Prop :=
  1 <= gseq st /\ forall s x, In x (pipeline st s) -> 1 <= x < gseq st.

Definition wf_pipe (st : state) : Prop :=
  forall s, StronglySorted N.lt (pipeline st s).

Definition link_ok (st : state) (w : worker) (from : sid) (q : N) (m : cmsg) : Prop :=
  target m = w /\ q < gseq st /\
  (if waits m then hst st from = HWait q m
   else forall x, In x (pipeline st from) -> q < x).

Definition wlink (st : state) (w : worker) : Prop :=
  match wst st w with
  | WIdle => True
  | WBusy from q m => link_ok st w from q m
  | WRun from q m _ _ => link_ok st w from q m
  end.

Definition kind_broker (m : smsg) : bool :=
  match m with
  | SEvent _ _ _ _ | SSubscribed _ | SUnsubscribed _ | SOther _ => true
  | _ => false
  end.

Definition kind_handler (m : smsg) : bool :=
  match m with SPublished _ | SOther _ => true | _ => false end.

Definition kind_dealer (m : smsg) : bool :=
  match m with
  | SInvocation _ _ _ _ _ _ | SRegistered _ | SUnregistered _ | SResult _ _ _ _ _
  | SErrorCall _ _ | SOther _ => true
  | _ => false
  end.

Definition bop_ok (o : wop) : bool :=
  match o with OSimple (SSend _ m) => kind_broker m | _ => false end.

Definition sop_ok (o : sop) : bool :=
  match o with
  | SSend _ m => match m with
                 | SRegistered _ | SUnregistered _ | SOther _ | SErrorCall _ false => true
                 | _ => false
                 end
  | SReply _ m => match m with SErrorCall _ true => true | _ => false end
  | SAgain => true
  end.

(** what may follow a failed try-send: INTERRUPT, the closing ERROR, "again" *)
Definition onf_ok (o : sop) : bool :=
  match o with
  | SSend _ (SOther _) => true
  | SReply _ (SErrorCall _ true) => true
  | SAgain => true
  | _ => false
  end.

Definition is_sreply (o : sop) : bool := match o with SReply _ _ => true | _ => false end.

Definition dop_ok (o : wop) : bool :=
  match o with
  | OSimple s => sop_ok s
  | OTry r m eo ef onf =>
      (match m with
       | SInvocation _ _ _ _ _ _ | SOther _ => negb eo && negb ef
       | SResult _ _ _ _ cl => eqb eo cl && implb ef cl
       | _ => false
       end)
      && forallb onf_ok onf
      && (negb ef || match onf with [] => true | _ => false end)
      && Nat.leb (length (filter is_sreply onf)) 1
  end.

Definition is_simple (o : wop) : bool := match o with OSimple _ => true | _ => false end.

Definition try_sole (ops : list wop) : bool :=
  match ops with
  | [OTry _ _ _ _ _] => true
  | _ => forallb is_simple ops
  end.

Definition wf_broker (st : state) : Prop :=
  match wst st Broker with
  | WRun _ _ _ _ ops => forallb bop_ok ops = true
  | _ => True
  end.

Definition wf_dealer (st : state) : Prop :=
  match wst st Dealer with
  | WRun _ _ _ _ ops => forallb dop_ok ops = true /\ try_sole ops = true
  | _ => True
  end.

Definition wf_hpost (st : state) : Prop :=
  forall s l, hst st s = HPost l -> forallb kind_handler l = true.

Definition wf_queue (st : state) : Prop :=
  forall r, dlv st r ++ outq st r = accepted (att st r).

Record base (st : state) : Prop := mkbase {
  b_seq : wf_seq st;
  b_pipe : wf_pipe st;
  b_link : forall w, wlink st w;
  b_broker : wf_broker st;
  b_dealer : wf_dealer st;
  b_hpost : wf_hpost st;
  b_queue : wf_queue st }.

Lemma wf_seq_step : forall cf st l st', wf_seq st -> step cf st l = Some st' -> wf_seq st'.
Proof.
  intros cf st l st' [H1 H2] H. split.
  - destruct (gseq_step _ _ _ _ H) as [->| ->]; lia.
  - intros s x Hin. destruct (pipeline_step _ _ _ _ s x H Hin) as [Hold|[-> ->]].
    + specialize (H2 s x Hold). destruct (gseq_step _ _ _ _ H) as [->| ->]; lia.
    + lia.
Qed.

Lemma sorted_snoc : forall l g, StronglySorted N.lt l -> (forall x, In x l -> x < g) ->
  StronglySorted N.lt (l ++ [g]).
Proof.
  induction l as [|a l IH]; intros g Hs Hb; simpl.
  - repeat constructor.
  - inversion Hs; subst. constructor.
    + apply IH; auto. intros; apply Hb; right; auto.
    + apply Forall_forall. intros x Hx. apply in_app_or in Hx as [Hx|[<-|[]]].
      * rewrite Forall_forall in H2; auto.
      * apply Hb; left; reflexivity.
Qed.

Lemma sorted_tail : forall a (l : list N), StronglySorted N.lt (a :: l) -> StronglySorted N.lt l.
Proof. intros a l H; inversion H; auto. Qed.

Lemma cur_after_done_cases : forall q m a,
  cur (after_done q m a) = [q] \/ cur (after_done q m a) = [].
Proof. intros q m a; destruct m; simpl; auto; destruct a; simpl; auto. Qed.

Lemma pipeline_shape : forall cf st l st' s,
  step cf st l = Some st' ->
  pipeline st' s = pipeline st s \/
  pipeline st' s = pipeline st s ++ [gseq st] \/
  exists a, pipeline st s = a :: pipeline st' s.
Proof.
  intros cf st l st' s H. unfold pipeline.
  step_cases H; simpl in *; auto; updsimp; simpl in *; auto;
  repeat match goal with E : hst _ _ = _ |- _ => rewrite E in *; clear E end;
  repeat match goal with E : inbox _ _ = _ |- _ => rewrite E in *; clear E end;
  simpl in *; rewrite ?map_app in *; simpl in *; auto;
  try (right; left; rewrite app_assoc; reflexivity);
  try (right; right; eexists; reflexivity).
  - rewrite cur_after_submit. right; right; eexists; reflexivity.
  - destruct (cur_after_done_cases q m again) as [-> | ->]; simpl; auto.
    right; right; eexists; reflexivity.
Qed.

Lemma wf_pipe_step : forall cf st l st',
  wf_seq st -> wf_pipe st -> step cf st l = Some st' -> wf_pipe st'.
Proof.
  intros cf st l st' [_ Hb] Hp H s.
  destruct (pipeline_shape _ _ _ _ s H) as [-> | [-> | [a E]]]; auto.
  - apply sorted_snoc; auto. intros x Hx. apply Hb in Hx; lia.
  - specialize (Hp s). rewrite E in Hp. eapply sorted_tail; eauto.
Qed.

Definition is_yield (m : cmsg) : bool := match m with CYield _ _ => true | _ => false end.

Definition wf_hst (st : state) : Prop :=
  forall s, match hst st s with
            | HRetry _ m => is_yield m = true
            | HWait _ m | HDone _ m _ => waits m = true
            | _ => True
            end.

Lemma waits_dealer : forall m, waits m = true -> target m = Dealer.
Proof. destruct m; simpl; congruence. Qed.

Lemma yield_waits : forall m, is_yield m = true -> waits m = true.
Proof. destruct m; simpl; congruence. Qed.

Inductive htrans : hstate -> hstate -> Prop :=
| ht_take q m : htrans HIdle (HHold q m)
| ht_reject q m : htrans (HHold q m) (HPost [SOther 9])
| ht_submit_w q m : waits m = true -> htrans (HHold q m) (HWait q m)
| ht_submit_n q m : waits m = false -> htrans (HHold q m) (after_submit q m)
| ht_retry q m : htrans (HRetry q m) (HWait q m)
| ht_done q m a : htrans (HWait q m) (HDone q m a)
| ht_resume q m a : htrans (HDone q m a) (after_done q m a)
| ht_post m l : htrans (HPost (m :: l)) (match l with [] => HIdle | _ => HPost l end).

Lemma hst_step : forall cf st l st' s, step cf st l = Some st' ->
  hst st' s = hst st s \/ htrans (hst st s) (hst st' s).
Proof.
  intros cf st l st' s H.
  step_cases H; simpl in *; auto; updsimp; auto; right;
  repeat match goal with E : hst _ _ = _ |- _ => rewrite E; clear E end;
  try (constructor; auto; fail).
Qed.

Lemma wf_hst_step : forall cf st l st', wf_hst st -> step cf st l = Some st' -> wf_hst st'.
Proof.
  intros cf st l st' Hh H s. specialize (Hh s).
  destruct (hst_step _ _ _ _ s H) as [-> | T]; auto.
  inversion T as [q m E0 E1|q m E0 E1|q m W E0 E1|q m W E0 E1|q m E0 E1|q m a E0 E1
                 |q m a E0 E1|m l0 E0 E1]; rewrite <- E0 in Hh; simpl in *; auto.
  - destruct m; simpl; auto; destruct ack; simpl; auto.
  - apply yield_waits; auto.
  - destruct m; simpl in *; auto; try discriminate; destruct a; simpl; auto.
  - destruct l0; auto.
Qed.

Definition closure (x : wstate) : option (sid * N * cmsg) :=
  match x with
  | WIdle => None
  | WBusy from q m => Some (from, q, m)
  | WRun from q m _ _ => Some (from, q, m)
  end.

Lemma wlink_closure : forall st w,
  wlink st w <-> (forall from q m, closure (wst st w) = Some (from, q, m) -> link_ok st w from q m).
Proof.
  intros st w; unfold wlink; destruct (wst st w); simpl; split; auto.
  - intros _ from q m E; discriminate.
  - intros H from0 q0 m0 E; inv E; auto.
  - intros H from0 q0 m0 E; inv E; auto.
Qed.

(** a closure that stays at its worker keeps its link, provided the waiting
    handler was not touched *)
Lemma link_frame : forall cf st l st' w from q m,
  wf_seq st -> link_ok st w from q m -> step cf st l = Some st' ->
  (waits m = true -> hst st' from = HWait q m) ->
  link_ok st' w from q m.
Proof.
  intros cf st l st' w from q m [Hg Hb] [Ht [Hq Hl]] H Hw. split; auto. split.
  - destruct (gseq_step _ _ _ _ H) as [-> | ->]; lia.
  - destruct (waits m); auto. intros x Hx.
    destruct (pipeline_step _ _ _ _ from x H Hx) as [Hold|[-> _]]; auto.
Qed.

(** how the worker states move *)
Lemma wst_step : forall cf st l st' w, step cf st l = Some st' ->
  closure (wst st' w) = closure (wst st w) \/
  wst st' w = WIdle \/
  (wst st w = WIdle /\ gseq st' = gseq st /\ inbox st' = inbox st /\
   ((exists s q m, l = Submit s w /\ hst st s = HHold q m /\ wst st' w = WBusy s q m
                   /\ target m = w
                   /\ hst st' = upd (hst st) s (if waits m then HWait q m else after_submit q m)) \/
    (exists s q m, l = YieldRetry s /\ w = Dealer /\ hst st s = HRetry q m
                   /\ wst st' w = WBusy s q m /\ hst st' = upd (hst st) s (HWait q m)) \/
    (exists s req, l = TimerFire s req /\ w = Dealer /\ wst st' w = WBusy s 0 (CCancel req)
                   /\ hst st' = hst st))).
Proof.
  intros cf st l st' w H.
  step_cases H; simpl in *; auto; updwsimp; simpl; auto;
  repeat match goal with E : wst _ _ = _ |- _ => rewrite E; clear E end; simpl; auto.
  all: right; right; repeat (split; auto).
  all: first [ left; exists s, q, m;
               match goal with E : weqb _ _ = true |- _ => apply weqb_eq in E end;
               match goal with E : waits _ = _ |- _ => rewrite E end; repeat split; auto; fail
             | right; left; exists s, q, m; repeat split; auto; fail
             | right; right; exists s, req; repeat split; auto; fail ].
Qed.

Lemma hst_wait_step : forall cf st l st' s q m,
  step cf st l = Some st' -> hst st s = HWait q m ->
  hst st' s = HWait q m \/
  (exists w a cm q', l = WorkerDone w /\ wst st w = WRun s q' cm a [] /\ waits cm = true
                     /\ wst st' w = WIdle).
Proof.
  intros cf st l st' s q m H Hs.
  step_cases H; simpl in *; auto; updsimp; auto; try congruence.
  right. exists w, again, m0, q0. rewrite updw_same. auto.
Qed.

Lemma sorted_head_lt : forall (a : N) l x, StronglySorted N.lt (a :: l) -> In x l -> a < x.
Proof. intros a l x H Hin; inversion H; subst. rewrite Forall_forall in H3; auto. Qed.

Lemma wlink_step : forall cf st l st',
  wf_seq st -> wf_pipe st -> wf_hst st -> (forall w, wlink st w) ->
  step cf st l = Some st' -> forall w, wlink st' w.
Proof.
  intros cf st l st' Hseq Hpipe Hhst Hl H w. apply wlink_closure. intros from q m Ec.
  destruct (wst_step _ _ _ _ w H) as [Esame | [Eidle | [Hidle [Hg [Hi New]]]]].
  - assert (Ec0 : closure (wst st w) = Some (from, q, m)) by (rewrite <- Esame; auto).
    pose proof (proj1 (wlink_closure st w) (Hl w) from q m Ec0) as Hold.
    eapply link_frame; eauto. intros Hw. destruct Hold as [Ht [_ Hh]]. rewrite Hw in Hh.
    destruct (hst_wait_step _ _ _ _ from q m H Hh) as [|[w' [a [cm [q' [-> [Ew' [Hcm Ew'']]]]]]]]; auto.
    exfalso.
    assert (w' = Dealer).
    { pose proof (Hl w') as L. unfold wlink in L. rewrite Ew' in L. destruct L as [T _].
      rewrite <- T. apply waits_dealer; auto. }
    assert (w = Dealer) by (rewrite <- Ht; apply waits_dealer; auto).
    rewrite H1, <- H0, Ew'' in Ec. discriminate.
  - rewrite Eidle in Ec; discriminate.
  - destruct Hseq as [Hg1 Hb].
    destruct New as [[s [q0 [m0 [-> [Hs [Ew [Ht Hh]]]]]]]
                    |[[s [q0 [m0 [-> [-> [Hs [Ew Hh]]]]]]]|[s [req [-> [-> [Ew Hh]]]]]]];
    rewrite Ew in Ec; inv Ec.
    + assert (Hq : In q (pipeline st from)).
      { unfold pipeline; rewrite Hs; left; reflexivity. }
      split; auto. split. { rewrite Hg. apply Hb in Hq; lia. }
      destruct (waits m) eqn:Ew'.
      * rewrite Hh, upd_same; reflexivity.
      * intros x Hx. unfold pipeline in Hx. rewrite Hh, upd_same, cur_after_submit, Hi in Hx.
        simpl in Hx. pose proof (Hpipe from) as Hp. unfold pipeline in Hp. rewrite Hs in Hp.
        simpl in Hp. eapply sorted_head_lt; eauto.
    + pose proof (Hhst from) as Y. rewrite Hs in Y.
      assert (Hq : In q (pipeline st from)).
      { unfold pipeline; rewrite Hs; left; reflexivity. }
      split. { apply waits_dealer, yield_waits; auto. }
      split. { rewrite Hg. apply Hb in Hq; lia. }
      rewrite (yield_waits _ Y). rewrite Hh, upd_same; reflexivity.
    + split; auto. split; [lia|]. simpl. intros x Hx.
      unfold pipeline in Hx. rewrite Hh, Hi in Hx. apply Hb in Hx. lia.
Qed.

(* ---------------------------------------------------------------- who sends what *)

Lemma meta_ops_ok : forall q tg, forallb bop_ok (meta_ops q tg) = true.
Proof. intros q tg; unfold meta_ops; induction tg; simpl; auto. Qed.

Lemma plan_broker_ok : forall st from q m o subs' ops,
  plan_broker st from q m o = Some (subs', ops) -> forallb bop_ok ops = true.
Proof.
  intros st from q m o subs' ops H. unfold plan_broker in H.
  destruct m; try discriminate; dm H; inv H; simpl; auto using meta_ops_ok.
  clear. induction (o_tg o); simpl; auto.
Qed.

Lemma wf_broker_step : forall cf st l st',
  (forall w, wlink st w) -> wf_broker st -> step cf st l = Some st' -> wf_broker st'.
Proof.
  intros cf st l st' Hl Hb H. unfold wf_broker in *.
  step_cases H; simpl in *; auto; updwsimp; auto;
  repeat match goal with E : wst _ Broker = _ |- _ => rewrite E in *; clear E end;
  simpl in *; auto;
  try (apply andb_true_iff in Hb as [? ?]; auto; fail);
  try discriminate.
  all: try (eapply plan_broker_ok; eauto; fail).
Qed.

Lemma try_sole_simple : forall l, forallb is_simple l = true -> try_sole l = true.
Proof.
  intros l H. destruct l as [|o l]; auto. destruct o; simpl in *; auto; discriminate.
Qed.

Lemma try_sole_tail : forall o l, try_sole (o :: l) = true -> forallb is_simple l = true.
Proof.
  intros o l H. destruct o; simpl in H.
  - auto.
  - destruct l; auto. simpl in H. discriminate.
Qed.

Lemma try_sole_try : forall r m eo ef onf l, try_sole (OTry r m eo ef onf :: l) = true -> l = [].
Proof. intros. destruct l; auto. simpl in H. discriminate. Qed.

Lemma simple_map : forall onf, forallb is_simple (map OSimple onf) = true.
Proof. induction onf; simpl; auto. Qed.

Lemma onf_sop : forall o, onf_ok o = true -> sop_ok o = true.
Proof.
  intros o H; destruct o as [r m|r m|]; simpl in *; auto; destruct m; try discriminate; auto.
Qed.

Lemma dop_map : forall onf, forallb onf_ok onf = true -> forallb dop_ok (map OSimple onf) = true.
Proof.
  induction onf; simpl; auto. intros H; apply andb_true_iff in H as [? ?].
  rewrite (onf_sop _ H); auto.
Qed.

Lemma err_replies_ok : forall (f : crec -> bool) cs,
  forallb dop_ok (map (fun c => OSimple (err_reply c)) (filter f cs)) = true /\
  forallb is_simple (map (fun c => OSimple (err_reply c)) (filter f cs)) = true.
Proof.
  intros f cs; induction cs as [|c cs [IH1 IH2]]; simpl; auto.
  destruct (f c); simpl; auto.
Qed.

Lemma plan_dealer_ok : forall cf st from q m o regs' calls' g' ops,
  plan_dealer cf st from q m o = Some (regs', calls', g', ops) ->
  forallb dop_ok ops = true /\ try_sole ops = true.
Proof.
  intros cf st from q m o regs' calls' g' ops H. unfold plan_dealer in H.
  destruct m; try discriminate; dm H; inv H; simpl; auto;
  rewrite ?eqb_reflx, ?andb_true_r; auto.
  all: try (destruct (negb progress && negb (c_inprog c)); auto; fail).
  - pose proof (err_replies_ok (fun c => (c_callee c =? from) && negb (c_canceled c)) (calls st))
      as [A B]. split; auto. apply try_sole_simple; auto.
Qed.

Lemma wf_dealer_step : forall cf st l st',
  wf_dealer st -> step cf st l = Some st' -> wf_dealer st'.
Proof.
  intros cf st l st' Hb H. unfold wf_dealer in *.
  step_cases H; simpl in *; auto; updwsimp; auto;
  repeat match goal with E : wst _ Dealer = _ |- _ => rewrite E in *; clear E end;
  simpl in *; auto; try discriminate.
  all: try (eapply plan_dealer_ok; eauto; fail).
  all: destruct Hb as [Hd Hs].
  all: try (apply andb_true_iff in Hd as [Hd1 Hd2]).
  all: try (split; [auto|apply try_sole_simple; auto]; fail).
  all: destruct l; try discriminate; simpl; auto; rewrite ?app_nil_r.
  all: repeat (apply andb_true_iff in Hd1 as [Hd1 ?]).
  all: split; [apply dop_map; auto|apply try_sole_simple, simple_map].
Qed.

Lemma wf_hpost_step : forall cf st l st', wf_hpost st -> step cf st l = Some st' -> wf_hpost st'.
Proof.
  intros cf st l st' Hh H s l0 Hs.
  destruct (hst_step _ _ _ _ s H) as [E | T].
  - rewrite E in Hs. eapply Hh; eauto.
  - rewrite Hs in T.
    inversion T as [q m E0 E1|q m E0 E1|q m W E0 E1|q m W E0 E1|q m E0 E1|q m a E0 E1
                   |q m a E0 E1|m l1 E0 E1]; subst; auto.
    + destruct m; simpl in *; try discriminate. destruct ack; inv E1. reflexivity.
    + destruct m; simpl in *; try discriminate; destruct a; discriminate.
    + destruct l1; inv E1. symmetry in E0. apply Hh in E0. simpl in E0.
      apply andb_true_iff in E0 as [_ E0]; auto.
Qed.

Lemma wf_queue_step : forall cf st l st', wf_queue st -> step cf st l = Some st' -> wf_queue st'.
Proof.
  intros cf st l st' Hq H r. specialize (Hq r).
  step_cases H; simpl in *; auto; updsimp; auto;
  rewrite ?accepted_snoc, ?app_assoc, ?app_nil_r; try congruence.
  - rewrite <- Hq, E. rewrite <- app_assoc. reflexivity.
Qed.

Lemma base_init : base init.
Proof.
  constructor.
  - split; simpl; [lia|]. intros s x [].
  - intros s; constructor.
  - intros w; exact I.
  - exact I.
  - exact I.
  - intros s l H; discriminate.
  - intros r; reflexivity.
Qed.

Lemma wf_hst_init : wf_hst init.
Proof. intros s; exact I. Qed.

Theorem base_step : forall cf st l st',
  base st -> wf_hst st -> step cf st l = Some st' -> base st' /\ wf_hst st'.
Proof.
  intros cf st l st' [B1 B2 B3 B4 B5 B6 B7] Hh H. split; [constructor|].
  - eapply wf_seq_step; eauto.
  - eapply wf_pipe_step; eauto.
  - eapply wlink_step; eauto.
  - eapply wf_broker_step; eauto.
  - eapply wf_dealer_step; eauto.
  - eapply wf_hpost_step; eauto.
  - eapply wf_queue_step; eauto.
  - eapply wf_hst_step; eauto.
Qed.

(** generic induction principle over traces *)
Lemma run_invariant : forall (P : state -> Prop) cf,
  (forall st l st', P st -> step cf st l = Some st' -> P st') ->
  forall tr st st', P st -> run cf st tr = Some st' -> P st'.
Proof.
  intros P cf Hs tr; induction tr as [|l tr IH]; intros st st' HP H; simpl in H.
  - inv H; auto.
  - destruct (step cf st l) as [st1|] eqn:E; [|discriminate]. apply (IH st1 st'); auto. eapply Hs; eauto.
Qed.

Theorem base_reach : forall cf st, reach cf st -> base st /\ wf_hst st.
Proof.
  intros cf st [tr H].
  apply (run_invariant (fun s => base s /\ wf_hst s) cf) with (tr := tr) (st := init); auto.
  - intros s l s' [A B] Hs. eapply base_step; eauto.
  - split; [apply base_init|apply wf_hst_init].
Qed.
