(** C08 — SUBSCRIBED before EVENT / no EVENT after UNSUBSCRIBED and
    REGISTERED before INVOCATION / no new INVOCATION after UNREGISTERED:
    the invariant (on what was and what is about to be sent by the owning
    worker) and its preservation. *)
From Coq Require Import List NArith Bool Sorted Lia.
From Nexus Require Import Order.Model Order.Spec Order.SpecProofs Order.InvBase Order.InvSend
  Order.InvEvent.
Import ListNotations.
Open Scope N_scope.

(** messages the operations still to be executed will send to [r] (first
    attempts only: what follows a failed attempt is not included) *)
Definition pend_op (r : sid) (o : wop) : list smsg :=
  match head_msg o with
  | Some (r', m) => if r' =? r then [m] else []
  | None => []
  end.

Definition pend_msgs (ops : list wop) (r : sid) : list smsg := flat_map (pend_op r) ops.

Definition wops (st : state) (w : worker) : list wop :=
  match wst st w with WRun _ _ _ _ ops => ops | _ => [] end.

Definition future (st : state) (w : worker) (r : sid) : list smsg :=
  map fst (att st r) ++ pend_msgs (wops st w) r.

Definition scinv (w : worker) (cls : N -> smsg -> mark) (tab : state -> list (N * sid))
  (st : state) : Prop :=
  forall r k, exists b,
    scan (cls k) (future st w r) false = Some b /\
    (mem_pair (k, r) (tab st) = true -> b = true).

(* ---------------------------------------------------------------- scan facts *)

Lemma scan_insert_none : forall cls x l1 l2 b,
  (forall m, In m x -> cls m = MNone) ->
  scan cls (l1 ++ x ++ l2) b = scan cls (l1 ++ l2) b.
Proof.
  intros cls x l1 l2 b H. rewrite (scan_app cls l1 (x ++ l2)), (scan_app cls l1 l2).
  destruct (scan cls l1 b) as [b1|]; auto.
  rewrite scan_app, (scan_none_mark cls x b1 H). reflexivity.
Qed.

Lemma scan_uses : forall cls ext l b0 b,
  scan cls l b0 = Some b ->
  (forall m, In m ext -> cls m = MNone \/ (cls m = MUse /\ b = true)) ->
  scan cls (l ++ ext) b0 = Some b.
Proof.
  intros cls ext l b0 b H Hx. rewrite scan_app, H. clear H.
  induction ext as [|m ext IH]; simpl; auto.
  destruct (Hx m (or_introl eq_refl)) as [-> | [-> ->]]; apply IH; intros; apply Hx; right; auto.
Qed.

Lemma pend_msgs_app : forall a b r, pend_msgs (a ++ b) r = pend_msgs a r ++ pend_msgs b r.
Proof. intros; unfold pend_msgs; apply flat_map_app. Qed.

Lemma in_pend_msgs : forall ops r m,
  In m (pend_msgs ops r) <-> exists o, In o ops /\ head_msg o = Some (r, m).
Proof.
  intros ops r m; unfold pend_msgs. rewrite in_flat_map. split.
  - intros [o [Hin H]]. exists o; split; auto. unfold pend_op in H.
    destruct (head_msg o) as [[r' m']|]; [|contradiction].
    destruct (N.eqb_spec r' r); [|contradiction]. destruct H as [->|[]]. subst; auto.
  - intros [o [Hin H]]. exists o; split; auto. unfold pend_op. rewrite H, N.eqb_refl. left; auto.
Qed.

(* ---------------------------------------------------------------- generic preservation *)

Section Generic.
  Variable w : worker.
  Variable cls : N -> smsg -> mark.
  Variable tab : state -> list (N * sid).

  (** nothing relevant moved *)
  Lemma scinv_frame : forall st st',
    scinv w cls tab st -> att st' = att st -> wops st' w = wops st w -> tab st' = tab st ->
    scinv w cls tab st'.
  Proof.
    intros st st' I Ea Ew Et r k. destruct (I r k) as [b [H1 H2]]. exists b.
    unfold future in *. rewrite Ea, Ew, Et. auto.
  Qed.

  (** somebody else appends a message without a mark *)
  Lemma scinv_other_send : forall st st' r0 m ok,
    scinv w cls tab st ->
    att st' = upd (att st) r0 (att st r0 ++ [(m, ok)]) ->
    (forall k, cls k m = MNone) ->
    wops st' w = wops st w -> tab st' = tab st ->
    scinv w cls tab st'.
  Proof.
    intros st st' r0 m ok I Ea Hm Ew Et r k. destruct (I r k) as [b [H1 H2]]. exists b.
    unfold future in *. rewrite Ea, Ew, Et. split; auto.
    destruct (N.eq_dec r r0) as [->|Hn]; [|rewrite upd_other by auto; auto].
    rewrite upd_same, map_app. simpl. rewrite <- app_assoc.
    rewrite (scan_insert_none (cls k) [m]); auto.
    intros m' [<-|[]]; auto.
  Qed.

  (** the worker executes its head operation *)
  Lemma scinv_own_send : forall st st' r0 m ok from q cm again op rest rest',
    scinv w cls tab st ->
    att st' = upd (att st) r0 (att st r0 ++ [(m, ok)]) ->
    wst st w = WRun from q cm again (op :: rest) -> head_msg op = Some (r0, m) ->
    wst st' w = WRun from q cm again rest' ->
    (rest' = rest \/ exists onf, rest' = map OSimple onf ++ rest /\
                                 forall r m' k, In m' (pend_msgs (map OSimple onf) r) -> cls k m' = MNone) ->
    tab st' = tab st ->
    scinv w cls tab st'.
  Proof.
    intros st st' r0 m ok from q cm again op rest rest' I Ea Ew Eh Ew' Hr Et r k.
    destruct (I r k) as [b [H1 H2]]. exists b. rewrite Et. split; auto. clear H2.
    unfold future, wops in *. rewrite Ea, Ew'. rewrite Ew in H1. simpl in H1.
    unfold pend_op in H1 at 1. rewrite Eh in H1.
    assert (Hrest : scan (cls k) (map fst (att st r) ++ (if r0 =? r then [m] else []) ++ pend_msgs rest' r) false
                    = Some b).
    { destruct Hr as [->|[onf [-> Hn]]]; auto.
      rewrite pend_msgs_app.
      rewrite (app_assoc (map fst (att st r)) (if r0 =? r then [m] else [])).
      rewrite scan_insert_none; [rewrite <- app_assoc; auto|].
      intros m' Hin. eapply Hn; eauto. }
    destruct (N.eq_dec r r0) as [->|Hn].
    - rewrite upd_same, map_app. simpl. rewrite N.eqb_refl in Hrest. rewrite <- app_assoc. auto.
    - rewrite upd_other by auto. destruct (N.eqb_spec r0 r); [congruence|]. auto.
  Qed.
End Generic.

(* ---------------------------------------------------------------- marks of foreign messages *)

Lemma sub_mark_dealer : forall k m, kind_dealer m = true -> sub_mark k m = MNone.
Proof. intros k m H; destruct m; simpl in *; auto; discriminate. Qed.

Lemma sub_mark_handler : forall k m, kind_handler m = true -> sub_mark k m = MNone.
Proof. intros k m H; destruct m; simpl in *; auto; discriminate. Qed.

Lemma reg_mark_broker : forall k m, kind_broker m = true -> reg_mark k m = MNone.
Proof. intros k m H; destruct m; simpl in *; auto; discriminate. Qed.

Lemma reg_mark_handler : forall k m, kind_handler m = true -> reg_mark k m = MNone.
Proof. intros k m H; destruct m; simpl in *; auto; discriminate. Qed.

Lemma onf_pend_none : forall onf r m k,
  forallb onf_ok onf = true -> In m (pend_msgs (map OSimple onf) r) -> reg_mark k m = MNone.
Proof.
  intros onf r m k H Hin. apply in_pend_msgs in Hin as [o [Hin Ho]].
  apply in_map_iff in Hin as [s [<- Hs]]. rewrite forallb_forall in H. specialize (H s Hs).
  destruct s as [r' m'|r' m'|]; simpl in *; inv Ho; destruct m; try discriminate; auto.
Qed.

(* ---------------------------------------------------------------- tables *)

Lemma pair_eqb_eq : forall a b, pair_eqb a b = true <-> a = b.
Proof.
  intros [a1 a2] [b1 b2]; unfold pair_eqb; simpl.
  rewrite andb_true_iff, !N.eqb_eq. split; [intros [-> ->]; auto|intros H; inv H; auto].
Qed.

Lemma mem_add_pair : forall a b l, mem_pair a (add_pair b l) = true <-> a = b \/ mem_pair a l = true.
Proof.
  intros a b l; unfold add_pair. destruct (mem_pair b l) eqn:E.
  - split; auto. intros [->|]; auto.
  - unfold mem_pair. simpl. rewrite orb_true_iff, pair_eqb_eq. tauto.
Qed.

Lemma mem_del_pair : forall a b l,
  mem_pair a (del_pair b l) = true <-> a <> b /\ mem_pair a l = true.
Proof.
  intros a b l. rewrite !mem_pair_in. unfold del_pair. rewrite filter_In.
  split.
  - intros [H1 H2]. split; auto. intros ->. rewrite (proj2 (pair_eqb_eq b b) eq_refl) in H2.
    discriminate.
  - intros [H1 H2]. split; auto. destruct (pair_eqb b a) eqn:E; auto.
    apply pair_eqb_eq in E; congruence.
Qed.

Lemma mem_del_sess : forall a s l,
  mem_pair a (del_sess s l) = true <-> snd a <> s /\ mem_pair a l = true.
Proof.
  intros a s l. rewrite !mem_pair_in. unfold del_sess. rewrite filter_In.
  split.
  - intros [H1 H2]. split; auto. intros E. rewrite E, N.eqb_refl in H2. discriminate.
  - intros [H1 H2]. split; auto. destruct (N.eqb_spec (snd a) s); auto.
Qed.

(* ---------------------------------------------------------------- broker / subscriptions *)

Definition subinv := scinv Broker sub_mark subs.
Definition reginv := scinv Dealer reg_mark regs.

Lemma pend_events : forall P t q (tg : list (N * sid)) r m,
  In m (pend_msgs (map (fun a => OSimple (SSend (snd a) (SEvent (fst a) P t q))) tg) r) ->
  exists sb, m = SEvent sb P t q /\ In (sb, r) tg.
Proof.
  intros P t q tg r m H. apply in_pend_msgs in H as [o [Hin Ho]].
  apply in_map_iff in Hin as [[sb r'] [<- Hin]]. simpl in Ho. inv Ho. eauto.
Qed.

Lemma tg_ok_in : forall tg tab a, tg_ok tg tab = true -> In a tg -> mem_pair a tab = true.
Proof.
  intros tg tab a H Hin. unfold tg_ok in H. apply andb_true_iff in H as [_ H].
  rewrite forallb_forall in H. auto.
Qed.

Lemma sub_mark_event : forall k sb P t q,
  sub_mark k (SEvent sb P t q) = MNone \/ (sub_mark k (SEvent sb P t q) = MUse /\ sb = k).
Proof. intros; simpl. destruct (N.eqb_spec sb k); auto. Qed.

(** appending events for pairs that are (or have just become) holders *)
Lemma scan_events : forall k r P t q tg (tab : list (N * sid)) l b,
  scan (sub_mark k) l false = Some b ->
  tg_ok tg tab = true ->
  (mem_pair (k, r) tab = true -> b = true) ->
  scan (sub_mark k)
       (l ++ pend_msgs (map (fun a => OSimple (SSend (snd a) (SEvent (fst a) P t q))) tg) r) false
  = Some b.
Proof.
  intros k r P t q tg tab l b H Htg Hb. apply scan_uses; auto.
  intros m Hin. apply pend_events in Hin as [sb [-> Hin]].
  destruct (sub_mark_event k sb P t q) as [E|[E ->]]; auto.
  right; split; auto. apply Hb. eapply tg_ok_in; eauto.
Qed.

Lemma sub_run : forall st from q m o subs' ops,
  subinv st -> wops st Broker = [] ->
  plan_broker st from q m o = Some (subs', ops) ->
  forall r k, exists b,
    scan (sub_mark k) (map fst (att st r) ++ pend_msgs ops r) false = Some b /\
    (mem_pair (k, r) subs' = true -> b = true).
Proof.
  intros st from q m o subs' ops I Hw H r k.
  destruct (I r k) as [b0 [S0 M0]]. unfold future in S0. rewrite Hw in S0. simpl in S0.
  rewrite app_nil_r in S0.
  unfold plan_broker in H. destruct m; try discriminate; dm H; inv H.
  - (* PUBLISH *)
    exists b0; split; auto. eapply scan_events; eauto.
  - (* SUBSCRIBE *)
    unfold meta_ops. simpl. unfold pend_op at 1. simpl.
    destruct (N.eqb_spec from r) as [->|Hn].
    + destruct (N.eq_dec sb k) as [->|Hk].
      * exists true. split; auto.
        change (SSubscribed k :: ?x) with ([SSubscribed k] ++ x). rewrite app_assoc.
        eapply scan_events; eauto.
        rewrite scan_app, S0. simpl. rewrite N.eqb_refl. reflexivity.
      * exists b0. split.
        -- change (SSubscribed sb :: ?x) with ([SSubscribed sb] ++ x). rewrite app_assoc.
           eapply scan_events; eauto.
           ++ rewrite scan_app, S0. simpl. destruct (N.eqb_spec sb k); congruence.
           ++ intros Hm. apply mem_add_pair in Hm as [Hm|Hm]; auto. inv Hm; congruence.
        -- intros Hm. apply mem_add_pair in Hm as [Hm|Hm]; auto. inv Hm; congruence.
    + exists b0. simpl. split.
      * eapply scan_events; eauto.
        intros Hm. apply mem_add_pair in Hm as [Hm|Hm]; auto. inv Hm; congruence.
      * intros Hm. apply mem_add_pair in Hm as [Hm|Hm]; auto. inv Hm; congruence.
  - (* UNSUBSCRIBE refused *)
    exists b0. split; auto. simpl. unfold pend_op. simpl.
    destruct (from =? r); simpl; rewrite ?app_nil_r; auto.
    rewrite scan_app, S0. reflexivity.
  - (* UNSUBSCRIBE *)
    unfold meta_ops. simpl. unfold pend_op at 1. simpl.
    destruct (N.eqb_spec from r) as [->|Hn].
    + destruct (N.eq_dec sb k) as [->|Hk].
      * exists false. split.
        -- change (SUnsubscribed k :: ?x) with ([SUnsubscribed k] ++ x). rewrite app_assoc.
           eapply scan_events; eauto.
           ++ rewrite scan_app, S0. simpl. rewrite N.eqb_refl. reflexivity.
           ++ intros Hm. apply mem_del_pair in Hm as [Hm _]. exfalso; apply Hm; reflexivity.
        -- intros Hm. apply mem_del_pair in Hm as [Hm _]. exfalso; apply Hm; reflexivity.
      * exists b0. split.
        -- change (SUnsubscribed sb :: ?x) with ([SUnsubscribed sb] ++ x). rewrite app_assoc.
           eapply scan_events; eauto.
           ++ rewrite scan_app, S0. simpl. destruct (N.eqb_spec sb k); congruence.
           ++ intros Hm. apply mem_del_pair in Hm as [_ Hm]; auto.
        -- intros Hm. apply mem_del_pair in Hm as [_ Hm]; auto.
    + exists b0. simpl. split.
      * eapply scan_events; eauto. intros Hm. apply mem_del_pair in Hm as [_ Hm]; auto.
      * intros Hm. apply mem_del_pair in Hm as [_ Hm]; auto.
  - (* the session leaves *)
    exists b0. split.
    + eapply scan_events; eauto. intros Hm. apply mem_del_sess in Hm as [_ Hm]; auto.
    + intros Hm. apply mem_del_sess in Hm as [_ Hm]; auto.
Qed.

Lemma wops_idle : forall st w, (wst st w = WIdle \/ exists f q m, wst st w = WBusy f q m) -> wops st w = [].
Proof. intros st w [H|[f [q [m H]]]]; unfold wops; rewrite H; auto. Qed.

Theorem subinv_step : forall cf st l st',
  base st -> subinv st -> step cf st l = Some st' -> subinv st'.
Proof.
  intros cf st l st' B I H. destruct (sends l) eqn:S.
  - (* a send *)
    destruct (send_step _ _ _ _ S H) as [r0 [m [ok [who [Ea [Eg [Ei [Es [Er [Ec Hw]]]]]]]]]].
    destruct who as [w|].
    + destruct Hw as [Hl [Eh [from [q [cm [again [op [rest [Ew [Ehd [Eo [Ecl [rest' [Ew' Hr]]]]]]]]]]]]]].
      destruct w.
      * pose proof (b_broker st B) as Wb. unfold wf_broker in Wb. rewrite Ew in Wb.
        simpl in Wb. apply andb_true_iff in Wb as [Wb _].
        destruct (bop_ok_inv _ Wb) as [r1 [m1 [-> Km]]].
        eapply scinv_own_send; eauto.
      * pose proof (b_dealer st B) as Wd. unfold wf_dealer in Wd. rewrite Ew in Wd.
        destruct Wd as [Wd _]. simpl in Wd. apply andb_true_iff in Wd as [Wd _].
        pose proof (dop_head_kind _ _ _ Wd Ehd) as Km.
        eapply scinv_other_send; eauto.
        -- intros; apply sub_mark_dealer; auto.
        -- unfold wops. rewrite (Eo Broker) by discriminate. reflexivity.
    + destruct Hw as [Hl [Ew [Ecs [tl [Eh Eh']]]]].
      pose proof (b_hpost st B r0 _ Eh) as Kh. simpl in Kh. apply andb_true_iff in Kh as [Kh _].
      eapply scinv_other_send; eauto.
      * intros; apply sub_mark_handler; auto.
      * unfold wops. rewrite Ew; reflexivity.
  - pose proof (att_same _ _ _ _ S H) as Ea.
    destruct (touches Broker l) eqn:T.
    2:{ apply scinv_frame with (st := st); auto.
        - unfold wops. rewrite (wst_same _ _ _ _ Broker T H). reflexivity.
        - eapply tables_same_broker; eauto. intros o ->. simpl in T. discriminate. }
    destruct l; simpl in S, T; try discriminate; try (destruct w; try discriminate).
    + (* Submit s Broker *)
      apply scinv_frame with (st := st); auto.
      * simpl in H. dm H; inv H; unfold wops; simpl; rewrite E0; reflexivity.
      * eapply tables_same_broker; eauto. intros; discriminate.
    + (* WorkerRun Broker *)
      simpl in H. dm H; inv H. intros r k.
      destruct (sub_run _ _ _ _ _ _ _ I (wops_idle st Broker (or_intror (ex_intro _ _ (ex_intro _ _ (ex_intro _ _ E))))) E0 r k)
        as [b [S1 S2]].
      exists b. unfold future, wops. simpl. auto.
    + (* Tau Broker *)
      simpl in H. unfold exec in H. pose proof (b_broker st B) as Wb. unfold wf_broker in Wb.
      dm H; simpl in Wb; discriminate.
    + (* WorkerDone Broker *)
      apply scinv_frame with (st := st); auto.
      * simpl in H. dm H; inv H; unfold wops; simpl; rewrite ?E; reflexivity.
      * eapply tables_same_broker; eauto. intros; discriminate.
Qed.

Lemma subinv_init : subinv init.
Proof. intros r k; exists false; simpl; split; auto. Qed.

(* ---------------------------------------------------------------- dealer / registrations *)

Lemma scinv_frame_pend : forall w cls tab st st',
  scinv w cls tab st -> att st' = att st ->
  (forall r, pend_msgs (wops st' w) r = pend_msgs (wops st w) r) -> tab st' = tab st ->
  scinv w cls tab st'.
Proof.
  intros w cls tab st st' I Ea Ew Et r k. destruct (I r k) as [b [H1 H2]]. exists b.
  unfold future in *. rewrite Ea, Ew, Et. auto.
Qed.

Lemma tables_same_dealer : forall cf st l st',
  (forall o, l <> WorkerRun Dealer o) -> step cf st l = Some st' -> regs st' = regs st.
Proof.
  intros cf st l st' N H. step_cases H; simpl in *; auto.
  exfalso; eapply N; eauto.
Qed.

Lemma err_replies_none : forall (f : crec -> bool) cs r m k,
  In m (pend_msgs (map (fun c => OSimple (err_reply c)) (filter f cs)) r) -> reg_mark k m = MNone.
Proof.
  intros f cs r m k H. apply in_pend_msgs in H as [o [Hin Ho]].
  apply in_map_iff in Hin as [c [<- _]]. simpl in Ho. inv Ho. reflexivity.
Qed.

Lemma plan_dealer_marks : forall cf st from q m o regs' calls' g' ops,
  plan_dealer cf st from q m o = Some (regs', calls', g', ops) ->
  (exists rg0, ops = [OSimple (SSend from (SRegistered rg0))] /\
               regs' = add_pair (rg0, from) (regs st)) \/
  (exists rg0, ops = [OSimple (SSend from (SUnregistered rg0))] /\
               regs' = del_pair (rg0, from) (regs st)) \/
  (exists e rg inv c cid y onf,
      ops = [OTry e (SInvocation rg inv c cid y true) false false onf] /\
      regs' = regs st /\ mem_pair (rg, e) (regs st) = true) \/
  ((forall r m' k, In m' (pend_msgs ops r) -> reg_mark k m' = MNone) /\
   (regs' = regs st \/ regs' = del_sess from (regs st))).
Proof.
  intros cf st from q m o regs' calls' g' ops H. unfold plan_dealer in H.
  destruct m; try discriminate; dm H; inv H.
  all: try (left; eexists; split; reflexivity).
  all: try (right; left; eexists; split; reflexivity).
  all: try (right; right; left; do 7 eexists; repeat split; eauto; fail).
  all: right; right; right; split; auto.
  all: try (intros r m' k Hin; apply in_pend_msgs in Hin as [op [Hin Ho]]; simpl in Hin;
            repeat (destruct Hin as [Hin|Hin]; [subst op; simpl in Ho; inv Ho; reflexivity|]);
            contradiction).
  - intros r m' k Hin. eapply err_replies_none; eauto.
Qed.

Lemma reg_run : forall cf st from q m o regs' calls' g' ops,
  reginv st -> wops st Dealer = [] ->
  plan_dealer cf st from q m o = Some (regs', calls', g', ops) ->
  forall r k, exists b,
    scan (reg_mark k) (map fst (att st r) ++ pend_msgs ops r) false = Some b /\
    (mem_pair (k, r) regs' = true -> b = true).
Proof.
  intros cf st from q m o regs' calls' g' ops I Hw H r k.
  destruct (I r k) as [b0 [S0 M0]]. unfold future in S0. rewrite Hw in S0. simpl in S0.
  rewrite app_nil_r in S0.
  destruct (plan_dealer_marks _ _ _ _ _ _ _ _ _ _ H) as [P|[P|[P|[Hn Hr]]]].
  - (* REGISTERED *)
    destruct P as [rg0 [-> ->]].
    simpl. unfold pend_op. simpl. destruct (N.eqb_spec from r) as [->|Hn].
    + destruct (N.eq_dec rg0 k) as [->|Hk].
      * exists true. split; auto. rewrite scan_app, S0. simpl. rewrite N.eqb_refl. reflexivity.
      * exists b0. split.
        -- rewrite scan_app, S0. simpl. destruct (N.eqb_spec rg0 k); congruence.
        -- intros Hm. apply mem_add_pair in Hm as [Hm|Hm]; auto. inv Hm; congruence.
    + exists b0. simpl. rewrite app_nil_r. split; auto.
      intros Hm. apply mem_add_pair in Hm as [Hm|Hm]; auto. inv Hm; congruence.
  - (* UNREGISTERED *)
    destruct P as [rg0 [-> ->]].
    simpl. unfold pend_op. simpl. destruct (N.eqb_spec from r) as [->|Hn].
    + destruct (N.eq_dec rg0 k) as [->|Hk].
      * exists false. split.
        -- rewrite scan_app, S0. simpl. rewrite N.eqb_refl. reflexivity.
        -- intros Hm. apply mem_del_pair in Hm as [Hm _]. exfalso; apply Hm; reflexivity.
      * exists b0. split.
        -- rewrite scan_app, S0. simpl. destruct (N.eqb_spec rg0 k); congruence.
        -- intros Hm. apply mem_del_pair in Hm as [_ Hm]; auto.
    + exists b0. simpl. rewrite app_nil_r. split; auto.
      intros Hm. apply mem_del_pair in Hm as [_ Hm]; auto.
  - (* a new INVOCATION goes to a current callee *)
    destruct P as [e [rg [inv [c [cid [y [onf [-> [-> Hm]]]]]]]]].
    exists b0. split; auto. simpl. unfold pend_op. simpl.
    destruct (N.eqb_spec e r) as [->|Hn]; simpl; rewrite ?app_nil_r; auto.
    rewrite scan_app, S0. simpl. destruct (N.eqb_spec rg k) as [->|Hk]; auto.
    rewrite (M0 Hm). reflexivity.
  - exists b0. split.
    + rewrite <- (app_nil_r (pend_msgs ops r)). rewrite scan_insert_none; [rewrite app_nil_r; auto|].
      intros m' Hin. eapply Hn; eauto.
    + destruct Hr as [-> | ->]; auto. intros Hm. apply mem_del_sess in Hm as [_ Hm]; auto.
Qed.

Theorem reginv_step : forall cf st l st',
  base st -> reginv st -> step cf st l = Some st' -> reginv st'.
Proof.
  intros cf st l st' B I H. destruct (sends l) eqn:S.
  - (* a send *)
    destruct (send_step _ _ _ _ S H) as [r0 [m [ok [who [Ea [Eg [Ei [Es [Er [Ec Hw]]]]]]]]]].
    destruct who as [w|].
    + destruct Hw as [Hl [Eh [from [q [cm [again [op [rest [Ew [Ehd [Eo [Ecl [rest' [Ew' Hr]]]]]]]]]]]]]].
      destruct w.
      * pose proof (b_broker st B) as Wb. unfold wf_broker in Wb. rewrite Ew in Wb.
        simpl in Wb. apply andb_true_iff in Wb as [Wb _].
        destruct (bop_ok_inv _ Wb) as [r1 [m1 [-> Km]]]. simpl in Ehd. inv Ehd.
        eapply scinv_other_send; eauto.
        -- intros; apply reg_mark_broker; auto.
        -- unfold wops. rewrite (Eo Dealer) by discriminate. reflexivity.
      * pose proof (b_dealer st B) as Wd. unfold wf_dealer in Wd. rewrite Ew in Wd.
        destruct Wd as [Wd _]. simpl in Wd. apply andb_true_iff in Wd as [Wd _].
        eapply scinv_own_send; eauto.
        destruct op as [[| |]|r1 m1 eo ef onf]; auto.
        destruct Hr as [[_ ->]|[_ ->]]; auto. right. exists onf; split; auto.
        intros r m' k Hin. simpl in Wd. repeat (apply andb_true_iff in Wd as [Wd ?]).
        eapply onf_pend_none; eauto.
    + destruct Hw as [Hl [Ew [Ecs [tl [Eh Eh']]]]].
      pose proof (b_hpost st B r0 _ Eh) as Kh. simpl in Kh. apply andb_true_iff in Kh as [Kh _].
      eapply scinv_other_send; eauto.
      * intros; apply reg_mark_handler; auto.
      * unfold wops. rewrite Ew; reflexivity.
  - pose proof (att_same _ _ _ _ S H) as Ea.
    destruct (touches Dealer l) eqn:T.
    2:{ apply scinv_frame with (st := st); auto.
        - unfold wops. rewrite (wst_same _ _ _ _ Dealer T H). reflexivity.
        - eapply tables_same_dealer; eauto. intros o ->. simpl in T. discriminate. }
    destruct l; simpl in S, T; try discriminate; try (destruct w; try discriminate).
    + (* Submit s Dealer *)
      apply scinv_frame with (st := st); auto.
      * simpl in H. dm H; inv H; unfold wops; simpl; rewrite E0; reflexivity.
      * eapply tables_same_dealer; eauto. intros; discriminate.
    + (* YieldRetry *)
      apply scinv_frame with (st := st); auto.
      * simpl in H. dm H; inv H; unfold wops; simpl; rewrite E0; reflexivity.
      * eapply tables_same_dealer; eauto. intros; discriminate.
    + (* TimerFire *)
      apply scinv_frame with (st := st); auto.
      * simpl in H. dm H; inv H; unfold wops; simpl; rewrite E; reflexivity.
      * eapply tables_same_dealer; eauto. intros; discriminate.
    + (* WorkerRun Dealer *)
      simpl in H. dm H; inv H. intros r k.
      destruct (reg_run _ _ _ _ _ _ _ _ _ _ I
                  (wops_idle st Dealer (or_intror (ex_intro _ _ (ex_intro _ _ (ex_intro _ _ E))))) E0 r k)
        as [b [S1 S2]].
      exists b. unfold future, wops. simpl. auto.
    + (* Tau Dealer *)
      apply scinv_frame_pend with (st := st); auto.
      * intros r. simpl in H. unfold exec in H. dm H; inv H. unfold wops. simpl. rewrite E.
        reflexivity.
      * eapply tables_same_dealer; eauto. intros; discriminate.
    + (* WorkerDone Dealer *)
      apply scinv_frame with (st := st); auto.
      * simpl in H. dm H; inv H; unfold wops; simpl; rewrite ?updw_same, ?E; reflexivity.
      * eapply tables_same_dealer; eauto. intros; discriminate.
Qed.

Lemma reginv_init : reginv init.
Proof. intros r k; exists false; simpl; split; auto. Qed.
