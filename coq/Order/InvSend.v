(** C08 — which steps send, who the sender is, what else they touch. *)
From Coq Require Import List NArith Bool Sorted Lia.
From Nexus Require Import Order.Model Order.Spec Order.SpecProofs Order.InvBase.
Import ListNotations.
Open Scope N_scope.

Definition sends (l : label) : bool :=
  match l with
  | Emit _ | Drop _ | HandlerEmit _ | HandlerDrop _ => true
  | _ => false
  end.

Definition touches (w : worker) (l : label) : bool :=
  match l with
  | Submit _ w' | WorkerRun w' _ | Emit w' | Drop w' | Tau w' | WorkerDone w' => weqb w w'
  | YieldRetry _ | TimerFire _ _ => weqb w Dealer
  | _ => false
  end.

Lemma att_same : forall cf st l st', sends l = false -> step cf st l = Some st' -> att st' = att st.
Proof. intros cf st l st' S H. step_cases H; simpl in *; auto; discriminate. Qed.

Lemma wst_same : forall cf st l st' w,
  touches w l = false -> step cf st l = Some st' -> wst st' w = wst st w.
Proof.
  intros cf st l st' w T H.
  step_cases H; simpl in *; auto; updwsimp; auto; try discriminate;
  try (rewrite (proj2 (weqb_eq _ _) eq_refl) in T; discriminate).
Qed.

Lemma gseq_mono : forall cf st l st', step cf st l = Some st' -> gseq st <= gseq st'.
Proof. intros. destruct (gseq_step _ _ _ _ H) as [-> | ->]; lia. Qed.

Lemma tables_same_broker : forall cf st l st',
  (forall o, l <> WorkerRun Broker o) -> step cf st l = Some st' -> subs st' = subs st.
Proof.
  intros cf st l st' N H. step_cases H; simpl in *; auto.
  exfalso; eapply N; eauto.
Qed.

(** the message at the head of an operation *)
Definition head_msg (o : wop) : option (sid * smsg) :=
  match o with
  | OSimple (SSend r m) | OSimple (SReply r m) | OTry r m _ _ _ => Some (r, m)
  | OSimple SAgain => None
  end.

(** What a sending step does to the attempt logs and who did it. *)
Inductive sender := ByWorker (w : worker) | ByHandler.

Lemma send_step : forall cf st l st',
  sends l = true -> step cf st l = Some st' ->
  exists r m ok who,
    att st' = upd (att st) r (att st r ++ [(m, ok)]) /\
    gseq st' = gseq st /\ inbox st' = inbox st /\ subs st' = subs st /\ regs st' = regs st /\
    gcid st' = gcid st /\
    match who with
    | ByWorker w =>
        (l = Emit w \/ l = Drop w) /\ hst st' = hst st /\
        exists from q cm again op rest,
          wst st w = WRun from q cm again (op :: rest) /\ head_msg op = Some (r, m) /\
          (forall w', w' <> w -> wst st' w' = wst st w') /\
          calls st' = (match op with
                       | OSimple (SReply _ m') => erase (cid_of m') (calls st)
                       | OTry _ m' eo ef _ =>
                           if (if ok then eo else ef) then erase (cid_of m') (calls st)
                           else calls st
                       | _ => calls st
                       end) /\
          exists rest', wst st' w = WRun from q cm again rest' /\
            (match op with OTry _ _ _ _ onf => (ok = true /\ rest' = rest) \/
                                               (ok = false /\ rest' = map OSimple onf ++ rest)
                         | _ => rest' = rest end)
    | ByHandler =>
        (l = HandlerEmit r \/ l = HandlerDrop r) /\ wst st' = wst st /\ calls st' = calls st /\
        exists tl, hst st r = HPost (m :: tl) /\
                   hst st' = upd (hst st) r (match tl with [] => HIdle | _ => HPost tl end)
    end.
Proof.
  intros cf st l st' S H.
  step_cases H; simpl in *; try discriminate.
  all: try (exists r, m0; eexists; exists (ByWorker w); repeat split; auto;
            exists from, q, m, again; eexists; eexists; repeat split; eauto;
            [intros w' Hw'; rewrite updw_other; auto
            |eexists; rewrite updw_same; split; [reflexivity|]; auto]; fail).
  all: try (exists r, m0; eexists; exists (ByWorker w); repeat split; auto;
            exists from, q, m, again; eexists; eexists; repeat split; eauto;
            [intros w' Hw'; rewrite updw_other; auto
            |simpl; match goal with |- context [if ?b then _ else _] => destruct b end; reflexivity
            |eexists; rewrite updw_same; split; [reflexivity|]; auto]; fail).
  all: match goal with E : hst _ ?s = HPost (?m :: ?tl) |- _ =>
         exists s, m; eexists; exists ByHandler; repeat split; auto; exists tl; split; auto end.
Qed.
