(** C08 — the attribution table: which goroutine enqueues which kind of
    client-facing message, how closures reach the workers, and the shape facts
    about channels and loops the LTS of Model.v takes for granted.

    [model_*] is what the proofs rest on (see SitesProofs.v for the link to
    the LTS); the translator go/cmd/genc08 regenerates [gen_*] from
    /repo/router/*.go and /repo/transport/localpeer.go on every run
    (coq/gen/GenC08Sites.v) and Conform.v checks [conforms] by computation.
    Definitions only. *)
From Coq Require Import List NArith Bool String.
Import ListNotations.
Open Scope N_scope.

Inductive mkind :=
| KEvent | KSubscribed | KUnsubscribed | KPublished
| KInvocation | KRegistered | KUnregistered | KResult
| KErrorCall        (* ERROR with Type CALL *)
| KErrorReq         (* ERROR answering the request being handled, type not static *)
| KErrorOther       (* ERROR of any other static type *)
| KInterrupt | KGoodbye | KAbort | KWelcome | KChallenge | KOtherMsg.

Inductive gor :=
| GBroker | GDealer | GRealm        (* inside a closure executed by that worker goroutine *)
| GHandler                          (* the session's handleInboundMessages goroutine *)
| GMetaProc                         (* realm.metaProcedureHandler *)
| GSpawned                          (* a goroutine started with "go" from router code *)
| GRouter                           (* inside a closure executed by the router goroutine *)
| GApi.                             (* caller of the router API (Attach, Close, ...) *)

Inductive sform := FTry | FBlocking.

Record site := mksite {
  s_kind : mkind; s_gor : gor; s_form : sform; s_func : string; s_line : N }.

(** a closure handed to a worker: where the hand-over statement runs, whether
    the submitting function then waits for the closure, and every kind of
    client-facing message the closure can send (static call graph) *)
Record submit := mksubmit {
  u_worker : gor; u_from : gor; u_waits : bool; u_kinds : list mkind;
  u_func : string; u_line : N }.

Record shape := mkshape {
  sh_broker_unbuffered : bool;      (* actionChan: make(chan func()) *)
  sh_dealer_unbuffered : bool;
  sh_broker_sequential : bool;      (* for action := range actionChan { action() } *)
  sh_dealer_sequential : bool;
  sh_broker_workers : N;            (* number of "go b.run()" *)
  sh_dealer_workers : N;
  sh_handler_single_loop : bool;    (* handleInboundMessages: one for loop, no go statement *)
  sh_handler_per_session : N;       (* goroutines running handleInboundMessages per session *)
  sh_submit_plain : bool;           (* every hand-over is a plain blocking "actionChan <- func" *)
  sh_peer_fifo_chan : bool }.       (* localPeer.Send() is a Go channel *)

Definition kind_eqb (a b : mkind) : bool :=
  match a, b with
  | KEvent, KEvent | KSubscribed, KSubscribed | KUnsubscribed, KUnsubscribed
  | KPublished, KPublished | KInvocation, KInvocation | KRegistered, KRegistered
  | KUnregistered, KUnregistered | KResult, KResult | KErrorCall, KErrorCall
  | KErrorReq, KErrorReq | KErrorOther, KErrorOther | KInterrupt, KInterrupt
  | KGoodbye, KGoodbye | KAbort, KAbort | KWelcome, KWelcome | KChallenge, KChallenge
  | KOtherMsg, KOtherMsg => true
  | _, _ => false
  end.

Definition gor_eqb (a b : gor) : bool :=
  match a, b with
  | GBroker, GBroker | GDealer, GDealer | GRealm, GRealm | GHandler, GHandler
  | GMetaProc, GMetaProc | GSpawned, GSpawned | GRouter, GRouter | GApi, GApi => true
  | _, _ => false
  end.

(** THE TABLE: the ordering-relevant kinds and the one goroutine that sends them. *)
Definition model_owner : list (mkind * gor) :=
  [ (KEvent, GBroker); (KSubscribed, GBroker); (KUnsubscribed, GBroker);
    (KInvocation, GDealer); (KRegistered, GDealer); (KUnregistered, GDealer);
    (KResult, GDealer); (KErrorCall, GDealer) ].

Definition owner (k : mkind) : option gor :=
  match find (fun p => kind_eqb (fst p) k) model_owner with
  | Some p => Some (snd p)
  | None => None
  end.

(** kinds a closure submitted from a spawned goroutine (a timer) may send:
    the model has [TimerFire] for cancellations only *)
Definition async_allowed (k : mkind) : bool :=
  match owner k with
  | None => true
  | Some _ => kind_eqb k KErrorCall
  end.

Definition model_shape : shape :=
  mkshape true true true true 1 1 true 1 true true.

(* ---------------------------------------------------------------- conformance *)

(** equality on attribution: every generated site of an owned kind is in the
    owner's goroutine, and the owner really has such a site *)
Definition kind_conforms (gs : list site) (p : mkind * gor) : bool :=
  let mine := filter (fun s => kind_eqb (s_kind s) (fst p)) gs in
  negb (match mine with [] => true | _ => false end)
  && forallb (fun s => gor_eqb (s_gor s) (snd p)) mine.

Definition sites_ok (gs : list site) : bool := forallb (kind_conforms gs) model_owner.

Definition has_owned (ks : list mkind) : bool :=
  existsb (fun k => match owner k with Some _ => true | None => false end) ks.

(** a closure that can send owned kinds is handed over by a goroutine that
    processes its input in order (handler, realm, meta procedure handler);
    from a spawned goroutine only cancellations may come *)
Definition submit_ok (u : submit) : bool :=
  (if gor_eqb (u_from u) GSpawned then forallb async_allowed (u_kinds u) else true)
  && (if existsb (kind_eqb KResult) (u_kinds u) then u_waits u else true)
  && (if has_owned (u_kinds u)
      then match u_worker u with GBroker | GDealer => true | _ => false end
      else true).

Definition submits_ok (us : list submit) : bool := forallb submit_ok us.

Definition shape_ok (g : shape) : bool :=
  sh_broker_unbuffered g && sh_dealer_unbuffered g
  && sh_broker_sequential g && sh_dealer_sequential g
  && (sh_broker_workers g =? 1) && (sh_dealer_workers g =? 1)
  && sh_handler_single_loop g && (sh_handler_per_session g =? 1)
  && sh_submit_plain g && sh_peer_fifo_chan g.

Definition conforms (gs : list site) (us : list submit) (g : shape) : bool :=
  sites_ok gs && submits_ok us && shape_ok g.

(** names of the obligations that fail (for the check's diagnosis) *)
Definition kind_name (k : mkind) : string :=
  match k with
  | KEvent => "EVENT" | KSubscribed => "SUBSCRIBED" | KUnsubscribed => "UNSUBSCRIBED"
  | KPublished => "PUBLISHED" | KInvocation => "INVOCATION" | KRegistered => "REGISTERED"
  | KUnregistered => "UNREGISTERED" | KResult => "RESULT" | KErrorCall => "ERROR_CALL"
  | KErrorReq => "ERROR_REQ" | KErrorOther => "ERROR_OTHER" | KInterrupt => "INTERRUPT"
  | KGoodbye => "GOODBYE" | KAbort => "ABORT" | KWelcome => "WELCOME"
  | KChallenge => "CHALLENGE" | KOtherMsg => "OTHER"
  end%string.

Definition failed_checks (gs : list site) (us : list submit) (g : shape) : list string :=
  (flat_map (fun p => if kind_conforms gs p then []
                      else [("site:" ++ kind_name (fst p))%string]) model_owner)
  ++ (flat_map (fun u => if submit_ok u then []
                         else [("submit:" ++ u_func u)%string]) us)
  ++ (if sh_broker_unbuffered g then [] else ["shape:broker_unbuffered"%string])
  ++ (if sh_dealer_unbuffered g then [] else ["shape:dealer_unbuffered"%string])
  ++ (if sh_broker_sequential g then [] else ["shape:broker_sequential"%string])
  ++ (if sh_dealer_sequential g then [] else ["shape:dealer_sequential"%string])
  ++ (if sh_broker_workers g =? 1 then [] else ["shape:broker_workers"%string])
  ++ (if sh_dealer_workers g =? 1 then [] else ["shape:dealer_workers"%string])
  ++ (if sh_handler_single_loop g then [] else ["shape:handler_single_loop"%string])
  ++ (if sh_handler_per_session g =? 1 then [] else ["shape:handler_per_session"%string])
  ++ (if sh_submit_plain g then [] else ["shape:submit_plain"%string])
  ++ (if sh_peer_fifo_chan g then [] else ["shape:peer_fifo_chan"%string]).
