(** C08 — call_order: the invariant and its preservation by every step. *)
From Coq Require Import List NArith Bool Sorted Lia.
From Nexus Require Import Order.Model Order.Spec Order.SpecProofs Order.InvBase Order.InvSend
  Order.InvEvent.
Import ListNotations.
Open Scope N_scope.

Definition inv_in (st : state) (e : sid) (c : sid) (y : N) : Prop :=
  exists rg inv cid f, In (SInvocation rg inv c cid y f) (map fst (att st e)).

Definition is_call (m : cmsg) : bool := match m with CCall _ _ => true | _ => false end.

Definition inv_op (o : wop) (c : sid) (y : N) : Prop :=
  exists e rg inv cid f eo ef onf, o = OTry e (SInvocation rg inv c cid y f) eo ef onf.

Record cinv (st : state) : Prop := mkcinv {
  c_ord : forall e, ordered_by sel_inv (map fst (att st e));
  c_bound : forall e c y, inv_in st e c y ->
            y < gseq st /\ forall x, In x (pipeline st c) -> y < x;
  c_dealer :
    match wst st Dealer with
    | WIdle => True
    | WBusy from q m => is_call m = true -> forall e y, inv_in st e from y -> y < q
    | WRun from q m _ ops =>
        forall o c y, In o ops -> inv_op o c y ->
          c = from /\ y = q /\ waits m = false /\ forall e y1, inv_in st e from y1 -> y1 < q
    end }.

Lemma inv_in_same : forall st st' e c y, att st' = att st -> (inv_in st' e c y <-> inv_in st e c y).
Proof. intros; unfold inv_in; rewrite H; tauto. Qed.

Lemma inv_in_snoc : forall st st' r0 m ok e c y,
  att st' = upd (att st) r0 (att st r0 ++ [(m, ok)]) ->
  (inv_in st' e c y <->
   inv_in st e c y \/ (e = r0 /\ exists rg inv cid f, m = SInvocation rg inv c cid y f)).
Proof.
  intros st st' r0 m ok e c y E. unfold inv_in. rewrite E.
  destruct (N.eq_dec e r0) as [->|Hn].
  - rewrite upd_same, map_app. simpl. split.
    + intros [rg [inv [cid [f Hin]]]]. apply in_app_or in Hin as [Hin|[Hin|[]]]; eauto 10.
    + intros [[rg [inv [cid [f Hin]]]]|[_ [rg [inv [cid [f ->]]]]]];
        exists rg, inv, cid, f; apply in_or_app; simpl; auto.
  - rewrite upd_other by auto. split; auto. intros [|[-> _]]; auto. congruence.
Qed.

Lemma sel_inv_some : forall m k y, sel_inv m = Some (k, y) ->
  exists rg inv c cid f, m = SInvocation rg inv c cid y f /\ k = (c, 0, 0).
Proof. intros m k y H; destruct m; simpl in H; try discriminate. inv H. eauto 10. Qed.

Lemma c_bound_frame : forall cf st l st',
  cinv st -> step cf st l = Some st' ->
  forall e c y, inv_in st e c y -> y < gseq st' /\ forall x, In x (pipeline st' c) -> y < x.
Proof.
  intros cf st l st' I H e c y Hin.
  destruct (c_bound st I e c y Hin) as [Hg Hp].
  pose proof (gseq_mono _ _ _ _ H). split; [lia|].
  intros x Hx. destruct (pipeline_step _ _ _ _ c x H Hx) as [Hold|[-> _]]; auto.
Qed.

(** which closures can produce an INVOCATION *)
Lemma plan_dealer_inv : forall cf st from q m o regs' calls' g' ops op c y,
  plan_dealer cf st from q m o = Some (regs', calls', g', ops) ->
  In op ops -> inv_op op c y -> is_call m = true /\ c = from /\ y = q.
Proof.
  intros cf st from q m o regs' calls' g' ops op c y H Hin
         [e [rg [inv [cid [f [eo [ef [onf ->]]]]]]]].
  unfold plan_dealer in H.
  destruct m; try discriminate; dm H; inv H; simpl in Hin;
  repeat (destruct Hin as [Hin|Hin]; try discriminate); try contradiction;
  try (inv Hin; auto; fail).
  apply in_map_iff in Hin as [x [Hx _]]; discriminate.
Qed.

Lemma cinv_send_other : forall st st' r0 m ok,
  cinv st ->
  att st' = upd (att st) r0 (att st r0 ++ [(m, ok)]) ->
  (forall rg inv c cid y f, m <> SInvocation rg inv c cid y f) ->
  gseq st' = gseq st -> (forall s, pipeline st' s = pipeline st s) ->
  (match wst st Dealer, wst st' Dealer with
   | WRun from q cm _ ops, WRun from' q' cm' _ ops' =>
       from' = from /\ q' = q /\ cm' = cm /\
       forall o c y, In o ops' -> inv_op o c y -> In o ops
   | x, x' => x' = x
   end) ->
  cinv st'.
Proof.
  intros st st' r0 m ok I Ea Hm Eg Ep Ew.
  assert (Hev : forall e c y, inv_in st' e c y <-> inv_in st e c y).
  { intros. rewrite (inv_in_snoc st st' r0 m ok) by auto. split; auto.
    intros [|[_ [rg [inv [cid [f E]]]]]]; auto. exfalso; eapply Hm; eauto. }
  constructor.
  - intros r. rewrite Ea. destruct (N.eq_dec r r0) as [->|Hn].
    + rewrite upd_same, map_app. simpl. apply ordered_by_app_none; [|apply (c_ord st I)].
      destruct m; simpl; auto. exfalso; eapply Hm; eauto.
    + rewrite upd_other by auto. apply (c_ord st I).
  - intros e c y Hin. apply Hev in Hin. rewrite Eg, Ep. apply (c_bound st I _ _ _ Hin).
  - pose proof (c_dealer st I) as Eb.
    destruct (wst st Dealer) as [|from q cm|from q cm ag ops];
    destruct (wst st' Dealer) as [|from' q' cm'|from' q' cm' ag' ops']; try discriminate; auto.
    + inv Ew. intros Hc e y Hin. apply Hev in Hin. eauto.
    + destruct Ew as [-> [-> [-> Hs]]]. intros o c y Hin Ho.
      destruct (Eb o c y (Hs o c y Hin Ho) Ho) as [A [B0 [C D]]]. repeat split; auto.
      intros e y1 Hin1. apply Hev in Hin1. eauto.
Qed.

Lemma kind_broker_not_inv : forall m rg inv c cid y f,
  kind_broker m = true -> m <> SInvocation rg inv c cid y f.
Proof. intros m rg inv c cid y f H E; subst; discriminate. Qed.

Lemma kind_handler_not_inv : forall m rg inv c cid y f,
  kind_handler m = true -> m <> SInvocation rg inv c cid y f.
Proof. intros m rg inv c cid y f H E; subst; discriminate. Qed.

Lemma not_inv_op_simple : forall s c y, ~ inv_op (OSimple s) c y.
Proof. intros s c y [e [rg [inv [cid [f [eo [ef [onf E]]]]]]]]; discriminate. Qed.

Lemma in_map_simple_inv : forall o onf rest c y,
  In o (map OSimple onf ++ rest) -> inv_op o c y -> In o rest.
Proof.
  intros o onf rest c y Hin Ho. apply in_app_or in Hin as [Hin|]; auto.
  apply in_map_iff in Hin as [s [<- _]]. exfalso; eapply not_inv_op_simple; eauto.
Qed.

Lemma classic_inv : forall m,
  (exists rg inv c cid y f, m = SInvocation rg inv c cid y f) \/
  (forall rg inv c cid y f, m <> SInvocation rg inv c cid y f).
Proof. intros m; destruct m; try (right; intros; discriminate). left; eauto 10. Qed.

Lemma cinv_nosend : forall cf st l st',
  base st -> cinv st -> sends l = false -> step cf st l = Some st' -> cinv st'.
Proof.
  intros cf st l st' B I S H.
  pose proof (att_same _ _ _ _ S H) as Ea.
  constructor.
  - intros r; rewrite Ea; apply (c_ord st I).
  - intros e c y Hin. apply (inv_in_same st st') in Hin; auto. eapply c_bound_frame; eauto.
  - destruct (touches Dealer l) eqn:T.
    2:{ rewrite (wst_same _ _ _ _ Dealer T H). pose proof (c_dealer st I) as Eb.
        destruct (wst st Dealer); auto.
        - intros Hc e y Hin. apply (inv_in_same st st') in Hin; eauto.
        - intros o c y Hin Ho. destruct (Eb o c y Hin Ho) as [A [B0 [C D]]]. repeat split; auto.
          intros e y1 Hin1. apply (inv_in_same st st') in Hin1; eauto. }
    pose proof (c_dealer st I) as Eb.
    assert (Hq : forall s q m, (hst st s = HHold q m \/ hst st s = HRetry q m) ->
                 forall e y, inv_in st e s y -> y < q).
    { intros s q m Hs e y Hin. destruct (c_bound st I e s y Hin) as [_ Hp]. apply Hp.
      unfold pipeline. destruct Hs as [-> | ->]; left; reflexivity. }
    destruct l; simpl in S, T; try discriminate; try (destruct w; try discriminate).
    + (* Submit s Dealer *)
      simpl in H. dm H; inv H; simpl.
      all: intros _ e y Hin; unfold inv_in in Hin; simpl in Hin; eapply Hq; eauto.
    + (* YieldRetry *)
      simpl in H. dm H; inv H; simpl.
      intros _ e y Hin; unfold inv_in in Hin; simpl in Hin; eapply Hq; eauto.
    + (* TimerFire *)
      simpl in H. dm H; inv H; simpl. discriminate.
    + (* WorkerRun Dealer *)
      simpl in H. dm H; inv H; simpl.
      intros op c y Hin Ho.
      destruct (plan_dealer_inv _ _ _ _ _ _ _ _ _ _ _ _ _ E0 Hin Ho) as [Hc [-> ->]].
      repeat split; auto.
      * destruct m; simpl in *; try discriminate; reflexivity.
      * intros e y1 Hin1. unfold inv_in in Hin1; simpl in Hin1. eapply Eb; eauto.
    + (* Tau Dealer *)
      simpl in H. unfold exec in H. dm H; inv H; simpl.
      intros op c y Hin Ho. destruct (Eb op c y (or_intror Hin) Ho) as [A [B0 [C D]]].
      repeat split; auto.
    + (* WorkerDone Dealer *)
      simpl in H. dm H; inv H; simpl; rewrite ?updw_same; auto.
Qed.

Lemma cinv_send : forall cf st l st',
  base st -> cinv st -> sends l = true -> step cf st l = Some st' -> cinv st'.
Proof.
  intros cf st l st' B I S H.
  destruct (send_step _ _ _ _ S H) as [r0 [m [ok [who [Ea [Eg [Ei [Es [Er [Ec Hw]]]]]]]]]].
  destruct who as [w|].
  - destruct Hw as [Hl [Eh [from [q [cm [again [op [rest [Ew [Ehd [Eo [Ecl [rest' [Ew' Hr]]]]]]]]]]]]]].
    assert (Hp : forall s, pipeline st' s = pipeline st s).
    { intros; apply pipeline_same; auto. rewrite Eh; auto. }
    destruct w.
    + (* the broker sends *)
      pose proof (b_broker st B) as Wb. unfold wf_broker in Wb. rewrite Ew in Wb.
      simpl in Wb. apply andb_true_iff in Wb as [Wb _].
      destruct (bop_ok_inv _ Wb) as [r1 [m1 [-> Km]]]. simpl in Ehd. inv Ehd.
      eapply cinv_send_other; eauto.
      * intros; apply kind_broker_not_inv; auto.
      * rewrite (Eo Dealer) by discriminate. destruct (wst st Dealer); auto.
    + (* the dealer sends *)
      pose proof (b_dealer st B) as Wd. unfold wf_dealer in Wd. rewrite Ew in Wd.
      destruct Wd as [Wd Ws]. simpl in Wd. apply andb_true_iff in Wd as [Wd _].
      pose proof (c_dealer st I) as Eb. rewrite Ew in Eb.
      destruct (classic_inv m) as [[rg [inv [c [cid [y [f ->]]]]]]|Hm].
      * (* an INVOCATION: the operation is the only one of the closure *)
        destruct op as [[r1 m1|r1 m1|]|r1 m1 eo ef onf]; simpl in Ehd; inv Ehd;
          simpl in Wd; try discriminate.
        apply try_sole_try in Ws. subst rest.
        destruct (Eb _ c y (or_introl eq_refl)) as [-> [-> [Hwait Hlt]]].
        { repeat eexists. }
        pose proof (b_link st B Dealer) as L. unfold wlink in L. rewrite Ew in L.
        destruct L as [Lt [Lq Lw]]. rewrite Hwait in Lw.
        constructor.
        -- intros r. rewrite Ea. destruct (N.eq_dec r r0) as [->|Hn];
             [|rewrite upd_other by auto; apply (c_ord st I)].
           rewrite upd_same, map_app. simpl. apply ordered_by_snoc. split; [apply (c_ord st I)|].
           intros k y0 Hk m1 y1 Hin1 Hk1. simpl in Hk. inv Hk.
           apply sel_inv_some in Hk1 as [rg1 [inv1 [c1 [cid1 [f1 [-> Ek]]]]]]. inv Ek.
           apply (Hlt r0 y1). exists rg1, inv1, cid1, f1; auto.
        -- intros e c y Hin. rewrite (inv_in_snoc st st' r0 _ ok) in Hin by eauto.
           rewrite Eg, Hp. destruct Hin as [Hin|[-> [rg1 [inv1 [cid1 [f1 E]]]]]];
             [apply (c_bound st I _ _ _ Hin)|]. inv E. split; auto.
        -- rewrite Ew'. intros o c y Hin Ho. exfalso.
           destruct Hr as [[_ ->]|[_ ->]]; [destruct Hin|].
           rewrite app_nil_r in Hin. apply in_map_iff in Hin as [s [<- _]].
           eapply not_inv_op_simple; eauto.
      * eapply cinv_send_other; eauto.
        rewrite Ew, Ew'. repeat split; auto. intros o c y Hin Ho. right.
        destruct op as [[| |]|r1 m1 eo ef onf]; subst; auto.
        destruct Hr as [[_ ->]|[_ ->]]; auto. eapply in_map_simple_inv; eauto.
  - destruct Hw as [Hl [Ew [Ecs [tl [Eh Eh']]]]].
    pose proof (b_hpost st B r0 _ Eh) as Kh. simpl in Kh. apply andb_true_iff in Kh as [Kh _].
    eapply cinv_send_other; eauto.
    + intros; apply kind_handler_not_inv; auto.
    + intros s. apply pipeline_same; auto. rewrite Eh'. destruct (N.eq_dec s r0) as [->|Hn].
      * rewrite upd_same, Eh. destruct tl; reflexivity.
      * rewrite upd_other; auto.
    + rewrite Ew. destruct (wst st Dealer); auto.
Qed.

Theorem cinv_step : forall cf st l st',
  base st -> cinv st -> step cf st l = Some st' -> cinv st'.
Proof.
  intros cf st l st' B I H. destruct (sends l) eqn:S.
  - eapply cinv_send; eauto.
  - eapply cinv_nosend; eauto.
Qed.

Lemma cinv_init : cinv init.
Proof.
  constructor; simpl; auto.
  - intros r; apply ordered_by_nil.
  - intros e c y [rg [inv [cid [f []]]]].
Qed.
