(** C08 — facts about the order predicates: how they evolve when a message is
    appended, and that the executable monitor decides exactly them. *)
From Coq Require Import List NArith Bool Sorted Lia.
From Nexus Require Import Order.Model Order.Spec.
Import ListNotations.
Open Scope N_scope.

Lemma key_eqb_eq : forall a b, key_eqb a b = true <-> a = b.
Proof.
  intros [[a1 a2] a3] [[b1 b2] b3]; simpl.
  rewrite !andb_true_iff, !N.eqb_eq. split.
  - intros [[-> ->] ->]; reflexivity.
  - intros H; inversion H; auto.
Qed.

Lemma key_eqb_refl : forall a, key_eqb a a = true.
Proof. intros; apply key_eqb_eq; reflexivity. Qed.

Lemma key_eq_dec : forall a b : key, {a = b} + {a <> b}.
Proof. intros a b. repeat decide equality. Qed.

(* ------------------------------------------------------------ ordered_by *)

Lemma ordered_by_nil : forall sel, ordered_by sel [].
Proof. intros sel l1 m1 l2 m2 l3 k y1 y2 H. destruct l1; discriminate. Qed.

Lemma ordered_by_cons : forall sel m l,
  ordered_by sel (m :: l) <->
  ordered_by sel l /\
  (forall k y1, sel m = Some (k, y1) ->
     forall m2 y2, In m2 l -> sel m2 = Some (k, y2) -> y1 < y2).
Proof.
  intros sel m l; split.
  - intros H; split.
    + intros l1 m1 l2 m2 l3 k y1 y2 E. apply (H (m :: l1) m1 l2 m2 l3 k y1 y2).
      rewrite E; reflexivity.
    + intros k y1 Hm m2 y2 Hin Hm2.
      apply in_split in Hin as [l2 [l3 E]].
      apply (H [] m l2 m2 l3 k y1 y2); auto. rewrite E; reflexivity.
  - intros [H1 H2] l1 m1 l2 m2 l3 k y1 y2 E S1 S2.
    destruct l1 as [|a l1]; simpl in E; inversion E; subst.
    + apply (H2 k y1 S1 m2 y2); auto. apply in_or_app; right; left; reflexivity.
    + apply (H1 l1 m1 l2 m2 l3 k y1 y2); auto.
Qed.

Lemma ordered_by_snoc : forall sel l m,
  ordered_by sel (l ++ [m]) <->
  ordered_by sel l /\
  (forall k y, sel m = Some (k, y) ->
     forall m1 y1, In m1 l -> sel m1 = Some (k, y1) -> y1 < y).
Proof.
  intros sel l m; induction l as [|a l IH]; simpl.
  - split.
    + intros _; split; [apply ordered_by_nil|]. intros; contradiction.
    + intros _. apply ordered_by_cons; split; [apply ordered_by_nil|]. intros; contradiction.
  - rewrite !ordered_by_cons, IH. split.
    + intros [[H1 H2] H3]. split; [split; auto|].
      * intros k y1 Ha m2 y2 Hin Hs. apply (H3 k y1 Ha m2 y2); auto.
        apply in_or_app; left; auto.
      * intros k y Hm m1 y1 [->|Hin] Hs.
        -- apply (H3 k y1 Hs m y); auto. apply in_or_app; right; left; reflexivity.
        -- apply (H2 k y Hm m1 y1); auto.
    + intros [[H1 H2] H3]. split; [split; auto|].
      * intros k y Hm m1 y1 Hin Hs. apply (H3 k y Hm m1 y1); auto.
      * intros k y1 Ha m2 y2 Hin Hs. apply in_app_or in Hin as [Hin|[->|[]]].
        -- apply (H2 k y1 Ha m2 y2); auto.
        -- apply (H3 k y2 Hs a y1); auto.
Qed.

Lemma ordered_by_app_none : forall sel l m,
  sel m = None -> (ordered_by sel (l ++ [m]) <-> ordered_by sel l).
Proof.
  intros sel l m Hn. rewrite ordered_by_snoc. split; [tauto|].
  intros H; split; auto. intros k y Hm; congruence.
Qed.

(** a selector that forgets less is ordered whenever the coarser one is *)
Lemma ordered_by_refine : forall (sel sel' : smsg -> option (key * N)) (g : key -> key) l,
  (forall m k y, sel m = Some (k, y) -> sel' m = Some (g k, y)) ->
  ordered_by sel' l -> ordered_by sel l.
Proof.
  intros sel sel' g l Hr H l1 m1 l2 m2 l3 k y1 y2 E S1 S2.
  apply (H l1 m1 l2 m2 l3 (g k) y1 y2 E); auto.
Qed.

Lemma sel_event_refines : forall m k y,
  sel_event m = Some (k, y) ->
  sel_event_pub m = Some ((fun k => match k with (a, b, _) => (a, b, 0) end) k, y).
Proof.
  intros m k y. destruct m; simpl; try discriminate.
  destruct pub; try discriminate. intros H; inversion H; reflexivity.
Qed.

Lemma ordered_event_pub_topic : forall l, ordered_by sel_event_pub l -> ordered_by sel_event l.
Proof.
  intros l. apply ordered_by_refine with
    (g := fun k => match k with (a, b, _) => (a, b, 0) end).
  apply sel_event_refines.
Qed.

(** sub-sequences: dropping elements keeps the order *)
Lemma ordered_by_filter : forall sel (l : list (smsg * bool)),
  ordered_by sel (map fst l) -> ordered_by sel (accepted l).
Proof.
  intros sel l; unfold accepted; induction l as [|[m b] l IH]; simpl; auto.
  rewrite ordered_by_cons. intros [H1 H2]. destruct b; simpl; auto.
  apply ordered_by_cons; split; auto.
  intros k y1 Hm m2 y2 Hin Hs. apply (H2 k y1 Hm m2 y2); auto.
  apply in_map_iff in Hin as [[m' b'] [E Hin]]. apply filter_In in Hin as [Hin _].
  apply in_map_iff. exists (m', b'); auto.
Qed.

Lemma accepted_app : forall l1 l2, accepted (l1 ++ l2) = accepted l1 ++ accepted l2.
Proof. intros; unfold accepted. rewrite filter_app, map_app; reflexivity. Qed.

Lemma accepted_snoc : forall l m ok,
  accepted (l ++ [(m, ok)]) = accepted l ++ (if ok then [m] else []).
Proof. intros; rewrite accepted_app. destruct ok; reflexivity. Qed.

Lemma in_accepted : forall m l, In m (accepted l) <-> In (m, true) l.
Proof.
  intros m l; unfold accepted. rewrite in_map_iff. split.
  - intros [[m' b] [E H]]. apply filter_In in H as [H Hb]. simpl in *; subst. auto.
  - intros H. exists (m, true); split; auto. apply filter_In; auto.
Qed.

(* ------------------------------------------------------------ projections *)

Lemma in_proj : forall sel k l y,
  In y (proj sel k l) <-> exists m, In m l /\ sel m = Some (k, y).
Proof.
  intros sel k l y; induction l as [|a l IH]; simpl.
  - split; [contradiction|intros [m [[] _]]].
  - destruct (sel a) as [[k' y']|] eqn:Ea.
    + destruct (key_eqb k' k) eqn:Ek.
      * apply key_eqb_eq in Ek; subst k'. simpl. rewrite IH. split.
        -- intros [->|[m [Hin Hs]]]; [exists a; auto|exists m; auto].
        -- intros [m [[->|Hin] Hs]]; [left; congruence|right; exists m; auto].
      * rewrite IH. split.
        -- intros [m [Hin Hs]]; exists m; auto.
        -- intros [m [[->|Hin] Hs]]; [|exists m; auto].
           rewrite Ea in Hs; inversion Hs; subst. rewrite key_eqb_refl in Ek; discriminate.
    + rewrite IH. split.
      * intros [m [Hin Hs]]; exists m; auto.
      * intros [m [[->|Hin] Hs]]; [congruence|exists m; auto].
Qed.

Lemma ordered_by_proj : forall sel l,
  ordered_by sel l <-> forall k, StronglySorted N.lt (proj sel k l).
Proof.
  intros sel l; induction l as [|a l IH].
  - split; [intros _ k; constructor|intros _; apply ordered_by_nil].
  - rewrite ordered_by_cons, IH. simpl. split.
    + intros [H1 H2] k. destruct (sel a) as [[k' y']|] eqn:Ea; auto.
      destruct (key_eqb k' k) eqn:Ek; auto.
      apply key_eqb_eq in Ek; subst k'. constructor; auto.
      apply Forall_forall. intros y Hy. apply in_proj in Hy as [m [Hin Hs]].
      apply (H2 k y' eq_refl m y); auto.
    + intros H; split.
      * intros k. specialize (H k). destruct (sel a) as [[k' y']|]; auto.
        destruct (key_eqb k' k); auto. inversion H; auto.
      * intros k y1 Ha m2 y2 Hin Hs. specialize (H k). rewrite Ha, key_eqb_refl in H.
        inversion H; subst. rewrite Forall_forall in H3. apply H3.
        apply in_proj. exists m2; auto.
Qed.

Lemma incrb_sorted : forall l, incrb l = true <-> StronglySorted N.lt l.
Proof.
  induction l as [|a l IH].
  - split; [constructor|reflexivity].
  - split.
    + intros H. apply Sorted_StronglySorted.
      { intros x y z; apply N.lt_trans. }
      revert H. clear IH. revert a. induction l as [|b l IHl]; intros a H.
      * repeat constructor.
      * simpl in H. apply andb_true_iff in H as [H1 H2]. apply N.ltb_lt in H1.
        constructor; [apply IHl; exact H2|constructor; exact H1].
    + intros H. apply StronglySorted_Sorted in H.
      revert a H. clear IH. induction l as [|b l IHl]; intros a H; [reflexivity|].
      inversion H; subst. inversion H3; subst. simpl. apply andb_true_iff; split.
      * apply N.ltb_lt; auto.
      * apply IHl; auto.
Qed.

Lemma in_dedup : forall k l, In k (dedup l) <-> In k l.
Proof.
  intros k l; induction l as [|a l IH]; simpl; [tauto|].
  destruct (existsb (key_eqb a) l) eqn:E.
  - rewrite IH. split; auto. intros [->|H]; auto.
    apply existsb_exists in E as [x [Hx Ex]]. apply key_eqb_eq in Ex; subst; auto.
  - simpl. rewrite IH; tauto.
Qed.

Lemma in_keys : forall sel k l, In k (keys sel l) <-> exists m y, In m l /\ sel m = Some (k, y).
Proof.
  intros sel k l; unfold keys. rewrite in_flat_map. split.
  - intros [m [Hin H]]. destruct (sel m) as [[k' y]|] eqn:E; [|contradiction].
    destruct H as [->|[]]. exists m, y; auto.
  - intros [m [y [Hin Hs]]]. exists m; split; auto. rewrite Hs; left; reflexivity.
Qed.

Lemma proj_absent : forall sel k l, ~ In k (keys sel l) -> proj sel k l = [].
Proof.
  intros sel k l H. destruct (proj sel k l) as [|y t] eqn:E; auto.
  exfalso; apply H. assert (Hy : In y (proj sel k l)) by (rewrite E; left; reflexivity).
  apply in_proj in Hy as [m [Hin Hs]]. apply in_keys. exists m, y; auto.
Qed.

Theorem ordered_byb_spec : forall sel l, ordered_byb sel l = true <-> ordered_by sel l.
Proof.
  intros sel l. rewrite ordered_by_proj. unfold ordered_byb, bad_keys.
  split.
  - intros H k.
    destruct (in_dec key_eq_dec k (keys sel l)) as [Hin|Hnin].
    + destruct (incrb (proj sel k l)) eqn:E; [apply incrb_sorted; auto|].
      exfalso.
      assert (Hb : In k (filter (fun k => negb (incrb (proj sel k l))) (dedup (keys sel l)))).
      { apply filter_In; split; [apply in_dedup; auto|rewrite E; reflexivity]. }
      destruct (filter _ _); [contradiction|discriminate].
    + rewrite proj_absent; auto. constructor.
  - intros H.
    destruct (filter _ _) as [|k t] eqn:E; auto.
    assert (Hb : In k (k :: t)) by (left; reflexivity). rewrite <- E in Hb.
    apply filter_In in Hb as [_ Hb]. specialize (H k). apply incrb_sorted in H.
    rewrite H in Hb; discriminate.
Qed.

(* ------------------------------------------------------------ scan *)

Lemma scan_app : forall cls l1 l2 b,
  scan cls (l1 ++ l2) b = match scan cls l1 b with Some b' => scan cls l2 b' | None => None end.
Proof.
  intros cls l1; induction l1 as [|m l1 IH]; intros l2 b; simpl; auto.
  destruct (cls m); auto. destruct b; auto.
Qed.

Lemma scan_none_mark : forall cls l b, (forall m, In m l -> cls m = MNone) -> scan cls l b = Some b.
Proof.
  intros cls l; induction l as [|m l IH]; intros b H; simpl; auto.
  rewrite (H m) by (left; reflexivity). apply IH. intros; apply H; right; auto.
Qed.

Lemma scan_prefix : forall cls l1 l2 b b', scan cls (l1 ++ l2) b = Some b' ->
  exists b1, scan cls l1 b = Some b1.
Proof.
  intros cls l1 l2 b b' H. rewrite scan_app in H.
  destruct (scan cls l1 b) as [b1|]; [exists b1; reflexivity|discriminate].
Qed.

(** scan from "closed" fails exactly when a use is not covered by an open *)
Lemma scan_true_has_open : forall cls l b,
  scan cls l false = Some b -> b = true -> exists o, In o l /\ cls o = MOpen.
Proof.
  intros cls l. induction l as [|m l IH] using rev_ind; intros b H Hb.
  - simpl in H. congruence.
  - rewrite scan_app in H. destruct (scan cls l false) as [b1|] eqn:E; [|discriminate].
    simpl in H. destruct (cls m) eqn:Em.
    + exists m; split; auto. apply in_or_app; right; left; reflexivity.
    + inversion H; congruence.
    + destruct b1; [|discriminate]. destruct (IH true eq_refl eq_refl) as [o [Hin Ho]].
      exists o; split; auto. apply in_or_app; auto.
    + inversion H; subst. destruct (IH true eq_refl eq_refl) as [o [Hin Ho]].
      exists o; split; auto. apply in_or_app; auto.
Qed.

Lemma scan_false_no_open_suffix : forall cls l b,
  scan cls l b = Some false -> b = true \/ True ->
  forall pre c mid, l = pre ++ c :: mid -> cls c = MClose ->
  (forall o, In o mid -> cls o <> MOpen) -> True.
Proof. auto. Qed.

(** state after scanning: true iff the last open/close mark is an open *)
Lemma scan_after_close : forall cls mid b b',
  scan cls mid b = Some b' -> b = false -> b' = true -> exists o, In o mid /\ cls o = MOpen.
Proof. intros cls mid b b' H -> ->. eapply scan_true_has_open; eauto. Qed.

Theorem scan_ok_sound : forall cls l,
  scan_ok cls l = true -> opened_before cls l /\ none_after_close cls l.
Proof.
  intros cls l H. unfold scan_ok in H.
  destruct (scan cls l false) as [bf|] eqn:E; [clear H|discriminate].
  split.
  - intros pre u post -> Hu. rewrite scan_app in E.
    destruct (scan cls pre false) as [b1|] eqn:E1; [|discriminate].
    simpl in E. rewrite Hu in E. destruct b1; [|discriminate].
    eapply scan_true_has_open; eauto.
  - intros pre c mid u post -> Hc Hu. rewrite scan_app in E.
    destruct (scan cls pre false) as [b1|] eqn:E1; [|discriminate].
    simpl in E. rewrite Hc in E. rewrite scan_app in E.
    destruct (scan cls mid false) as [b2|] eqn:E2; [|discriminate].
    simpl in E. rewrite Hu in E. destruct b2; [|discriminate].
    eapply scan_true_has_open; eauto.
Qed.

Lemma scan_closed_state : forall cls l b,
  scan cls l false = Some b ->
  b = false ->
  l = [] \/ (forall o, In o l -> cls o <> MOpen) \/
  exists pre c mid, l = pre ++ c :: mid /\ cls c = MClose /\ (forall o, In o mid -> cls o <> MOpen).
Proof.
  intros cls l. induction l as [|m l IH] using rev_ind; intros b H Hb; auto.
  right. rewrite scan_app in H. destruct (scan cls l false) as [b1|] eqn:E; [|discriminate].
  simpl in H. destruct (cls m) eqn:Em.
  - inversion H; congruence.
  - right. exists l, m, []. repeat split; auto.
  - destruct b1; [inversion H; congruence|discriminate].
  - inversion H; subst b1. subst b. destruct (IH false eq_refl eq_refl) as [->|[Hno|[pre [c [mid [-> [Hc Hno]]]]]]].
    + left. intros o [<-|[]]. congruence.
    + left. intros o Hin. apply in_app_or in Hin as [Hin|[<-|[]]]; [auto|congruence].
    + right. exists pre, c, (mid ++ [m]). rewrite <- app_assoc. repeat split; auto.
      intros o Hin. apply in_app_or in Hin as [Hin|[<-|[]]]; [auto|congruence].
Qed.

Theorem scan_ok_complete : forall cls l,
  opened_before cls l -> none_after_close cls l -> scan_ok cls l = true.
Proof.
  intros cls l. unfold scan_ok. induction l as [|m l IH] using rev_ind; intros Ho Hc; auto.
  assert (Ho' : opened_before cls l).
  { intros pre u post -> Hu. apply (Ho pre u (post ++ [m])); auto.
    rewrite <- app_assoc; reflexivity. }
  assert (Hc' : none_after_close cls l).
  { intros pre c mid u post -> Hcc Hu. apply (Hc pre c mid u (post ++ [m])); auto.
    rewrite <- !app_assoc. simpl. rewrite <- app_assoc. reflexivity. }
  specialize (IH Ho' Hc'). rewrite scan_app.
  destruct (scan cls l false) as [b1|] eqn:E; [|discriminate].
  simpl. destruct (cls m) eqn:Em; auto.
  destruct b1; auto. exfalso.
  destruct (scan_closed_state cls l false E eq_refl) as [->|[Hno|[pre [c [mid [-> [Hcc Hno]]]]]]].
  - destruct (Ho [] m [] eq_refl Em) as [o [[] _]].
  - destruct (Ho l m [] eq_refl Em) as [o [Hin Hoo]]. apply (Hno o Hin Hoo).
  - destruct (Hc pre c mid m []) as [o [Hin Hoo]]; auto.
    { rewrite <- app_assoc; reflexivity. }
    apply (Hno o Hin Hoo).
Qed.

Theorem scan_ok_spec : forall cls l,
  scan_ok cls l = true <-> opened_before cls l /\ none_after_close cls l.
Proof.
  intros; split; [apply scan_ok_sound|intros [A B]; apply scan_ok_complete; auto].
Qed.

(* ------------------------------------------------------------ nothing_after *)

Lemma fin_ok_dead : forall fin cid l,
  fin_ok fin cid l false = true <-> (forall m, In m l -> is_reply cid m = false).
Proof.
  intros fin cid l; induction l as [|a l IH]; simpl.
  - split; auto. intros _ m [].
  - destruct (is_reply cid a) eqn:E; simpl.
    + split; [discriminate|]. intros H. specialize (H a (or_introl eq_refl)). congruence.
    + rewrite IH. split.
      * intros H m [<-|Hin]; auto.
      * intros H m Hin; apply H; right; auto.
Qed.

Lemma fin_ok_alive : forall fin cid l,
  (forall m, fin cid m = true -> is_reply cid m = true) ->
  (fin_ok fin cid l true = true <->
   (forall pre f post m, l = pre ++ f :: post -> fin cid f = true -> In m post ->
                         is_reply cid m = false)).
Proof.
  intros fin cid l Hf; induction l as [|a l IH]; simpl.
  - split; auto. intros _ pre f post m E. destruct pre; discriminate.
  - destruct (is_reply cid a) eqn:E; simpl.
    + destruct (fin cid a) eqn:Efa; simpl.
      * rewrite fin_ok_dead. split.
        -- intros H pre f post m Ep Hff Hin. destruct pre as [|x pre]; simpl in Ep; inversion Ep; subst.
           ++ auto.
           ++ apply H. apply in_or_app; right; right; auto.
        -- intros H m Hin. apply (H [] a l m); auto.
      * rewrite IH. split.
        -- intros H pre f post m Ep Hff Hin. destruct pre as [|x pre]; simpl in Ep; inversion Ep; subst.
           ++ congruence.
           ++ eapply H; eauto.
        -- intros H pre f post m Ep Hff Hin. apply (H (a :: pre) f post m); auto.
           rewrite Ep; reflexivity.
    + rewrite IH. split.
      * intros H pre f post m Ep Hff Hin. destruct pre as [|x pre]; simpl in Ep; inversion Ep; subst.
        -- apply Hf in Hff; congruence.
        -- eapply H; eauto.
      * intros H pre f post m Ep Hff Hin. apply (H (a :: pre) f post m); auto.
        rewrite Ep; reflexivity.
Qed.

Lemma in_reply_cids : forall cid l, In cid (reply_cids l) <-> exists m, In m l /\ is_reply cid m = true.
Proof.
  intros cid l; unfold reply_cids. rewrite in_flat_map. split.
  - intros [m [Hin H]]. exists m; split; auto.
    destruct m; simpl in *; try contradiction; destruct H as [->|[]]; apply N.eqb_refl.
  - intros [m [Hin H]]. exists m; split; auto.
    destruct m; simpl in *; try discriminate; apply N.eqb_eq in H; subst; left; reflexivity.
Qed.

Theorem nothing_afterb_spec : forall fin l,
  (forall cid m, fin cid m = true -> is_reply cid m = true) ->
  (nothing_afterb fin l = true <-> nothing_after fin l).
Proof.
  intros fin l Hf. unfold nothing_afterb, nothing_after. rewrite forallb_forall. split.
  - intros H cid pre f post m E Hff Hin.
    assert (Hc : In cid (reply_cids l)).
    { apply in_reply_cids. exists f; split; [rewrite E; apply in_or_app; right; left; reflexivity|].
      apply Hf; auto. }
    specialize (H cid Hc). apply (proj1 (fin_ok_alive fin cid l (Hf cid)) H pre f post m); auto.
  - intros H cid _. apply (fin_ok_alive fin cid l (Hf cid)). intros; eapply H; eauto.
Qed.

Ltac case_bools :=
  repeat match goal with
         | |- context [match ?b with true => _ | false => _ end] => is_var b; destruct b
         end.

Lemma closing_is_reply : forall cid m, closing cid m = true -> is_reply cid m = true.
Proof. intros cid m; destruct m; simpl; try discriminate; case_bools; auto; discriminate. Qed.

Lemma final_looking_is_reply : forall cid m, final_looking cid m = true -> is_reply cid m = true.
Proof. intros cid m; destruct m; simpl; try discriminate; case_bools; auto; discriminate. Qed.

Lemma closing_final_looking : forall cid m, closing cid m = true -> final_looking cid m = true.
Proof. intros cid m; destruct m; simpl; try discriminate; case_bools; auto; discriminate. Qed.

(* ------------------------------------------------------------ the monitor *)

Lemma sub_mark_absent : forall sb l, ~ In sb (sub_ids l) -> forall m, In m l -> sub_mark sb m = MNone.
Proof.
  intros sb l H m Hin. destruct m; simpl; auto;
  destruct (N.eqb_spec sb0 sb); auto; subst; exfalso; apply H; unfold sub_ids;
  apply in_flat_map; eexists; split; eauto; left; reflexivity.
Qed.

Lemma reg_mark_absent : forall rg l, ~ In rg (reg_ids l) -> forall m, In m l -> reg_mark rg m = MNone.
Proof.
  intros rg l H m Hin. destruct m; simpl; auto; try destruct first; auto;
  destruct (N.eqb_spec rg0 rg); auto; subst; exfalso; apply H; unfold reg_ids;
  apply in_flat_map; eexists; split; eauto; left; reflexivity.
Qed.

Theorem mon_sub_spec : forall l,
  mon_sub l = true <->
  forall sb, opened_before (sub_mark sb) l /\ none_after_close (sub_mark sb) l.
Proof.
  intros l; unfold mon_sub. rewrite forallb_forall. split.
  - intros H sb. apply scan_ok_spec.
    destruct (in_dec N.eq_dec sb (sub_ids l)) as [Hin|Hnin]; auto.
    unfold scan_ok. rewrite scan_none_mark; auto. apply sub_mark_absent; auto.
  - intros H sb _. apply scan_ok_spec; auto.
Qed.

Theorem mon_reg_spec : forall l,
  mon_reg l = true <->
  forall rg, opened_before (reg_mark rg) l /\ none_after_close (reg_mark rg) l.
Proof.
  intros l; unfold mon_reg. rewrite forallb_forall. split.
  - intros H rg. apply scan_ok_spec.
    destruct (in_dec N.eq_dec rg (reg_ids l)) as [Hin|Hnin]; auto.
    unfold scan_ok. rewrite scan_none_mark; auto. apply reg_mark_absent; auto.
  - intros H rg _. apply scan_ok_spec; auto.
Qed.

(** The extracted monitor accepts a log exactly when the log satisfies the
    seven predicates (in their client-side, full-strength reading). *)
Theorem monitor_spec : forall l,
  monitor l = [] <->
  ordered_by sel_event l /\ ordered_by sel_inv l /\
  (ordered_by sel_res l /\ nothing_after final_looking l) /\
  (forall sb, opened_before (sub_mark sb) l /\ none_after_close (sub_mark sb) l) /\
  (forall rg, opened_before (reg_mark rg) l /\ none_after_close (reg_mark rg) l).
Proof.
  intros l. unfold monitor.
  rewrite <- mon_sub_spec, <- mon_reg_spec.
  rewrite <- !ordered_byb_spec.
  rewrite <- (nothing_afterb_spec final_looking l final_looking_is_reply).
  unfold mon_event_order, mon_call_order, mon_progress_order.
  destruct (ordered_byb sel_event l), (ordered_byb sel_inv l), (ordered_byb sel_res l),
    (nothing_afterb final_looking l), (mon_sub l), (mon_reg l); simpl;
  split; intros H; try discriminate; try reflexivity; try tauto;
  repeat match goal with H : _ /\ _ |- _ => destruct H end; try discriminate.
Qed.
