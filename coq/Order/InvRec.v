(** C08 — call records and replies: a closing reply erases the record, every
    reply still to be sent has its record, hence nothing follows the closing
    reply of a call. *)
From Coq Require Import List NArith Bool Sorted Lia.
From Nexus Require Import Order.Model Order.Spec Order.SpecProofs Order.InvBase Order.InvSend
  Order.InvEvent Order.InvScan.
Import ListNotations.
Open Scope N_scope.

Definition is_rep (m : smsg) : bool :=
  match m with SResult _ _ _ _ _ | SErrorCall _ _ => true | _ => false end.

Definition sop_msgs (s : sop) : list (sid * smsg) :=
  match s with SSend r m | SReply r m => [(r, m)] | SAgain => [] end.

Definition op_msgs (o : wop) : list (sid * smsg) :=
  match o with
  | OSimple s => sop_msgs s
  | OTry r m _ _ onf => (r, m) :: flat_map sop_msgs onf
  end.

Definition all_msgs (ops : list wop) : list (sid * smsg) := flat_map op_msgs ops.

Definition top_cid (o : wop) : list N :=
  match head_msg o with
  | Some (_, m) => if is_rep m then [cid_of m] else []
  | None => []
  end.

Definition top_reply_cids (ops : list wop) : list N := flat_map top_cid ops.

Definition has_rec (cs : list crec) (cid : N) : Prop := exists c, In c cs /\ c_cid c = cid.

Record recinv (st : state) : Prop := mkrecinv {
  r_nodup : NoDup (map c_cid (calls st));
  r_fresh : forall c, In c (calls st) -> c_cid c < gcid st;
  r_attfresh : forall r m, In m (map fst (att st r)) -> is_rep m = true -> cid_of m < gcid st;
  r_ops : forall r m, In (r, m) (all_msgs (wops st Dealer)) -> is_rep m = true ->
                      has_rec (calls st) (cid_of m);
  r_opsnd : NoDup (top_reply_cids (wops st Dealer));
  r_closed : forall r m, In m (accepted (att st r)) -> closing (cid_of m) m = true ->
                         ~ has_rec (calls st) (cid_of m);
  r_callee : forall r cid y e pr cl, In (SResult cid y e pr cl) (accepted (att st r)) ->
                                     forall c, In c (calls st) -> c_cid c = cid -> c_callee c = e;
  r_resop : forall r cid y e pr cl eo ef onf,
              In (OTry r (SResult cid y e pr cl) eo ef onf) (wops st Dealer) ->
              forall c, In c (calls st) -> c_cid c = cid -> c_callee c = e;
  r_after : forall r, nothing_after closing (accepted (att st r)) }.

(* ---------------------------------------------------------------- small facts *)

Lemma is_reply_rep : forall cid m, is_reply cid m = true <-> is_rep m = true /\ cid_of m = cid.
Proof.
  intros cid m; destruct m; simpl; try (split; [discriminate|intros [? _]; discriminate]);
  rewrite N.eqb_eq; tauto.
Qed.

Lemma closing_rep : forall cid m, closing cid m = true -> is_rep m = true /\ cid_of m = cid.
Proof. intros cid m H. apply is_reply_rep. apply closing_is_reply; auto. Qed.

Lemma nothing_after_nil : forall fin, nothing_after fin [].
Proof. intros fin cid pre f post m E. destruct pre; discriminate. Qed.

Lemma list_snoc : forall A (l : list A), l = [] \/ exists l' y, l = l' ++ [y].
Proof.
  intros A l; induction l as [|a l IH] using rev_ind; auto. right; eauto.
Qed.

Lemma nothing_after_snoc : forall fin l m,
  nothing_after fin (l ++ [m]) <->
  nothing_after fin l /\ (forall cid f, In f l -> fin cid f = true -> is_reply cid m = false).
Proof.
  intros fin l m; split.
  - intros H; split.
    + intros cid pre f post x E Hf Hin. apply (H cid pre f (post ++ [m]) x); auto.
      * rewrite E, <- app_assoc; reflexivity.
      * apply in_or_app; auto.
    + intros cid f Hin Hf. apply in_split in Hin as [pre [post E]].
      apply (H cid pre f (post ++ [m]) m); auto.
      * rewrite E, <- app_assoc; reflexivity.
      * apply in_or_app; right; left; reflexivity.
  - intros [H1 H2] cid pre f post x E Hf Hin.
    destruct (list_snoc _ post) as [->|[post' [y ->]]].
    + destruct Hin.
    + rewrite app_comm_cons, app_assoc in E. apply app_inj_tail in E as [E ->].
      apply in_app_or in Hin as [Hin|[<-|[]]].
      * apply (H1 cid pre f post' x); auto.
      * apply (H2 cid f); auto. rewrite E. apply in_or_app; right; left; reflexivity.
Qed.

Lemma has_rec_erase : forall cs cid cid', has_rec (erase cid cs) cid' <-> has_rec cs cid' /\ cid' <> cid.
Proof.
  intros cs cid cid'; unfold has_rec, erase. split.
  - intros [c [Hin E]]. apply filter_In in Hin as [Hin Hn]. split; [exists c; auto|].
    intros ->. rewrite E, N.eqb_refl in Hn. discriminate.
  - intros [[c [Hin E]] Hn]. exists c; split; auto. apply filter_In; split; auto.
    rewrite E. destruct (N.eqb_spec cid' cid); auto.
Qed.

Lemma in_erase : forall c cid cs, In c (erase cid cs) -> In c cs.
Proof. intros c cid cs H; apply filter_In in H as [H _]; auto. Qed.

Lemma nodup_map_filter : forall (f : crec -> bool) cs,
  NoDup (map c_cid cs) -> NoDup (map c_cid (filter f cs)).
Proof.
  intros f cs; induction cs as [|c cs IH]; simpl; intros H; auto.
  inversion H; subst. destruct (f c); simpl; auto. constructor; auto.
  intros Hin. apply H2. apply in_map_iff in Hin as [x [E Hx]]. apply filter_In in Hx as [Hx _].
  apply in_map_iff; eauto.
Qed.

Lemma set_rec_cids : forall c' cs, map c_cid (set_rec c' cs) = map c_cid cs.
Proof.
  intros c' cs; induction cs as [|c cs IH]; simpl; auto. rewrite IH.
  destruct (N.eqb_spec (c_cid c) (c_cid c')); simpl; congruence.
Qed.

Lemma in_set_rec : forall c c' cs, In c (set_rec c' cs) ->
  In c cs \/ (c = c' /\ exists c0, In c0 cs /\ c_cid c0 = c_cid c').
Proof.
  intros c c' cs; induction cs as [|x cs IH]; simpl; [tauto|].
  destruct (N.eqb_spec (c_cid x) (c_cid c')).
  - intros [<-|H]; [right; split; auto; exists x; auto|].
    destruct (IH H) as [|[? [c0 [? ?]]]]; auto. right; split; auto; exists c0; auto.
  - intros [<-|H]; auto. destruct (IH H) as [|[? [c0 [? ?]]]]; auto.
    right; split; auto; exists c0; auto.
Qed.

Lemma has_rec_cids : forall cs cid, has_rec cs cid <-> In cid (map c_cid cs).
Proof.
  intros cs cid; unfold has_rec. rewrite in_map_iff. split; intros [c [A B0]]; exists c; auto.
Qed.

Lemma has_rec_set_rec : forall c' cs cid, has_rec (set_rec c' cs) cid <-> has_rec cs cid.
Proof. intros. rewrite !has_rec_cids, set_rec_cids. tauto. Qed.

Lemma find_call_in : forall s req cs c, find_call s req cs = Some c -> In c cs /\ c_caller c = s.
Proof.
  intros s req cs c H. unfold find_call in H. apply find_some in H as [H1 H2].
  apply andb_true_iff in H2 as [H2 _]. apply N.eqb_eq in H2. auto.
Qed.

Lemma find_inv_in : forall s inv cs c, find_inv s inv cs = Some c ->
  In c cs /\ c_callee c = s /\ c_cid c = inv.
Proof.
  intros s inv cs c H. unfold find_inv in H. apply find_some in H as [H1 H2].
  apply andb_true_iff in H2 as [H2 H3]. apply N.eqb_eq in H2, H3. auto.
Qed.

Lemma nodup_same_cid : forall cs c1 c2,
  NoDup (map c_cid cs) -> In c1 cs -> In c2 cs -> c_cid c1 = c_cid c2 -> c1 = c2.
Proof.
  induction cs as [|c cs IH]; intros c1 c2 H H1 H2 E; [destruct H1|].
  simpl in H; inversion H as [|x l Hn Hd]; subst.
  destruct H1 as [<-|H1], H2 as [<-|H2]; auto.
  - exfalso; apply Hn. rewrite E. apply in_map; auto.
  - exfalso; apply Hn. rewrite <- E. apply in_map; auto.
Qed.

(* ---------------------------------------------------------------- what a dealer closure plans *)

Lemma err_reply_msgs : forall (f : crec -> bool) cs r m,
  In (r, m) (all_msgs (map (fun c => OSimple (err_reply c)) (filter f cs))) ->
  exists c, In c cs /\ f c = true /\ m = SErrorCall (c_cid c) true.
Proof.
  intros f cs r m H. unfold all_msgs in H. apply in_flat_map in H as [o [Hin Ho]].
  apply in_map_iff in Hin as [c [<- Hc]]. apply filter_In in Hc as [Hc Hf].
  simpl in Ho. destruct Ho as [Ho|[]]. inv Ho. eauto.
Qed.

Lemma err_reply_cids : forall (f : crec -> bool) cs,
  top_reply_cids (map (fun c => OSimple (err_reply c)) (filter f cs)) = map c_cid (filter f cs).
Proof.
  intros f cs. unfold top_reply_cids. induction (filter f cs) as [|c l IH]; simpl; auto.
  rewrite IH; reflexivity.
Qed.

Definition plan_good (st : state) (calls' : list crec) (g' : N) (ops : list wop) : Prop :=
  NoDup (map c_cid calls') /\
  (forall c, In c calls' -> c_cid c < g') /\
  gcid st <= g' /\
  (forall r m, In (r, m) (all_msgs ops) -> is_rep m = true -> has_rec calls' (cid_of m)) /\
  NoDup (top_reply_cids ops) /\
  (forall cid, has_rec calls' cid -> has_rec (calls st) cid \/ cid = gcid st) /\
  (forall c, In c calls' ->
     (exists c0, In c0 (calls st) /\ c_cid c0 = c_cid c /\ c_callee c0 = c_callee c) \/
     c_cid c = gcid st) /\
  (forall r cid y e pr cl eo ef onf, In (OTry r (SResult cid y e pr cl) eo ef onf) ops ->
     forall c, In c calls' -> c_cid c = cid -> c_callee c = e).

Ltac has_rec_tac :=
  match goal with
  | |- has_rec _ _ => eexists; split; [eassumption|reflexivity]
  | |- has_rec (?c :: _) _ => exists c; split; [left; reflexivity|reflexivity]
  end.

Lemma plan_dealer_good : forall cf st from q m o regs' calls' g' ops,
  NoDup (map c_cid (calls st)) -> (forall c, In c (calls st) -> c_cid c < gcid st) ->
  plan_dealer cf st from q m o = Some (regs', calls', g', ops) ->
  plan_good st calls' g' ops.
Proof.
  intros cf st from q m o regs' calls' g' ops Hnd Hfr H. unfold plan_dealer in H.
  assert (Hsame : forall ops0,
            (forall r m0, In (r, m0) (all_msgs ops0) -> is_rep m0 = true ->
                          has_rec (calls st) (cid_of m0)) ->
            NoDup (top_reply_cids ops0) ->
            (forall r cid y e pr cl eo ef onf,
                In (OTry r (SResult cid y e pr cl) eo ef onf) ops0 ->
                forall c, In c (calls st) -> c_cid c = cid -> c_callee c = e) ->
            plan_good st (calls st) (gcid st) ops0).
  { intros ops0 A1 A2 A3. repeat split; auto; try lia.
    intros c Hc. left; exists c; auto. }
  destruct m; try discriminate.
  - (* REGISTER *)
    dm H; inv H; apply Hsame; simpl; try constructor;
    try (intros r m0 [Hx|[]] Hr; inv Hx; discriminate);
    intros; repeat (match goal with Hx : _ \/ _ |- _ => destruct Hx as [Hx|Hx]; try discriminate end);
    contradiction.
  - (* UNREGISTER *)
    dm H; inv H; apply Hsame; simpl; try constructor;
    try (intros r m0 [Hx|[]] Hr; inv Hx; discriminate);
    intros; repeat (match goal with Hx : _ \/ _ |- _ => destruct Hx as [Hx|Hx]; try discriminate end);
    contradiction.
  - (* CALL *)
    destruct (find_call from req (calls st)) as [c|] eqn:Ef.
    + apply find_call_in in Ef as [Hc _].
      dm H; inv H.
      * apply Hsame; simpl.
        -- intros r m0 [Hx|[]] Hr; inv Hx. exists c; auto.
        -- repeat constructor; simpl; auto.
        -- intros r cid y e pr cl eo ef onf [Hx|[]]; discriminate.
      * apply Hsame; simpl.
        -- intros r m0 [Hx|[]] Hr; inv Hx. exists c; auto.
        -- repeat constructor; simpl; auto.
        -- intros r cid y e pr cl eo ef onf [Hx|[]]; discriminate.
      * repeat split; auto; try lia.
        -- rewrite set_rec_cids; auto.
        -- intros c1 H1. apply in_set_rec in H1 as [H1|[-> [c0 [H0 E0]]]]; auto.
           simpl in *. rewrite <- E0. auto.
        -- simpl. intros r m0 [Hx|[Hx|[]]] Hr; inv Hx; try discriminate.
           apply has_rec_set_rec. exists c; auto.
        -- simpl. constructor.
        -- intros cid Hr. apply (proj1 (has_rec_set_rec _ _ _)) in Hr. auto.
        -- intros c1 H1. apply in_set_rec in H1 as [H1|[-> [c0 [H0 E0]]]].
           ++ left; exists c1; auto.
           ++ left; exists c. simpl. auto.
        -- simpl. intros r cid y e pr cl eo ef onf [Hx|[]]; discriminate.
    + dm H; inv H.
      * (* refused first chunk *)
        repeat split; simpl; auto; try lia.
        -- constructor; auto. intros Hin. apply in_map_iff in Hin as [c [Ecc Hc]].
           apply Hfr in Hc. lia.
        -- intros c [<-|Hc]; simpl; [lia|]. apply Hfr in Hc; lia.
        -- intros r m0 [Hx|[]] Hr; inv Hx. simpl. eexists; split; [left; reflexivity|reflexivity].
        -- repeat constructor; simpl; auto.
        -- intros cid [c [[<-|Hc] Ecc]]; simpl in *; auto. left; exists c; auto.
        -- intros c [<-|Hc]; simpl; auto. left; exists c; auto.
        -- intros r cid y e pr cl eo ef onf [Hx|[]]; discriminate.
      * repeat split; simpl; auto; try lia.
        -- constructor; auto. intros Hin. apply in_map_iff in Hin as [c [Ecc Hc]].
           apply Hfr in Hc. lia.
        -- intros c [<-|Hc]; simpl; [lia|]. apply Hfr in Hc; lia.
        -- intros r m0 [Hx|[Hx|[]]] Hr; inv Hx; try discriminate.
           simpl. eexists; split; [left; reflexivity|reflexivity].
        -- constructor.
        -- intros cid [c [[<-|Hc] Ecc]]; simpl in *; auto. left; exists c; auto.
        -- intros c [<-|Hc]; simpl; auto. left; exists c; auto.
        -- intros r cid y e pr cl eo ef onf [Hx|[]]; discriminate.
  - (* YIELD *)
    destruct (find_inv from inv (calls st)) as [c|] eqn:Ef.
    + apply find_inv_in in Ef as [Hc [Hcal Hcid]].
      dm H; inv H.
      1:{ (* refusal, closing *)
        repeat split; auto; try lia.
        -- apply nodup_map_filter; auto.
        -- intros c1 H1. apply in_erase in H1. auto.
        -- simpl. intros r m0 [Hx|[]] Hr; inv Hx; discriminate.
        -- simpl. constructor.
        -- intros cid Hr. apply (proj1 (has_rec_erase _ _ _)) in Hr as [Hr _]; auto.
        -- intros c1 H1. apply in_erase in H1. left; exists c1; auto.
        -- simpl. intros r cid y e pr cl eo ef onf [Hx|[]]; discriminate. }
      all: apply Hsame; simpl.
      all: try (intros r m0 Hx Hr;
                repeat (destruct Hx as [Hx|Hx]; [inv Hx; try discriminate; exists c; auto|]);
                contradiction).
      all: try (repeat constructor; simpl; auto; fail).
      all: intros r cid y e pr cl eo ef onf Hx; destruct Hx as [Hx|[]]; try discriminate;
           intros c1 H1 Ec1; inv Hx;
           assert (c1 = c) by (eapply nodup_same_cid; eauto); subst; auto.
    + inv H. apply Hsame.
      * destruct progress; simpl; [intros r m0 [Hx|[]] Hr; inv Hx; discriminate|intros r m0 []].
      * destruct progress; simpl; constructor.
      * destruct progress; simpl; intros r cid y e pr cl eo ef onf Hx;
          repeat (destruct Hx as [Hx|Hx]; try discriminate); contradiction.
  - (* ERROR *)
    destruct (find_inv from inv (calls st)) as [c|] eqn:Ef; inv H; apply Hsame; simpl.
    + apply find_inv_in in Ef as [Hc _]. intros r m0 [Hx|[]] Hr; inv Hx. exists c; auto.
    + repeat constructor; simpl; auto.
    + intros r cid y e pr cl eo ef onf [Hx|[]]; discriminate.
    + intros r m0 [].
    + constructor.
    + intros; contradiction.
  - (* CANCEL *)
    destruct (find_call from req (calls st)) as [c|] eqn:Ef.
    2:{ inv H. apply Hsame; simpl; try constructor; try (intros r m0 []); intros; contradiction. }
    apply find_call_in in Ef as [Hc _].
    destruct (c_canceled c).
    { inv H. apply Hsame; simpl; try constructor; try (intros r m0 []); intros; contradiction. }
    assert (Hset : forall ops0,
       (forall r m0, In (r, m0) (all_msgs ops0) -> is_rep m0 = true -> cid_of m0 = c_cid c) ->
       NoDup (top_reply_cids ops0) ->
       (forall r cid y e pr cl eo ef onf, ~ In (OTry r (SResult cid y e pr cl) eo ef onf) ops0) ->
       plan_good st (set_rec (mkcrec (c_cid c) (c_caller c) (c_req c) (c_callee c) (c_inprog c) true)
                             (calls st)) (gcid st) ops0).
    { intros ops0 A1 A2 A3. repeat split; auto; try lia.
      - rewrite set_rec_cids; auto.
      - intros c1 H1. apply in_set_rec in H1 as [H1|[-> [c0 [H0 E0]]]]; auto.
        simpl in *. rewrite <- E0. auto.
      - intros r m0 Hx Hr. apply has_rec_set_rec. rewrite (A1 r m0 Hx Hr). exists c; auto.
      - intros cid Hr. apply (proj1 (has_rec_set_rec _ _ _)) in Hr. auto.
      - intros c1 H1. apply in_set_rec in H1 as [H1|[-> [c0 [H0 E0]]]].
        + left; exists c1; auto.
        + left; exists c. simpl. auto.
      - intros r cid y e pr cl eo ef onf Hx. exfalso; eapply A3; eauto. }
    dm H; inv H; apply Hset; simpl.
    all: try (intros r m0 Hx Hr; repeat (destruct Hx as [Hx|Hx]; [inv Hx; try discriminate; reflexivity|]);
              contradiction).
    all: try (repeat constructor; simpl; auto; fail).
    all: intros r cid y e pr cl eo ef onf Hx; repeat (destruct Hx as [Hx|Hx]; try discriminate); auto.
  - (* GOODBYE *)
    inv H. repeat split; auto; try lia.
    + apply nodup_map_filter; auto.
    + intros c Hc. apply filter_In in Hc as [Hc _]; auto.
    + intros r m Hx Hr. apply err_reply_msgs in Hx as [c [Hc [Hf ->]]]. simpl.
      exists c; split; auto. apply filter_In; split; auto. rewrite Hf. apply orb_true_r.
    + rewrite err_reply_cids. apply nodup_map_filter; auto.
    + intros cid [c [Hc E]]. apply filter_In in Hc as [Hc _]. left; exists c; auto.
    + intros c Hc. apply filter_In in Hc as [Hc _]. left; exists c; auto.
    + intros r cid y e pr cl eo ef onf Hx. apply in_map_iff in Hx as [c [Hx _]]. discriminate.
Qed.

(* ---------------------------------------------------------------- preservation *)

Lemma calls_nosend_same : forall cf st l st',
  sends l = false -> (forall o, l <> WorkerRun Dealer o) -> step cf st l = Some st' ->
  calls st' = calls st /\ gcid st' = gcid st.
Proof.
  intros cf st l st' S N H. step_cases H; simpl in *; auto; try discriminate.
  exfalso; eapply N; eauto.
Qed.

Lemma recinv_frame : forall st st',
  recinv st -> att st' = att st -> calls st' = calls st -> gcid st' = gcid st ->
  (forall x, In x (all_msgs (wops st' Dealer)) -> In x (all_msgs (wops st Dealer))) ->
  NoDup (top_reply_cids (wops st' Dealer)) ->
  (forall o, In o (wops st' Dealer) -> is_simple o = false -> In o (wops st Dealer)) ->
  recinv st'.
Proof.
  intros st st' I Ea Ec Eg Hsub Hnd Htry.
  constructor; rewrite ?Ea, ?Ec, ?Eg; try apply I.
  - intros r m Hin Hr. apply (r_ops st I r m); auto.
  - auto.
  - intros r cid y e pr cl eo ef onf Hin. apply (r_resop st I r cid y e pr cl eo ef onf).
    apply Htry; auto.
Qed.

Lemma in_att_snoc : forall st st' r0 m ok r x,
  att st' = upd (att st) r0 (att st r0 ++ [(m, ok)]) ->
  (In x (map fst (att st' r)) <-> In x (map fst (att st r)) \/ (r = r0 /\ x = m)).
Proof.
  intros st st' r0 m ok r x E. rewrite E. destruct (N.eq_dec r r0) as [->|Hn].
  - rewrite upd_same, map_app, in_app_iff. simpl. intuition (subst; auto).
  - rewrite upd_other by auto. intuition.
Qed.

Lemma in_acc_snoc : forall st st' r0 m ok r x,
  att st' = upd (att st) r0 (att st r0 ++ [(m, ok)]) ->
  (In x (accepted (att st' r)) <->
   In x (accepted (att st r)) \/ (r = r0 /\ x = m /\ ok = true)).
Proof.
  intros st st' r0 m ok r x E. rewrite E. destruct (N.eq_dec r r0) as [->|Hn].
  - rewrite upd_same, accepted_snoc, in_app_iff. destruct ok; simpl; intuition (subst; auto).
    discriminate.
  - rewrite upd_other by auto. intuition.
Qed.

(** somebody appends a message that is not a reply, tables untouched *)
Lemma recinv_send_other : forall st st' r0 m ok,
  recinv st -> att st' = upd (att st) r0 (att st r0 ++ [(m, ok)]) ->
  is_rep m = false -> calls st' = calls st -> gcid st' = gcid st ->
  wops st' Dealer = wops st Dealer -> recinv st'.
Proof.
  intros st st' r0 m ok I Ea Hm Ec Eg Ew.
  assert (Hnc : forall cid, closing cid m = false).
  { intros cid. destruct (closing cid m) eqn:E; auto. apply closing_rep in E as [E _]. congruence. }
  constructor; rewrite ?Ec, ?Eg, ?Ew; try apply I.
  - intros r x Hin Hr. apply (in_att_snoc st st' r0 m ok) in Hin; auto.
    destruct Hin as [Hin|[_ ->]]; [apply (r_attfresh st I r x); auto|congruence].
  - intros r x Hin Hcl. apply (in_acc_snoc st st' r0 m ok) in Hin; auto.
    destruct Hin as [Hin|[_ [-> _]]]; [apply (r_closed st I r x); auto|].
    rewrite Hnc in Hcl; discriminate.
  - intros r cid y e pr cl Hin. apply (in_acc_snoc st st' r0 m ok) in Hin; auto.
    destruct Hin as [Hin|[_ [E _]]]; [apply (r_callee st I r cid y e pr cl); auto|].
    subst m; discriminate.
  - intros r. rewrite Ea. destruct (N.eq_dec r r0) as [->|Hn];
      [|rewrite upd_other by auto; apply (r_after st I)].
    rewrite upd_same, accepted_snoc. destruct ok; [|rewrite app_nil_r; apply (r_after st I)].
    apply nothing_after_snoc. split; [apply (r_after st I)|].
    intros cid f Hin Hf. destruct (is_reply cid m) eqn:E; auto.
    apply is_reply_rep in E as [E _]. congruence.
Qed.

Lemma simple_msgs_top : forall l r m,
  forallb is_simple l = true -> In (r, m) (all_msgs l) -> is_rep m = true ->
  In (cid_of m) (top_reply_cids l).
Proof.
  induction l as [|o l IH]; simpl; intros r m Hs Hin Hr; [destruct Hin|].
  apply andb_true_iff in Hs as [Ho Hs]. apply in_app_or in Hin as [Hin|Hin].
  - apply in_or_app; left. destruct o as [[r' m'|r' m'|]|]; simpl in *; try discriminate;
      try contradiction; destruct Hin as [Hin|[]]; inv Hin; unfold top_cid; simpl; rewrite Hr;
      left; reflexivity.
  - apply in_or_app; right. eapply IH; eauto.
Qed.

Lemma all_msgs_onf : forall onf, all_msgs (map OSimple onf) = flat_map sop_msgs onf.
Proof. induction onf; simpl; auto. unfold all_msgs in *. simpl. rewrite IHonf. reflexivity. Qed.

Lemma onf_top_nodup : forall onf,
  forallb onf_ok onf = true -> Nat.leb (length (filter is_sreply onf)) 1 = true ->
  NoDup (top_reply_cids (map OSimple onf)).
Proof.
  intros onf Hok Hlen.
  assert (E : top_reply_cids (map OSimple onf) =
              flat_map (fun s => match s with SReply _ m => [cid_of m] | _ => [] end)
                       (filter is_sreply onf)).
  { clear Hlen. induction onf as [|s onf IH]; simpl; auto. simpl in Hok.
    apply andb_true_iff in Hok as [Hs Hok]. unfold top_reply_cids in *. simpl. rewrite (IH Hok).
    destruct s as [r m|r m|]; simpl in *; auto.
    - destruct m; try discriminate. reflexivity.
    - destruct m; try discriminate. destruct closes; try discriminate. reflexivity. }
  rewrite E. destruct (filter is_sreply onf) as [|a [|b t]]; simpl in *; try discriminate.
  - constructor.
  - destruct a; simpl; repeat constructor; auto.
Qed.

Lemma nodup_app_r : forall A (a b : list A), NoDup (a ++ b) -> NoDup b.
Proof. induction a; simpl; auto. intros b H; inversion H; auto. Qed.

Lemma recinv_send_dealer : forall st st' r0 m ok from q cm again op rest rest',
  base st -> recinv st ->
  att st' = upd (att st) r0 (att st r0 ++ [(m, ok)]) ->
  gcid st' = gcid st ->
  wst st Dealer = WRun from q cm again (op :: rest) -> head_msg op = Some (r0, m) ->
  calls st' = (match op with
               | OSimple (SReply _ m') => erase (cid_of m') (calls st)
               | OTry _ m' eo ef _ =>
                   if (if ok then eo else ef) then erase (cid_of m') (calls st) else calls st
               | _ => calls st
               end) ->
  wst st' Dealer = WRun from q cm again rest' ->
  (match op with OTry _ _ _ _ onf => (ok = true /\ rest' = rest) \/
                                     (ok = false /\ rest' = map OSimple onf ++ rest)
               | _ => rest' = rest end) ->
  recinv st'.
Proof.
  intros st st' r0 m ok from q cm again op rest rest' B I Ea Eg Ew Ehd Ecl Ew' Hr.
  pose proof (b_dealer st B) as Wd. unfold wf_dealer in Wd. rewrite Ew in Wd.
  destruct Wd as [Wd Ws]. simpl in Wd. apply andb_true_iff in Wd as [Wop Wrest].
  assert (Wops : wops st Dealer = op :: rest) by (unfold wops; rewrite Ew; auto).
  pose proof (r_opsnd st I) as Hnd. rewrite Wops in Hnd.
  (* K1: the records only shrink *)
  assert (K1 : forall c, In c (calls st') -> In c (calls st)).
  { intros c. rewrite Ecl. destruct op as [[| |]|r1 m1 eo ef onf]; auto; try apply in_erase.
    destruct (if ok then eo else ef); auto; apply in_erase. }
  assert (K1' : forall cid, has_rec (calls st') cid -> has_rec (calls st) cid).
  { intros cid [c [Hc E]]. exists c; auto. }
  (* the head message, when it is a reply, has its record *)
  assert (Khead : is_rep m = true -> has_rec (calls st) (cid_of m)).
  { intros Hm. apply (r_ops st I r0 m); auto. rewrite Wops. unfold all_msgs. simpl.
    apply in_or_app; left.
    destruct op as [[r1 m1|r1 m1|]|r1 m1 eo ef onf]; simpl in Ehd; inv Ehd; simpl; auto. }
  (* K2: an accepted closing reply erases its record *)
  assert (K2 : ok = true -> closing (cid_of m) m = true -> ~ has_rec (calls st') (cid_of m)).
  { intros -> Hcl Hh. rewrite Ecl in Hh.
    destruct op as [[r1 m1|r1 m1|]|r1 m1 eo ef onf]; simpl in Ehd; inv Ehd.
    - simpl in Wop. destruct m; try discriminate. destruct closes; discriminate.
    - apply has_rec_erase in Hh as [_ Hh]. congruence.
    - simpl in Wop. destruct m; try discriminate.
      simpl in Hcl. destruct progress; try discriminate. destruct closes; try discriminate.
      repeat (apply andb_true_iff in Wop as [Wop ?]). destruct eo; try discriminate.
      apply has_rec_erase in Hh as [_ Hh]. congruence. }
  (* K3: the remaining replies keep their records *)
  assert (K3 : forall r m', In (r, m') (all_msgs rest') -> is_rep m' = true ->
                            has_rec (calls st') (cid_of m')).
  { intros r m' Hin Hm'. rewrite Ecl.
    destruct op as [[r1 m1|r1 m1|]|r1 m1 eo ef onf]; simpl in Ehd; inv Ehd.
    - apply (r_ops st I r m'); auto. rewrite Wops. unfold all_msgs; simpl. right; auto.
    - pose proof (try_sole_tail _ _ Ws) as Hsimple.
      apply has_rec_erase. split.
      + apply (r_ops st I r m'); auto. rewrite Wops. unfold all_msgs; simpl. right; auto.
      + pose proof (simple_msgs_top _ _ _ Hsimple Hin Hm') as Hc.
        simpl in Wop. destruct m; try discriminate. destruct closes; try discriminate.
        unfold top_reply_cids in Hnd. simpl in Hnd. unfold top_cid at 1 in Hnd. simpl in Hnd.
        inversion Hnd; subst. intros E. apply H1. simpl in E. rewrite <- E. auto.
    - apply try_sole_try in Ws. subst rest.
      destruct Hr as [[-> ->]|[-> ->]]; [destruct Hin|].
      rewrite app_nil_r in Hin. simpl in Wop. repeat (apply andb_true_iff in Wop as [Wop ?]).
      destruct ef.
      + destruct onf; try discriminate. destruct Hin.
      + apply (r_ops st I r m'); auto. rewrite Wops. unfold all_msgs; simpl.
        rewrite app_nil_r. right. rewrite all_msgs_onf in Hin. auto. }
  (* K4 *)
  assert (K4 : NoDup (top_reply_cids rest')).
  { destruct op as [[r1 m1|r1 m1|]|r1 m1 eo ef onf]; simpl in Ehd; inv Ehd.
    - unfold top_reply_cids in Hnd. simpl in Hnd. eapply nodup_app_r; eauto.
    - unfold top_reply_cids in Hnd. simpl in Hnd. eapply nodup_app_r; eauto.
    - apply try_sole_try in Ws. subst rest.
      destruct Hr as [[-> ->]|[-> ->]]; [constructor|].
      rewrite app_nil_r. simpl in Wop. repeat (apply andb_true_iff in Wop as [Wop ?]).
      apply onf_top_nodup; auto. }
  (* K5 *)
  assert (K5 : forall o, In o rest' -> is_simple o = false -> In o (op :: rest)).
  { intros o Hin Ho. destruct op as [[| |]|r1 m1 eo ef onf]; try (subst; right; auto; fail).
    destruct Hr as [[_ ->]|[_ ->]]; [right; auto|].
    apply in_app_or in Hin as [Hin|Hin]; [|right; auto].
    apply in_map_iff in Hin as [s [<- _]]. discriminate. }
  constructor.
  - (* r_nodup *)
    rewrite Ecl. destruct op as [[| |]|r1 m1 eo ef onf]; try apply I.
    + apply nodup_map_filter; apply I.
    + destruct (if ok then eo else ef); [apply nodup_map_filter|]; apply I.
  - intros c Hc. rewrite Eg. apply (r_fresh st I); auto.
  - intros r x Hin Hx. rewrite Eg. apply (in_att_snoc st st' r0 m ok) in Hin; auto.
    destruct Hin as [Hin|[_ ->]]; [apply (r_attfresh st I r x); auto|].
    destruct (Khead Hx) as [c [Hc <-]]. apply (r_fresh st I); auto.
  - replace (wops st' Dealer) with rest' by (unfold wops; rewrite Ew'; auto). auto.
  - replace (wops st' Dealer) with rest' by (unfold wops; rewrite Ew'; auto). auto.
  - intros r x Hin Hcl. apply (in_acc_snoc st st' r0 m ok) in Hin; auto.
    destruct Hin as [Hin|[_ [-> Hok]]]; [|apply K2; auto].
    intros Hh. apply (r_closed st I r x Hin Hcl). auto.
  - intros r cid y e pr cl Hin c Hc Ec. apply (in_acc_snoc st st' r0 m ok) in Hin; auto.
    destruct Hin as [Hin|[_ [E Hok]]]; [apply (r_callee st I r cid y e pr cl); auto|].
    subst m. destruct op as [[r1 m1|r1 m1|]|r1 m1 eo ef onf]; simpl in Ehd; inv Ehd;
      simpl in Wop; try discriminate.
    eapply (r_resop st I); eauto.
    rewrite Wops; left; reflexivity.
  - intros r cid y e pr cl eo ef onf Hin c Hc Ec.
    replace (wops st' Dealer) with rest' in Hin by (unfold wops; rewrite Ew'; auto).
    apply (r_resop st I r cid y e pr cl eo ef onf); auto. rewrite Wops. apply K5; auto.
  - intros r. rewrite Ea. destruct (N.eq_dec r r0) as [->|Hn];
      [|rewrite upd_other by auto; apply (r_after st I)].
    rewrite upd_same, accepted_snoc. destruct ok; [|rewrite app_nil_r; apply (r_after st I)].
    apply nothing_after_snoc. split; [apply (r_after st I)|].
    intros cid f Hin Hf. destruct (is_reply cid m) eqn:E; auto. exfalso.
    apply is_reply_rep in E as [E1 E2]. apply closing_rep in Hf as Hf'. destruct Hf' as [_ Ef].
    apply (r_closed st I r0 f Hin); rewrite Ef; auto. rewrite <- E2. auto.
Qed.

Lemma recinv_run : forall cf st o st',
  recinv st -> step cf st (WorkerRun Dealer o) = Some st' -> recinv st'.
Proof.
  intros cf st o st' I H. simpl in H. dm H; inv H.
  destruct (plan_dealer_good _ _ _ _ _ _ _ _ _ _ (r_nodup st I) (r_fresh st I) E0)
    as [G1 [G2 [G3 [G4 [G5 [G6 [G7 G8]]]]]]].
  constructor; simpl; unfold wops; simpl; auto.
  - intros r x Hin Hx. pose proof (r_attfresh st I r x Hin Hx). lia.
  - intros r x Hin Hcl Hh. apply G6 in Hh as [Hh| Hh].
    + apply (r_closed st I r x Hin Hcl); auto.
    + apply closing_rep in Hcl as [Hx _].
      assert (In x (map fst (att st r))).
      { apply in_accepted in Hin. apply in_map_iff. exists (x, true); auto. }
      pose proof (r_attfresh st I r x H Hx). lia.
  - intros r cid y e pr cl Hin c Hc Ec. destruct (G7 c Hc) as [[c0 [H0 [E1 E2]]]|Hg].
    + rewrite <- E2. apply (r_callee st I r cid y e pr cl Hin c0 H0). congruence.
    + assert (Hx : In (SResult cid y e pr cl) (map fst (att st r))).
      { apply in_accepted in Hin. apply in_map_iff. eexists; split; eauto. reflexivity. }
      pose proof (r_attfresh st I r _ Hx eq_refl). simpl in H. lia.
  - apply (r_after st I).
Qed.

Theorem recinv_step : forall cf st l st',
  base st -> recinv st -> step cf st l = Some st' -> recinv st'.
Proof.
  intros cf st l st' B I H. destruct (sends l) eqn:S.
  - destruct (send_step _ _ _ _ S H) as [r0 [m [ok [who [Ea [Eg [Ei [Es [Er [Ec Hw]]]]]]]]]].
    destruct who as [w|].
    + destruct Hw as [Hl [Eh [from [q [cm [again [op [rest [Ew [Ehd [Eo [Ecl [rest' [Ew' Hr]]]]]]]]]]]]]].
      destruct w.
      * pose proof (b_broker st B) as Wb. unfold wf_broker in Wb. rewrite Ew in Wb.
        simpl in Wb. apply andb_true_iff in Wb as [Wb _].
        destruct (bop_ok_inv _ Wb) as [r1 [m1 [-> Km]]]. simpl in Ehd. inv Ehd.
        eapply recinv_send_other; eauto.
        -- destruct m; simpl in *; auto; discriminate.
        -- unfold wops. rewrite (Eo Dealer) by discriminate. reflexivity.
      * eapply recinv_send_dealer; eauto.
    + destruct Hw as [Hl [Ew [Ecs [tl [Eh Eh']]]]].
      pose proof (b_hpost st B r0 _ Eh) as Kh. simpl in Kh. apply andb_true_iff in Kh as [Kh _].
      eapply recinv_send_other; eauto.
      * destruct m; simpl in *; auto; discriminate.
      * unfold wops. rewrite Ew; reflexivity.
  - pose proof (att_same _ _ _ _ S H) as Ea.
    destruct (touches Dealer l) eqn:T.
    2:{ destruct (calls_nosend_same _ _ _ _ S (fun o E => ltac:(subst; discriminate)) H) as [Ec Eg].
        apply recinv_frame with (st := st); auto;
          unfold wops; rewrite (wst_same _ _ _ _ Dealer T H); auto. apply I. }
    assert (Hcs : (forall o, l <> WorkerRun Dealer o) ->
                  calls st' = calls st /\ gcid st' = gcid st)
      by (intros N; eapply calls_nosend_same; eauto).
    destruct l; simpl in S, T; try discriminate; try (destruct w; try discriminate).
    + (* Submit s Dealer *)
      destruct Hcs as [Ec Eg]; [intros o0 E0; discriminate|].
      apply recinv_frame with (st := st); auto;
        simpl in H; dm H; inv H; unfold wops; simpl; try constructor; intros; contradiction.
    + (* YieldRetry *)
      destruct Hcs as [Ec Eg]; [intros o0 E0; discriminate|].
      apply recinv_frame with (st := st); auto;
        simpl in H; dm H; inv H; unfold wops; simpl; try constructor; intros; contradiction.
    + (* TimerFire *)
      destruct Hcs as [Ec Eg]; [intros o0 E0; discriminate|].
      apply recinv_frame with (st := st); auto;
        simpl in H; dm H; inv H; unfold wops; simpl; try constructor; intros; contradiction.
    + eapply recinv_run; eauto.
    + (* Tau Dealer *)
      destruct Hcs as [Ec Eg]; [intros o0 E0; discriminate|].
      pose proof (r_opsnd st I) as Hnd.
      apply recinv_frame with (st := st); auto;
        simpl in H; unfold exec in H; dm H; inv H; unfold wops in *; simpl; rewrite E in *; simpl; auto.
    + (* WorkerDone Dealer *)
      destruct Hcs as [Ec Eg]; [intros o0 E0; discriminate|].
      apply recinv_frame with (st := st); auto;
        simpl in H; dm H; inv H; unfold wops; simpl; rewrite ?updw_same; simpl;
        try constructor; intros; contradiction.
Qed.

Lemma recinv_init : recinv init.
Proof.
  constructor; simpl; unfold wops; simpl; try constructor; try (intros; contradiction).
  intros r. apply nothing_after_nil.
Qed.
