(** C08 — progress_order, first half: RESULTs of a call reach the caller in
    YIELD order.  The retry loop of dealer.yield keeps the callee's handler,
    so a retried YIELD cannot be overtaken by a later one of the same callee. *)
From Coq Require Import List NArith Bool Sorted Lia.
From Nexus Require Import Order.Model Order.Spec Order.SpecProofs Order.InvBase Order.InvSend
  Order.InvEvent Order.InvScan Order.InvRec.
Import ListNotations.
Open Scope N_scope.

Definition res_in (st : state) (e : sid) (y : N) : Prop :=
  exists r cid pr cl, In (SResult cid y e pr cl) (accepted (att st r)).

Definition res_op (o : wop) : Prop :=
  exists r cid y f pr cl eo ef onf, o = OTry r (SResult cid y f pr cl) eo ef onf.

Definition sops_of (ops : list wop) : list sop :=
  flat_map (fun o => match o with OSimple s => [s] | OTry _ _ _ _ onf => onf end) ops.

Definition has_again (ops : list wop) : Prop := In SAgain (sops_of ops).

Definition hbound (h : hstate) (y : N) : Prop :=
  match h with
  | HHold q _ | HRetry q _ => y < q
  | HWait q m => y <= q /\ (y = q -> is_yield m = true)
  | HDone q m a => y <= q /\ (y = q -> is_yield m = true /\ a = false)
  | _ => True
  end.

Record yinv (st : state) : Prop := mkyinv {
  y_ord : forall r, ordered_by sel_res (accepted (att st r));
  y_bound : forall e y, res_in st e y ->
            y < gseq st /\ (forall x, In x (map fst (inbox st e)) -> y < x) /\
            hbound (hst st e) y;
  y_dealer :
    match wst st Dealer with
    | WIdle => True
    | WBusy from q m => is_yield m = true -> forall y, res_in st from y -> y < q
    | WRun from q m again ops =>
        (forall r cid y f pr cl eo ef onf,
            In (OTry r (SResult cid y f pr cl) eo ef onf) ops ->
            y = q /\ f = from /\ is_yield m = true /\ again = false) /\
        ((has_again ops \/ again = true) -> is_yield m = true) /\
        (is_yield m = true ->
         ((exists o, In o ops /\ res_op o) \/ has_again ops \/ again = true) ->
         forall y, res_in st from y -> y < q)
    end }.

(* ---------------------------------------------------------------- helpers *)

Lemma res_in_same : forall st st' e y, att st' = att st -> (res_in st' e y <-> res_in st e y).
Proof. intros; unfold res_in; rewrite H; tauto. Qed.

Lemma res_in_snoc : forall st st' r0 m ok e y,
  att st' = upd (att st) r0 (att st r0 ++ [(m, ok)]) ->
  (res_in st' e y <->
   res_in st e y \/ (ok = true /\ exists cid pr cl, m = SResult cid y e pr cl)).
Proof.
  intros st st' r0 m ok e y E. unfold res_in. split.
  - intros [r [cid [pr [cl Hin]]]]. apply (in_acc_snoc st st' r0 m ok) in Hin; auto.
    destruct Hin as [Hin|[_ [Hm Hok]]]; [left; eauto 10|right; split; eauto].
  - intros [[r [cid [pr [cl Hin]]]]|[Hok [cid [pr [cl ->]]]]].
    + exists r, cid, pr, cl. apply (in_acc_snoc st st' r0 m ok); auto.
    + exists r0, cid, pr, cl. apply (in_acc_snoc st st' r0 (SResult cid y e pr cl) ok); auto.
Qed.

Lemma sel_res_some : forall m k y, sel_res m = Some (k, y) ->
  exists cid e pr cl, m = SResult cid y e pr cl /\ k = (cid, 0, 0).
Proof. intros m k y H; destruct m; simpl in H; try discriminate. inv H. eauto 10. Qed.

Lemma not_result_res_in : forall st st' r0 m ok,
  att st' = upd (att st) r0 (att st r0 ++ [(m, ok)]) ->
  (forall cid y e pr cl, m <> SResult cid y e pr cl) ->
  forall e y, res_in st' e y <-> res_in st e y.
Proof.
  intros st st' r0 m ok Ea Hm e y. rewrite (res_in_snoc st st' r0 m ok) by auto.
  split; auto. intros [|[_ [cid [pr [cl E]]]]]; auto. exfalso; eapply Hm; eauto.
Qed.

Lemma y_ord_other : forall st st' r0 m ok,
  yinv st -> att st' = upd (att st) r0 (att st r0 ++ [(m, ok)]) ->
  (forall cid y e pr cl, m <> SResult cid y e pr cl) ->
  forall r, ordered_by sel_res (accepted (att st' r)).
Proof.
  intros st st' r0 m ok I Ea Hm r. rewrite Ea. destruct (N.eq_dec r r0) as [->|Hn];
    [|rewrite upd_other by auto; apply (y_ord st I)].
  rewrite upd_same, accepted_snoc. destruct ok; [|rewrite app_nil_r; apply (y_ord st I)].
  apply ordered_by_app_none; [|apply (y_ord st I)].
  destruct m; simpl; auto. exfalso; eapply Hm; eauto.
Qed.

Lemma plan_dealer_yield : forall cf st from q m o regs' calls' g' ops,
  plan_dealer cf st from q m o = Some (regs', calls', g', ops) ->
  (forall r cid y f pr cl eo ef onf,
      In (OTry r (SResult cid y f pr cl) eo ef onf) ops ->
      y = q /\ f = from /\ is_yield m = true) /\
  (has_again ops -> is_yield m = true).
Proof.
  intros cf st from q m o regs' calls' g' ops H. unfold plan_dealer in H.
  destruct m; try discriminate; dm H; inv H; simpl; split;
  try (intros r cid y f pr cl eo ef onf Hin;
       repeat (destruct Hin as [Hin|Hin]; try discriminate); try contradiction;
       try (inv Hin; auto); fail);
  try (unfold has_again; simpl; intros Hin;
       repeat (destruct Hin as [Hin|Hin]; try discriminate); try contradiction; auto; fail).
  - intros r cid y f pr cl eo ef onf Hin. apply in_map_iff in Hin as [c [E _]]. discriminate.
  - unfold has_again. intros Hin. unfold sops_of in Hin. apply in_flat_map in Hin as [x [Hx Hin]].
    apply in_map_iff in Hx as [c [<- _]]. simpl in Hin. destruct Hin as [Hin|[]]. discriminate.
Qed.

(* ---------------------------------------------------------------- steps that do not send *)

Lemma hbound_after_submit : forall q m y, hbound (after_submit q m) y.
Proof. intros q m y; destruct m; simpl; auto. destruct ack; simpl; auto. Qed.

Lemma hbound_after_done : forall q m a y,
  y <= q /\ (y = q -> is_yield m = true /\ a = false) -> hbound (after_done q m a) y.
Proof.
  intros q m a y [H1 H2]. destruct m; simpl; auto.
  - destruct a; simpl; auto.
    assert (y <> q) by (intros E; destruct (H2 E); discriminate). lia.
  - assert (y <> q) by (intros E; destruct (H2 E); discriminate). lia.
Qed.

Lemma y_bound_nosend : forall cf st l st',
  base st -> yinv st -> sends l = false -> step cf st l = Some st' ->
  forall e y, res_in st e y ->
    y < gseq st' /\ (forall x, In x (map fst (inbox st' e)) -> y < x) /\ hbound (hst st' e) y.
Proof.
  intros cf st l st' B I S H e y Hin.
  destruct (y_bound st I e y Hin) as [Hg [Hi Hh]].
  pose proof (y_dealer st I) as Hd.
  pose proof (b_link st B Dealer) as L. unfold wlink in L.
  assert (Hdone : forall w, l = WorkerDone w ->
             y < gseq st' /\ (forall x, In x (map fst (inbox st' e)) -> y < x) /\
             hbound (hst st' e) y).
  { intros w ->. simpl in H. dm H; inv H; simpl; repeat split; auto.
    destruct (N.eq_dec e from) as [->|Hn]; [rewrite upd_same|rewrite upd_other by auto; auto].
    rewrite E2 in Hh. simpl in Hh. simpl.
    pose proof (b_link st B w) as Lw. unfold wlink in Lw. rewrite E in Lw.
    destruct Lw as [Lt [Lq Lh]]. rewrite E1 in Lh.
    assert (Hw : w = Dealer) by (rewrite <- Lt; apply waits_dealer; auto). rewrite Hw in *.
    rewrite Lh in E2. inversion E2; subst q0 m0. clear E2.
    rewrite E in Hd. destruct Hh as [H1 H2]. split; auto. intros ->. split; auto.
    destruct again; auto. exfalso. destruct Hd as [_ [_ Hc]].
    assert (q < q); [|lia]. apply Hc; auto. }
  destruct l; try (eapply Hdone; eauto; fail); clear Hdone;
    simpl in S; try discriminate; simpl in H; unfold exec in H; dm H; inv H; simpl;
    repeat split; auto; try lia; updsimp; auto;
    repeat match goal with E : hst _ _ = _ |- _ => rewrite E in *; clear E end;
    repeat match goal with E : inbox _ _ = _ |- _ => rewrite E in *; clear E end;
    simpl in *; auto; try lia.
  all: try (intros x Hx; rewrite map_app in Hx; apply in_app_or in Hx as [Hx|[<-|[]]]; auto; fail).
  all: try (apply Hi; auto; fail).
  all: try (intros x Hx; apply Hi; auto; fail).
  all: try (split; [lia|intros ->; lia]; fail).
  all: try apply hbound_after_submit.
  all: try (apply hbound_after_done; auto; fail).
Qed.

Lemma yinv_nosend : forall cf st l st',
  base st -> yinv st -> sends l = false -> step cf st l = Some st' -> yinv st'.
Proof.
  intros cf st l st' B I S H.
  pose proof (att_same _ _ _ _ S H) as Ea.
  constructor.
  - intros r; rewrite Ea; apply (y_ord st I).
  - intros e y Hin. apply (res_in_same st st') in Hin; auto. eapply y_bound_nosend; eauto.
  - destruct (touches Dealer l) eqn:T.
    2:{ rewrite (wst_same _ _ _ _ Dealer T H). pose proof (y_dealer st I) as Eb.
        destruct (wst st Dealer); auto.
        - intros Hy y Hin. apply (res_in_same st st') in Hin; eauto.
        - destruct Eb as [A [Bb C]]. repeat split; auto; try apply A; auto.
          + eapply A; eauto.
          + eapply A; eauto.
          + eapply A; eauto.
          + eapply A; eauto.
          + intros Hy Hp y Hin. apply (res_in_same st st') in Hin; eauto. }
    pose proof (y_dealer st I) as Eb.
    assert (Hq : forall s q m, (hst st s = HHold q m \/ hst st s = HRetry q m) ->
                 forall y, res_in st s y -> y < q).
    { intros s q m Hs y Hin. destruct (y_bound st I s y Hin) as [_ [_ Hh]].
      destruct Hs as [Hs|Hs]; rewrite Hs in Hh; auto. }
    destruct l; simpl in S, T; try discriminate; try (destruct w; try discriminate).
    + (* Submit s Dealer *)
      simpl in H. dm H; inv H; simpl.
      all: intros _ y Hin; unfold res_in in Hin; simpl in Hin; eapply Hq; eauto.
    + (* YieldRetry *)
      simpl in H. dm H; inv H; simpl.
      intros _ y Hin; unfold res_in in Hin; simpl in Hin; eapply Hq; eauto.
    + (* TimerFire *)
      simpl in H. dm H; inv H; simpl. discriminate.
    + (* WorkerRun Dealer *)
      simpl in H. dm H; inv H; simpl.
      destruct (plan_dealer_yield _ _ _ _ _ _ _ _ _ _ E0) as [P1 P2].
      repeat split.
      * eapply P1; eauto.
      * eapply P1; eauto.
      * eapply P1; eauto.
      * intros [Ha|Ha]; [auto|discriminate].
      * intros Hy _ y Hin. unfold res_in in Hin; simpl in Hin. eapply Eb; eauto.
    + (* Tau Dealer: "again" *)
      simpl in H. unfold exec in H. dm H; inv H; simpl.
      destruct Eb as [A [Bb C]].
      assert (Hag : has_again (OSimple SAgain :: l)) by (left; reflexivity).
      repeat split.
      * eapply A; right; eauto.
      * eapply A; right; eauto.
      * eapply A; right; eauto.
      * exfalso. destruct (A _ _ _ _ _ _ _ _ _ (or_intror H)) as [_ [_ [_ Ef]]].
        pose proof (b_dealer st B) as Wd. unfold wf_dealer in Wd. rewrite E in Wd.
        destruct Wd as [_ Ws]. simpl in Ws. rewrite forallb_forall in Ws.
        specialize (Ws _ H). discriminate.
      * intros _. apply Bb; auto.
      * intros Hy _ y Hin. unfold res_in in Hin; simpl in Hin. eapply C; eauto.
    + (* WorkerDone Dealer *)
      simpl in H. dm H; inv H; simpl; rewrite ?updw_same; auto.
Qed.

(* ---------------------------------------------------------------- steps that send *)

Lemma sops_of_onf : forall onf rest, sops_of (map OSimple onf ++ rest) = onf ++ sops_of rest.
Proof.
  intros onf rest; unfold sops_of. rewrite flat_map_app. f_equal.
  induction onf; simpl; auto. rewrite IHonf; reflexivity.
Qed.

Lemma classic_res : forall m,
  (exists cid y e pr cl, m = SResult cid y e pr cl) \/
  (forall cid y e pr cl, m <> SResult cid y e pr cl).
Proof. intros m; destruct m; try (right; intros; discriminate). left; eauto 10. Qed.

Lemma yinv_send_other : forall st st' r0 m ok,
  yinv st -> att st' = upd (att st) r0 (att st r0 ++ [(m, ok)]) ->
  (forall cid y e pr cl, m <> SResult cid y e pr cl) ->
  gseq st' = gseq st -> inbox st' = inbox st ->
  (forall e y, res_in st e y -> hbound (hst st e) y -> hbound (hst st' e) y) ->
  (match wst st Dealer, wst st' Dealer with
   | WRun from q cm ag ops, WRun from' q' cm' ag' ops' =>
       from' = from /\ q' = q /\ cm' = cm /\ ag' = ag /\
       (forall o, In o ops' -> is_simple o = false -> In o ops) /\
       (has_again ops' -> has_again ops)
   | x, x' => x' = x
   end) ->
  yinv st'.
Proof.
  intros st st' r0 m ok I Ea Hm Eg Ei Hh Ew.
  pose proof (not_result_res_in st st' r0 m ok Ea Hm) as Hev.
  constructor.
  - eapply y_ord_other; eauto.
  - intros e y Hin. apply Hev in Hin. destruct (y_bound st I e y Hin) as [A [Bb C]].
    rewrite Eg, Ei. repeat split; auto.
  - pose proof (y_dealer st I) as Eb.
    destruct (wst st Dealer) as [|from q cm|from q cm ag ops];
    destruct (wst st' Dealer) as [|from' q' cm'|from' q' cm' ag' ops']; try discriminate; auto.
    + inv Ew. intros Hy y Hin. apply Hev in Hin. eauto.
    + destruct Ew as [-> [-> [-> [-> [Hs Ha]]]]]. destruct Eb as [A [Bb C]].
      repeat split.
      * eapply A; apply Hs; eauto.
      * eapply A; apply Hs; eauto.
      * eapply A; apply Hs; eauto.
      * eapply A; apply Hs; eauto.
      * intros [Hx|Hx]; apply Bb; auto.
      * intros Hy Hp y Hin. apply Hev in Hin. eapply C; eauto.
        destruct Hp as [[o [Ho Hr]]|[Hp|Hp]]; auto.
        left; exists o; split; auto. apply Hs; auto.
        destruct Hr as [? [? [? [? [? [? [? [? [? ->]]]]]]]]]. reflexivity.
Qed.

Lemma yinv_send : forall cf st l st',
  base st -> recinv st -> yinv st -> sends l = true -> step cf st l = Some st' -> yinv st'.
Proof.
  intros cf st l st' B R I S H.
  destruct (send_step _ _ _ _ S H) as [r0 [m [ok [who [Ea [Eg [Ei [Es [Er [Ec Hw]]]]]]]]]].
  destruct who as [w|].
  - destruct Hw as [Hl [Eh [from [q [cm [again [op [rest [Ew [Ehd [Eo [Ecl [rest' [Ew' Hr]]]]]]]]]]]]]].
    destruct w.
    + (* the broker sends *)
      pose proof (b_broker st B) as Wb. unfold wf_broker in Wb. rewrite Ew in Wb.
      simpl in Wb. apply andb_true_iff in Wb as [Wb _].
      destruct (bop_ok_inv _ Wb) as [r1 [m1 [-> Km]]]. simpl in Ehd. inv Ehd.
      eapply yinv_send_other; eauto.
      * intros; intros ->; discriminate.
      * rewrite Eh; auto.
      * rewrite (Eo Dealer) by discriminate. destruct (wst st Dealer); auto.
        repeat split; auto.
    + (* the dealer sends *)
      pose proof (b_dealer st B) as Wd. unfold wf_dealer in Wd. rewrite Ew in Wd.
      destruct Wd as [Wd Ws]. simpl in Wd. apply andb_true_iff in Wd as [Wop _].
      pose proof (y_dealer st I) as Eb. rewrite Ew in Eb. destruct Eb as [A [Bb C]].
      destruct (classic_res m) as [[cid [y [e [pr [cl ->]]]]]|Hm].
      * (* a RESULT: the only operation of a YIELD closure *)
        destruct op as [[r1 m1|r1 m1|]|r1 m1 eo ef onf]; simpl in Ehd; inv Ehd;
          simpl in Wop; try discriminate.
        apply try_sole_try in Ws. subst rest.
        destruct (A _ _ _ _ _ _ _ _ _ (or_introl eq_refl)) as [-> [-> [Hy ->]]].
        pose proof (b_link st B Dealer) as L. unfold wlink in L. rewrite Ew in L.
        destruct L as [Lt [Lq Lw]]. rewrite (yield_waits _ Hy) in Lw.
        assert (Hstrict : forall y1, res_in st from y1 -> y1 < q).
        { apply C; auto. left. eexists; split; [left; reflexivity|]. repeat eexists. }
        destruct Hr as [[-> ->]|[-> ->]].
        -- (* accepted *)
           constructor.
           ++ intros r. rewrite Ea. destruct (N.eq_dec r r0) as [->|Hn];
                [|rewrite upd_other by auto; apply (y_ord st I)].
              rewrite upd_same, accepted_snoc. apply ordered_by_snoc. split; [apply (y_ord st I)|].
              intros k y0 Hk m1 y1 Hin1 Hk1. simpl in Hk. inv Hk.
              apply sel_res_some in Hk1 as [cid1 [e1 [pr1 [cl1 [-> Ek]]]]]. inv Ek.
              apply Hstrict. exists r0, cid1, pr1, cl1.
              assert (Hrec : has_rec (calls st) cid1).
              { apply (r_ops st R r0 (SResult cid1 y0 from pr cl)); auto.
                unfold wops; rewrite Ew. left; reflexivity. }
              destruct Hrec as [c [Hc Ecid]].
              assert (e1 = from).
              { rewrite <- (r_callee st R r0 cid1 y1 e1 pr1 cl1 Hin1 c Hc Ecid).
                apply (r_resop st R r0 cid1 y0 from pr cl eo ef onf); auto.
                unfold wops; rewrite Ew. left; reflexivity. }
              subst; auto.
           ++ intros e y Hin. rewrite (res_in_snoc st st' r0 _ true) in Hin by eauto.
              rewrite Eg, Ei, Eh. destruct Hin as [Hin|[_ [cid1 [pr1 [cl1 E]]]]];
                [apply (y_bound st I _ _ Hin)|]. inv E.
              split; auto. split.
              ** intros x Hx. pose proof (b_pipe st B e) as Hp. unfold pipeline in Hp.
                 rewrite Lw in Hp. simpl in Hp. eapply sorted_head_lt; eauto.
              ** rewrite Lw. simpl. split; [lia|auto].
           ++ rewrite Ew'. repeat split; try (intros; contradiction).
              ** intros _; auto.
              ** intros _ [[o [[] _]]|[[]|Hx]]. discriminate.
        -- (* dropped: the RESULT is not in the log, what follows is simple *)
           rewrite app_nil_r in *.
           assert (Hev : forall e y, res_in st' e y <-> res_in st e y).
           { intros. rewrite (res_in_snoc st st' r0 _ false) by eauto. split; auto.
             intros [|[Hf _]]; auto. discriminate. }
           constructor.
           ++ intros r. rewrite Ea. destruct (N.eq_dec r r0) as [->|Hn];
                [|rewrite upd_other by auto; apply (y_ord st I)].
              rewrite upd_same, accepted_snoc, app_nil_r. apply (y_ord st I).
           ++ intros e y Hin. apply Hev in Hin. rewrite Eg, Ei, Eh. apply (y_bound st I _ _ Hin).
           ++ rewrite Ew'. repeat split; auto.
              all: try (intros; exfalso;
                        match goal with Hx : In (OTry _ _ _ _ _) (map OSimple _) |- _ =>
                          apply in_map_iff in Hx as [? [? _]]; discriminate end).
              intros _ _ y Hin. apply Hev in Hin. auto.
      * eapply yinv_send_other; eauto.
        -- rewrite Eh; auto.
        -- rewrite Ew, Ew'. repeat split; auto.
           ++ intros o Hin Ho. destruct op as [[| |]|r1 m1 eo ef onf]; try (subst; right; auto; fail).
              destruct Hr as [[_ ->]|[_ ->]]; [right; auto|].
              apply in_app_or in Hin as [Hin|Hin]; [|right; auto].
              apply in_map_iff in Hin as [s [<- _]]. discriminate.
           ++ unfold has_again. destruct op as [[| |]|r1 m1 eo ef onf]; subst; simpl;
                try (intros; right; auto; fail); auto.
              destruct Hr as [[_ ->]|[_ ->]].
              ** intros Hx. apply in_or_app; auto.
              ** rewrite sops_of_onf. auto.
  - destruct Hw as [Hl [Ew [Ecs [tl [Eh Eh']]]]].
    pose proof (b_hpost st B r0 _ Eh) as Kh. simpl in Kh. apply andb_true_iff in Kh as [Kh _].
    eapply yinv_send_other; eauto.
    + intros; intros ->; discriminate.
    + intros e y Hin Hb. rewrite Eh'. destruct (N.eq_dec e r0) as [->|Hn].
      * rewrite upd_same. destruct tl; simpl; auto.
      * rewrite upd_other; auto.
    + rewrite Ew. destruct (wst st Dealer); auto. repeat split; auto.
Qed.

Theorem yinv_step : forall cf st l st',
  base st -> recinv st -> yinv st -> step cf st l = Some st' -> yinv st'.
Proof.
  intros cf st l st' B R I H. destruct (sends l) eqn:S.
  - eapply yinv_send; eauto.
  - eapply yinv_nosend; eauto.
Qed.

Lemma yinv_init : yinv init.
Proof.
  constructor; simpl; auto.
  - intros r; apply ordered_by_nil.
  - intros e y [r [cid [pr [cl []]]]].
Qed.
