(** * History-level corollaries for C13 (call timeouts, INTERRUPT) over the
    whole router model

    Statements only; proofs in Router/RealmTraceC13.v (dealer functions),
    RealmTraceC13Step.v (one [Realm.step] by kind of operation),
    RealmTraceC13Nd.v and RealmTraceC13Inv.v (two invariants of histories),
    RealmTraceC13Thm.v, RealmTraceC13Fire.v (the theorems), RealmTraceC13Ex.v
    (concrete histories by [vm_compute]).  Vocabulary of Props/HistoriesC02.v:
    [trace cfg ops] is the history [run (init_realm cfg) ops] as one list of
    events, each operation [EIn o] followed by the messages [EOut (receiver,
    message)] sent while handling it; side hypotheses [Forall op_ok ops] and
    the no-wrap bound [k0 cfg + length ops <= 2^53].

    THE CLOCK.  [clock tr] is the sum of the [OTick] operations of [tr]; the
    model's clock after a history is [clock] of its trace ([realm_clock_is_ticks]).
    "The output of a tick": [pre = pre1 ++ EIn (OTick ms) :: map EOut outs].

    THE GATE.  An authorizer may refuse or rewrite any message (a refused
    CANCEL is in the trace but never reaches the dealer).  The [_partial]
    statements carry [along gate_transparent (init_realm cfg) ops]: at every
    step the gate admits the message unchanged; it holds without authorizer
    ([gate_transparent_no_authz]) and for an authorizer that allows everything
    as it is ([gate_transparent_static]).  The statements without suffix are
    the full ones for [c_authz cfg = None].

    (a) [realm_timeout_error_only_when_due].  FOUND FALSE as literally stated
    ("an ERROR(CALL) with URI wamp.error.timeout is sent only in the output of a
    tick"): the dealer relays the callee's ERROR(INVOCATION) verbatim, so a
    callee that answers "wamp.error.timeout" — as a callee with the forwarded
    timeout is meant to — makes the caller receive exactly the router's timeout
    message without any time passing ([realm_timeout_error_only_when_due_refuted],
    five operations, no tick, call without timeout option).  This is WAMP as
    designed, not a router defect.  The true statement has two cases:
    [relayed] (the step is that callee's ERROR(INVOCATION) with that URI,
    details, arguments), or [timed_out]: details [], arguments
    ["call timeout"], in the output of a tick; [x] opened the call by
    [CALL q] with options [opts], routed as INVOCATION [i] to [y]; the
    timeout [opt_int64 opts "timeout"] is positive; a [CALL q] of [x] — the
    opening one or a further chunk: each chunk restarts the timeout of the
    OPENING call, as in dealer.go — at clock T0 gives the deadline
    [dl = T0 + timeout] ([armed]; when it is the opening CALL its INVOCATION
    carries no [timeout], i.e. the timeout was not forwarded: the callee THIS
    call went to did not itself REGISTER with forward_timeout, or does not
    announce call_timeout — [timeout_forwarded_iff] of Props/C13.v and
    [realm_timeout_forwarded_only_if_callee_asked] below are the exact
    condition, per callee since the repair fe3aa7b); the clock is below [dl] before the
    tick and reaches it with the tick; and since the opening CALL no final
    reply went to ([x],[q]) — up to the ERROR itself —, [x] sent no kill-mode
    CANCEL [q] and [y] gave no final answer to [i].

    (b) [realm_timeout_fires]: the converse.  [x] opened the call (the reply
    monitor of ([x],[q]) is shut before the CALL: the request id is not in
    use) with positive timeout, INVOCATION without [timeout]; afterwards no
    further CALL [q] of [x] and no kill-mode CANCEL; the call is still
    recorded ([rrec]) when a tick reaches T0 + timeout.  Then the deadline was
    not reached before that tick, the tick's output contains the timeout ERROR
    for ([x],[q]) exactly once, the INTERRUPT [reason = wamp.error.timeout,
    mode = killnowait] for ([y],[i]) iff [y] announced call_canceling, and the
    call is erased.

    (c) [realm_interrupt_only_for_pending].  FOUND FALSE as literally stated
    ("an INTERRUPT [i] is sent to [y] only for a pending INVOCATION [i]"): a
    progressive YIELD for an unknown invocation id is answered by an INTERRUPT
    with that id and options [mode = killnowait] (dealer.go syncYield: it stops
    a callee that still produces results for a call that is gone) — also when
    no INVOCATION was ever sent ([realm_interrupt_only_for_pending_refuted]).
    The model's triggers are exactly three: [stray_yield] (that one, no
    [reason]); and [interrupted_pending] with [reason]/[mode]: CANCEL of the
    caller in mode kill, killnowait or none (= killnowait), reason
    wamp.error.canceled; or the call's timeout, reason wamp.error.timeout,
    mode killnowait.  In both the callee announced call_canceling, the
    INVOCATION [i] was sent to [y] right after its CALL, and up to the step
    that sends the INTERRUPT [y] gave no final answer, the caller got no final
    reply and sent no kill-mode CANCEL, and no INTERRUPT with a reason was sent
    for ([y],[i]) — a kill-mode CANCEL marks the record, later CANCELs and the
    timer then send nothing ([CancelEx]); INTERRUPTs of the first kind may
    follow any number of times.  [realm_interrupt_at_most_once]: two INTERRUPTs
    with a reason for the same ([y],[i]) are separated by a new CALL routed to
    [y] under that invocation id. *)
From Nexus Require Import Router.Realm Router.DealerLib Router.DealerProofs Router.DealerReply Router.DealerTimers
     Router.DealerTrace.
From Nexus Require Import Router.RealmWf Router.RealmStep.
From Nexus Require Import Router.RealmTraceLib Router.RealmTrace Router.RealmTraceC05 Router.RealmTraceInv
     Router.RealmTraceC03 Router.RealmTraceEx.
From Nexus Require Import Router.RealmTraceC13 Router.RealmTraceC13Step Router.RealmTraceC13Nd Router.RealmTraceC13Inv
     Router.RealmTraceC13Thm Router.RealmTraceC13Fire Router.RealmTraceC13Once Router.RealmTraceC13Ex.
From Nexus Require Import Router.RealmTraceC13Fwd Router.RealmTraceC13FwdHist Router.RealmTraceC13FwdEx.

(** ** The gate hypothesis, discharged *)
Theorem gate_transparent_no_authz : forall cfg ops, c_authz cfg = None -> along gate_transparent (init_realm cfg) ops.
Proof. exact RealmTraceC13Step.gate_transparent_no_authz. Qed.
Print Assumptions gate_transparent_no_authz.

Theorem gate_transparent_static : forall cfg ops, authz_allows_all cfg -> along gate_transparent (init_realm cfg) ops.
Proof. exact RealmTraceC13Step.gate_transparent_static. Qed.
Print Assumptions gate_transparent_static.

Theorem realm_clock_is_ticks : forall cfg ops,
    c_authz cfg = None -> Forall op_ok ops -> k0 cfg + N.of_nat (List.length ops) <= max_idN ->
    r_now (fst (run (init_realm cfg) ops)) = clock (trace cfg ops).
Proof. exact clock_is_ticks_proof. Qed.
Print Assumptions realm_clock_is_ticks.

(** ** (a) never early, never without timeout, never after completion *)
Theorem realm_timeout_error_only_when_due_partial : forall cfg ops x q det args kw pre post,
    Forall op_ok ops -> k0 cfg + N.of_nat (List.length ops) <= max_idN ->
    along gate_transparent (init_realm cfg) ops ->
    trace cfg ops = pre ++ EOut (x, RError c_CALL q det e_timeout args kw) :: post ->
    relayed pre det args kw \/ timed_out pre x q det args kw.
Proof. exact timeout_only_when_due_proof. Qed.
Print Assumptions realm_timeout_error_only_when_due_partial.

Theorem realm_timeout_error_only_when_due : forall cfg ops x q det args kw pre post,
    c_authz cfg = None ->
    Forall op_ok ops -> k0 cfg + N.of_nat (List.length ops) <= max_idN ->
    trace cfg ops = pre ++ EOut (x, RError c_CALL q det e_timeout args kw) :: post ->
    relayed pre det args kw \/ timed_out pre x q det args kw.
Proof. exact timeout_only_when_due_noauthz_proof. Qed.
Print Assumptions realm_timeout_error_only_when_due.

(** the two cases, spelled out *)
Theorem relayed_meaning : forall pre det a kw,
    relayed pre det a kw <->
    exists y i orc pre1 outs,
      pre = pre1 ++ EIn (OMsg y (CError c_INVOCATION i det e_timeout a kw) orc) :: map EOut outs.
Proof. exact relayed_meaning_proof. Qed.
Print Assumptions relayed_meaning.

Theorem timed_out_meaning : forall pre x q det a kw,
    timed_out pre x q det a kw <->
    det = [] /\ a = [vstr "call timeout"] /\ kw = [] /\
    exists pre1 ms outs, pre = pre1 ++ EIn (OTick ms) :: map EOut outs /\
    exists pre0 opts proc ca ckw orc y i rid idet rest dl,
      pre1 = pre0 ++ EIn (OMsg x (CCall q opts proc ca ckw) orc) :: EOut (y, RInvocation i rid idet ca ckw) :: rest /\
      (forall e, In e (rest ++ EIn (OTick ms) :: map EOut outs) -> ~ is_reply_ev (x, q) true e) /\
      (forall e, In e rest -> ~ kill_cancel_ev x q e) /\
      (forall e, In e rest -> ~ final_answer_ev y i e) /\
      ((0 < opt_int64 opts "timeout")%Z /\
       exists mid0 opts' proc' a' kw' orc' restA,
         EIn (OMsg x (CCall q opts proc ca ckw) orc) :: EOut (y, RInvocation i rid idet ca ckw) :: rest =
           mid0 ++ EIn (OMsg x (CCall q opts' proc' a' kw') orc') :: restA /\
         dl = clock (pre0 ++ mid0) + Z.to_N (opt_int64 opts "timeout") /\
         (mid0 = [] -> dget idet "timeout" = None)) /\
      clock pre1 < dl <= clock pre1 + ms.
Proof. exact timed_out_meaning_proof. Qed.
Print Assumptions timed_out_meaning.

(** the literal statement is false: the callee's own "wamp.error.timeout" is relayed *)
Theorem realm_timeout_error_only_when_due_refuted :
    exists cfg ops x q pre post,
      Forall op_ok ops /\ k0 cfg + N.of_nat (List.length ops) <= max_idN /\ c_authz cfg = None /\
      trace cfg ops = pre ++ EOut (x, RError c_CALL q [] e_timeout [vstr "call timeout"] []) :: post /\
      forall e, In e pre -> forall ms, e <> EIn (OTick ms).
Proof. exact RelayEx.timeout_only_when_due_refuted_proof. Qed.
Print Assumptions realm_timeout_error_only_when_due_refuted.

(** ** (b) a due timeout fires *)
Theorem realm_timeout_fires_partial : forall cfg ops1 ms ops2 pre0 x q opts proc a kw orc y i rid det rest,
    Forall op_ok (ops1 ++ OTick ms :: ops2) ->
    k0 cfg + N.of_nat (List.length (ops1 ++ OTick ms :: ops2)) <= max_idN ->
    along gate_transparent (init_realm cfg) (ops1 ++ OTick ms :: ops2) ->
    let r1 := fst (run (init_realm cfg) ops1) in
    trace cfg ops1 = pre0 ++ EIn (OMsg x (CCall q opts proc a kw) orc) :: EOut (y, RInvocation i rid det a kw) :: rest ->
    mon_run (x, q) false pre0 = Some false ->
    (0 < opt_int64 opts "timeout")%Z -> dget det "timeout" = None ->
    (forall e, In e rest -> ~ is_call_ev (x, q) e) ->
    (forall e, In e rest -> ~ kill_cancel_ev x q e) ->
    rrec r1 (x, q) ->
    clock pre0 + Z.to_N (opt_int64 opts "timeout") <= clock (trace cfg ops1) + ms ->
    let out := snd (step r1 (OTick ms)) in
    clock (trace cfg ops1) < clock pre0 + Z.to_N (opt_int64 opts "timeout") /\
    (exists o1 o2, out = o1 ++ timeout_msg (x, q) :: o2 /\
                   ~ In (timeout_msg (x, q)) o1 /\ ~ In (timeout_msg (x, q)) o2) /\
    (In (y, RInterrupt i [("reason", vuri e_timeout); ("mode", vstr "killnowait")]) out <->
     exists ys, find_session (r_clients r1) y = Some ys /\ sess_feature ys "callee" f_call_canceling = true) /\
    ~ rrec (fst (step r1 (OTick ms))) (x, q).
Proof. exact timeout_fires_proof. Qed.
Print Assumptions realm_timeout_fires_partial.

Theorem realm_timeout_fires : forall cfg ops1 ms ops2 pre0 x q opts proc a kw orc y i rid det rest,
    c_authz cfg = None ->
    Forall op_ok (ops1 ++ OTick ms :: ops2) ->
    k0 cfg + N.of_nat (List.length (ops1 ++ OTick ms :: ops2)) <= max_idN ->
    let r1 := fst (run (init_realm cfg) ops1) in
    trace cfg ops1 = pre0 ++ EIn (OMsg x (CCall q opts proc a kw) orc) :: EOut (y, RInvocation i rid det a kw) :: rest ->
    mon_run (x, q) false pre0 = Some false ->
    (0 < opt_int64 opts "timeout")%Z -> dget det "timeout" = None ->
    (forall e, In e rest -> ~ is_call_ev (x, q) e) ->
    (forall e, In e rest -> ~ kill_cancel_ev x q e) ->
    rrec r1 (x, q) ->
    clock pre0 + Z.to_N (opt_int64 opts "timeout") <= clock (trace cfg ops1) + ms ->
    let out := snd (step r1 (OTick ms)) in
    clock (trace cfg ops1) < clock pre0 + Z.to_N (opt_int64 opts "timeout") /\
    (exists o1 o2, out = o1 ++ timeout_msg (x, q) :: o2 /\
                   ~ In (timeout_msg (x, q)) o1 /\ ~ In (timeout_msg (x, q)) o2) /\
    (In (y, RInterrupt i [("reason", vuri e_timeout); ("mode", vstr "killnowait")]) out <->
     exists ys, find_session (r_clients r1) y = Some ys /\ sess_feature ys "callee" f_call_canceling = true) /\
    ~ rrec (fst (step r1 (OTick ms))) (x, q).
Proof. exact timeout_fires_noauthz_proof. Qed.
Print Assumptions realm_timeout_fires.

(** a positive timeout that is not forwarded arms the router's timer: the CALL
    opens the call ([~ rrec]: no pending call with that id), is routed, its
    INVOCATION carries no [timeout]: then a timer for ([x],[q]) is armed with
    deadline clock + timeout *)
Theorem realm_timeout_kept_arms_timer_partial : forall cfg ops1 x q opts proc a kw orc ops2 y i rid det,
    Forall op_ok (ops1 ++ OMsg x (CCall q opts proc a kw) orc :: ops2) ->
    k0 cfg + N.of_nat (List.length (ops1 ++ OMsg x (CCall q opts proc a kw) orc :: ops2)) <= max_idN ->
    along gate_transparent (init_realm cfg) (ops1 ++ OMsg x (CCall q opts proc a kw) orc :: ops2) ->
    let r1 := fst (run (init_realm cfg) ops1) in
    snd (step r1 (OMsg x (CCall q opts proc a kw) orc)) = [(y, RInvocation i rid det a kw)] ->
    ~ rrec r1 (x, q) ->
    (0 < opt_int64 opts "timeout")%Z -> dget det "timeout" = None ->
    exists t, nget (d_timers (r_dealer r1)) t = None /\
              nget (d_timers (r_dealer (fst (step r1 (OMsg x (CCall q opts proc a kw) orc))))) t =
              Some (clock (trace cfg ops1) + Z.to_N (opt_int64 opts "timeout"), (x, q)).
Proof. exact timeout_kept_arms_timer_proof. Qed.
Print Assumptions realm_timeout_kept_arms_timer_partial.

Theorem realm_timeout_kept_arms_timer : forall cfg ops1 x q opts proc a kw orc ops2 y i rid det,
    c_authz cfg = None ->
    Forall op_ok (ops1 ++ OMsg x (CCall q opts proc a kw) orc :: ops2) ->
    k0 cfg + N.of_nat (List.length (ops1 ++ OMsg x (CCall q opts proc a kw) orc :: ops2)) <= max_idN ->
    let r1 := fst (run (init_realm cfg) ops1) in
    snd (step r1 (OMsg x (CCall q opts proc a kw) orc)) = [(y, RInvocation i rid det a kw)] ->
    ~ rrec r1 (x, q) ->
    (0 < opt_int64 opts "timeout")%Z -> dget det "timeout" = None ->
    exists t, nget (d_timers (r_dealer r1)) t = None /\
              nget (d_timers (r_dealer (fst (step r1 (OMsg x (CCall q opts proc a kw) orc))))) t =
              Some (clock (trace cfg ops1) + Z.to_N (opt_int64 opts "timeout"), (x, q)).
Proof. exact timeout_kept_arms_timer_noauthz_proof. Qed.
Print Assumptions realm_timeout_kept_arms_timer.

(** ** forward_timeout is per callee (repair fe3aa7b): statements in op-index style,
    [r] = the state before the step, any authorizer (the message as the gate left it);
    [_noauthz] corollaries speak of the operation literally *)

(** an INVOCATION carries [timeout] exactly when it is a first chunk, the CALL's
    timeout is positive, the callee it goes to announced call_timeout and THAT
    callee is in the registration's [reg_fwd_timeout] *)
Theorem realm_timeout_forwarded_iff : forall cfg pre o post y inv rid det a k,
    let ops := pre ++ o :: post in
    let r := fst (run (init_realm cfg) pre) in
    Forall op_ok ops -> k0 cfg + N.of_nat (List.length ops) <= max_idN ->
    In (y, RInvocation inv rid det a k) (snd (step r o)) ->
    y <> meta_id /\
    exists x m orc xs q opts proc,
      o = OMsg x m orc /\ find_session (r_clients r) x = Some xs /\
      gate r xs m = inl (CCall q opts proc a k) /\
      ((* a further chunk: progress only, no timeout *)
       (cget (d_bycall (r_dealer r)) (x, q) <> None /\
        det = [("progress", VBool (opt_bool opts "progress"))] /\ dget det "timeout" = None) \/
       (* a first chunk *)
       (cget (d_bycall (r_dealer r)) (x, q) = None /\
        exists rg ys,
          nget (d_regs (r_dealer r)) rid = Some rg /\ In y (reg_callees rg) /\
          find_session (r_clients r) y = Some ys /\
          dget det "timeout" =
          (if (0 <? opt_int64 opts "timeout")%Z && sess_feature ys "callee" "call_timeout" && reg_forwards rg y
           then Some (VInt KInt64 (opt_int64 opts "timeout")) else None))).
Proof. exact timeout_forwarded_iff_hist_proof. Qed.
Print Assumptions realm_timeout_forwarded_iff.

Theorem realm_timeout_forwarded_iff_noauthz : forall cfg pre o post y inv rid det a k,
    let ops := pre ++ o :: post in
    let r := fst (run (init_realm cfg) pre) in
    c_authz cfg = None ->
    Forall op_ok ops -> k0 cfg + N.of_nat (List.length ops) <= max_idN ->
    In (y, RInvocation inv rid det a k) (snd (step r o)) ->
    y <> meta_id /\
    exists x orc xs q opts proc,
      o = OMsg x (CCall q opts proc a k) orc /\ find_session (r_clients r) x = Some xs /\
      ((cget (d_bycall (r_dealer r)) (x, q) <> None /\
        det = [("progress", VBool (opt_bool opts "progress"))] /\ dget det "timeout" = None) \/
       (cget (d_bycall (r_dealer r)) (x, q) = None /\
        exists rg ys,
          nget (d_regs (r_dealer r)) rid = Some rg /\ In y (reg_callees rg) /\
          find_session (r_clients r) y = Some ys /\
          dget det "timeout" =
          (if (0 <? opt_int64 opts "timeout")%Z && sess_feature ys "callee" "call_timeout" && reg_forwards rg y
           then Some (VInt KInt64 (opt_int64 opts "timeout")) else None))).
Proof. exact timeout_forwarded_iff_hist_noauthz_proof. Qed.
Print Assumptions realm_timeout_forwarded_iff_noauthz.

(** a client is in [reg_fwd_timeout] only through its OWN REGISTER with
    forward_timeout = true answered REGISTERED for that registration, and has
    been in the list, a callee and attached ever since *)
Theorem realm_forward_flag_origin : forall cfg ops rid rg sid,
    Forall op_ok ops -> k0 cfg + N.of_nat (List.length ops) <= max_idN ->
    nget (d_regs (r_dealer (fst (run (init_realm cfg) ops)))) rid = Some rg ->
    In sid (reg_fwd_timeout rg) -> sid <> meta_id ->
    exists pre o post m orc xs req opts proc,
      ops = pre ++ o :: post /\
      let r1 := fst (run (init_realm cfg) pre) in
      (* the session's own REGISTER with forward_timeout *)
      o = OMsg sid m orc /\ find_session (r_clients r1) sid = Some xs /\
      gate r1 xs m = inl (CRegister req opts proc) /\
      In (sid, RRegistered req rid) (snd (step r1 o)) /\
      opt_bool opts "forward_timeout" = true /\
      (* in every state since: attached, in the list, a callee of [rid] *)
      (forall mid rest, post = mid ++ rest ->
         let r2 := fst (run (init_realm cfg) (pre ++ o :: mid)) in
         client r2 sid /\
         exists rg2, nget (d_regs (r_dealer r2)) rid = Some rg2 /\ In sid (reg_fwd_timeout rg2) /\ In sid (reg_callees rg2)) /\
      (* no UNREGISTER of [rid] by it was answered UNREGISTERED since *)
      (forall mid u rest m2 orc2 s2 q q', post = mid ++ u :: rest ->
         let r2 := fst (run (init_realm cfg) (pre ++ o :: mid)) in
         u = OMsg sid m2 orc2 -> find_session (r_clients r2) sid = Some s2 ->
         gate r2 s2 m2 = inl (CUnregister q rid) -> ~ In (sid, RUnregistered q') (snd (step r2 u))).
Proof. exact forward_flag_origin_proof. Qed.
Print Assumptions realm_forward_flag_origin.

(** a session that is not attached is in no list, and joining gives none *)
Theorem realm_rejoin_without_forward_flag : forall cfg ops sid l h rid,
    Forall op_ok ops -> k0 cfg + N.of_nat (List.length ops) <= max_idN ->
    sid <> meta_id -> ~ client (fst (run (init_realm cfg) ops)) sid ->
    (forall rg, nget (d_regs (r_dealer (fst (run (init_realm cfg) ops)))) rid = Some rg -> ~ In sid (reg_fwd_timeout rg)) /\
    (forall rg, nget (d_regs (r_dealer (fst (step (fst (run (init_realm cfg) ops)) (OJoin sid l h))))) rid = Some rg ->
                ~ In sid (reg_fwd_timeout rg)).
Proof. exact rejoin_without_forward_flag_proof. Qed.
Print Assumptions realm_rejoin_without_forward_flag.

Theorem fwd_witness_hist_meaning : forall cfg ops rid sid,
    fwd_witness_hist cfg ops rid sid <->
    exists pre o post m orc xs req opts proc,
      ops = pre ++ o :: post /\
      o = OMsg sid m orc /\ find_session (r_clients (fst (run (init_realm cfg) pre))) sid = Some xs /\
      gate (fst (run (init_realm cfg) pre)) xs m = inl (CRegister req opts proc) /\
      In (sid, RRegistered req rid) (snd (step (fst (run (init_realm cfg) pre)) o)) /\
      opt_bool opts "forward_timeout" = true /\
      forall mid rest, post = mid ++ rest ->
        exists rg, nget (d_regs (r_dealer (fst (run (init_realm cfg) (pre ++ o :: mid))))) rid = Some rg /\
                   In sid (reg_fwd_timeout rg).
Proof. exact fwd_witness_hist_meaning. Qed.
Print Assumptions fwd_witness_hist_meaning.

(** an INVOCATION carries [timeout] only if the callee it goes to announced
    call_timeout and itself REGISTERed with forward_timeout = true for that
    registration (and has been a callee of it ever since); otherwise a positive
    timeout arms the router's timer ([realm_timeout_kept_arms_timer]).  The
    [_partial] form holds for ANY authorizer and speaks of the CALL as the gate
    left it. *)
Theorem realm_timeout_forwarded_only_if_callee_asked_partial : forall cfg pre o post y inv rid det a k,
    let ops := pre ++ o :: post in
    let r := fst (run (init_realm cfg) pre) in
    Forall op_ok ops -> k0 cfg + N.of_nat (List.length ops) <= max_idN ->
    In (y, RInvocation inv rid det a k) (snd (step r o)) ->
    dget det "timeout" <> None ->
    exists x m orc xs q opts proc rg ys,
      o = OMsg x m orc /\ find_session (r_clients r) x = Some xs /\
      gate r xs m = inl (CCall q opts proc a k) /\
      cget (d_bycall (r_dealer r)) (x, q) = None /\
      y <> meta_id /\ find_session (r_clients r) y = Some ys /\
      nget (d_regs (r_dealer r)) rid = Some rg /\ In y (reg_callees rg) /\
      sess_feature ys "callee" "call_timeout" = true /\
      In y (reg_fwd_timeout rg) /\ fwd_witness_hist cfg pre rid y /\
      (0 < opt_int64 opts "timeout")%Z /\
      dget det "timeout" = Some (VInt KInt64 (opt_int64 opts "timeout")).
Proof. exact timeout_forwarded_only_if_callee_asked_proof. Qed.
Print Assumptions realm_timeout_forwarded_only_if_callee_asked_partial.

Theorem realm_timeout_forwarded_only_if_callee_asked : forall cfg pre o post y inv rid det a k,
    let ops := pre ++ o :: post in
    let r := fst (run (init_realm cfg) pre) in
    c_authz cfg = None ->
    Forall op_ok ops -> k0 cfg + N.of_nat (List.length ops) <= max_idN ->
    In (y, RInvocation inv rid det a k) (snd (step r o)) ->
    dget det "timeout" <> None ->
    exists x orc xs q opts proc rg ys,
      o = OMsg x (CCall q opts proc a k) orc /\ find_session (r_clients r) x = Some xs /\
      cget (d_bycall (r_dealer r)) (x, q) = None /\
      y <> meta_id /\ find_session (r_clients r) y = Some ys /\
      nget (d_regs (r_dealer r)) rid = Some rg /\ In y (reg_callees rg) /\
      sess_feature ys "callee" "call_timeout" = true /\
      In y (reg_fwd_timeout rg) /\ fwd_witness_hist cfg pre rid y /\
      (0 < opt_int64 opts "timeout")%Z /\
      dget det "timeout" = Some (VInt KInt64 (opt_int64 opts "timeout")).
Proof. exact timeout_forwarded_only_if_callee_asked_noauthz_proof. Qed.
Print Assumptions realm_timeout_forwarded_only_if_callee_asked.

(** ** (c) the triggers of an INTERRUPT *)
Theorem realm_interrupt_only_for_pending_partial : forall cfg ops y i iopts pre post,
    Forall op_ok ops -> k0 cfg + N.of_nat (List.length ops) <= max_idN ->
    along gate_transparent (init_realm cfg) ops ->
    trace cfg ops = pre ++ EOut (y, RInterrupt i iopts) :: post ->
    stray_yield pre y i iopts \/ interrupted_pending cfg ops pre y i iopts.
Proof. exact interrupt_only_for_pending_proof. Qed.
Print Assumptions realm_interrupt_only_for_pending_partial.

Theorem realm_interrupt_only_for_pending : forall cfg ops y i iopts pre post,
    c_authz cfg = None ->
    Forall op_ok ops -> k0 cfg + N.of_nat (List.length ops) <= max_idN ->
    trace cfg ops = pre ++ EOut (y, RInterrupt i iopts) :: post ->
    stray_yield pre y i iopts \/ interrupted_pending cfg ops pre y i iopts.
Proof. exact interrupt_only_for_pending_noauthz_proof. Qed.
Print Assumptions realm_interrupt_only_for_pending.

Theorem stray_yield_meaning : forall pre y i iopts,
    stray_yield pre y i iopts <->
    iopts = [("mode", vstr "killnowait")] /\
    exists yopts a kw orc,
      (exists pre1 outs, pre = pre1 ++ EIn (OMsg y (CYield i yopts a kw) orc) :: map EOut outs) /\
      opt_bool yopts "progress" = true.
Proof. exact stray_yield_meaning_proof. Qed.
Print Assumptions stray_yield_meaning.

Theorem interrupted_pending_meaning : forall cfg ops pre y i iopts,
    interrupted_pending cfg ops pre y i iopts <->
    exists reason mode, iopts = [("reason", vuri reason); ("mode", vstr mode)] /\
    exists ops1 o ops2 outs outs2, ops = ops1 ++ o :: ops2 /\ pre = trace cfg ops1 ++ EIn o :: map EOut outs /\
    snd (step (fst (run (init_realm cfg) ops1)) o) = outs ++ (y, RInterrupt i iopts) :: outs2 /\
    (exists ys, find_session (r_clients (fst (run (init_realm cfg) ops1))) y = Some ys /\
                sess_feature ys "callee" f_call_canceling = true) /\
    exists pre0 x q opts proc a kw orc rid det rest,
      trace cfg ops1 = pre0 ++ EIn (OMsg x (CCall q opts proc a kw) orc) :: EOut (y, RInvocation i rid det a kw) :: rest /\
      (forall e, In e rest -> ~ final_answer_ev y i e) /\
      (forall e, In e rest -> ~ is_reply_ev (x, q) true e) /\
      (forall e, In e rest -> ~ kill_cancel_ev x q e) /\
      (forall e, In e rest -> ~ rintr_ev y i e) /\
      ((reason = e_canceled /\ (mode = "kill" \/ mode = "killnowait") /\
        exists copts orc', o = OMsg x (CCancel q copts) orc' /\ cancel_mode copts = mode) \/
       (reason = e_timeout /\ mode = "killnowait" /\
        exists ms dl, o = OTick ms /\
          armed x q (opt_int64 opts "timeout") det pre0
                (EIn (OMsg x (CCall q opts proc a kw) orc) :: EOut (y, RInvocation i rid det a kw) :: rest) dl /\
          clock (trace cfg ops1) < dl <= clock (trace cfg ops1) + ms)).
Proof. exact interrupted_pending_meaning_proof. Qed.
Print Assumptions interrupted_pending_meaning.

(** at most one INTERRUPT with a reason per invocation: two of them for the same
    ([y], [i]) are separated by a new CALL routed to [y] under that id *)
Theorem realm_interrupt_at_most_once_partial : forall cfg ops y i pre e1 mid e2 post,
    Forall op_ok ops -> k0 cfg + N.of_nat (List.length ops) <= max_idN ->
    along gate_transparent (init_realm cfg) ops ->
    trace cfg ops = pre ++ e1 :: mid ++ e2 :: post ->
    rintr_ev y i e1 -> rintr_ev y i e2 ->
    exists m1 x q opts proc a kw orc rid det m2,
      mid = m1 ++ EIn (OMsg x (CCall q opts proc a kw) orc) :: EOut (y, RInvocation i rid det a kw) :: m2.
Proof. exact interrupt_at_most_once_proof. Qed.
Print Assumptions realm_interrupt_at_most_once_partial.

Theorem realm_interrupt_at_most_once : forall cfg ops y i pre e1 mid e2 post,
    c_authz cfg = None ->
    Forall op_ok ops -> k0 cfg + N.of_nat (List.length ops) <= max_idN ->
    trace cfg ops = pre ++ e1 :: mid ++ e2 :: post ->
    rintr_ev y i e1 -> rintr_ev y i e2 ->
    exists m1 x q opts proc a kw orc rid det m2,
      mid = m1 ++ EIn (OMsg x (CCall q opts proc a kw) orc) :: EOut (y, RInvocation i rid det a kw) :: m2.
Proof. exact interrupt_at_most_once_noauthz_proof. Qed.
Print Assumptions realm_interrupt_at_most_once.

(** the literal statement is false: INTERRUPT for an invocation that never existed *)
Theorem realm_interrupt_only_for_pending_refuted :
    exists cfg ops y i iopts pre post,
      Forall op_ok ops /\ k0 cfg + N.of_nat (List.length ops) <= max_idN /\ c_authz cfg = None /\
      trace cfg ops = pre ++ EOut (y, RInterrupt i iopts) :: post /\
      forall e b, In e pre -> ~ inv_ev y b e.
Proof. exact StrayEx.interrupt_only_for_pending_refuted_proof. Qed.
Print Assumptions realm_interrupt_only_for_pending_refuted.

(** ** What one step does, by kind of operation (the per-step facts behind the
    theorems): from a well-formed realm, with a transparent gate, a step is
    calm — invocation records and armed timers only disappear, no INTERRUPT,
    no ERROR(CALL) wamp.error.timeout — or a routed CALL / CANCEL / YIELD /
    ERROR / tick with the effect spelled out in [call13] … [tick13] *)
Theorem step_timeout_interrupt_facts : forall r o k,
    realm_wf r -> ids_below k r -> k < max_idN -> op_ok o -> gate_transparent r o ->
    step13_kind r o (snd (step r o)) (fst (step r o)).
Proof. exact step13. Qed.
Print Assumptions step_timeout_interrupt_facts.

(** the invariants of histories behind the theorems *)
Theorem realm_history_invariant : forall cfg ops,
    Forall op_ok ops -> k0 cfg + N.of_nat (List.length ops) <= max_idN ->
    along gate_transparent (init_realm cfg) ops ->
    bi (trace cfg ops) (fst (run (init_realm cfg) ops)).
Proof. exact bi_history. Qed.
Print Assumptions realm_history_invariant.

(** ** Non-vacuity *)
(** (a),(b): CALL with timeout 100 at clock 5; nothing at 104; INTERRUPT and ERROR at 105 *)
Example histories_c13_hypotheses_satisfiable :
    Forall op_ok TmoEx.ops /\ k0 cfg13 + N.of_nat (List.length TmoEx.ops) <= max_idN /\
    along gate_transparent (init_realm cfg13) TmoEx.ops.
Proof. exact TmoEx.hyps. Qed.

Example histories_c13_timeout_at_the_due_tick :
    snd (run (init_realm cfg13) TmoEx.ops) =
    [[]; []; [(11, RRegistered 1 24)]; []; [TmoEx.inv1]; []; [tmo_intr 11 1; tmo_err 10 7]; []].
Proof. exact TmoEx.outs. Qed.

Example histories_c13_timeout_in_trace :
    exists post, trace cfg13 TmoEx.ops = TmoEx.pre ++ EOut (tmo_err 10 7) :: post.
Proof. exact TmoEx.in_trace. Qed.

Example histories_c13_fires_hypotheses_satisfiable :
    trace cfg13 TmoEx.ops1 = TmoEx.pre0 ++ EIn TmoEx.call7 :: EOut TmoEx.inv1 :: TmoEx.rest /\
    mon_run (10, 7) false TmoEx.pre0 = Some false /\
    (0 < opt_int64 tmo_opts "timeout")%Z /\ dget [("progress", VBool false); ("procedure", vuri "p")] "timeout" = None /\
    (forall e, In e TmoEx.rest -> ~ is_call_ev (10, 7) e) /\
    (forall e, In e TmoEx.rest -> ~ kill_cancel_ev 10 7 e) /\
    rrec (fst (run (init_realm cfg13) TmoEx.ops1)) (10, 7) /\
    clock TmoEx.pre0 + Z.to_N (opt_int64 tmo_opts "timeout") <= clock (trace cfg13 TmoEx.ops1) + 1 /\
    clock TmoEx.pre0 = 5 /\ clock (trace cfg13 TmoEx.ops1) = 104.
Proof. exact TmoEx.fires_hyps. Qed.

Example histories_c13_fires_output :
    snd (step (fst (run (init_realm cfg13) TmoEx.ops1)) (OTick 1)) = [tmo_intr 11 1; tmo_err 10 7] /\
    snd (step (fst (run (init_realm cfg13) TmoEx.ops1)) (OTick 0)) = [].
Proof. exact TmoEx.fires_out. Qed.

(** a callee without call_canceling: the ERROR alone, at 100 and not at 99 *)
Example histories_c13_no_interrupt_without_call_canceling :
    snd (step (fst (run (init_realm cfg13) TmoPlainEx.ops1)) (OTick 100)) = [tmo_err 10 7] /\
    snd (step (fst (run (init_realm cfg13) TmoPlainEx.ops1)) (OTick 99)) = [].
Proof. exact TmoPlainEx.outs. Qed.

(** the refuting history is the [relayed] case *)
Example histories_c13_relayed : relayed RelayEx.pre [] [vstr "call timeout"] [].
Proof. exact RelayEx.is_relayed. Qed.

(** (c): the three triggers in one history; the repeated kill-mode CANCEL and the stopped timer send nothing *)
Example histories_c13_interrupt_hypotheses_satisfiable :
    Forall op_ok CancelEx.ops /\ k0 cfg13 + N.of_nat (List.length CancelEx.ops) <= max_idN /\
    along gate_transparent (init_realm cfg13) CancelEx.ops.
Proof. exact CancelEx.hyps. Qed.

Example histories_c13_interrupts :
    filter is_intr_ev (trace cfg13 CancelEx.ops) =
    map EOut [(11, RInterrupt 1 [("reason", vuri e_canceled); ("mode", vstr "kill")]);
              (11, RInterrupt 2 [("reason", vuri e_canceled); ("mode", vstr "killnowait")]);
              (11, RInterrupt 2 [("mode", vstr "killnowait")])].
Proof. exact CancelEx.interrupts. Qed.

Example histories_c13_stray : stray_yield StrayEx.pre 11 99 [("mode", vstr "killnowait")].
Proof. exact StrayEx.is_stray. Qed.

(** [gate_transparent] holds along a history with an authorizer (that allows everything) *)
Example histories_c13_gate_hypotheses_satisfiable :
    Forall op_ok TmoEx.ops /\ k0 AuthzEx.cfgA + N.of_nat (List.length TmoEx.ops) <= max_idN /\
    along gate_transparent (init_realm AuthzEx.cfgA) TmoEx.ops.
Proof. exact AuthzEx.hyps. Qed.

(** at most once: two INTERRUPTs with a reason for (11, 1), session 11 having left and joined again in between *)
Example histories_c13_once_hypotheses_satisfiable :
    Forall op_ok OnceEx.ops /\ k0 cfg13 + N.of_nat (List.length OnceEx.ops) <= max_idN /\
    along gate_transparent (init_realm cfg13) OnceEx.ops /\
    trace cfg13 OnceEx.ops = OnceEx.pre ++ OnceEx.e1 :: OnceEx.mid ++ OnceEx.e2 :: [] /\
    rintr_ev 11 1 OnceEx.e1 /\ rintr_ev 11 1 OnceEx.e2.
Proof. exact OnceEx.hyps. Qed.

(** forward_timeout per callee on a shared registration: the creator 20 asked, the
    joiner 21 did not (both announce call_timeout): the CALL routed to 20 carries
    timeout = 100 and arms no timer; the next one, routed to 21, carries none and
    the router arms its timer (deadline 100) *)
Example histories_c13_forward_hypotheses_satisfiable :
    c_authz FwdEx.cfg0 = None /\ Forall op_ok FwdEx.ops /\ k0 FwdEx.cfg0 + N.of_nat (List.length FwdEx.ops) <= max_idN /\
    FwdEx.ops = FwdEx.pre5 ++ FwdEx.call1 :: [FwdEx.call2] /\ FwdEx.ops = (FwdEx.pre5 ++ [FwdEx.call1]) ++ FwdEx.call2 :: [].
Proof. exact FwdEx.hyps. Qed.

Example histories_c13_forward_creator_asks :
    snd (run (init_realm FwdEx.cfg0) FwdEx.ops) =
    [[]; []; []; [(20, RRegistered 1 24)]; [(21, RRegistered 1 24)];
     [(20, RInvocation 1 24 FwdEx.det_fwd [] [])];
     [(21, RInvocation 1 24 FwdEx.det_plain [] [])]].
Proof. exact FwdEx.outs. Qed.

Example histories_c13_forward_timers :
    d_timers (r_dealer (fst (run (init_realm FwdEx.cfg0) (FwdEx.pre5 ++ [FwdEx.call1])))) = [] /\
    d_timers (r_dealer (fst (run (init_realm FwdEx.cfg0) FwdEx.ops))) = [(1, (100, (22, 2)))].
Proof. exact FwdEx.timers. Qed.

Example histories_c13_forward_lists :
    exists rg, nget (d_regs (r_dealer (fst (run (init_realm FwdEx.cfg0) FwdEx.ops)))) 24 = Some rg /\
               reg_fwd_timeout rg = [20] /\ reg_callees rg = [20; 21].
Proof. exact FwdEx.lists. Qed.

Example histories_c13_forward_only_if_hypotheses_satisfiable :
    In (20, RInvocation 1 24 FwdEx.det_fwd [] []) (snd (step (fst (run (init_realm FwdEx.cfg0) FwdEx.pre5)) FwdEx.call1)) /\
    dget FwdEx.det_fwd "timeout" <> None.
Proof. exact FwdEx.only_if_hyps. Qed.

(** the converse: the joiner asks, the creator does not *)
Example histories_c13_forward_joiner_asks :
    Forall op_ok FwdConvEx.ops /\ k0 FwdEx.cfg0 + N.of_nat (List.length FwdConvEx.ops) <= max_idN /\
    snd (run (init_realm FwdEx.cfg0) FwdConvEx.ops) =
    [[]; []; []; [(20, RRegistered 1 24)]; [(21, RRegistered 1 24)];
     [(20, RInvocation 1 24 FwdEx.det_plain [] [])];
     [(21, RInvocation 1 24 FwdEx.det_fwd [] [])]] /\
    d_timers (r_dealer (fst (run (init_realm FwdEx.cfg0) (FwdConvEx.pre5 ++ [FwdEx.call1])))) = [(1, (100, (22, 1)))] /\
    d_timers (r_dealer (fst (run (init_realm FwdEx.cfg0) FwdConvEx.ops))) = [(1, (100, (22, 1)))].
Proof. exact FwdConvEx.outs. Qed.
