(** * History-level corollaries for C18 over the whole router model

    Statements only; proofs in Router/RealmTraceC18.v (vocabulary, component
    facts), RealmTraceC18Att.v (attachment), RealmTraceC18Call.v (a CALL of a
    meta procedure, the reply monitor's final state), RealmTraceC18Meta.v
    (session count / list / get); concrete histories in RealmTraceC18Ex.v.

    Every statement is about [run (init_realm cfg) ops] for EVERY operation
    list [ops]; [trace cfg ops] is the history as one list of events, each
    operation [EIn o] followed by the messages [EOut (receiver, message)] the
    router sent while handling it (Props/HistoriesC02.v).

    ATTACHMENT FROM THE TRACE ALONE.  [att A tr] runs over the trace [tr]
    starting from the attached ids [A] (kept in join order):
    - [EIn (OJoin x l h)] appends [x] when [joins A x h]: the HELLO details
      announce a role, [x] is not in [A] and [x] is not the meta session's id;
    - [EIn (ODrop x)] (transport lost), [EOut (x, RAbort _ _)] and
      [EOut (x, RGoodbye _ _)] (the router ends the session: reply to GOODBYE,
      protocol violation, passthru violation in PUBLISH / CALL / YIELD, kill
      through the meta API) remove [x];
    - every other event leaves [A] alone.
    [realm_attached_is_trace]: the realm's client list is [att [] (trace ...)]
    after every history — no side hypothesis, no hypothesis on the authorizer.
    So every departure in the model is accompanied by such a message to the
    leaver or is the ODrop, and no client that stays is ever sent one.

    SESSION COUNT / LIST / GET.  At any point of a history (after [pre]) a
    CALL [q] by an attached session [x] with plain call options (no
    [progress], no payload passthru) whose request id is not that of a pending
    call of [x] — stated from the trace with the reply monitor of
    Props/HistoriesC02.v: [mon_run (x, q) false (trace cfg pre) = Some false] —
    is answered by exactly one message, the RESULT computed from
    [att [] (trace cfg pre)].  An authorizer can interfere in two ways: in the
    past (a refused further chunk leaves a call recorded that the monitor
    considers answered, see HistoriesC02) and at the CALL itself (refusing or
    rewriting it); the [_partial] statements carry the two explicit
    hypotheses [along gate_fresh (init_realm cfg) pre] and
    [gate_transparent r (the CALL)]; the full ones [c_authz cfg = None].
    With a role filter the answer is the count of the attached sessions whose
    RECORDED authrole the filter selects ([realm_session_count_filtered]); the
    records are not a function of [att] alone (wamp.session.modify_details),
    so no purely trace-based filtered statement is given.

    ON_JOIN / ON_LEAVE BALANCED.  An observer [z] that holds the exact
    subscriptions [J] on wamp.session.on_join and [L] on wamp.session.on_leave
    ([holds_sig (r_broker r) z J t_on_join MExact], state-based, at the start
    of a window [mid] of the history) and is passive in the window ([zpassive]:
    it sends nothing, is not dropped and is not sent ABORT / GOODBYE).
    [observed z J L tr] is what it is told, in order: an EVENT through [J]
    carrying one dictionary with "session" = s reads [(true, s)], an EVENT
    through [L] whose first argument is the id s reads [(false, s)].
    [sess_changes A tr] are the attachment changes the trace defines from the
    attached ids [A]: [(true, x)] for an accepted JOIN, [(false, x)] for an end
    (ODrop / ABORT / GOODBYE) of an attached session.

    FOUND FALSE OF THE MODEL as literally stated (and of the router: only
    REGISTER of wamp.* procedures is refused, router/dealer.go; PUBLISH to a
    wamp.* topic is not, router/broker.go, and wamp.session.add_testament
    accepts any topic): any client may publish a forged
    wamp.session.on_leave / on_join event itself, or leave one as a testament
    that the meta session publishes when the client goes
    ([realm_on_join_on_leave_balanced_refuted]: the observer is told that
    sessions 99 and 77 left, which never joined).  The true statement
    ([realm_on_join_on_leave_balanced]) assumes [forges o = false] for every
    operation from the START of the history (a forged testament stored before
    the window is published inside it) and no authorizer (an authorizer may
    rewrite an innocent message into a forging one).  Under these hypotheses
    [observed ... = sess_changes ...] as LISTS: every change is announced
    exactly once, nothing else is, and in the order of the changes — also
    within one step (the GOODBYEs of wamp.session.kill_by_authrole / kill_all
    precede the victims' on_leave events, victim by victim).  Readable
    consequences: per session id the observer's events alternate
    ([observer_events_alternate]), so an on_leave(s) is preceded in the window
    by an on_join(s) unless s was attached at the window's start, and there is
    exactly one on_leave per ended session.  Changed with respect to the
    suggested statement: the window is [mid] after [pre] with no [post] (any
    prefix of a history), attachment of the observer is stated from the trace,
    and wamp.session.kill_all necessarily ends a passive observer (it is not
    the caller), so the non-vacuity example uses kill_by_authrole for the
    several-victims-in-one-step case. *)
From Nexus Require Import Router.Realm Router.DealerLib Router.DealerReply Router.DealerTrace.
From Nexus Require Import Router.RealmWf Router.RealmStep.
From Nexus Require Import Router.RealmTraceLib Router.RealmTrace.
From Nexus Require Import Router.BrokerWf.
From Nexus Require Import Router.RealmTraceC18 Router.RealmTraceC18Att Router.RealmTraceC18Call
     Router.RealmTraceC18Meta Router.RealmTraceC18Obs Router.RealmTraceC18Bal Router.RealmTraceC18Step
     Router.RealmTraceC18Hist Router.RealmTraceC18Ex.

(** ** Attachment *)
Theorem realm_attached_is_trace : forall cfg ops,
    map s_id (r_clients (fst (run (init_realm cfg) ops))) = att [] (trace cfg ops).
Proof. exact realm_attached_is_trace_proof. Qed.
Print Assumptions realm_attached_is_trace.

(** one step, from any realm in which the meta session has its id, no client
    has it and the meta session's registrations are its own ([inv18], an
    invariant of [step] that the initial realm satisfies) *)
Theorem step_attached_is_events : forall r o, inv18 r ->
    inv18 (fst (step r o)) /\
    map s_id (r_clients (fst (step r o))) = att (map s_id (r_clients r)) (step_events o (snd (step r o))).
Proof. exact step_attached_proof. Qed.
Print Assumptions step_attached_is_events.

Theorem init_realm_inv18 : forall cfg, inv18 (init_realm cfg).
Proof. exact inv18_init. Qed.
Print Assumptions init_realm_inv18.

(** ** realm_session_count_is_attached *)
Theorem realm_session_count_is_attached : forall cfg pre x q opts args kw orc post,
    let ops := pre ++ OMsg x (CCall q opts "wamp.session.count" args kw) orc :: post in
    c_authz cfg = None ->
    Forall op_ok ops -> k0 cfg + N.of_nat (List.length ops) <= max_idN ->
    In x (att [] (trace cfg pre)) ->
    opt_bool opts "progress" = false -> ppt_active opts = false ->
    mon_run (x, q) false (trace cfg pre) = Some false ->
    role_filter args = Some None ->
    nth_error (snd (run (init_realm cfg) ops)) (List.length pre) =
    Some [(x, RResult q [] [vnat (N.of_nat (List.length (att [] (trace cfg pre))))] [])].
Proof. exact session_count_proof. Qed.
Print Assumptions realm_session_count_is_attached.

Theorem realm_session_list_is_attached : forall cfg pre x q opts args kw orc post,
    let ops := pre ++ OMsg x (CCall q opts "wamp.session.list" args kw) orc :: post in
    c_authz cfg = None ->
    Forall op_ok ops -> k0 cfg + N.of_nat (List.length ops) <= max_idN ->
    In x (att [] (trace cfg pre)) ->
    opt_bool opts "progress" = false -> ppt_active opts = false ->
    mon_run (x, q) false (trace cfg pre) = Some false ->
    role_filter args = Some None ->
    nth_error (snd (run (init_realm cfg) ops)) (List.length pre) =
    Some [(x, RResult q [] [ids_value (att [] (trace cfg pre))] [])].
Proof. exact session_list_proof. Qed.
Print Assumptions realm_session_list_is_attached.

(** get: a RESULT (one dictionary) exactly for the attached ids, ERROR
    no_such_session for every other id *)
Theorem realm_session_get_iff_attached : forall cfg pre x q opts args kw orc post sid,
    let ops := pre ++ OMsg x (CCall q opts "wamp.session.get" args kw) orc :: post in
    c_authz cfg = None ->
    Forall op_ok ops -> k0 cfg + N.of_nat (List.length ops) <= max_idN ->
    In x (att [] (trace cfg pre)) ->
    opt_bool opts "progress" = false -> ppt_active opts = false ->
    mon_run (x, q) false (trace cfg pre) = Some false ->
    bind (arg0 args) as_id = Some sid ->
    (In sid (att [] (trace cfg pre)) ->
     exists d, nth_error (snd (run (init_realm cfg) ops)) (List.length pre) = Some [(x, RResult q [] [VDict d] [])]) /\
    (~ In sid (att [] (trace cfg pre)) ->
     nth_error (snd (run (init_realm cfg) ops)) (List.length pre) = Some [(x, RError c_CALL q [] e_no_such_session [] [])]).
Proof. exact session_get_proof. Qed.
Print Assumptions realm_session_get_iff_attached.

(** with an authorizer: the gate hypotheses explicit *)
Theorem realm_session_count_is_attached_partial : forall cfg pre x q opts args kw orc post,
    let ops := pre ++ OMsg x (CCall q opts "wamp.session.count" args kw) orc :: post in
    Forall op_ok ops -> k0 cfg + N.of_nat (List.length ops) <= max_idN ->
    along gate_fresh (init_realm cfg) pre ->
    gate_transparent (fst (run (init_realm cfg) pre)) (OMsg x (CCall q opts "wamp.session.count" args kw) orc) ->
    In x (att [] (trace cfg pre)) ->
    opt_bool opts "progress" = false -> ppt_active opts = false ->
    mon_run (x, q) false (trace cfg pre) = Some false ->
    role_filter args = Some None ->
    nth_error (snd (run (init_realm cfg) ops)) (List.length pre) =
    Some [(x, RResult q [] [vnat (N.of_nat (List.length (att [] (trace cfg pre))))] [])].
Proof. exact session_count_partial_proof. Qed.
Print Assumptions realm_session_count_is_attached_partial.

Theorem realm_session_list_is_attached_partial : forall cfg pre x q opts args kw orc post,
    let ops := pre ++ OMsg x (CCall q opts "wamp.session.list" args kw) orc :: post in
    Forall op_ok ops -> k0 cfg + N.of_nat (List.length ops) <= max_idN ->
    along gate_fresh (init_realm cfg) pre ->
    gate_transparent (fst (run (init_realm cfg) pre)) (OMsg x (CCall q opts "wamp.session.list" args kw) orc) ->
    In x (att [] (trace cfg pre)) ->
    opt_bool opts "progress" = false -> ppt_active opts = false ->
    mon_run (x, q) false (trace cfg pre) = Some false ->
    role_filter args = Some None ->
    nth_error (snd (run (init_realm cfg) ops)) (List.length pre) =
    Some [(x, RResult q [] [ids_value (att [] (trace cfg pre))] [])].
Proof. exact session_list_partial_proof. Qed.
Print Assumptions realm_session_list_is_attached_partial.

Theorem realm_session_get_iff_attached_partial : forall cfg pre x q opts args kw orc post sid,
    let ops := pre ++ OMsg x (CCall q opts "wamp.session.get" args kw) orc :: post in
    Forall op_ok ops -> k0 cfg + N.of_nat (List.length ops) <= max_idN ->
    along gate_fresh (init_realm cfg) pre ->
    gate_transparent (fst (run (init_realm cfg) pre)) (OMsg x (CCall q opts "wamp.session.get" args kw) orc) ->
    In x (att [] (trace cfg pre)) ->
    opt_bool opts "progress" = false -> ppt_active opts = false ->
    mon_run (x, q) false (trace cfg pre) = Some false ->
    bind (arg0 args) as_id = Some sid ->
    (In sid (att [] (trace cfg pre)) ->
     exists d, nth_error (snd (run (init_realm cfg) ops)) (List.length pre) = Some [(x, RResult q [] [VDict d] [])]) /\
    (~ In sid (att [] (trace cfg pre)) ->
     nth_error (snd (run (init_realm cfg) ops)) (List.length pre) = Some [(x, RError c_CALL q [] e_no_such_session [] [])]).
Proof. exact session_get_partial_proof. Qed.
Print Assumptions realm_session_get_iff_attached_partial.

(** the two gate hypotheses, discharged when no authorizer is configured *)
Theorem gates_no_authz : forall cfg pre o, c_authz cfg = None ->
    along gate_fresh (init_realm cfg) pre /\ gate_transparent (fst (run (init_realm cfg) pre)) o.
Proof. exact noauthz_gates. Qed.
Print Assumptions gates_no_authz.

(** with a role filter *)
Theorem realm_session_count_filtered : forall cfg pre x q opts args kw orc post f,
    let ops := pre ++ OMsg x (CCall q opts "wamp.session.count" args kw) orc :: post in
    c_authz cfg = None ->
    Forall op_ok ops -> k0 cfg + N.of_nat (List.length ops) <= max_idN ->
    In x (att [] (trace cfg pre)) ->
    opt_bool opts "progress" = false -> ppt_active opts = false ->
    mon_run (x, q) false (trace cfg pre) = Some false ->
    role_filter args = Some f ->
    map s_id (r_clients (fst (run (init_realm cfg) pre))) = att [] (trace cfg pre) /\
    nth_error (snd (run (init_realm cfg) ops)) (List.length pre) =
    Some [(x, RResult q [] [vnat (N.of_nat (List.length (filter (role_selected f)
                                             (r_clients (fst (run (init_realm cfg) pre))))))] [])].
Proof. exact session_count_filtered_proof. Qed.
Print Assumptions realm_session_count_filtered.

(** the plumbing, for any procedure of the meta session: from a state in
    which [proc] resolves to a registration of the meta session alone and the
    request id is free, the step's whole output is the one reply computed by
    [meta_call] (for the procedures that kill nobody) *)
Theorem meta_procedure_call_step : forall r x s q opts proc args kw orc rg mproc,
    inv18 r -> find_session (r_clients r) x = Some s ->
    gate r s (CCall q opts proc args kw) = inl (CCall q opts proc args kw) ->
    match_procedure (r_dealer r) proc orc = Some rg -> meta_reg rg ->
    nget (r_metaprocs r) (reg_id rg) = Some mproc ->
    opt_bool opts "progress" = false -> ppt_active opts = false ->
    cget (d_bycall (r_dealer r)) (x, q) = None ->
    exists r1 det, r_clients r1 = r_clients r /\ r_cfg r1 = r_cfg r /\ r_broker r1 = r_broker r /\
      forall r2 resp, meta_call r1 mproc det args kw orc = (r2, resp, None) ->
        snd (step r (OMsg x (CCall q opts proc args kw) orc)) = [(x, reply q resp)].
Proof. exact meta_proc_step. Qed.
Print Assumptions meta_procedure_call_step.

(** the reply monitor of a call id, shut after a history: no such call is pending *)
Theorem shut_monitor_no_pending_call : forall cfg pre c,
    Forall op_ok pre -> k0 cfg + N.of_nat (List.length pre) <= max_idN ->
    along gate_fresh (init_realm cfg) pre ->
    mon_run c false (trace cfg pre) = Some false ->
    cget (d_bycall (r_dealer (fst (run (init_realm cfg) pre)))) c = None.
Proof. exact shut_no_pending. Qed.
Print Assumptions shut_monitor_no_pending_call.

(** ** Non-vacuity: four sessions join; count = 4; one is dropped, one says
    GOODBYE, one is killed (wamp.session.kill); the dropped id joins again;
    list = [10; 11]; get of 11 is a RESULT, get of the ended 12 is
    no_such_session *)
Example histories_c18_side_hypotheses_satisfiable :
    Forall op_ok AttEx.ops0 /\ k0 AttEx.cfg0 + N.of_nat (List.length AttEx.ops0) <= max_idN /\ c_authz AttEx.cfg0 = None.
Proof. exact AttEx.side. Qed.

Example histories_c18_attachment :
    att [] (trace AttEx.cfg0 AttEx.pre_count) = [10; 11; 12; 13] /\
    att [] (trace AttEx.cfg0 AttEx.pre_list) = [10; 11] /\
    att [] (trace AttEx.cfg0 AttEx.ops0) = [10; 11] /\
    map s_id (r_clients (fst (run (init_realm AttEx.cfg0) AttEx.ops0))) = [10; 11].
Proof. exact AttEx.attached. Qed.

Example histories_c18_end_markers :
    filter (fun e => match end_of e with Some _ => true | None => false end) (trace AttEx.cfg0 AttEx.ops0) =
    [EIn (ODrop 11); EOut (12, RGoodbye [] e_goodbye_and_out); EOut (13, RGoodbye [] e_close_normal)].
Proof. exact AttEx.ends_in_trace. Qed.

Example histories_c18_call_hypotheses_satisfiable :
    In 10 (att [] (trace AttEx.cfg0 AttEx.pre_count)) /\ In 10 (att [] (trace AttEx.cfg0 AttEx.pre_list)) /\
    In 10 (att [] (trace AttEx.cfg0 AttEx.pre_get1)) /\ In 10 (att [] (trace AttEx.cfg0 AttEx.pre_get2)) /\
    opt_bool [] "progress" = false /\ ppt_active [] = false /\
    mon_run (10, 1) false (trace AttEx.cfg0 AttEx.pre_count) = Some false /\
    mon_run (10, 3) false (trace AttEx.cfg0 AttEx.pre_list) = Some false /\
    mon_run (10, 4) false (trace AttEx.cfg0 AttEx.pre_get1) = Some false /\
    mon_run (10, 5) false (trace AttEx.cfg0 AttEx.pre_get2) = Some false /\
    role_filter [] = Some None /\
    bind (arg0 [vid 11]) as_id = Some 11 /\ bind (arg0 [vid 12]) as_id = Some 12 /\
    In 11 (att [] (trace AttEx.cfg0 AttEx.pre_get1)) /\ ~ In 12 (att [] (trace AttEx.cfg0 AttEx.pre_get2)).
Proof. exact AttEx.call_hyps. Qed.

Example histories_c18_answers :
    nth_error (snd (run (init_realm AttEx.cfg0) AttEx.ops0)) (List.length AttEx.pre_count) = Some [(10, RResult 1 [] [vnat 4] [])] /\
    nth_error (snd (run (init_realm AttEx.cfg0) AttEx.ops0)) (List.length AttEx.pre_list) = Some [(10, RResult 3 [] [ids_value [10; 11]] [])] /\
    (exists d, nth_error (snd (run (init_realm AttEx.cfg0) AttEx.ops0)) (List.length AttEx.pre_get1) = Some [(10, RResult 4 [] [VDict d] [])]) /\
    nth_error (snd (run (init_realm AttEx.cfg0) AttEx.ops0)) (List.length AttEx.pre_get2) = Some [(10, RError c_CALL 5 [] e_no_such_session [] [])].
Proof. exact AttEx.answers. Qed.

(** ** realm_on_join_on_leave_balanced *)

(** the literal statement (no hypothesis on what clients publish) is false *)
Theorem realm_on_join_on_leave_balanced_refuted :
    exists cfg pre mid z J L,
      c_authz cfg = None /\ Forall op_ok (pre ++ mid) /\
      k0 cfg + N.of_nat (List.length (pre ++ mid)) <= max_idN /\
      In z (att [] (trace cfg pre)) /\
      holds_sig (r_broker (fst (run (init_realm cfg) pre))) z J t_on_join MExact /\
      holds_sig (r_broker (fst (run (init_realm cfg) pre))) z L t_on_leave MExact /\
      (forall e, In e (trace_from (fst (run (init_realm cfg) pre)) mid) -> zpassive z e) /\
      observed z J L (trace_from (fst (run (init_realm cfg) pre)) mid) <>
      sess_changes (att [] (trace cfg pre)) (trace_from (fst (run (init_realm cfg) pre)) mid).
Proof. exact Forge.balanced_refuted. Qed.
Print Assumptions realm_on_join_on_leave_balanced_refuted.

(** the true statement: no forging operation from the start of the history *)
Theorem realm_on_join_on_leave_balanced : forall z J L cfg pre mid,
    c_authz cfg = None ->
    Forall op_ok (pre ++ mid) -> k0 cfg + N.of_nat (List.length (pre ++ mid)) <= max_idN ->
    Forall (fun o => forges o = false) (pre ++ mid) ->
    let r := fst (run (init_realm cfg) pre) in
    In z (att [] (trace cfg pre)) ->
    holds_sig (r_broker r) z J t_on_join MExact -> holds_sig (r_broker r) z L t_on_leave MExact ->
    (forall e, In e (trace_from r mid) -> zpassive z e) ->
    observed z J L (trace_from r mid) = sess_changes (att [] (trace cfg pre)) (trace_from r mid).
Proof. exact window_balanced_proof. Qed.
Print Assumptions realm_on_join_on_leave_balanced.

(** the window is the segment of the history's trace after [pre] *)
Theorem window_is_trace_segment : forall cfg pre mid,
    trace cfg (pre ++ mid) = trace cfg pre ++ trace_from (fst (run (init_realm cfg) pre)) mid.
Proof. exact trace_split. Qed.
Print Assumptions window_is_trace_segment.

(** per session id the observer's events alternate, starting with on_leave
    exactly when the session was attached at the window's start *)
Theorem observer_events_alternate : forall z J L cfg pre mid s,
    c_authz cfg = None ->
    Forall op_ok (pre ++ mid) -> k0 cfg + N.of_nat (List.length (pre ++ mid)) <= max_idN ->
    Forall (fun o => forges o = false) (pre ++ mid) ->
    let r := fst (run (init_realm cfg) pre) in
    In z (att [] (trace cfg pre)) ->
    holds_sig (r_broker r) z J t_on_join MExact -> holds_sig (r_broker r) z L t_on_leave MExact ->
    (forall e, In e (trace_from r mid) -> zpassive z e) ->
    alt (negb (nmem s (att [] (trace cfg pre)))) (about s (observed z J L (trace_from r mid))).
Proof. exact observer_alternates_proof. Qed.
Print Assumptions observer_events_alternate.

(** the attachment changes of ANY trace alternate per session id *)
Theorem attachment_changes_alternate : forall s tr A, alt (negb (nmem s A)) (about s (sess_changes A tr)).
Proof. exact changes_alternate_proof. Qed.
Print Assumptions attachment_changes_alternate.

(** one step, with the two per-step hypotheses explicit: [gate_transparent]
    (the authorization gate hands the message on unchanged) and [op_noforge]
    (a PUBLISH is not to the two topics; a CALL that the dealer resolves to
    wamp.session.add_testament does not name one of them).  [base k r]: the
    reachable-state invariant, [inv18] and no forged testament stored;
    [OBS z J L r]: the observer is attached and holds [J] and [L] *)
Theorem step_on_join_on_leave_balanced : forall z J L r o k,
    base k r -> k < max_idN -> op_ok o -> gate_transparent r o -> op_noforge r o ->
    base (k + 1) (fst (step r o)) /\
    (OBS z J L r -> (forall e, In e (step_events o (snd (step r o))) -> zpassive z e) ->
     OBS z J L (fst (step r o)) /\
     observed z J L (step_events o (snd (step r o))) = sess_changes (ids r) (step_events o (snd (step r o)))).
Proof. exact step_bal. Qed.
Print Assumptions step_on_join_on_leave_balanced.

(** windows, with the per-step hypotheses through [along] *)
Theorem realm_on_join_on_leave_balanced_partial : forall z J L mid r k,
    base k r -> Forall op_ok mid -> k + N.of_nat (List.length mid) <= max_idN ->
    along gate_transparent r mid -> along op_noforge r mid ->
    base (k + N.of_nat (List.length mid)) (fst (run r mid)) /\
    (OBS z J L r -> (forall e, In e (trace_from r mid) -> zpassive z e) ->
     OBS z J L (fst (run r mid)) /\ observed z J L (trace_from r mid) = sess_changes (ids r) (trace_from r mid)).
Proof. exact run_bal. Qed.
Print Assumptions realm_on_join_on_leave_balanced_partial.

(** a meta procedure is reached only under its own name: the registration a
    procedure URI resolves to is registered by the meta session for exactly
    that URI (so [forges] need only look at CALLs naming add_testament) *)
Theorem meta_procedure_reached_by_name : forall r proc orc rg mproc,
    realm_wf r -> mp_init r ->
    match_procedure (r_dealer r) proc orc = Some rg -> nget (r_metaprocs r) (reg_id rg) = Some mproc -> mproc = proc.
Proof. exact metaproc_name. Qed.
Print Assumptions meta_procedure_reached_by_name.

(** ** Non-vacuity: observer 10 (a local, "trusted" session); in the window
    11 joins, is dropped, joins again; 12 and 13 join; 13 stores an innocent
    testament; 12 kills every anonymous session but itself (11 and 13, one
    step); 12 says GOODBYE *)
Example histories_c18_observer_side_hypotheses_satisfiable :
    c_authz ObsEx.cfg0 = None /\ Forall op_ok (ObsEx.pre0 ++ ObsEx.mid0) /\
    k0 ObsEx.cfg0 + N.of_nat (List.length (ObsEx.pre0 ++ ObsEx.mid0)) <= max_idN /\
    Forall (fun o => forges o = false) (ObsEx.pre0 ++ ObsEx.mid0).
Proof. exact ObsEx.side. Qed.

Example histories_c18_observer_hypotheses_satisfiable :
    In 10 (att [] (trace ObsEx.cfg0 ObsEx.pre0)) /\
    holds_sig (r_broker (fst (run (init_realm ObsEx.cfg0) ObsEx.pre0))) 10 1 t_on_join MExact /\
    holds_sig (r_broker (fst (run (init_realm ObsEx.cfg0) ObsEx.pre0))) 10 2 t_on_leave MExact /\
    (forall e, In e (trace_from (fst (run (init_realm ObsEx.cfg0) ObsEx.pre0)) ObsEx.mid0) -> zpassive 10 e).
Proof. exact ObsEx.observer. Qed.

Example histories_c18_observer_reads :
    observed 10 1 2 (trace_from (fst (run (init_realm ObsEx.cfg0) ObsEx.pre0)) ObsEx.mid0) =
      [(true, 11); (false, 11); (true, 11); (true, 12); (true, 13); (false, 11); (false, 13); (false, 12)] /\
    sess_changes (att [] (trace ObsEx.cfg0 ObsEx.pre0)) (trace_from (fst (run (init_realm ObsEx.cfg0) ObsEx.pre0)) ObsEx.mid0) =
      [(true, 11); (false, 11); (true, 11); (true, 12); (true, 13); (false, 11); (false, 13); (false, 12)] /\
    about 11 (observed 10 1 2 (trace_from (fst (run (init_realm ObsEx.cfg0) ObsEx.pre0)) ObsEx.mid0)) = [true; false; true; false].
Proof. exact ObsEx.reads. Qed.

(** the refuting window: a forged PUBLISH and a forged testament *)
Example histories_c18_forged_reads :
    observed 10 1 2 (trace_from (fst (run (init_realm ObsEx.cfg0) ObsEx.pre0)) Forge.midF) = [(true, 11); (false, 99); (false, 77); (false, 11)] /\
    sess_changes (att [] (trace ObsEx.cfg0 ObsEx.pre0)) (trace_from (fst (run (init_realm ObsEx.cfg0) ObsEx.pre0)) Forge.midF) = [(true, 11); (false, 11)] /\
    map forges Forge.midF = [false; true; true; false].
Proof. exact Forge.reads. Qed.
