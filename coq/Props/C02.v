(** * C02 — every routed CALL gets exactly one final RESULT or ERROR (dealer side)

    Statements about the executable router model Router/Dealer.v, for every
    dealer state satisfying the invariant [dealer_wf] (Props/C03.v: it holds
    for [init_realm] and is preserved by every dealer function, so for every
    reachable state).  The statements are per dealer function (= per step of
    the router).
    [reply_of m = Some (cid, fin)]: message [m] is a RESULT or an ERROR of type
    CALL for request [snd cid] sent to session [fst cid]; [fin]: it is final.
    Proofs: Router/DealerReply.v, DealerTimers.v, DealerRemove.v, DealerOwned.v,
    DealerC02.v.  Examples: Router/DealerExamples.v. *)
From Nexus Require Import Router.Realm Router.DealerLib Router.DealerProofs Router.DealerReg
     Router.DealerCall Router.DealerWfCalls Router.DealerWf Router.DealerRemove
     Router.DealerReply Router.DealerTimers Router.DealerOwned Router.DealerExamples Router.DealerC02
     Router.DealerTrace.

(** ** reply_owned and final_reply_consumes
    [owned_reply d d' m]: if [m] is a reply for [cid] then [cid] was recorded
    in [d] with caller [fst cid], and if it is final, [d'] has forgotten it —
    so a second final reply for the same record is impossible. *)
Theorem reply_owned : forall lookup d,
    dealer_wf lookup d ->
    (forall lk caller req opts m, In m (snd (cancel lk d caller req opts)) ->
        owned_reply d (fst (cancel lk d caller req opts)) m) /\
    (forall callee req det err args kw m, In m (snd (sync_error d callee req det err args kw)) ->
        owned_reply d (fst (sync_error d callee req det err args kw)) m) /\
    (forall lk now m, In m (snd (fire_timers lk now d)) -> owned_reply d (fst (fire_timers lk now d)) m) /\
    (forall lk sid m, In m (snd (fst (dealer_remove_session lk d sid))) ->
        owned_reply d (fst (fst (dealer_remove_session lk d sid))) m) /\
    (* YIELD: the final reply (RESULT, or ERROR(CALL) for an undeliverable passthru result) consumes the call *)
    (forall lk callee req opts args kw m, In m (snd (sync_yield lk d callee req opts args kw)) ->
        forall cid fin, reply_of m = Some (cid, fin) ->
          cget (d_calls d) cid = Some (fst cid) /\
          exists inv, cget (d_invs d) (callee, req) = Some inv /\ inv_call inv = cid /\
                      fin = negb (opt_bool opts "progress") /\
                      (fin = true ->
                       cget (d_calls (fst (sync_yield lk d callee req opts args kw))) cid = None)) /\
    (* CALL: only refusals of the CALL being processed; every refusal leaves that call unrecorded
       (a refused further chunk ends the pending call; a refused first chunk changes no call table) *)
    (forall cfg now caller req opts proc args kw oracle m,
        In m (call_out (call cfg lookup now d caller req opts proc args kw oracle)) ->
        forall cid fin, reply_of m = Some (cid, fin) ->
          cid = (s_id caller, req) /\ fin = true /\
          exists d', call cfg lookup now d caller req opts proc args kw oracle = CallRefused d' [m] /\
                     cget (d_calls d') cid = None /\
                     (forall k, cget (d_bycall d) cid = Some k -> gone d' cid k) /\
                     (cget (d_bycall d) cid = None ->
                      d_calls d' = d_calls d /\ d_invs d' = d_invs d /\ d_bycall d' = d_bycall d)) /\
    (forall cfg callee req opts proc m, In m (snd (fst (register cfg d callee req opts proc))) -> reply_of m = None) /\
    (forall sid req regid m, In m (snd (fst (unregister d sid req regid))) -> reply_of m = None).
Proof. exact reply_owned_proof. Qed.
Print Assumptions reply_owned.

Example reply_owned_ex :
    dealer_wf (lk 1 0) d3 /\
    (exists m, In m (snd (sync_error d3 11 1 [] "com.err" [] [])) /\ reply_of m = Some ((10, 7), true)) /\
    cget (d_calls d3) (10, 7) = Some 10 /\ cget (d_calls (fst (sync_error d3 11 1 [] "com.err" [] []))) (10, 7) = None /\
    (exists m, In m (snd (sync_yield (lk 1 0) d3 11 1 [("progress", VBool true)] [] [])) /\ reply_of m = Some ((10, 7), false)).
Proof.
  split; [exact wf_d3|]. split; [eexists; vm_compute; split; [left; reflexivity | reflexivity]|].
  split; [vm_compute; reflexivity|]. split; [vm_compute; reflexivity|].
  eexists; vm_compute; split; [left; reflexivity | reflexivity].
Qed.

(** ** Prompt final replies, one per trigger *)

(** nothing matches the procedure: no_such_procedure at once; for a first
    chunk nothing was recorded and nothing changes, for a further chunk of a
    pending progressive call that call is ended by this ERROR *)
Theorem prompt_unroutable : forall cfg lookup now d caller req opts proc args kw oracle,
    dealer_wf lookup d ->
    no_exact d proc -> no_prefix d proc -> no_wildcard d proc ->
    let cid := (s_id caller, req) in
    let d' := no_proc_state d cid in
    call cfg lookup now d caller req opts proc args kw oracle =
    CallRefused d' [(s_id caller, RError c_CALL req [] e_no_such_procedure [] [])] /\
    (cget (d_bycall d) cid = None -> d' = d) /\
    (forall k, cget (d_bycall d) cid = Some k -> gone d' cid k) /\
    cget (d_calls d') cid = None.
Proof. exact prompt_unroutable_proof. Qed.
Print Assumptions prompt_unroutable.

(** every CALL answered no_such_procedure (also when the registration has no
    callee) leaves nothing recorded for that request *)
Theorem refused_chunk_ends_call : forall cfg lookup now d caller req opts proc args kw oracle d' o,
    dealer_wf lookup d ->
    call cfg lookup now d caller req opts proc args kw oracle = CallRefused d' o ->
    In (s_id caller, RError c_CALL req [] e_no_such_procedure [] []) o ->
    let cid := (s_id caller, req) in
    o = [(s_id caller, RError c_CALL req [] e_no_such_procedure [] [])] /\
    dealer_wf lookup d' /\
    cget (d_calls d') cid = None /\ cget (d_bycall d') cid = None /\
    (forall k, cget (d_bycall d) cid = Some k -> gone d' cid k) /\
    (cget (d_bycall d) cid = None -> d' = d).
Proof. exact refused_chunk_ends_call_proof. Qed.
Print Assumptions refused_chunk_ends_call.

Example prompt_unroutable_ex :
    no_exact d2s "net.other" /\ no_prefix d2s "net.other" /\ no_wildcard d2s "net.other" /\
    call cfg0 (lk 0 0) 5 d2s s10 7 [] "net.other" [] [] 0 =
    CallRefused d2s [(10, RError c_CALL 7 [] e_no_such_procedure [] [])] /\
    (* a further chunk after the procedure was unregistered: the pending call (10,9) is ended *)
    dealer_wf (lk 1 0) dp2 /\ cget (d_bycall dp2) (10, 9) = Some (11, 1) /\
    call cfg0 (lk 1 0) 6 dp2 s10 9 [] "net.solo" [] [] 0 =
    CallRefused dp3 [(10, RError c_CALL 9 [] e_no_such_procedure [] [])] /\
    gone dp3 (10, 9) (11, 1) /\ sync_yield (lk 1 0) dp3 11 1 [] [vnat 42] [] = (dp3, []).
Proof.
  assert (H : match_procedure d2s "net.other" 0 = None) by (vm_compute; reflexivity).
  apply (best_match_none (lk 0 0) d2s wf_d2s) in H. destruct H as (H1 & H2 & H3).
  split; [exact H1|]. split; [exact H2|]. split; [exact H3|].
  split; [vm_compute; reflexivity|]. split; [exact wf_dp2|].
  vm_compute. repeat split; reflexivity.
Qed.

(** the owner's final YIELD: the output contains the caller's final reply
    (the RESULT; or ERROR(CALL) when a passthru result cannot be delivered),
    everything else goes back to the yielding callee, and the call is erased *)
Theorem prompt_yield_final : forall lookup lk d callee req opts args kw inv,
    dealer_wf lookup d -> cget (d_invs d) (callee, req) = Some inv ->
    opt_bool opts "progress" = false ->
    let cid := inv_call inv in
    exists d' o, sync_yield lk d callee req opts args kw = (d', o) /\
                 gone d' cid (callee, req) /\
                 (exists m, In m o /\ reply_of m = Some (cid, true)) /\
                 (forall m, In m o -> reply_of m = Some (cid, true) \/ (fst m = callee /\ reply_of m = None)) /\
                 (ppt_active opts = false -> o = [(fst cid, RResult (snd cid) [] args kw)]).
Proof. exact prompt_yield_final_proof. Qed.
Print Assumptions prompt_yield_final.

(** a final passthru YIELD that cannot be delivered still ends the call: the
    caller gets ERROR(CALL) bearing its own request id (the repaired defect) *)
Theorem yield_ppt_undeliverable_ends_call : forall lookup lk d callee req opts args kw inv,
    dealer_wf lookup d -> cget (d_invs d) (callee, req) = Some inv ->
    opt_bool opts "progress" = false -> ppt_active opts = true ->
    let cid := inv_call inv in
    has_ppt lk callee "callee" = false \/ has_ppt lk (fst cid) "caller" = false ->
    exists d' o, sync_yield lk d callee req opts args kw = (d', o) /\
                 gone d' cid (callee, req) /\
                 In (fst cid, RError c_CALL (snd cid) ppt_error_details e_feature_not_supported [] []) o /\
                 (forall m, In m o ->
                    m = (fst cid, RError c_CALL (snd cid) ppt_error_details e_feature_not_supported [] []) \/
                    m = (callee, RAbort [("message", vstr "<text>")] e_protocol_violation) \/
                    m = (callee, RError c_YIELD req ppt_error_details e_feature_not_supported [] [])) /\
                 (yield_aborts lk d callee req opts = true -> has_ppt lk callee "callee" = false) /\
                 (has_ppt lk callee "callee" = false -> In (callee, RAbort [("message", vstr "<text>")] e_protocol_violation) o).
Proof. exact yield_ppt_undeliverable_ends_call_proof. Qed.
Print Assumptions yield_ppt_undeliverable_ends_call.

Example yield_ppt_undeliverable_ex :
    dealer_wf (lk 1 1) d5 /\
    (exists inv, cget (d_invs d5) (12, 1) = Some inv /\ inv_call inv = (10, 8)) /\
    ppt_active ppt_opts = true /\ has_ppt (lk 1 1) 12 "callee" = false /\
    snd (sync_yield (lk 1 1) d5 12 1 ppt_opts [vnat 1] []) =
      [(10, RError c_CALL 8 ppt_error_details e_feature_not_supported [] []);
       (12, RAbort [("message", vstr "<text>")] e_protocol_violation)] /\
    gone (fst (sync_yield (lk 1 1) d5 12 1 ppt_opts [vnat 1] [])) (10, 8) (12, 1).
Proof.
  split; [exact wf_d5|]. split; [eexists; vm_compute; split; reflexivity|].
  vm_compute. repeat split; reflexivity.
Qed.

(** the owner's ERROR *)
Theorem prompt_error : forall lookup d callee req det err args kw inv,
    dealer_wf lookup d -> cget (d_invs d) (callee, req) = Some inv ->
    let cid := inv_call inv in
    exists d', sync_error d callee req det err args kw = (d', [(fst cid, RError c_CALL (snd cid) det err args kw)]) /\
               gone d' cid (callee, req).
Proof. exact prompt_error_proof. Qed.
Print Assumptions prompt_error.

Example prompt_answer_ex :
    (exists inv, cget (d_invs d3) (11, 1) = Some inv /\ inv_call inv = (10, 7)) /\
    snd (sync_yield (lk 1 0) d3 11 1 [] [vnat 1] []) = [(10, RResult 7 [] [vnat 1] [])] /\
    gone (fst (sync_yield (lk 1 0) d3 11 1 [] [vnat 1] [])) (10, 7) (11, 1).
Proof. split; [eexists|]; vm_compute; repeat split; reflexivity. Qed.

(** the callee's session ends: every call it was serving is answered
    wamp.error.canceled ["callee gone"] and erased *)
Theorem prompt_callee_gone : forall lookup lookup' lk d sid,
    dealer_wf lookup d -> (forall x, x <> sid -> lookup' x = lookup x) ->
    forall k inv, cget (d_invs d) k = Some inv -> inv_callee inv = sid ->
      let cid := inv_call inv in
      In (fst cid, RError c_CALL (snd cid) [] e_canceled [vstr "callee gone"] [])
         (snd (fst (dealer_remove_session lk d sid))) /\
      gone (fst (fst (dealer_remove_session lk d sid))) cid k.
Proof. exact prompt_callee_gone_proof. Qed.
Print Assumptions prompt_callee_gone.

(** ... including a call cancelled in kill mode before (the repaired defect) *)
Theorem kill_cancel_then_callee_gone : forall lookup lk d caller req opts ikey inv x,
    dealer_wf lookup d ->
    opt_string opts "mode" = "kill" ->
    pending d (caller, req) ikey inv x -> inv_canceled inv = false ->
    callee_can_cancel lookup inv = true ->
    let d1 := fst (cancel lookup d caller req opts) in
    let r := dealer_remove_session lk d1 (inv_callee inv) in
    In (caller, RError c_CALL req [] e_canceled [vstr "callee gone"] []) (snd (fst r)) /\
    gone (fst (fst r)) (caller, req) ikey.
Proof. exact kill_cancel_then_callee_gone_proof. Qed.
Print Assumptions kill_cancel_then_callee_gone.

Example callee_gone_ex :
    snd (fst (dealer_remove_session (lk 1 0) d3 11)) = [(10, RError c_CALL 7 [] e_canceled [vstr "callee gone"] [])] /\
    (* d4 = d3 after CANCEL mode kill *)
    snd (fst (dealer_remove_session (lk 1 0) d4 11)) = [(10, RError c_CALL 7 [] e_canceled [vstr "callee gone"] [])] /\
    gone (fst (fst (dealer_remove_session (lk 1 0) d4 11))) (10, 7) (11, 1) /\
    (* the caller leaves: its call is dropped silently *)
    (let d' := fst (fst (dealer_remove_session (lk 1 0) d3 10)) in d_calls d' = [] /\ d_invs d' = [] /\ d_timers d' = []).
Proof. vm_compute. repeat split; reflexivity. Qed.

(** CANCEL skip / killnowait / default by the owner *)
Theorem prompt_cancel : forall lookup d caller req opts ikey inv x,
    opt_string opts "mode" = "skip" \/ opt_string opts "mode" = "killnowait" \/ opt_string opts "mode" = "" ->
    pending d (caller, req) ikey inv x -> inv_canceled inv = false ->
    In (caller, RError c_CALL req [] e_canceled [] []) (snd (cancel lookup d caller req opts)) /\
    gone (fst (cancel lookup d caller req opts)) (caller, req) ikey.
Proof. exact prompt_cancel_proof. Qed.
Print Assumptions prompt_cancel.

(** the router-side timeout expires with no kill-mode cancel outstanding *)
Theorem prompt_timeout : forall lookup now d tid dl cid k inv x,
    calls_core d ->
    nget (d_timers d) tid = Some (dl, cid) -> dl <= now ->
    pending d cid k inv x -> inv_canceled inv = false ->
    In (fst cid, RError c_CALL (snd cid) [] e_timeout [vstr "call timeout"] []) (snd (fire_timers lookup now d)) /\
    gone (fst (fire_timers lookup now d)) cid k.
Proof. exact prompt_timeout_proof. Qed.
Print Assumptions prompt_timeout.

Example prompt_cancel_timeout_ex :
    (exists ikey inv x, pending d3 (10, 7) ikey inv x /\ inv_canceled inv = false /\
                        nget (d_timers d3) 1 = Some (105, (10, 7))) /\
    In (10, RError c_CALL 7 [] e_canceled [] []) (snd (cancel (lk 1 0) d3 10 7 [])) /\
    In (10, RError c_CALL 7 [] e_timeout [vstr "call timeout"] []) (snd (fire_timers (lk 1 0) 200 d3)).
Proof.
  split; [eexists; eexists; eexists; vm_compute; repeat split; reflexivity|].
  vm_compute. split; [right; left; reflexivity | right; left; reflexivity].
Qed.

(** ** Junk is harmless: YIELD / ERROR for an invocation the sender does not
    own, CANCEL for an unknown / foreign / finished / already cancelled call *)
Theorem junk_harmless : forall lookup d sid req,
    (forall lk opts args kw, cget (d_invs d) (sid, req) = None ->
       fst (sync_yield lk d sid req opts args kw) = d /\
       forall m, In m (snd (sync_yield lk d sid req opts args kw)) ->
                 m = (sid, RInterrupt req [("mode", vstr "killnowait")]) /\ opt_bool opts "progress" = true) /\
    (forall det err args kw, cget (d_invs d) (sid, req) = None ->
       sync_error d sid req det err args kw = (d, [])) /\
    (forall opts, valid_cancel_mode (opt_string opts "mode") ->
       (cget (d_calls d) (sid, req) = None \/
        exists ikey inv, cget (d_bycall d) (sid, req) = Some ikey /\ cget (d_invs d) ikey = Some inv /\
                         inv_canceled inv = true) ->
       cancel lookup d sid req opts = (d, [])) /\
    (forall opts, ~ valid_cancel_mode (opt_string opts "mode") ->
       cancel lookup d sid req opts = (d, [(sid, RError c_CANCEL req [] e_invalid_argument [vstr "<text>"] [])])).
Proof. exact junk_harmless_proof. Qed.
Print Assumptions junk_harmless.

Example junk_harmless_ex :
    cget (d_invs d3) (12, 1) = None /\ cget (d_invs d3) (11, 2) = None /\
    sync_yield (lk 1 0) d3 12 1 [] [vnat 1] [] = (d3, []) /\
    sync_yield (lk 1 0) d3 11 2 [("progress", VBool true)] [] [] = (d3, [(11, RInterrupt 2 [("mode", vstr "killnowait")])]) /\
    sync_error d3 12 1 [] "x" [] [] = (d3, []).
Proof. vm_compute. repeat split; reflexivity. Qed.

(** ** From steps to histories
    A call record appears only through [call], and only for the CALL being
    processed ... *)
Theorem calls_grow_only_by_call : forall lookup d,
    dealer_wf lookup d ->
    (forall lk caller req opts c x,
        cget (d_calls (fst (cancel lk d caller req opts))) c = Some x -> cget (d_calls d) c = Some x) /\
    (forall lk callee req opts args kw c x,
        cget (d_calls (fst (sync_yield lk d callee req opts args kw))) c = Some x -> cget (d_calls d) c = Some x) /\
    (forall callee req det err args kw c x,
        cget (d_calls (fst (sync_error d callee req det err args kw))) c = Some x -> cget (d_calls d) c = Some x) /\
    (forall lk now c x,
        cget (d_calls (fst (fire_timers lk now d))) c = Some x -> cget (d_calls d) c = Some x) /\
    (forall lk sid c x,
        cget (d_calls (fst (fst (dealer_remove_session lk d sid)))) c = Some x -> cget (d_calls d) c = Some x) /\
    (forall cfg callee req opts proc, d_calls (fst (fst (register cfg d callee req opts proc))) = d_calls d) /\
    (forall sid req regid, d_calls (fst (fst (unregister d sid req regid))) = d_calls d) /\
    (forall cfg now caller req opts proc args kw oracle,
        match call cfg lookup now d caller req opts proc args kw oracle with
        | CallRefused d' _ => forall c x, cget (d_calls d') c = Some x -> cget (d_calls d) c = Some x
        | CallAbort _ => True
        | CallInvoked d' _ _ =>
            forall c x, cget (d_calls d') c = Some x -> cget (d_calls d) c = Some x \/ c = (s_id caller, req)
        end).
Proof. exact calls_grow_only_by_call_proof. Qed.
Print Assumptions calls_grow_only_by_call.

(** ... so, for every history of dealer function applications, each from a
    well-formed state ([dealer_fn_step]: cancel, sync_yield, sync_error,
    fire_timers, dealer_remove_session, register, unregister, call): after the
    final reply for [cid], a later step sends another reply for [cid] only if a
    CALL [cid] was processed in between (the step's label is [Some cid]); and
    within one function's output nothing for [cid] follows its final reply.
    No exclusion is needed any more (a final YIELD always ends the call).
    Not yet instantiated to [Realm.run], one step of which composes several
    dealer functions. *)
Theorem dealer_reply_unique : forall s0 pre t1 mid t2 post cid m1 m2,
    chained dealer (option callid) s0 (pre ++ t1 :: mid ++ t2 :: post) ->
    Forall dealer_fn_step (pre ++ t1 :: mid ++ t2 :: post) ->
    In m1 (outp _ _ t1) -> reply_of m1 = Some (cid, true) ->
    In m2 (outp _ _ t2) -> replies_to cid m2 ->
    (forall t, In t (mid ++ [t2]) -> lab _ _ t <> Some cid) -> False.
Proof. exact dealer_reply_unique_proof. Qed.
Print Assumptions dealer_reply_unique.

Theorem dealer_reply_once : forall t, dealer_fn_step t ->
    forall o1 m o2 cid, outp _ _ t = o1 ++ m :: o2 -> reply_of m = Some (cid, true) ->
      forall m', In m' o2 -> ~ replies_to cid m'.
Proof. exact dealer_reply_once_proof. Qed.
Print Assumptions dealer_reply_once.

(** each dealer function application satisfies the four per-step facts *)
Theorem dealer_fn_step_admissible : forall t, dealer_fn_step t ->
    step_ok dealer (option callid) drec dis_call t.
Proof. exact dealer_fn_step_ok. Qed.
Print Assumptions dealer_fn_step_admissible.

Example dealer_reply_unique_history_ex :
    chained dealer (option callid) d3 ([] ++ hx1 :: [hx2] ++ hx3 :: []) /\
    Forall dealer_fn_step ([] ++ hx1 :: [hx2] ++ hx3 :: []) /\
    (exists m1, In m1 (outp _ _ hx1) /\ reply_of m1 = Some ((10, 7), true)) /\
    (exists m2, In m2 (outp _ _ hx3) /\ replies_to (10, 7) m2) /\
    lab _ _ hx2 = Some (10, 7).
Proof. exact dealer_reply_unique_ex. Qed.

(** the combinatorial core, for any labelled transition system *)
Theorem reply_unique_partial : forall (S L : Type) (rec : S -> callid -> Prop) (is_call : L -> callid -> Prop)
      s0 pre t1 mid t2 post cid m1 m2,
    chained S L s0 (pre ++ t1 :: mid ++ t2 :: post) ->
    Forall (step_ok S L rec is_call) (pre ++ t1 :: mid ++ t2 :: post) ->
    In m1 (outp S L t1) -> reply_of m1 = Some (cid, true) ->
    In m2 (outp S L t2) -> replies_to cid m2 ->
    (forall t, In t (mid ++ [t2]) -> ~ is_call (lab S L t) cid) -> False.
Proof. exact reply_unique_abstract. Qed.
Print Assumptions reply_unique_partial.

Example reply_unique_partial_ex :
    chained dealer bool d3 ([] ++ ex_t1 :: [ex_t2] ++ ex_t3 :: []) /\
    Forall (step_ok dealer bool ex_rec ex_is_call) ([] ++ ex_t1 :: [ex_t2] ++ ex_t3 :: []) /\
    (exists m1, In m1 (outp _ _ ex_t1) /\ reply_of m1 = Some ((10, 7), true)) /\
    (exists m2, In m2 (outp _ _ ex_t3) /\ replies_to (10, 7) m2) /\
    ex_is_call (lab _ _ ex_t2) (10, 7).
Proof. exact reply_unique_ex. Qed.
