(** * History-level corollaries for C05 over the whole router model

    One of three files (Props/HistoriesC02.v, HistoriesC03.v, HistoriesC05.v);
    the common explanation follows. *)
(** * History-level corollaries over the whole router model (C02, C05, C03)

    Statements only; proofs in Router/RealmTraceLib.v, RealmTrace.v,
    RealmTraceC05.v, RealmTraceInv.v, RealmTraceC03.v; concrete histories in
    Router/RealmTraceEx.v.

    Every statement is about [run (init_realm cfg) ops] for EVERY operation
    list [ops] (sessions joining, client messages with their tie-break oracle,
    transports dropping, virtual time passing), under the side hypotheses of the
    reachable-state theorems (Props/C05.v): [Forall op_ok ops] (a joining
    session id is a valid WAMP id) and the no-wrap bound
    [k0 cfg + length ops <= 2^53].

    [trace cfg ops] is the history as one list of events: each operation
    [EIn o] followed by the messages [EOut (receiver, message)] the router sent
    while handling it, in order.

    C02.  [mon_run (x, q) false tr] runs the reply monitor of call id
    (caller session [x], request id [q]) over [tr]: it opens at a
    [CALL q] from [x], must be open when a RESULT [q] / ERROR(CALL) [q] is sent
    to [x], and shuts at a final one (RESULT without [progress = true], or
    ERROR(CALL)); it fails ([None]) exactly when such a reply is sent while it
    is shut.  [realm_reply_discipline]: it never fails.  Its two readable
    consequences: [realm_reply_owned] and [realm_reply_unique].

    FOUND FALSE OF THE MODEL (and of router/realm.go authzMessage): without a
    hypothesis on the authorization gate the uniqueness statement fails.  When
    the authorizer refuses a further chunk of a pending progressive call, the
    realm answers ERROR(CALL) itself, the dealer is not told, the call stays
    recorded, and the callee's RESULT is delivered afterwards: two final
    replies for one CALL ([realm_reply_unique_refuted], a six-operation
    history).  (An authorizer may also hand back a different message, e.g.
    turn a PUBLISH into a CALL, which breaks ownership trivially.)  The
    theorems therefore carry [along gate_fresh (init_realm cfg) ops]: at every
    step of the history the gate (a) admits a message as a CALL [q] exactly when
    it received a CALL [q], and (b) refuses with an ERROR(CALL) only CALL
    messages whose id is not that of a recorded (pending) call.  It holds
    outright without authorizer ([gate_fresh_no_authz]) and for an authorizer
    that keeps the CALL identity of messages and never refuses a message of
    type CALL ([gate_fresh_call_safe]); [GateEx] shows it holding with an
    authorizer that does refuse a CALL.  These are the [_partial] statements;
    the full ones are the [_noauthz] corollaries.

    C03.  [inv_ev y b e]: event [e] is an INVOCATION with request id [b] sent
    to session [y]; [sent y b tr]: such an event occurs in [tr];
    [sent_live y b tr]: it occurs and no JOIN operation with session id [y]
    comes after it in [tr] (ids restart when a session id is used again).
    [invocation_ids_increase] needs no hypothesis on the gate.

    FOUND FALSE OF THE MODEL as literally stated: "after UNREGISTERED no
    INVOCATION naming that registration reaches the session unless it registers
    again" — a further chunk of a progressive call that was routed to the
    session before is still delivered to it, under the id of the registration
    the chunk's procedure currently resolves to
    ([invocation_after_unregistered_refuted]: shared registration, the other
    callee keeps it alive).  The true statement excepts further chunks
    ([no_invocation_after_unregistered_partial]); it carries
    [along gate_unreg_id]: the gate admits an UNREGISTER as the UNREGISTER it
    received (an authorizer could otherwise swap the registration id). *)
From Nexus Require Import Router.Realm Router.DealerLib Router.DealerReply Router.DealerTrace.
From Nexus Require Import Router.RealmWf Router.RealmStep.
From Nexus Require Import Router.RealmTraceLib Router.RealmTrace Router.RealmTraceC05 Router.RealmTraceInv
     Router.RealmTraceC03 Router.RealmTraceEx.


(** ** C05 over histories: once a session has ended, no later step sends it
    anything, until (if ever) a session with that id joins again *)
Theorem ended_session_silent : forall cfg pre o mid o' post s m out,
    let ops := pre ++ o :: mid ++ o' :: post in
    Forall op_ok ops -> k0 cfg + N.of_nat (List.length ops) <= max_idN ->
    (* [s] ends at [o]: attached before it, not after it *)
    client (fst (run (init_realm cfg) pre)) s ->
    ~ client (fst (run (init_realm cfg) (pre ++ [o]))) s ->
    (* nobody joins with the id of [s] up to and including the later operation [o'] *)
    (forall l h, ~ In (OJoin s l h) (mid ++ [o'])) ->
    (* [out] is what the router sent while handling [o'] *)
    nth_error (snd (run (init_realm cfg) ops)) (List.length (pre ++ o :: mid)) = Some out ->
    ~ In (s, m) out.
Proof. exact ended_session_silent_proof. Qed.
Print Assumptions ended_session_silent.

(** sessions become attached only by joining *)
Theorem attached_only_by_join : forall r o k x,
    realm_wf r -> ids_below k r -> k < max_idN -> op_ok o ->
    lookup (fst (step r o)) x <> None -> lookup r x <> None \/ exists l h, o = OJoin x l h.
Proof. exact step_lookup_sub. Qed.
Print Assumptions attached_only_by_join.

(** ** Non-vacuity *)
(** C05: session 11 is dropped; the later call of its procedure sends it
    nothing (the caller is told no_such_procedure) *)
Example histories_c05_hypotheses_satisfiable :
    Forall op_ok EndedEx.ops2 /\ k0 EndedEx.cfg0 + N.of_nat (List.length EndedEx.ops2) <= max_idN /\
    client (fst (run (init_realm EndedEx.cfg0) EndedEx.pre2)) 11 /\
    ~ client (fst (run (init_realm EndedEx.cfg0) (EndedEx.pre2 ++ [ODrop 11]))) 11 /\
    (forall l h, ~ In (OJoin 11 l h) (EndedEx.mid2 ++ [EndedEx.late2])) /\
    nth_error (snd (run (init_realm EndedEx.cfg0) EndedEx.ops2)) (List.length (EndedEx.pre2 ++ ODrop 11 :: EndedEx.mid2)) =
    Some [(10, RError c_CALL 5 [] e_no_such_procedure [] [])].
Proof. exact EndedEx.hyps. Qed.
