(** * C07 — An unresponsive client never blocks others; the router never deadlocks.

    Statements only; every proof is [exact] of a lemma of the [Conc] family.

    What the theorems are about: (a) a protocol-level model of the bounded,
    non-blocking client outboxes ([Conc/Stall.v]); (b) an abstract network of
    ranked server processes ([Conc/Ranked.v]), for any number of processes;
    (c) the inventory of blocking operations regenerated from /repo on every
    run by the translator ([gen/GenSkeleton.v]).  (c) ties (b) to today's
    source: the network theorem is instantiated for every network whose calls
    are drawn from the regenerated inventory.  The Go scheduler and runtime
    are sampled by the harness, not modelled. *)

From Coq Require Import String List NArith Bool Arith.
From Nexus Require Import Conc.SkelTypes Conc.Machine Conc.MachineFacts
  Conc.Ranked Conc.RankedProofs Conc.Stall Conc.StallProofs Conc.YieldRetry Conc.CancelModel
  Conc.Shutdown Conc.Skeleton Conc.SkeletonProofs Conc.SkelObligationsC07 gen.GenSkeleton.
Import ListNotations.

(** ** (a) Outboxes *)

(** A client outbox fed only by [try_send] never exceeds its capacity, for
    every history and every capacity assignment. *)
Theorem outbox_bounded :
  forall (cap : nat -> nat) (h : list event) (s : nat),
    length (outq (Stall.run cap h) s) <= cap s.
Proof. exact StallProofs.outbox_bounded. Qed.
Print Assumptions outbox_bounded.

(** FULL statement (documented exception only): for every history in which no
    session yields a result to A, what every other session B observes — how
    each of its requests was taken and every message it is sent, in order —
    is the same whether A reads or not.  REFUTED by the current code's
    protocol: a stalled caller of a meta procedure holds the realm's single
    meta-session handler in the RESULT retry, and a bystander's REGISTER /
    UNREGISTER / join / leave waits behind it (known finding
    meta-result-retry-blocks-metapeer). *)
Theorem stall_non_interference_refuted :
  exists cap h a b,
    b <> a /\ no_yield_to a h /\
    obs_of b (Stall.run cap h) <> obs_of b (Stall.run cap (strip a h)).
Proof. exact StallProofs.stall_non_interference_refuted. Qed.
Print Assumptions stall_non_interference_refuted.

(** PARTIAL: the same statement with exactly the excluded trigger as extra
    hypothesis — A (the session that stops reading) calls no meta procedure,
    i.e. no meta-procedure result is owed to a non-draining session. *)
Theorem stall_non_interference_partial :
  forall (cap : nat -> nat) (h : list event) (a b : nat),
    b <> a -> no_yield_to a h -> no_metacall_by a h ->
    obs_of b (Stall.run cap h) = obs_of b (Stall.run cap (strip a h)).
Proof. exact StallProofs.stall_non_interference_partial. Qed.
Print Assumptions stall_non_interference_partial.

(** Its hypotheses are satisfiable with A stalled on a full queue while others work. *)
Example stall_hypotheses_satisfiable :
  no_yield_to 1 sat_history /\ no_metacall_by 1 sat_history /\
  length (outq (Stall.run refute_cap sat_history) 1) = 1 /\
  obs_of 2 (Stall.run refute_cap sat_history) = [Got 3; Immediate; Immediate].
Proof. exact StallProofs.partial_hypotheses_satisfiable. Qed.

(** The documented exception is bounded: the retry loop of [dealer.yield]
    (delays d, 2d, 4d, ..., deadline D checked after each delay) lasts less
    than 2D + d, for all d and D — and for today's constants. *)
Theorem yield_retry_bounded :
  forall d D : N, (0 < D)%N -> (retry_total d D < 2 * D + d)%N.
Proof. exact StallProofs.yield_retry_bounded. Qed.
Print Assumptions yield_retry_bounded.

Theorem yield_retry_window :
  (0 < gen_send_result_deadline_ms)%N /\
  (retry_total gen_yield_retry_delay_ms gen_send_result_deadline_ms
   < 2 * gen_send_result_deadline_ms + gen_yield_retry_delay_ms)%N.
Proof. exact yield_retry_window_holds. Qed.
Print Assumptions yield_retry_window.

(** What the exception promises (model [Conc/YieldRetry.v] of one call in
    [dealer.yield] / [dealer.syncYield]; [room e]: the caller's queue has room
    at instant e after the YIELD; [inst d k] is the k-th retry instant
    d, 3d, 7d, ...): a YIELD that found the caller's queue full is delivered at
    the FIRST retry instant at which the caller has room ... *)
Theorem retried_yield_delivered_at_first_room :
  forall (room : N -> bool) (d D : N) (k : nat),
    (k < 64)%nat ->
    room 0%N = false ->
    (forall j, (j < k)%nat -> room (inst d j) = false /\ (inst d j < D)%N) ->
    room (inst d k) = true ->
    snd (YieldRetry.run true room d D) = (inst d k, Delivered).
Proof. exact YieldRetry.retried_yield_delivered. Qed.
Print Assumptions retried_yield_delivered_at_first_room.

(** ... and otherwise the call is cancelled at the first retry instant that
    has reached the deadline (the callee's handler is released then). *)
Theorem retried_yield_cancelled_at_deadline :
  forall (room : N -> bool) (d D : N) (k : nat),
    (k < 64)%nat ->
    room 0%N = false ->
    (forall j, (j < k)%nat -> room (inst d j) = false /\ (inst d j < D)%N) ->
    room (inst d k) = false -> (D <= inst d k)%N ->
    snd (YieldRetry.run true room d D) = (inst d k, Cancelled).
Proof. exact YieldRetry.retried_yield_cancelled. Qed.
Print Assumptions retried_yield_cancelled_at_deadline.

Theorem retry_instants_closed_form :
  forall (k : nat) (d : N), (inst d k + d = d * 2 ^ N.of_nat (S k))%N.
Proof. exact YieldRetry.inst_closed_form. Qed.
Print Assumptions retry_instants_closed_form.

(** The invocation is KEPT during the retries ([keepInvocation]): every
    attempt finds it, whatever the caller does. *)
Theorem invocation_kept_during_retries :
  forall (room : N -> bool) (d D : N),
    Forall (fun a => snd a = true) (fst (YieldRetry.run true room d D)) /\
    snd (snd (YieldRetry.run true room d D)) <> Lost.
Proof. exact YieldRetry.invocation_kept_during_retries. Qed.
Print Assumptions invocation_kept_during_retries.

(** Without it (the deferred clean-up also runs when a retry was asked for)
    the statement is FALSE in the model: whatever the caller does, the first
    retry finds nothing — no RESULT, no cancellation. *)
Theorem retried_yield_refuted_without_keep :
  forall (room : N -> bool) (d D : N),
    room 0%N = false -> snd (YieldRetry.run false room d D) = (d, Lost).
Proof. exact YieldRetry.yield_retry_without_keep_loses_result. Qed.
Print Assumptions retried_yield_refuted_without_keep.

(** When the caller never has room the retries end at [retry_total]. *)
Theorem never_room_ends_at_retry_total :
  forall d D : N, fst (snd (YieldRetry.run true (fun _ => false) d D)) = retry_total d D.
Proof. exact YieldRetry.never_room_ends_at_retry_total. Qed.
Print Assumptions never_room_ends_at_retry_total.

(** Per run: the translator's reading of today's [dealer.syncYield]. *)
Theorem yield_retry_keeps_invocation :
  Skeleton.yield_retry_keeps_invocation gen_yield_retry_keeps_invocation = true.
Proof. exact yield_retry_keeps_invocation_holds. Qed.
Print Assumptions yield_retry_keeps_invocation.

(** The call's own timeout cannot take an answered call away: once the callee
    has answered finally the timer is stopped, also while the RESULT is being
    retried — whenever it would have expired. *)
Theorem call_timeout_irrelevant_once_answered :
  forall (room : N -> bool) (tmo : option N) (d D : N),
    run_t true room tmo d D = snd (YieldRetry.run true room d D).
Proof. exact YieldRetry.call_timeout_irrelevant_once_answered. Qed.
Print Assumptions call_timeout_irrelevant_once_answered.

(** If only the clean-up (which the retry skips) stops the timer the statement
    is FALSE: a timeout expiring no later than the first retry ends the call. *)
Theorem retried_yield_refuted_without_timer_stop :
  forall (room : N -> bool) (d D x : N),
    room 0%N = false -> (x <= d)%N -> run_t false room (Some x) d D = (d, TimedOut).
Proof. exact YieldRetry.retried_yield_times_out_without_stop. Qed.
Print Assumptions retried_yield_refuted_without_timer_stop.

Theorem yield_stops_timer_before_retry :
  Skeleton.yield_stops_timer_before_retry gen_yield_stops_timer_before_retry = true.
Proof. exact yield_stops_timer_before_retry_holds. Qed.
Print Assumptions yield_stops_timer_before_retry.

(** A CANCEL towards a callee that does not read ([Conc/CancelModel.v]): the
    caller has its answer or the callee has an INTERRUPT to answer; a full
    queue degrades every mode to skip. *)
Theorem cancel_never_strands_caller :
  forall (m : cmode) (callee_cancels room : bool),
    let r := sync_cancel true m callee_cancels room in
    (caller_answered r = true \/ interrupt_queued r = true) /\
    caller_answered r = call_removed r.
Proof. exact CancelModel.cancel_never_strands_caller. Qed.
Print Assumptions cancel_never_strands_caller.

Theorem full_queue_degrades_to_skip :
  forall (m : cmode) (callee_cancels : bool),
    sync_cancel true m callee_cancels false = mkCR false true true.
Proof. exact CancelModel.full_queue_degrades_to_skip. Qed.
Print Assumptions full_queue_degrades_to_skip.

Theorem cancel_strands_caller_refuted :
  sync_cancel false Kill true false = mkCR false false false.
Proof. exact CancelModel.cancel_strands_caller_refuted. Qed.
Print Assumptions cancel_strands_caller_refuted.

Theorem cancel_waits_only_if_interrupt_sent :
  Skeleton.cancel_waits_only_if_interrupt_sent gen_cancel_waits_only_if_interrupt_sent = true.
Proof. exact cancel_waits_only_if_interrupt_sent_holds. Qed.
Print Assumptions cancel_waits_only_if_interrupt_sent.

(** ** (b) Ranked progress, proved once, for any number of processes *)

Theorem ranked_progress :
  forall (P : Type) (P_eqb : P -> P -> bool),
    (forall a b, P_eqb a b = true <-> a = b) ->
  forall (H : Type) (rank : P -> nat) (script : P -> H -> list (action P H)),
    @ranked P H rank script ->
  forall s, @reach P P_eqb H script s ->
    ((exists p, @st P H s p <> @Idle P H) -> exists s', @istep P P_eqb H script s s') /\
    (forall s', @istep P P_eqb H script s s' ->
        @measure P P_eqb H rank script s' < @measure P P_eqb H rank script s) /\
    (forall n s', isteps P P_eqb H script n s s' -> n <= @measure P P_eqb H rank script s) /\
    (forall n s', isteps P P_eqb H script n s s' ->
        (forall s'', ~ @istep P P_eqb H script s' s'') ->
        RankedProofs.quiescent P H s' /\ forall p q, ~ @pending_call P H s' p q).
Proof. exact RankedProofs.ranked_progress. Qed.
Print Assumptions ranked_progress.

(** ** (c) Per-run obligations over the regenerated inventory *)

Theorem no_blocking_send_to_client :
  Skeleton.no_blocking_send_to_client gen_funcs = true.
Proof. exact no_blocking_send_to_client_holds. Qed.
Print Assumptions no_blocking_send_to_client.

Theorem wait_graph_ranked :
  Skeleton.wait_graph_ranked gen_funcs gen_entries gen_meta_inbound = true.
Proof. exact wait_graph_ranked_holds. Qed.
Print Assumptions wait_graph_ranked.

Theorem no_peer_close_in_shared_server :
  Skeleton.no_peer_close_in_shared_server gen_funcs = true.
Proof. exact no_peer_close_in_shared_server_holds. Qed.
Print Assumptions no_peer_close_in_shared_server.

(** The two handshake sends are the only blocking client sends; they are the
    first message queued for that peer and therefore fit. *)
Theorem first_message_fits :
  forall (L chan var lock wgid val : Type)
         (chan_eqb : chan -> chan -> bool) (var_eqb : var -> var -> bool)
         (lock_eqb : lock -> lock -> bool) (wg_eqb : wgid -> wgid -> bool)
         (code : L -> Machine.act L chan var lock wgid val)
         (s : Machine.state L chan var lock wgid val) i l c v k,
    outcome s = None ->
    nth_error (procs s) i = Some l ->
    code l = ASend c v k ->
    c_closed (chans s c) = false ->
    c_buf (chans s c) = [] ->
    1 <= c_cap (chans s c) ->
    exists s', Machine.step chan_eqb var_eqb lock_eqb wg_eqb code s (EInt i 0) = Some s' /\ outcome s' = None.
Proof. exact MachineFacts.first_message_fits. Qed.
Print Assumptions first_message_fits.

(** ** (b) + (c): the router's workers, as found in today's source

    Any network — however many session handlers, attach goroutines, timers —
    whose blocking calls are among the blocking operations of the regenerated
    inventory never deadlocks, and every request it has accepted is eventually
    taken. *)
Theorem router_workers_progress :
  forall (P : Type) (P_eqb : P -> P -> bool),
    (forall a b, P_eqb a b = true <-> a = b) ->
  forall (H : Type) (kind_of : P -> gkind) (script : P -> H -> list (action P H)),
    drawn_from P H kind_of script gen_funcs ->
  forall s, @reach P P_eqb H script s ->
    ((exists p, @st P H s p <> @Idle P H) -> exists s', @istep P P_eqb H script s s') /\
    (forall n s', isteps P P_eqb H script n s s' ->
        (forall s'', ~ @istep P P_eqb H script s' s'') ->
        RankedProofs.quiescent P H s' /\ forall p q, ~ @pending_call P H s' p q).
Proof. exact SkeletonProofs.router_workers_progress. Qed.
Print Assumptions router_workers_progress.

(** Non-vacuity: a network of two session handlers, the realm and the dealer,
    with calls found in the inventory, is drawn from it. *)
Example drawn_from_satisfiable : SkeletonProofs.example_network_drawn.
Proof. exact SkeletonProofs.example_network_drawn_holds. Qed.
