(** * History-level corollaries for C01 (pub/sub exact delivery) over the whole
    router model

    Statements only; proofs in Router/RealmTraceC01Seg.v (a step as a sequence
    of broker operations), RealmTraceC01Ev.v, RealmTraceC01Mon.v (the
    subscription monitor), RealmTraceC01Kind.v, RealmTraceC01Ok.v,
    RealmTraceC01Sub.v, RealmTraceC01Exact.v, RealmTraceC01Pub.v,
    RealmTraceC01PubH.v; concrete histories in Router/RealmTraceBrokerEx.v.

    Every statement is about [run (init_realm cfg) ops] for EVERY operation
    list [ops] (sessions joining, client messages, transports dropping, virtual
    time passing), under the side hypotheses of the reachable-state theorems:
    [Forall op_ok ops] and the no-wrap bound [k0 cfg + length ops <= 2^53].
    [trace cfg ops] is the history as one list of events ([EIn o]: operation
    [o] arrives; [EOut (y, m)]: the router sends [m] to session [y]).

    (a) The subscription monitor of (session [y], subscription id [sub]),
    [sm_run y sub (false, None) tr], reads the history event by event.  Its
    state is a flag "[y] holds [sub]" and the operation being handled.  The
    flag is set by a SUBSCRIBED [sub] sent to [y].  It is cleared ("reset",
    [resets]) by: an UNSUBSCRIBED [q] sent to [y] while the operation being
    handled is [y]'s UNSUBSCRIBE [q] of [sub]; an ABORT or a GOODBYE sent to
    [y]; the operation [ODrop y].  It fails ([None]) exactly when an EVENT for
    [sub] is sent to [y] while the flag is clear.  [realm_sub_discipline]: it
    never fails.  Readable form [realm_event_only_to_subscriber]: every EVENT
    [sub] sent to [y] is preceded by a SUBSCRIBED [sub] sent to [y] with no
    reset in between ([quiet_for]) — no EVENT for a subscription the session
    does not hold, none after UNSUBSCRIBED, none after the session ended.

    FOUND FALSE OF THE MODEL without a hypothesis on the authorization gate
    (and of router/realm.go authzMessage, where the authorizer receives the
    message and may alter it): an authorizer that turns UNSUBSCRIBE of
    subscription 1 into UNSUBSCRIBE of subscription 2 makes the router answer
    UNSUBSCRIBED and keep sending EVENTs of subscription 1
    ([realm_sub_discipline_refuted], six operations).  The theorems therefore
    carry [along gate_unsub_id]: at every step the gate admits an UNSUBSCRIBE as
    the UNSUBSCRIBE it received; it holds without authorizer
    ([gate_unsub_id_no_authz]) and for an authorizer that never alters an
    UNSUBSCRIBE ([gate_unsub_id_static]).  These are the [_partial] statements;
    the full ones are the [_noauthz] corollaries.

    (b) [realm_publish_exact]: at every state a history reaches, what [step]
    sends while handling an admitted PUBLISH is exactly: the PUBLISHED (iff
    acknowledge) and one EVENT per (subscription s, subscriber z) with s
    matching the topic, z attached, allowed by the filter and not the
    excluded publisher ([receives], [event_for] of Props/C01.v) — nothing
    else; sessions and dealer are untouched.  Same for the meta session's
    publications ([realm_meta_publish_exact]); refusals and the passthru
    violation are [realm_publish_refused], [realm_publish_aborts].

    (c) Publication ids ([pubid_of]: the id an EVENT / PUBLISHED carries).
    [realm_event_pubid_fresh]: every id sent while handling an operation is
    greater than every id sent earlier in the history (and bounded by the id
    supply [r_pubgen]); within a step ids never decrease.
    [realm_pubids_monotone]: along the whole trace ids never decrease.
    [realm_publish_one_id]: all EVENTs and the PUBLISHED of one PUBLISH carry
    the one id [pg + 1].  [realm_step_pubids_cut]: at every cut between two
    broker operations of a step, ids before the cut <= the supply at the cut <
    ids after it (different publications of one step have different ids). *)
From Nexus Require Import Router.Realm Router.BrokerWf Router.BrokerPublish Router.BrokerRun.
From Nexus Require Import Router.RealmWf Router.RealmStep.
From Nexus Require Import Router.RealmTraceLib Router.RealmTraceC01Seg Router.RealmTraceC01Ev Router.RealmTraceC01Mon
     Router.RealmTraceC01Ok Router.RealmTraceC01Sub Router.RealmTraceC01Exact Router.RealmTraceC01Pub
     Router.RealmTraceC01PubH Router.RealmTraceBrokerEx.

(** ** The decomposition everything rests on *)

(** replaying the segments of a step on the broker and the id supply of [r]
    yields the broker, the id supply and the output of [step r o]; every broker
    operation is run with the current id supply *)
Theorem realm_step_decomp : forall r o,
    r_cfg (fst (step r o)) = r_cfg r /\
    seg_thr (r_cfg r) (r_broker r) (r_pubgen r) (segs_step r o) /\
    seg_run (r_cfg r) (r_broker r) (r_pubgen r) (segs_step r o) =
    (r_broker (fst (step r o)), r_pubgen (fst (step r o)), snd (step r o)).
Proof. exact step_decomp. Qed.
Print Assumptions realm_step_decomp.

(** ** (a) EVENTs only to current subscribers *)

Theorem realm_sub_discipline_partial : forall cfg ops y sub,
    Forall op_ok ops -> k0 cfg + N.of_nat (List.length ops) <= max_idN ->
    along gate_unsub_id (init_realm cfg) ops ->
    sm_run y sub (false, None) (trace cfg ops) <> None.
Proof. exact realm_sub_discipline_proof. Qed.
Print Assumptions realm_sub_discipline_partial.

(** the monitor, unfolded *)
Theorem sm_step_def : forall y sub h cur e,
    sm_step y sub (h, cur) e =
    if resets y sub cur e then Some (false, next_cur cur e)
    else if is_subd y sub e then Some (true, next_cur cur e)
    else if is_evt y sub e then (if h then Some (true, next_cur cur e) else None)
    else Some (h, next_cur cur e).
Proof. exact sm_step_unfold. Qed.
Print Assumptions sm_step_def.

Theorem resets_def : forall y sub cur e,
    resets y sub cur e =
    match e with
    | EIn (ODrop x) => N.eqb x y
    | EIn _ => false
    | EOut (x, m) =>
        N.eqb x y &&
        (match m with RAbort _ _ | RGoodbye _ _ => true | _ => false end ||
         match m, cur with
         | RUnsubscribed q, Some (OMsg x' (CUnsubscribe q' s) _) => N.eqb x' y && N.eqb q' q && N.eqb s sub
         | _, _ => false
         end)
    end.
Proof. exact resets_unfold. Qed.
Print Assumptions resets_def.

Theorem is_subd_def : forall y sub e,
    is_subd y sub e = match e with EOut (x, RSubscribed _ s) => N.eqb x y && N.eqb s sub | _ => false end.
Proof. exact is_subd_unfold. Qed.
Print Assumptions is_subd_def.

Theorem is_evt_def : forall y sub e,
    is_evt y sub e = match e with EOut (x, REvent s _ _ _ _) => N.eqb x y && N.eqb s sub | _ => false end.
Proof. exact is_evt_unfold. Qed.
Print Assumptions is_evt_def.

Theorem quiet_for_def : forall y sub cur tr,
    quiet_for y sub cur tr =
    match tr with [] => True | e :: rest => resets y sub cur e = false /\ quiet_for y sub (next_cur cur e) rest end.
Proof. exact quiet_for_unfold. Qed.
Print Assumptions quiet_for_def.

(** every EVENT [sub] sent to [y] is preceded by a SUBSCRIBED [sub] sent to
    [y], and nothing in between resets the monitor of ([y], [sub]) *)
Theorem realm_event_only_to_subscriber_partial : forall cfg ops y sub pre e post,
    Forall op_ok ops -> k0 cfg + N.of_nat (List.length ops) <= max_idN ->
    along gate_unsub_id (init_realm cfg) ops ->
    trace cfg ops = pre ++ e :: post -> is_evt y sub e = true ->
    exists p1 e1 p2, pre = p1 ++ e1 :: p2 /\ is_subd y sub e1 = true /\
                     quiet_for y sub (cur_of (p1 ++ [e1])) p2.
Proof. exact realm_event_only_to_subscriber_proof. Qed.
Print Assumptions realm_event_only_to_subscriber_partial.

(** the gate hypothesis, discharged *)
Theorem gate_unsub_id_no_authz : forall cfg ops, c_authz cfg = None -> along gate_unsub_id (init_realm cfg) ops.
Proof. exact RealmTraceC01Sub.gate_unsub_id_no_authz. Qed.
Print Assumptions gate_unsub_id_no_authz.

Theorem gate_unsub_id_static : forall cfg ops, authz_keeps_unsubscribe cfg -> along gate_unsub_id (init_realm cfg) ops.
Proof. exact RealmTraceC01Sub.gate_unsub_id_static. Qed.
Print Assumptions gate_unsub_id_static.

(** full strength, realms without authorizer *)
Theorem realm_event_only_to_subscriber_noauthz : forall cfg ops y sub pre e post,
    c_authz cfg = None ->
    Forall op_ok ops -> k0 cfg + N.of_nat (List.length ops) <= max_idN ->
    trace cfg ops = pre ++ e :: post -> is_evt y sub e = true ->
    exists p1 e1 p2, pre = p1 ++ e1 :: p2 /\ is_subd y sub e1 = true /\
                     quiet_for y sub (cur_of (p1 ++ [e1])) p2.
Proof. exact realm_event_only_to_subscriber_noauthz_proof. Qed.
Print Assumptions realm_event_only_to_subscriber_noauthz.

(** the statement without the gate hypothesis is false: an authorizer that
    swaps the subscription id of an UNSUBSCRIBE *)
Theorem realm_sub_discipline_refuted :
    exists cfg ops y sub,
      Forall op_ok ops /\ k0 cfg + N.of_nat (List.length ops) <= max_idN /\
      sm_run y sub (false, None) (trace cfg ops) = None.
Proof. exact SwapEx.sub_discipline_refuted. Qed.
Print Assumptions realm_sub_discipline_refuted.

(** the per-step fact behind the monitor theorem: from a well-formed realm in
    which every subscriber of [sub] has its flag set, the monitor passes the
    events of the step, and afterwards every subscriber has its flag set *)
Theorem realm_step_sub_facts : forall r o k y sub h cur0,
    realm_wf r -> ids_below k r -> k < max_idN -> op_ok o -> gate_unsub_id r o ->
    (sub_has (b_subs (r_broker r)) sub y -> h = true) ->
    exists h', sm_run y sub (h, cur0) (step_events o (snd (step r o))) = Some (h', Some o) /\
               (sub_has (b_subs (r_broker (fst (step r o)))) sub y -> h' = true).
Proof. exact step_mon. Qed.
Print Assumptions realm_step_sub_facts.

(** ** (b) Exact delivery of a PUBLISH *)

Theorem realm_publish_exact_partial : forall cfg ops sid s m req opts topic args kw oracle,
    Forall op_ok ops -> k0 cfg + N.of_nat (List.length ops) <= max_idN ->
    let r := fst (run (init_realm cfg) ops) in
    find_session (r_clients r) sid = Some s ->
    (* the gate admits the client's message as this PUBLISH *)
    gate r s m = inl (CPublish req opts topic args kw) ->
    pub_accepted cfg s opts topic ->
    let r' := fst (step r (OMsg sid m oracle)) in
    let out := snd (step r (OMsg sid m oracle)) in
    r_pubgen r' = r_pubgen r + 1 /\ r_clients r' = r_clients r /\ r_dealer r' = r_dealer r /\
    NoDup out /\
    forall x, In x out <->
      (opt_bool opts "acknowledge" = true /\ x = (sid, RPublished req (r_pubgen r + 1))) \/
      (exists sb z zs, receives (lookup r) (r_broker r) s opts topic sb z zs /\
                       x = event_for s (r_pubgen r) opts topic args kw sb zs).
Proof. exact realm_publish_exact_proof. Qed.
Print Assumptions realm_publish_exact_partial.

Theorem realm_publish_exact_noauthz : forall cfg ops sid s req opts topic args kw oracle,
    c_authz cfg = None ->
    Forall op_ok ops -> k0 cfg + N.of_nat (List.length ops) <= max_idN ->
    let r := fst (run (init_realm cfg) ops) in
    find_session (r_clients r) sid = Some s ->
    pub_accepted cfg s opts topic ->
    let o := OMsg sid (CPublish req opts topic args kw) oracle in
    r_pubgen (fst (step r o)) = r_pubgen r + 1 /\ r_clients (fst (step r o)) = r_clients r /\
    r_dealer (fst (step r o)) = r_dealer r /\ NoDup (snd (step r o)) /\
    forall x, In x (snd (step r o)) <->
      (opt_bool opts "acknowledge" = true /\ x = (sid, RPublished req (r_pubgen r + 1))) \/
      (exists sb z zs, receives (lookup r) (r_broker r) s opts topic sb z zs /\
                       x = event_for s (r_pubgen r) opts topic args kw sb zs).
Proof. exact realm_publish_exact_noauthz_proof. Qed.
Print Assumptions realm_publish_exact_noauthz.

(** a refused PUBLISH: the ERROR alone (if an acknowledgement was asked for), realm unchanged *)
Theorem realm_publish_refused : forall r sid s m req opts topic args kw oracle,
    find_session (r_clients r) sid = Some s ->
    gate r s m = inl (CPublish req opts topic args kw) ->
    valid_uri (c_strict (r_cfg r)) "" topic = false \/
    (publish_aborts (r_cfg r) s opts topic = false /\ opt_bool opts "disclose_me" = true /\ c_disclose (r_cfg r) = false) ->
    fst (step r (OMsg sid m oracle)) = r /\
    exists e a, snd (step r (OMsg sid m oracle)) =
                if opt_bool opts "acknowledge" then [(sid, RError c_PUBLISH req [] e a [])] else [].
Proof. exact step_publish_refused. Qed.
Print Assumptions realm_publish_refused.

(** a passthru-mode violation: the ABORT, then the publisher's session ends *)
Theorem realm_publish_aborts : forall r sid s m req opts topic args kw oracle,
    find_session (r_clients r) sid = Some s ->
    gate r s m = inl (CPublish req opts topic args kw) ->
    publish_aborts (r_cfg r) s opts topic = true ->
    step r (OMsg sid m oracle) =
    (fst (leave r sid), (sid, RAbort [("message", vstr "<text>")] e_protocol_violation) :: snd (leave r sid)).
Proof. exact step_publish_aborts. Qed.
Print Assumptions realm_publish_aborts.

(** the meta session's publications (meta events, testaments) go through the same [publish] *)
Theorem realm_meta_publish_exact : forall r mp,
    realm_wf r -> pub_accepted (r_cfg r) (r_meta r) (mp_opts mp) (mp_topic mp) ->
    r_pubgen (fst (meta_publish r mp)) = r_pubgen r + 1 /\ NoDup (snd (meta_publish r mp)) /\
    forall x, In x (snd (meta_publish r mp)) <->
      (opt_bool (mp_opts mp) "acknowledge" = true /\ x = (meta_id, RPublished 0 (r_pubgen r + 1))) \/
      (exists sb z zs, receives (lookup r) (r_broker r) (r_meta r) (mp_opts mp) (mp_topic mp) sb z zs /\
                       x = event_for (r_meta r) (r_pubgen r) (mp_opts mp) (mp_topic mp) (mp_args mp) (mp_kw mp) sb zs).
Proof. exact meta_publish_exact. Qed.
Print Assumptions realm_meta_publish_exact.

(** ** (c) Publication ids *)

Theorem pubid_of_def : forall m,
    pubid_of m = match m with REvent _ p _ _ _ => Some p | RPublished _ p => Some p | _ => None end.
Proof. exact (fun m => eq_refl). Qed.
Print Assumptions pubid_of_def.

(** every id sent while handling [o] is greater than every id sent earlier in
    the history; both are bounded by the id supply; within the step the ids
    never decrease *)
Theorem realm_event_pubid_fresh : forall cfg pre o,
    Forall op_ok (pre ++ [o]) -> k0 cfg + N.of_nat (List.length (pre ++ [o])) <= max_idN ->
    let r := fst (run (init_realm cfg) pre) in
    (forall out m p, In out (snd (run (init_realm cfg) pre)) -> In m out -> pubid_of (snd m) = Some p -> p <= r_pubgen r) /\
    (forall m p, In m (snd (step r o)) -> pubid_of (snd m) = Some p ->
                 r_pubgen r < p <= r_pubgen (fst (step r o))) /\
    ascending (r_pubgen r + 1) (pubids (snd (step r o))).
Proof. exact realm_event_pubid_fresh_proof. Qed.
Print Assumptions realm_event_pubid_fresh.

Theorem realm_pubids_monotone : forall cfg ops pre m1 mid m2 post p1 p2,
    Forall op_ok ops -> k0 cfg + N.of_nat (List.length ops) <= max_idN ->
    trace cfg ops = pre ++ EOut m1 :: mid ++ EOut m2 :: post ->
    pubid_of (snd m1) = Some p1 -> pubid_of (snd m2) = Some p2 -> p1 <= p2.
Proof. exact realm_pubids_monotone_proof. Qed.
Print Assumptions realm_pubids_monotone.

(** one PUBLISH (by a client or by the meta session), one id *)
Theorem realm_publish_one_id : forall cfg lk now b pg pub req opts topic args kw m p,
    In m (snd (publish cfg lk now b pg pub req opts topic args kw)) -> pubid_of (snd m) = Some p -> p = pg + 1.
Proof. exact publish_all_ids. Qed.
Print Assumptions realm_publish_one_id.

(** the broker operations of a step use disjoint, increasing id ranges *)
Theorem realm_step_pubids_cut : forall r o k l1 l2,
    realm_wf r -> ids_below k r -> k < max_idN -> op_ok o ->
    segs_step r o = l1 ++ l2 ->
    let '(b1, pg1, o1) := seg_run (r_cfg r) (r_broker r) (r_pubgen r) l1 in
    let '(b2, pg2, o2) := seg_run (r_cfg r) b1 pg1 l2 in
    snd (step r o) = o1 ++ o2 /\
    (forall p, In p (pubids o1) -> r_pubgen r < p <= pg1) /\ (forall p, In p (pubids o2) -> pg1 < p <= pg2).
Proof. exact step_pubids_cut. Qed.
Print Assumptions realm_step_pubids_cut.

(** ** Non-vacuity *)
(** sessions 10 and 11 subscribe to "t", 12 publishes, 11 unsubscribes, 12
    publishes, 10 is dropped, 12 publishes *)
Example histories_c01_hypotheses_satisfiable :
    Forall op_ok SubEx.ops0 /\ k0 SubEx.cfg0 + N.of_nat (List.length SubEx.ops0) <= max_idN /\
    along gate_unsub_id (init_realm SubEx.cfg0) SubEx.ops0.
Proof. exact SubEx.hyps. Qed.

Example histories_c01_outputs : snd (run (init_realm SubEx.cfg0) SubEx.ops0) =
    [[]; []; []; [(10, RSubscribed 1 1)]; [(11, RSubscribed 1 1)]; [(10, RSubscribed 2 2)];
     [(10, REvent 1 9 [] [vnat 1] []); (11, REvent 1 9 [] [vnat 1] []); (12, RPublished 5 9)];
     [(11, RUnsubscribed 2);
      (10, REvent 2 10 [("topic", vuri t_sub_on_unsubscribe)] [vid 11; vid 1] [])];
     [(10, REvent 1 11 [] [vnat 2] [])];
     [];
     [(12, RPublished 7 17)]].
Proof. exact SubEx.outs. Qed.

Example histories_c01_pattern : exists pre post,
    trace SubEx.cfg0 SubEx.ops0 = pre ++ EOut (11, REvent 1 9 [] [vnat 1] []) :: post /\
    is_evt 11 1 (EOut (11, REvent 1 9 [] [vnat 1] [])) = true /\
    In (EOut (11, RSubscribed 1 1)) pre.
Proof. exact SubEx.pattern. Qed.

Example histories_c01_monitors :
    option_map fst (sm_run 11 1 (false, None) (trace SubEx.cfg0 SubEx.ops0)) = Some false /\
    option_map fst (sm_run 10 1 (false, None) (trace SubEx.cfg0 SubEx.ops0)) = Some false /\
    option_map fst (sm_run 10 1 (false, None) (trace SubEx.cfg0 (SubEx.pre5 ++ [SubEx.pub1]))) = Some true.
Proof. exact SubEx.monitors. Qed.

(** (b): two subscribers, the acknowledged PUBLISH of session 12 *)
Example histories_c01_publish_hypotheses_satisfiable :
    Forall op_ok SubEx.pre5 /\ k0 SubEx.cfg0 + N.of_nat (List.length SubEx.pre5) <= max_idN /\
    find_session (r_clients SubEx.r5) 12 = Some SubEx.s12 /\
    pub_accepted SubEx.cfg0 SubEx.s12 [("acknowledge", VBool true)] "t" /\
    r_pubgen SubEx.r5 = 8 /\
    snd (step SubEx.r5 SubEx.pub1) =
    [(10, REvent 1 9 [] [vnat 1] []); (11, REvent 1 9 [] [vnat 1] []); (12, RPublished 5 9)].
Proof. exact SubEx.publish_hyps. Qed.

(** (c): the ids of the history *)
Example histories_c01_pubids : pubids (tr_outs (trace SubEx.cfg0 SubEx.ops0)) = [9; 9; 9; 10; 11; 17].
Proof. exact SubEx.ids. Qed.

(** in the refuting history it is [gate_unsub_id] that fails *)
Example histories_c01_refutation_breaks_gate_unsub_id :
    ~ along gate_unsub_id (init_realm SwapEx.cfgA) SwapEx.opsA.
Proof. exact SwapEx.not_unsub_id. Qed.
