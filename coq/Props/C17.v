(* Props/C17.v — The client never crashes or hangs, whatever the router sends.
   Statements only; proofs in Client/ClientModelProofs.v (protocol level:
   values and messages) and Client/ClientLtsProofs.v (goroutine level: the
   reply rendezvous, run, Close, invocation goroutines).

   The models mirror the REPAIRED client (fixes/C17-ppt-unpack.patch,
   fixes/C17-reply-rendezvous.patch, fixes/C17-double-close.patch); whether
   today's source is the repaired one is decided on every run by the
   per-run obligations Client/ClientConformSites.v (site_table_ok) and
   Client/ClientConformSkeleton.v (skeleton_conforms) over the regenerated
   coq/gen/GenClient.v, and by the hostile / timing scripts of
   tools/checks/c17.py run against the real client.

   Partial, said plainly: the goroutine-level theorems are about the skeleton
   model [ClientLts]; that the skeleton is the code's is the translator's
   claim (checked by skeleton_conforms) plus sampled runs of the Go scheduler
   in synctest bubbles.  Not modelled: data races / runtime fatal errors, a
   router end that stops draining the client's send channel, a nil message
   from the transport (C15's reserved-frame defect).

   One defect is NOT repaired and is carried by the model: the goroutine that
   feeds a CallProgressive outlives the call and sends without watching Done;
   after Close() has closed the peer its next send panics (see
   fixes/C17-known-callprogressive-feeder.md).  Hence [client_never_panics]
   is stated as _refuted + _partial. *)

From Coq Require Import List NArith ZArith Bool String.
From Nexus Require Client.ClientModel Client.ClientModelProofs Client.ClientLts Client.ClientLtsProofs.
Import ListNotations.
Open Scope N_scope.

(* Two models with their own [state] / [step] / [exec]: one module each. *)


(* ======================================================================== *)
(* Protocol level: Client/ClientModel.v (values, messages, tables)            *)
Module Proto.
Import Client.ClientModel Client.ClientModelProofs.
(* ================= never panics (protocol level, all values) ================= *)



(* full statement: forall c tr, x_panic (exec checked c tr) = None  -- REFUTED: *)
Theorem client_never_panics_refuted :
  exists c tr, x_panic (exec checked c tr) <> None.
Proof. exact client_never_panics_refuted_proof. Qed.
Print Assumptions client_never_panics_refuted.

(* For ALL router messages (any type, any order, unknown ids, any values in
   details and arguments incl. hostile PPT fields), API calls, timers,
   cancellations and disconnect points: no panic -- provided no
   CallProgressive feeder is handed a chunk (or an error) after Close() has
   closed the peer, which is exactly the excluded trigger. *)
Theorem client_never_panics_partial : forall c tr,
  no_feeder_after_close checked c tr -> x_panic (exec checked c tr) = None.
Proof. exact client_never_panics_partial_proof. Qed.
Print Assumptions client_never_panics_partial.

(* its hypothesis is satisfiable by an execution that does feed chunks, closes and ends *)
Example no_feeder_after_close_satisfiable :
  no_feeder_after_close checked cfg0
    [ApiStart 1 (OpCallProg 1 false true None) 1; ChunkSend 1 true; ChunkSend 1 false;
     RouterMsg (RResult 1 [] [VInt 3]); ApiFinish 1; CloseStart 2; RouterMsg RGoodbye].
Proof. apply nfac_b_sound. vm_compute. reflexivity. Qed.



(* the only panicking step of the repaired model, precisely *)
Theorem panics_only_in_feeder_after_close : forall s l site,
  step checked s l = Panic site -> is_chunk_label l = true /\ s_peer_closed s = true.
Proof. exact step_checked_panics_only_in_feeder. Qed.
Print Assumptions panics_only_in_feeder_after_close.



Example hostile_messages_handled :
  x_panic (exec checked cfg0
    [ApiStart 1 (OpSubscribe 1) 1; RouterMsg (RSubscribed 1 9); ApiFinish 1;
     RouterMsg (REvent 9 1 [("ppt_scheme"%string, VStr "x_a"); ("ppt_serializer"%string, VStr "json")] []);
     RouterMsg (REvent 9 2 [("ppt_scheme"%string, VStr "x_a"); ("ppt_serializer"%string, VInt 5)] [VOther]);
     RouterMsg (REvent 9 3 [("ppt_scheme"%string, VStr "wamp")] [VBytes DecNull]);
     RouterMsg (REvent 9 4 [("ppt_scheme"%string, VStr "mqtt")] [VPayload true 0]);
     RouterMsg (RResult 77 [("ppt_scheme"%string, VStr "x_a")] []);
     RouterMsg (RInvocation 5 4 [("timeout"%string, VStr "x")] [VNil])]) = None.
Proof. vm_compute. reflexivity. Qed.

(* regression witness: the UNREPAIRED accessors panic on that very EVENT *)
Example unrepaired_unpack_panics :
  step unchecked (set_subs (init cfg0) [(9, 1%nat)] [])
       (RouterMsg (REvent 9 1 [("ppt_scheme"%string, VStr "x_a"); ("ppt_serializer"%string, VStr "json")] []))
  = Panic 162.
Proof. exact unchecked_event_panics. Qed.



(* protocol level, all executions: every pending call has an armed response
   timer, except a Call in its first select on a live connection *)
Theorem pending_calls_are_timed : forall U c tr k w,
  In (k, w) (s_awaiting (x_state (exec U c tr))) ->
  (exists dl, w_timer w = Some dl) \/
  (is_call (w_op w) = true /\ w_phase w = WWaiting /\ s_connected (x_state (exec U c tr)) = true).
Proof. exact api_always_returns_model_proof. Qed.
Print Assumptions pending_calls_are_timed.

(* a due timer makes the call return ErrReplyTimeout *)
Theorem due_timer_returns : forall U s k w dl,
  In (k, w) (s_awaiting s) -> w_timer w = Some dl -> dl <= s_now s ->
  (forall k2 w2, In (k2, w2) (s_awaiting s) -> w_o w2 = w_o w -> (k2, w2) = (k, w)) ->
  exists s', step U s (TimerFire (w_o w)) = Ok s' [OReturn (w_o w) k RetTimeout] /\
             alookup (s_awaiting s') k = None.
Proof. exact timer_returns_proof. Qed.
Print Assumptions due_timer_returns.

(* a call issued after the client stopped returns at once *)
Theorem later_api_call_returns : forall U s o p,
  s_connected s = false -> mem_nat o (s_busy s) = false ->
  exists s' r, step U s (ApiStart o p 0) = Ok s' [OReturn o 0 r].
Proof. exact later_api_returns_proof. Qed.
Print Assumptions later_api_call_returns.

(* ================= Done ========================================================= *)

(* GOODBYE, ABORT and the end of the transport stop the client and signal Done *)
Theorem done_signalled : forall U s l,
  s_connected s = true -> ends_connection l ->
  exists s' outs, step U s l = Ok s' outs /\ s_connected s' = false /\ In ODone outs.
Proof. exact done_on_end_proof. Qed.
Print Assumptions done_signalled.

(* over every execution Done is signalled exactly once iff the client is no
   longer connected (and it never reconnects) *)
Theorem done_signalled_once : forall U c tr,
  count_done_ev (x_events (exec U c tr)) =
    (if s_connected (x_state (exec U c tr)) then 0 else 1)%nat.
Proof. exact done_once_proof. Qed.
Print Assumptions done_signalled_once.

(* protocol level: Close() waiting for Done returns on GOODBYE / ABORT / end
   of transport / its own 2 x ResponseTimeout timer; then the peer is closed,
   no invocation goroutine is left and only timed waiters remain *)
Theorem close_completes : forall U s o dl l,
  s_closer s = Some (o, dl) -> s_connected s = true ->
  ends_connection l \/ (l = CloseTimer /\ dl <= s_now s) ->
  exists s' outs, step U s l = Ok s' outs /\ In (OCloseRet o false) outs /\ In ODone outs /\
    s_peer_closed s' = true /\ s_closer s' = None /\ s_connected s' = false /\
    (forall i, In i (s_invs s') -> i_outer i = false) /\
    (forall k w, In (k, w) (s_awaiting s') -> exists e, w_phase w = WCancelWait e).
Proof. exact close_completes_proof. Qed.
Print Assumptions close_completes.
End Proto.

(* ======================================================================== *)
(* Goroutine level: Client/ClientLts.v (rendezvous, run, Close, invocations)  *)
Module Lts.
Import Client.ClientLts Client.ClientLtsProofs.

(* ================= run is never stuck (goroutine level, all schedules) ======= *)

(* In no reachable state of the guarded machine -- any number of API
   goroutines, any interleaving of lookup / hand-over / timeout commit /
   delete / close(gone) -- does run sit in the hand-over select with nothing
   it selects on able to become ready. *)
Theorem run_never_stuck : forall s, reachable true s -> ~ run_stuck true s.
Proof. exact run_never_stuck_lts. Qed.
Print Assumptions run_never_stuck.

(* Positively: whenever run is in the hand-over select its waiter exists and
   is at most two of ITS OWN enabled steps away from a state in which run's
   select is ready -- or the waiter is itself still handing its request to a
   peer that has stopped reading (a hostile router that answers a request it
   has not read): then Close()'s EndRecv frees run ([run_released_by_endrecv]). *)
Theorem run_is_released : forall s k,
  reachable true s -> r_pc s = RSend k ->
  exists w tr, wlookup (ws s) k = Some w /\ (List.length tr <= release_rank (w_pc w))%nat /\
               waiter_path true k s tr /\
               (run_move_enabled true (exec true s tr) \/ (w_pc w = WSending /\ router_reads s = false)).
Proof. exact run_unblocks. Qed.
Print Assumptions run_is_released.

Theorem run_released_by_endrecv : forall s k,
  r_pc s = RSend k -> recv_done s = true -> enabled true s LRunSeeRecvDone = true.
Proof. exact ClientLtsProofs.run_released_by_endrecv. Qed.
Print Assumptions run_released_by_endrecv.

(* the same statement for the client AS IT IS in the unrepaired tree
   (run selects on {reply, Done} only) is refuted: a reply looked up just
   before the waiter's timeout commits blocks run for ever; Done is never
   signalled and Close() never returns, whatever happens next. *)
Theorem run_never_stuck_unguarded_refuted :
  exists tr, let s := exec false init tr in
    run_stuck false s /\
    forall tr', let s' := exec false s tr' in
      run_stuck false s' /\ done s' = false /\ c_pc s' <> CReturned.
Proof. exact ClientLtsProofs.run_never_stuck_unguarded_refuted. Qed.
Print Assumptions run_never_stuck_unguarded_refuted.

(* run cannot spin either: each of its steps consumes *)
Theorem run_steps_consume : forall g s l s',
  is_run_label l = true -> step g s l = Some s' -> (rmeasure s' < rmeasure s)%nat.
Proof. exact run_step_decreases. Qed.
Print Assumptions run_steps_consume.

(* ================= every API call returns ===================================== *)

(* goroutine level: an API goroutine that has not returned always has an
   enabled step of its own, except (a) a Call in its first select while the
   connection is up (it waits for its reply, its context, or Done) and (b) a
   goroutine handing its request to a peer that has stopped reading while the
   client has not stopped -- in the repaired client (g = true) Done releases
   it ([send_released_by_done]) ... *)
Theorem api_always_returns : forall g s k w,
  reachable g s -> wlookup (ws s) k = Some w -> w_pc w <> WReturned ->
  (exists l, waiter_label_of l = Some k /\ internal_waiter_label l = true /\ enabled g s l = true)
  \/ (w_call w = true /\ w_pc w = WSelect /\ done s = false /\ enabled g s (LCtx k) = true)
  \/ (w_pc w = WSending /\ router_reads s = false /\ (g && done s) = false).
Proof. exact api_always_returns_lts. Qed.
Print Assumptions api_always_returns.

Theorem send_released_by_done : forall s k w,
  wlookup (ws s) k = Some w -> w_pc w = WSending -> done s = true ->
  enabled true s (LSendSeesDone k) = true.
Proof. exact ClientLtsProofs.send_released_by_done. Qed.
Print Assumptions send_released_by_done.

(* the client as it was (requests handed over with a plain send) is refuted:
   a request issued when the peer's writer has just gone is never handed
   over; the end of the transport and Done do not release it -- the API call
   never returns, whatever happens next (fixes/C17-send-after-transport-end) *)
Theorem api_send_stuck_unguarded_refuted :
  exists tr, let s := exec false init tr in
    done s = true /\ recv_closed s = true /\
    forall tr', exists w, wlookup (ws (exec false s tr')) 1 = Some w /\ w_pc w = WSending.
Proof. exact ClientLtsProofs.api_send_stuck_unguarded_refuted. Qed.
Print Assumptions api_send_stuck_unguarded_refuted.

(* ... and every such step brings it strictly closer to its return. *)
Theorem api_steps_terminate : forall g s l k w s',
  waiter_label_of l = Some k -> wlookup (ws s) k = Some w -> step g s l = Some s' ->
  exists w', wlookup (ws s') k = Some w' /\ (wmeasure (w_pc w') < wmeasure (w_pc w))%nat.
Proof. exact waiter_step_decreases. Qed.
Print Assumptions api_steps_terminate.



(* goroutine level: Done is closed exactly when run has returned; and once
   the conversation has ended run is never idle (it has an enabled step, or
   it is in the hand-over select, from which [run_is_released] frees it) *)
Theorem done_iff_run_returned : forall g s, reachable g s -> (done s = true <-> r_pc s = RExited).
Proof. exact done_iff_run_exited. Qed.
Print Assumptions done_iff_run_returned.

Theorem run_not_idle_after_end : forall s,
  reachable true s -> ended s -> r_pc s <> RExited ->
  (exists l, is_run_label l = true /\ enabled true s l = true) \/ (exists k, r_pc s = RSend k).
Proof. exact done_signalled_lts. Qed.
Print Assumptions run_not_idle_after_end.

(* ================= Close ========================================================= *)

(* goroutine level: Close() in progress always has an enabled step of its own,
   or waits for Done after EndRecv (then run is not idle), or waits for
   invocation goroutines, each of which can leave; its steps terminate *)
Theorem close_always_progresses : forall s,
  reachable true s -> c_pc s <> CNone -> c_pc s <> CReturned ->
  (exists l, is_closer_label l = true /\ enabled true s l = true)
  \/ (c_pc s = CWaitDone2 /\ done s = false /\ ended s)
  \/ (c_pc s = CWaitInv /\ enabled true s LOuterExit = true).
Proof. exact close_progress_lts. Qed.
Print Assumptions close_always_progresses.

Theorem close_steps_terminate : forall g s l s',
  is_closer_label l = true -> step g s l = Some s' -> (cmeasure s' < cmeasure s)%nat.
Proof. exact closer_step_decreases. Qed.
Print Assumptions close_steps_terminate.

(* when Close() has returned: run has exited, Done is signalled, no invocation
   goroutine is left, and every API goroutine still inside a call can proceed *)
Theorem close_returns_and_nothing_left : forall s,
  reachable true s -> c_pc s = CReturned ->
  r_pc s = RExited /\ done s = true /\ outers s = 0%nat /\
  forall k w, wlookup (ws s) k = Some w -> w_pc w <> WReturned ->
    exists l, waiter_label_of l = Some k /\ internal_waiter_label l = true /\ enabled true s l = true.
Proof. exact close_returned_nothing_left. Qed.
Print Assumptions close_returns_and_nothing_left.

(* the peer is closed in exactly one place *)
Theorem peer_closed_only_by_close : forall g s, reachable g s -> peer_closed s = true -> c_pc s = CReturned.
Proof. exact ClientLtsProofs.peer_closed_only_by_close. Qed.
Print Assumptions peer_closed_only_by_close.

Example close_nonvacuous :
  let s := exec true init
     [LNewWaiter 1 false; LSent 1; LDeliver (MReply 1); LRunTake; LRunLookup; LTimer 1; LDelete 1; LCloseGone 1;
      LRunGone; LCloseStart; LGoodbyeSent; LDeliver MFinal; LRunTake; LCloseSeeDone; LWgWait; LClosePeer] in
  c_pc s = CReturned /\ done s = true.
Proof. vm_compute. split; reflexivity. Qed.
End Lts.
