(** * C09 — only authenticated clients join, under router-assigned identity.

    Statements only; every proof is [exact <lemma>].  The model is
    [Auth/Handshake.v] ([attach] = router.AttachClient with the repaired
    cryptosign check, [cs_bind = true]); the vocabulary is [Auth/HandshakeSpec.v].

    All theorems quantify over every script of client events, every HELLO
    details dictionary, every router / realm / authenticator / key-store
    configuration, every oracle (session id, nonces, timestamps, random
    challenge bytes, whether the realm is closed meanwhile) and over EVERY
    [cra_verify] and [sign_open]: nothing is assumed about the cryptographic
    primitives (their strength is outside the proof, see docs/C09.md). *)
From Coq Require Import List String ZArith NArith Bool.
From Nexus Require Import Auth.Values Auth.Handshake Auth.HandshakeSpec Auth.KeyTable
     Auth.HandshakeProofs Auth.Toy Auth.HandshakeExamples.
Import ListNotations.
Open Scope string_scope.

(** WELCOME is sent only if the first message is a HELLO naming an existing or
    template-created realm of a router that is not closed, announcing at least
    one client role, the realm was not closed meanwhile, and the client was
    admitted: a local peer of a realm without RequireLocalAuth, or accepted by
    the authenticator the realm configures for the first offered method that
    has one (anonymous; or vouched for by a BypassKeyStore; or an AUTHENTICATE
    whose signature is valid for the challenge issued in this run).  The
    session id in the WELCOME is the router's. *)
Theorem welcome_only_if :
  forall (cra_verify : string -> string -> string -> bool)
         (sign_open : string -> string -> option string)
         rt p o script sid wd,
    In (OWelcome sid wd) (r_out (attach cra_verify sign_open true rt p o script)) ->
    exists realm details rest rc created,
      script = EvMsg (CHello realm details) :: rest /\
      realm <> "" /\
      rt_closed rt = false /\
      lookup_realm rt realm = Some (rc, created) /\
      has_client_role details = true /\
      o_realm_closed o = false /\
      sid = o_sid o /\
      admitted cra_verify sign_open rc p sid o (with_transport p details) rest.
Proof. exact welcome_only_if_lemma. Qed.
Print Assumptions welcome_only_if.

(** A client admitted through a challenge method (not vouched for by a bypass
    key store) answered with an AUTHENTICATE that is valid for the CHALLENGE
    issued in THIS run — the CHALLENGE built from this run's nonce, timestamp,
    session id / random bytes is in the output, and [response_valid] is about
    exactly that challenge. *)
Theorem challenge_bound :
  forall (cra_verify : string -> string -> string -> bool)
         (sign_open : string -> string -> option string)
         rt p o realm details rest sid wd rc created a m ks,
    In (OWelcome sid wd)
       (r_out (attach cra_verify sign_open true rt p o (EvMsg (CHello realm details) :: rest))) ->
    lookup_realm rt realm = Some (rc, created) ->
    local_shortcut rc p = false ->
    select_authenticator rc (offered_methods (with_transport p details)) = Some (a, m) ->
    keystore_of a = Some ks ->
    bypassed ks (claimed_authid (with_transport p details)) (with_transport p details) = false ->
    exists sig extra rest',
      rest = EvMsg (CAuthenticate sig extra) :: rest' /\
      In (OChallenge m (issued_extra a (o_sid o) o (claimed_authid (with_transport p details))))
         (r_out (attach cra_verify sign_open true rt p o (EvMsg (CHello realm details) :: rest))) /\
      response_valid cra_verify sign_open a (o_sid o) o (claimed_authid (with_transport p details)) sig.
Proof. exact challenge_bound_lemma. Qed.
Print Assumptions challenge_bound.

(** Hence a response that is not valid for this run's challenge — e.g. one
    captured from a handshake whose challenge was different — never succeeds. *)
Theorem replay_rejected :
  forall (cra_verify : string -> string -> string -> bool)
         (sign_open : string -> string -> option string)
         rt p o realm details sig extra rest rc created a m ks,
    lookup_realm rt realm = Some (rc, created) ->
    local_shortcut rc p = false ->
    select_authenticator rc (offered_methods (with_transport p details)) = Some (a, m) ->
    keystore_of a = Some ks ->
    bypassed ks (claimed_authid (with_transport p details)) (with_transport p details) = false ->
    ~ response_valid cra_verify sign_open a (o_sid o) o (claimed_authid (with_transport p details)) sig ->
    forall sid wd,
      ~ In (OWelcome sid wd)
        (r_out (attach cra_verify sign_open true rt p o
                       (EvMsg (CHello realm details) :: EvMsg (CAuthenticate sig extra) :: rest))).
Proof. exact replay_rejected_lemma. Qed.
Print Assumptions replay_rejected.

(** cryptosign, two runs: a transcript accepted in a run that issued the bytes
    [o_cs_challenge o1] is rejected in every run that issued different bytes.
    No assumption on the signature scheme is needed: what a signed message
    opens to is a function of the signed message. *)
Theorem cryptosign_replay_rejected :
  forall (cra_verify : string -> string -> string -> bool)
         (sign_open : string -> string -> option string)
         rt p o1 o2 realm details sig extra rest1 rest2 rc created ks m sid1 wd1,
    lookup_realm rt realm = Some (rc, created) ->
    local_shortcut rc p = false ->
    select_authenticator rc (offered_methods (with_transport p details)) = Some (ACryptosign ks, m) ->
    bypassed ks (claimed_authid (with_transport p details)) (with_transport p details) = false ->
    In (OWelcome sid1 wd1)
       (r_out (attach cra_verify sign_open true rt p o1
                      (EvMsg (CHello realm details) :: EvMsg (CAuthenticate sig extra) :: rest1))) ->
    o_cs_challenge o2 <> o_cs_challenge o1 ->
    forall sid2 wd2,
      ~ In (OWelcome sid2 wd2)
        (r_out (attach cra_verify sign_open true rt p o2
                       (EvMsg (CHello realm details) :: EvMsg (CAuthenticate sig extra) :: rest2))).
Proof. exact cryptosign_replay_rejected_lemma. Qed.
Print Assumptions cryptosign_replay_rejected.

(** The cryptosign code AS FOUND in /repo ([cs_bind = false]: verifySignature
    never compares the opened message with the challenge it issued) violates
    [challenge_bound]: there is a run that is welcomed although the response
    is not valid for the challenge issued in that run.  Witness: the toy
    scheme of Auth/Toy.v, a response signed over [chal1] presented to a run
    that issued [chal2].  (The harness reproduces this on the real code with
    real Ed25519; repair: fixes/C09-cryptosign-replay.patch.) *)
Theorem challenge_bound_refuted :
  exists cra_verify sign_open rt p o realm details sig extra rest rc created ks m sid wd,
    lookup_realm rt realm = Some (rc, created) /\
    local_shortcut rc p = false /\
    select_authenticator rc (offered_methods (with_transport p details)) = Some (ACryptosign ks, m) /\
    bypassed ks (claimed_authid (with_transport p details)) (with_transport p details) = false /\
    In (OWelcome sid wd)
       (r_out (attach cra_verify sign_open false rt p o
                      (EvMsg (CHello realm details) :: EvMsg (CAuthenticate sig extra) :: rest))) /\
    ~ response_valid cra_verify sign_open (ACryptosign ks) (o_sid o) o
                     (claimed_authid (with_transport p details)) sig.
Proof. exact challenge_bound_refuted_lemma. Qed.
Print Assumptions challenge_bound_refuted.

(** Otherwise: every run that does not end in WELCOME records no session,
    closes the peer, returns an error, handles none of the peer's later
    messages, and has sent — after at most CHALLENGE messages — exactly one
    ABORT as its last message; the only exception is a peer whose first
    message never arrived (timeout or closed channel), which is closed
    without ABORT. *)
Theorem abort_otherwise :
  forall (cra_verify : string -> string -> string -> bool)
         (sign_open : string -> string -> option string)
         rt p o script,
    let r := attach cra_verify sign_open true rt p o script in
    welcomed r = false ->
    r_session r = None /\ r_closed r = true /\ r_err r = true /\ routed r = [] /\
    ((exists pre reason msg, Forall is_challenge pre /\ r_out r = (pre ++ [OAbort reason msg])%list)
     \/ (r_out r = [] /\ fst (recv script) = None)).
Proof. exact abort_otherwise_lemma. Qed.
Print Assumptions abort_otherwise.

(** Conversely a welcomed peer is attached, left open, and was sent no ABORT:
    WELCOME is the last message, preceded only by CHALLENGEs. *)
Theorem welcome_attached :
  forall (cra_verify : string -> string -> string -> bool)
         (sign_open : string -> string -> option string)
         rt p o script,
    let r := attach cra_verify sign_open true rt p o script in
    welcomed r = true ->
    exists pre sid wd sess,
      Forall is_challenge pre /\ r_out r = (pre ++ [OWelcome sid wd])%list /\
      r_session r = Some sess /\ r_closed r = false /\ r_err r = false /\ aborted r = false.
Proof. exact welcome_attached_lemma. Qed.
Print Assumptions welcome_attached.

(** The recorded session details carry the router's session id and, for
    authid / authrole / authmethod / authprovider, the values of the WELCOME
    details whenever those bind the key; and the WELCOME details are the
    router's ([local_welcome] for the local shortcut) or the selected
    authenticator's identity (possibly passed through its key store's
    OnWelcome hook) with [authmethod] set by the router — whatever the HELLO
    details contain. *)
Theorem identity_from_router :
  forall (cra_verify : string -> string -> string -> bool)
         (sign_open : string -> string -> option string)
         rt p o realm details rest sess rc created,
    r_session (attach cra_verify sign_open true rt p o (EvMsg (CHello realm details) :: rest)) = Some sess ->
    lookup_realm rt realm = Some (rc, created) ->
    exists wd,
      In (OWelcome (o_sid o) wd)
         (r_out (attach cra_verify sign_open true rt p o (EvMsg (CHello realm details) :: rest))) /\
      sess = assemble (with_transport p details) wd (o_sid o) /\
      dict_get "session" sess = Some (VInt (Z.of_N (o_sid o))) /\
      (forall k, In k identity_keys -> dict_get k wd <> None -> dict_get k sess = dict_get k wd) /\
      router_identity rc p o (with_transport p details) wd.
Proof. exact identity_from_router_lemma. Qed.
Print Assumptions identity_from_router.

(** With the four authenticators of router/auth and key stores that are not
    BypassKeyStores, the WELCOME details always bind all four identity keys
    (so the previous theorem's side condition holds) ... *)
Theorem welcome_binds_identity :
  forall rc p o details wd,
    no_bypass rc -> router_identity rc p o details wd ->
    forall k, In k identity_keys -> dict_get k wd <> None.
Proof. exact welcome_identity_bound. Qed.
Print Assumptions welcome_binds_identity.

(** ... and two HELLO details that agree on the only keys the handshake is
    entitled to read (authid, authmethods, roles, transport) lead to the same
    messages, the same outcome and the same recorded session id, authid,
    authrole, authmethod and authprovider: no other HELLO key — in particular
    a smuggled authrole / authmethod / authprovider / session — has any
    influence. *)
Theorem smuggling_ineffective :
  forall (cra_verify : string -> string -> string -> bool)
         (sign_open : string -> string -> option string)
         rt p o realm d1 d2 rest rc created,
    lookup_realm rt realm = Some (rc, created) ->
    no_bypass rc ->
    same_claims d1 d2 ->
    let r1 := attach cra_verify sign_open true rt p o (EvMsg (CHello realm d1) :: rest) in
    let r2 := attach cra_verify sign_open true rt p o (EvMsg (CHello realm d2) :: rest) in
    r_out r1 = r_out r2 /\ r_closed r1 = r_closed r2 /\ r_rest r1 = r_rest r2 /\
    match r_session r1, r_session r2 with
    | Some s1, Some s2 =>
        forall k, In k ("session" :: identity_keys) -> dict_get k s1 = dict_get k s2
    | None, None => True
    | _, _ => False
    end.
Proof. exact smuggling_ineffective_lemma. Qed.
Print Assumptions smuggling_ineffective.

(** ** Non-vacuity (toy primitives and configuration of Auth/Toy.v) *)

(** every admission route of [welcome_only_if] is taken by some run *)
Example welcome_reachable :
  welcomed (toy_attach true remote_peer (toy_oracle chal1) (hello "anonymous" :: later)) = true /\
  welcomed (toy_attach true local_peer (toy_oracle chal1) (hello "ticket" :: later)) = true /\
  welcomed (toy_attach true remote_peer (toy_oracle chal1)
                       (hello "ticket" :: authenticate_with "tkt-alice" :: later)) = true /\
  welcomed (toy_attach true remote_peer (toy_oracle chal1)
                       (hello "wampcra" :: authenticate_with (cra_sig (toy_oracle chal1)) :: later)) = true /\
  welcomed (toy_attach true remote_peer (toy_oracle chal1)
                       (hello "cryptosign" :: authenticate_with (toy_sig chal1) :: later)) = true /\
  r_realm (toy_attach true remote_peer (toy_oracle chal1)
                      (EvMsg (CHello "brand.new" (smuggling_details "anonymous")) :: later))
  = Some ("brand.new", true).
Proof.
  exact (conj ex_anonymous_welcomed (conj ex_local_welcomed (conj ex_ticket_welcomed
        (conj ex_cra_welcomed (conj ex_cryptosign_welcomed ex_template_welcomed))))).
Qed.

(** the hypotheses of [challenge_bound] / [replay_rejected] /
    [cryptosign_replay_rejected] hold for a welcomed cryptosign run ... *)
Example challenge_bound_hyps :
  lookup_realm toy_router "realm1" = Some (toy_realm, false) /\
  local_shortcut toy_realm remote_peer = false /\
  select_authenticator toy_realm (offered_methods (with_transport remote_peer (smuggling_details "cryptosign")))
  = Some (ACryptosign toy_ks, "cryptosign") /\
  bypassed toy_ks (claimed_authid (with_transport remote_peer (smuggling_details "cryptosign")))
           (with_transport remote_peer (smuggling_details "cryptosign")) = false.
Proof. exact ex_challenge_hyps. Qed.

(** ... and the replayed transcript is indeed refused with ABORT when the
    challenge differs (cryptosign and wampcra) *)
Example replay_refused :
  (welcomed (toy_attach true remote_peer (toy_oracle chal2)
                        (hello "cryptosign" :: authenticate_with (toy_sig chal1) :: later)) = false /\
   aborted (toy_attach true remote_peer (toy_oracle chal2)
                       (hello "cryptosign" :: authenticate_with (toy_sig chal1) :: later)) = true).
Proof. exact ex_replay_rejected. Qed.

(** whereas the model of the code as found accepts it *)
Example replay_accepted_as_found :
  welcomed (toy_attach false remote_peer (toy_oracle chal1)
                       (hello "cryptosign" :: authenticate_with (toy_sig chal1) :: later)) = true /\
  welcomed (toy_attach false remote_peer (toy_oracle chal2)
                       (hello "cryptosign" :: authenticate_with (toy_sig chal1) :: later)) = true /\
  chal1 <> chal2.
Proof. exact cryptosign_replay_accepted_as_found_lemma. Qed.

(** [abort_otherwise]: refusals with ABORT, the silent close, and the contrast
    with a welcomed peer whose later messages ARE handled *)
Example refusals_reachable :
  (let r := toy_attach true remote_peer (toy_oracle chal1) (hello "ticket" :: authenticate_with "nope" :: later) in
   r_out r = [OChallenge "ticket" []; OAbort uri_authentication_failed true] /\
   r_session r = None /\ r_closed r = true /\ routed r = [] /\ r_rest r = later) /\
  (let r := toy_attach true remote_peer (toy_oracle chal1) (EvTimeout :: later) in
   r_out r = [] /\ r_closed r = true /\ r_session r = None /\ routed r = []) /\
  r_out (toy_attach true remote_peer (toy_oracle chal1) (EvMsg (COther 16) :: later))
  = [OAbort uri_protocol_violation true] /\
  routed (toy_attach true remote_peer (toy_oracle chal1) (hello "anonymous" :: later)) = later.
Proof. exact (conj ex_bad_ticket_aborted (conj ex_silent (conj ex_not_hello ex_welcomed_is_routed))). Qed.

(** [identity_from_router] / [smuggling_ineffective]: HELLO details carrying
    authrole "admin", authmethod "local", authprovider "root", session 1 end up
    recorded as the router's and key store's values *)
Example smuggled_identity_loses :
  shown_identity (toy_attach true remote_peer (toy_oracle chal1)
                             (hello "ticket" :: authenticate_with "tkt-alice" :: later))
  = [Some (VInt 4242); Some (VStr "alice"); Some (VStr "user"); Some (VStr "ticket"); Some (VStr "static-A")] /\
  shown_identity (toy_attach true remote_peer (toy_oracle chal1) (hello "anonymous" :: later))
  = [Some (VInt 4242); Some (VStr "1f00d"); Some (VStr "guest"); Some (VStr "anonymous"); Some (VStr "static")] /\
  no_bypass toy_realm /\
  same_claims (smuggling_details "ticket")
              [("roles", roles_pub); ("authmethods", VList [VStr "ticket"]); ("authid", VStr "alice")].
Proof. exact (conj ex_identity_ticket (conj ex_identity_anonymous (conj ex_no_bypass ex_same_claims))). Qed.
