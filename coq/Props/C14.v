(** * C14 — serializers round-trip every message and agree with each other.

    Statements only; proofs are in Codec/*Proofs.v.  All statements are about
    the model instantiated at the schema regenerated from /repo on this run
    ([gen_schema]); the shape of the serializer functions they assume
    ([intended_shape]: guarded conversion, top-level item must be a list) is
    tied to the code by Codec/C14ConfShape.v. *)
From Coq Require Import List NArith ZArith Bool.
From Coq Require Import Strings.String.
From Coq Require Import Strings.Byte.
From Nexus Require Import Codec.Bytes Codec.Values Codec.Tlv Codec.MsgPack Codec.Cbor Codec.Json
     Codec.Schema Codec.MsgList Codec.Serial Codec.Canon
     Codec.TlvProofs Codec.MsgPackProofs Codec.CborProofs Codec.JsonProofs Codec.MsgListProofs Codec.SerialProofs
     Codec.C14Conf gen.GenC14Schema.
Import ListNotations.
Local Open Scope list_scope.

(** ** msg <-> list, all message types of the schema *)

Theorem msglist_roundtrip :
  forall (fm : format) (m : msg),
    wf_msg gen_schema m = true ->
    exists l m',
      msg_to_list gen_schema m = M2LOk l
      /\ from_list CVExact (code_rule_intended fm) gen_schema (map (canon fm) l) = OOk m'
      /\ msg_norm m' = msg_norm (canon_msg fm m).
Proof. exact (fun fm m => msglist_roundtrip_fmt gen_schema fm m gen_schema_ok). Qed.
Print Assumptions msglist_roundtrip.

(** trailing omitempty-and-empty fields are omitted, the rest stays in position *)
Theorem omit_rule :
  forall (m : msg) (l : list value),
    msg_to_list gen_schema m = M2LOk l ->
    exists s k,
      find_struct (m_struct m) (sc_structs gen_schema) = Some s
      /\ l = VInt KI64 (s_code s) :: map fval_to_value (firstn k (m_fields m))
      /\ (k <= List.length (m_fields m))%nat
      /\ Forall drop_true (skipn k (combine (s_fields s) (m_fields m)))
      /\ (k <= 1 \/ exists p, nth_error (combine (s_fields s) (m_fields m)) (k - 1) = Some p
                              /\ droppable (fst p) (snd p) = Some false)%nat
      /\ (m_fields m <> [] -> 1 <= k)%nat.
Proof. exact (omit_rule_generic gen_schema). Qed.
Print Assumptions omit_rule.

(** a keyword-arguments dict without positional arguments keeps its position *)
Theorem kwargs_keep_position :
  forall (m : msg) (l : list value) (s : sdesc) (j : nat) (p : field * fval),
    msg_to_list gen_schema m = M2LOk l ->
    find_struct (m_struct m) (sc_structs gen_schema) = Some s ->
    nth_error (combine (s_fields s) (m_fields m)) j = Some p ->
    droppable (fst p) (snd p) = Some false ->
    forall i v, (i <= j)%nat -> nth_error (m_fields m) i = Some v -> nth_error l (S i) = Some (fval_to_value v).
Proof. exact (kept_in_position gen_schema). Qed.
Print Assumptions kwargs_keep_position.

(** ** The binary formats: every value, unbounded nesting *)

Theorem msgpack_roundtrip :
  forall (v : value) (r : bytes) (d fuel : nat),
    mp_wfv v = true -> (depth v <= d)%nat -> (2 * List.length (mp_encode mp_opts_nexus v ++ r) + 1 <= fuel)%nat ->
    dec (mp_read_head mp_opts_nexus) false d fuel (mp_encode mp_opts_nexus v ++ r) = DOk (canon_mp v) r.
Proof. exact mp_roundtrip_any_depth. Qed.
Print Assumptions msgpack_roundtrip.

(** … and through the decoder as ugorji runs it (at most 1023 levels) *)
Theorem msgpack_roundtrip_decoder :
  forall (v : value) (r : bytes),
    mp_wfv v = true -> (depth v <= max_nesting)%nat ->
    mp_decode gen_mp_opts (mp_encode gen_mp_opts v ++ r) = DOk (canon_mp v) r.
Proof. rewrite gen_mp_opts_ok. exact mp_roundtrip_nexus. Qed.
Print Assumptions msgpack_roundtrip_decoder.

Theorem cbor_roundtrip :
  forall (v : value) (r : bytes) (d fuel : nat),
    cb_wfv v = true -> (depth v <= d)%nat -> (2 * List.length (cb_encode v ++ r) + 1 <= fuel)%nat ->
    dec cb_read_head true d fuel (cb_encode v ++ r) = DOk (canon_cb v) r.
Proof. exact cb_roundtrip_any_depth. Qed.
Print Assumptions cbor_roundtrip.

Theorem cbor_roundtrip_decoder :
  forall (v : value) (r : bytes),
    cb_wfv v = true -> (depth v <= max_nesting)%nat ->
    cb_decode (cb_encode v ++ r) = DOk (canon_cb v) r.
Proof. exact cb_roundtrip_max. Qed.
Print Assumptions cbor_roundtrip_decoder.

(** ** JSON: integers, strings (escaping), binary (NUL + base64), containers;
    floats as an opaque token class — the float text oracle [fprint]/[fparse]
    (Go's strconv as ugorji calls it) is ASSUMED, on [fdom] only, to produce a
    number token that reads back as the same float.  Go satisfies this
    outside [2^52, 1e21) ([json_float_dom]); inside it does not (known finding
    json:float-from-2^52-written-as-integer-literal). *)

Theorem json_roundtrip :
  forall (fprint : N -> bytes) (fparse : bytes -> option N) (fdom : N -> bool),
    (forall f, fdom f = true ->
               float_is_nan_or_inf f = false
               /\ forallb is_num_char (fprint f) = true
               /\ (exists b t, fprint f = b :: t /\ (b2n b = c_minus \/ is_digit b = true))
               /\ num_of_token fparse (fprint f) = Some (VFloat f)) ->
    forall (v : value) (rest : bytes),
      json_dom fdom v = true -> (depth v <= max_nesting)%nat -> delim_ok rest = true ->
      js_decode fparse (js_encode fprint v ++ rest) = DOk (canon_js v) rest.
Proof. exact json_roundtrip_top. Qed.
Print Assumptions json_roundtrip.

(** the float-free fragment needs no assumption at all *)
Theorem json_roundtrip_no_floats :
  forall (fprint : N -> bytes) (fparse : bytes -> option N) (v : value) (rest : bytes),
    json_dom (fun _ => false) v = true -> (depth v <= max_nesting)%nat -> delim_ok rest = true ->
    js_decode fparse (js_encode fprint v ++ rest) = DOk (canon_js v) rest.
Proof.
  exact (fun fp fq => json_roundtrip_top fp fq (fun _ => false) (fun f H => False_ind _ (Bool.diff_false_true H))).
Qed.
Print Assumptions json_roundtrip_no_floats.

(** ** Deserialize (Serialize m) = m, up to numeric kind and nil/empty *)

Theorem msgpack_serialize_deserialize_gen :
  forall (fprint : N -> bytes) (fparse : bytes -> option N) (m : msg) (trailing : bytes),
    wf_msg gen_schema m = true -> payload_ok mp_wf_head m = true -> payload_depth_ok m ->
    exists bs m',
      serialize fprint gen_mp_opts gen_schema FMsgpack m = SerOk bs
      /\ deserialize fparse gen_mp_opts intended_shape gen_schema FMsgpack (bs ++ trailing) = OOk m'
      /\ msg_norm m' = msg_norm (canon_msg FMsgpack m).
Proof.
  rewrite gen_mp_opts_ok.
  exact (fun fp fq m t => msgpack_serialize_deserialize fp fq gen_schema m t gen_schema_ok).
Qed.
Print Assumptions msgpack_serialize_deserialize_gen.

Theorem cbor_serialize_deserialize_gen :
  forall (fprint : N -> bytes) (fparse : bytes -> option N) (m : msg) (trailing : bytes),
    wf_msg gen_schema m = true -> payload_ok cb_wf_head m = true -> payload_depth_ok m ->
    exists bs m',
      serialize fprint gen_mp_opts gen_schema FCbor m = SerOk bs
      /\ deserialize fparse gen_mp_opts intended_shape gen_schema FCbor (bs ++ trailing) = OOk m'
      /\ msg_norm m' = msg_norm (canon_msg FCbor m).
Proof. exact (fun fp fq m t => cbor_serialize_deserialize fp fq gen_mp_opts gen_schema m t gen_schema_ok). Qed.
Print Assumptions cbor_serialize_deserialize_gen.

Theorem json_serialize_deserialize_gen :
  forall (fprint : N -> bytes) (fparse : bytes -> option N) (fdom : N -> bool),
    (forall f, fdom f = true ->
               float_is_nan_or_inf f = false
               /\ forallb is_num_char (fprint f) = true
               /\ (exists b t, fprint f = b :: t /\ (b2n b = c_minus \/ is_digit b = true))
               /\ num_of_token fparse (fprint f) = Some (VFloat f)) ->
    forall (m : msg) (trailing : bytes),
      wf_msg gen_schema m = true -> payload_json_ok fdom m = true -> payload_depth_ok m -> delim_ok trailing = true ->
      exists bs m',
        serialize fprint gen_mp_opts gen_schema FJson m = SerOk bs
        /\ deserialize fparse gen_mp_opts intended_shape gen_schema FJson (bs ++ trailing) = OOk m'
        /\ msg_norm m' = msg_norm (canon_msg FJson m).
Proof.
  exact (fun fp fq fd H m t => json_serialize_deserialize fp fq fd H gen_mp_opts gen_schema m t gen_schema_ok).
Qed.
Print Assumptions json_serialize_deserialize_gen.

(** ** The formats decode each other's meaning identically (up to numeric kind) *)

Theorem cross_format_mp_cbor : forall v : value, value_equiv (canon_mp v) (canon_cb v) = true.
Proof. exact cross_format_msgpack_cbor. Qed.
Print Assumptions cross_format_mp_cbor.

Theorem cross_format_json_binary : forall v : value, json_plain v = true -> value_equiv (canon_js v) (canon_cb v) = true.
Proof. exact cross_format_json_cbor. Qed.
Print Assumptions cross_format_json_binary.

(** all three at once, and at message level *)
Theorem cross_format :
  forall v : value,
    value_equiv (canon_mp v) (canon_cb v) = true
    /\ (json_plain v = true ->
        value_equiv (canon_js v) (canon_mp v) = true /\ value_equiv (canon_js v) (canon_cb v) = true).
Proof. exact cross_format_all. Qed.
Print Assumptions cross_format.

Theorem cross_format_messages :
  forall m : msg, msg_equiv (canon_msg FMsgpack m) (canon_msg FCbor m) = true.
Proof. exact cross_format_msg_mp_cbor. Qed.
Print Assumptions cross_format_messages.

(** ** Arbitrary input: never a panic; a message only for a list with a known
    code and compatible items *)

Theorem list_to_msg_total :
  forall (cr : code_rule) (vlist : list value),
    from_list CVExact cr gen_schema vlist <> OPanic
    /\ ((exists m, from_list CVExact cr gen_schema vlist = OOk m) \/ (exists e, from_list CVExact cr gen_schema vlist = OErr e))
    /\ (forall m, from_list CVExact cr gen_schema vlist = OOk m ->
                  is_list_with_known_code cr gen_schema vlist /\ fields_compatible cr gen_schema vlist).
Proof.
  exact (fun cr vlist =>
           conj (from_list_no_panic CVExact cr gen_schema vlist gen_schema_ok)
                (conj (from_list_exact_outcomes cr gen_schema vlist gen_schema_ok)
                      (from_list_exact_ok cr gen_schema vlist))).
Qed.
Print Assumptions list_to_msg_total.

(** the part that also holds of Go's reflect conversion table: never a panic *)
Theorem list_to_msg_total_partial :
  forall (cv : conv_rule) (cr : code_rule) (vlist : list value), from_list cv cr gen_schema vlist <> OPanic.
Proof. exact (fun cv cr vlist => from_list_no_panic cv cr gen_schema vlist gen_schema_ok). Qed.
Print Assumptions list_to_msg_total_partial.

Theorem decode_msgpack_total : forall bs : bytes, mp_decode gen_mp_opts bs <> DFuel.
Proof. exact (mp_decode_total gen_mp_opts). Qed.
Print Assumptions decode_msgpack_total.

Theorem decode_cbor_total : forall bs : bytes, cb_decode bs <> DFuel.
Proof. exact cb_decode_total. Qed.
Print Assumptions decode_cbor_total.

Theorem decode_json_total : forall (fparse : bytes -> option N) (bs : bytes), js_decode fparse bs <> DFuel.
Proof. exact js_decode_total. Qed.
Print Assumptions decode_json_total.

(** ** Refuted for the UNREPAIRED behaviour (a tree whose listToMsg uses
    reflect's conversion table, whose Deserialize decodes into a []any): the
    faithful model of that code accepts a list whose items are NOT compatible
    with the field types, and accepts a MAP as a message. *)

Theorem list_to_msg_compat_refuted :
  exists (vlist : list value) (m : msg),
    from_list CVReflect CRUint64Only gen_schema vlist = OOk m
    /\ ~ fields_compatible CRUint64Only gen_schema vlist.
Proof. exact list_to_msg_compat_refuted_proof. Qed.
Print Assumptions list_to_msg_compat_refuted.

Theorem deserialize_map_refuted :
  exists (bs : bytes) (m : msg),
    deserialize (fun _ => None) gen_mp_opts unrepaired_shape gen_schema FMsgpack bs = OOk m
    /\ (forall l r, mp_decode gen_mp_opts bs <> DOk (VList l) r).
Proof. exact deserialize_map_refuted_proof. Qed.
Print Assumptions deserialize_map_refuted.

(** ** Non-vacuity: the hypotheses above are satisfiable by non-trivial inputs *)

Definition ex_key (l : list N) : bytes := map n2b l.

(** PUBLISH with nil Arguments and a non-empty ArgumentsKw holding a nested payload *)
Definition ex_publish : msg :=
  {| m_struct := "Publish"%string;
     m_fields := [FId 9007199254740992; FDict (Some []); FStr (ex_key [97; 46; 98]);
                  FList None;
                  FDict (Some [(ex_key [107], VList [VInt KI64 (-1); VInt KU64 200; VFloat 4609434218613702656;
                                                      VStr (ex_key [195; 169]); VBin (ex_key [0; 255]);
                                                      VDict [(ex_key [120], VNull); (ex_key [121], VBool true)]])])] |}.

Example ex_publish_wf :
  wf_msg gen_schema ex_publish = true
  /\ payload_ok mp_wf_head ex_publish = true /\ payload_ok cb_wf_head ex_publish = true.
Proof. vm_compute. auto. Qed.

Example ex_publish_depth : payload_depth_ok ex_publish.
Proof.
  apply Forall_forall. intros v Hv. apply PeanoNat.Nat.ltb_lt. revert v Hv. apply forallb_forall.
  vm_compute. reflexivity.
Qed.

(** the kwargs-without-args rule on it: Arguments stays (as nil) at position 4 *)
Example ex_publish_list :
  msg_to_list gen_schema ex_publish
  = M2LOk [VInt KI64 16; VInt KU64 9007199254740992; VDict []; VStr (ex_key [97; 46; 98]); VNull;
           VDict [(ex_key [107], VList [VInt KI64 (-1); VInt KU64 200; VFloat 4609434218613702656;
                                        VStr (ex_key [195; 169]); VBin (ex_key [0; 255]);
                                        VDict [(ex_key [120], VNull); (ex_key [121], VBool true)]])]].
Proof. vm_compute. reflexivity. Qed.

(** trailing empties dropped: EVENT with empty Arguments and nil ArgumentsKw *)
Example ex_event_trimmed :
  msg_to_list gen_schema {| m_struct := "Event"%string;
                            m_fields := [FId 1; FId 2; FDict None; FList (Some []); FDict None] |}
  = M2LOk [VInt KI64 36; VInt KU64 1; VInt KU64 2; VNull].
Proof. vm_compute. reflexivity. Qed.

(** a value in the domain of both binary round trips, and its canonical forms *)
Example ex_value_domain :
  let v := VList [VInt KU64 5; VInt KU64 200; VInt KI64 (-33); VStr (ex_key [97]); VDict [(ex_key [107], VList [])]] in
  mp_wfv v = true /\ cb_wfv v = true
  /\ canon_mp v = VList [VInt KI64 5; VInt KU64 200; VInt KI64 (-33); VStr (ex_key [97]); VDict [(ex_key [107], VList [])]]
  /\ canon_cb v = VList [VInt KU64 5; VInt KU64 200; VInt KI64 (-33); VStr (ex_key [97]); VDict [(ex_key [107], VList [])]].
Proof. vm_compute. auto. Qed.

Example ex_json_domain :
  json_dom (fun _ => false) (VList [VInt KU64 5; VInt KI64 (-33); VStr (ex_key [34; 92; 195; 169; 226; 128; 168; 60]);
                                    VBin (ex_key [1; 2; 3]); VDict [(ex_key [107], VList [VNull; VBool true])]]) = true
  /\ js_encode (fun _ => []) (VList [VInt KU64 5; VInt KI64 (-33); VStr (ex_key [34; 92; 195; 169; 226; 128; 168; 60]); VBin (ex_key [1; 2; 3])])
     = map n2b [91; 53; 44; 45; 51; 51; 44; 34; 92; 34; 92; 92; 195; 169; 92; 117; 50; 48; 50; 56; 92; 117; 48; 48; 51; 99; 34; 44;
                34; 92; 117; 48; 48; 48; 48; 65; 81; 73; 68; 34; 93]%N.
Proof. vm_compute. auto. Qed.

(** list_to_msg_total is not vacuous: a compatible list gives a message, an
    incompatible one an error *)
Example ex_l2m_ok :
  from_list CVExact CRUint64Only gen_schema [VInt KU64 32; VInt KU64 1; VDict []; VStr (ex_key [97])]
  = OOk {| m_struct := "Subscribe"%string; m_fields := [FId 1; FDict (Some []); FStr (ex_key [97])] |}.
Proof. vm_compute. reflexivity. Qed.

Example ex_l2m_err :
  from_list CVExact CRUint64Only gen_schema w_int_for_uri = OErr (EField 3)
  /\ from_list CVExact CRUint64Only gen_schema [VInt KU64 7; VInt KU64 1] = OErr EUnknownType
  /\ from_list CVExact CRUint64Only gen_schema [VStr (ex_key [51; 51])] = OErr EFormat.
Proof. vm_compute. auto. Qed.

(** in-kernel sample of the correspondence: the bytes the Go serializers
    produce for [ex_publish]-like messages decode to what Go's Deserialize
    returns (larger samples: coq/cases/cases_c14.v, written on every run) *)
Example ex_bytes_msgpack :
  deserialize (fun _ => None) gen_mp_opts intended_shape gen_schema FMsgpack
              (map n2b [0x96; 0x10; 0x01; 0xc0; 0xa3; 0x61; 0x2e; 0x62; 0xc0; 0x81; 0xa1; 0x6b; 0x01])
  = OOk {| m_struct := "Publish"%string;
           m_fields := [FId 1; FDict None; FStr (ex_key [97; 46; 98]); FList None; FDict (Some [(ex_key [107], VInt KI64 1)])] |}.
Proof. vm_compute. reflexivity. Qed.

Example ex_bytes_cbor :
  deserialize (fun _ => None) gen_mp_opts intended_shape gen_schema FCbor
              (map n2b [0x86; 0x10; 0x01; 0xf6; 0x63; 0x61; 0x2e; 0x62; 0xf6; 0xa1; 0x61; 0x6b; 0x01])
  = OOk {| m_struct := "Publish"%string;
           m_fields := [FId 1; FDict None; FStr (ex_key [97; 46; 98]); FList None; FDict (Some [(ex_key [107], VInt KU64 1)])] |}.
Proof. vm_compute. reflexivity. Qed.
