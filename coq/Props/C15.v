(** * C15 -- transports frame messages faithfully and are interchangeable

    Statements only; every proof is [exact <lemma>].  All statements are
    about the code regenerated from /repo on this run ([GenC15], through
    [gen_params], [server_handshake], [client_handshake], ...), for ALL
    handshake bytes, byte streams, message lists, sizes and schedules.

    Reading guide:
    - [recv d P lim bytes]: what the reader goroutine of a peer whose receive
      limit is [lim] does when the other side sends [bytes] and closes
      ([EvMsg b]: body b delivered; [EvPong w]: w written back; [EvClose]:
      connection closed by the reader; [EvEOF]: stream ended; [EvNil]: a nil
      message delivered; [d]: which bodies the deserializer accepts).
    - [send_stream P lim ms]: the bytes the writer goroutine of a peer whose
      send limit is [lim] puts on the wire for the serialized messages [ms].
    - [frame t m]: type byte t, 24-bit big-endian length of m, then m. *)

From Coq Require Import String ZArith List Bool.
From Nexus Require Import Transport.GoArith Transport.RawOps Transport.RawFrame Transport.RawSpec
  Transport.RawProofs Transport.RawGen Transport.RawConformArith Transport.RawConformFrame
  Transport.RawHandshake Transport.RawConformHandshake Transport.PeerDiscipline
  Transport.PeerDisciplineProofs Transport.RawLegacy Transport.RawTheorems Transport.WsPeer gen.GenC15.
Import ListNotations.
Open Scope Z_scope.

(** ** handshake *)

(** client (protocol byte proto, configured limit cfgC) meets server
    (configured limit cfgS): both accept, with the same serializer, and each
    side's send limit is the limit the other side announced. *)
Theorem handshake_agree : forall proto cfgC cfgS outQ, 1 <= proto <= 3 ->
  let kC := fit_recv_limit cfgC in
  let kS := fit_recv_limit cfgS in
  handshake_run proto cfgC cfgS outQ =
  (HsPeer [spec_hello kS proto] (ser_of_byte proto) (announced kC) (announced kS),
   HsPeer [spec_hello kC proto] (ser_of_byte proto) (announced kS) (announced kC)).
Proof. exact gen_handshake_agree. Qed.
Print Assumptions handshake_agree.

(** the server's outcome for EVERY first four bytes (and anything after) *)
Theorem handshake_server_total : forall cfg outQ b0 b1 b2 b3 rest, is_byte b1 ->
  hs_eqb (server_handshake cfg outQ (b0 :: b1 :: b2 :: b3 :: rest))
         (spec_server (fit_recv_limit cfg) b0 b1 b2 b3) = true.
Proof. exact gen_server_spec. Qed.
Print Assumptions handshake_server_total.

(** the client's outcome for EVERY reply *)
Theorem handshake_client_total : forall proto cfg r0 r1 r2 r3 rest, 1 <= proto <= 3 -> is_byte r1 ->
  hs_eqb (client_handshake proto cfg (r0 :: r1 :: r2 :: r3 :: rest))
         (spec_client (fit_recv_limit cfg) proto r0 r1) = true.
Proof. exact gen_client_spec. Qed.
Print Assumptions handshake_client_total.

(** a handshake the server does not accept (short, bad magic, reserved bytes,
    serializer 0 or above 3) never yields a peer: nothing or one of the two
    error replies is written, and the wrapper closes the connection *)
Theorem handshake_fail_clean :
  (forall cfg outQ input,
     (forall b0 b1 b2 b3 rest, input = b0 :: b1 :: b2 :: b3 :: rest ->
        is_byte b1 /\ ~ (b0 = 127 /\ b2 = 0 /\ b3 = 0 /\ 1 <= b1 mod 16 <= 3)) ->
     exists w e, server_handshake cfg outQ input = HsErr w e /\
                 (w = [] \/ w = [[127; 48; 0; 0]] \/ w = [[127; 16; 0; 0]])) /\
  (forall proto cfg input, 1 <= proto <= 3 ->
     (forall r0 r1 r2 r3 rest, input = r0 :: r1 :: r2 :: r3 :: rest ->
        is_byte r1 /\ ~ (r0 = 127 /\ r1 mod 16 = proto)) ->
     exists e, client_handshake proto cfg input = HsErr [spec_hello (fit_recv_limit cfg) proto] e) /\
  accept_closes_on_error = true /\ connect_closes_on_error = true.
Proof.
  exact (conj gen_handshake_fail_clean_server
        (conj gen_handshake_fail_clean_client gen_wrappers_close)).
Qed.
Print Assumptions handshake_fail_clean.

(** the announced nibble: least power of two (2^9 .. 2^24) not below the
    configured limit; 15 for a non-positive or too large configuration *)
Theorem fit_recv_limit_least : forall r, fit_ok r (fit_recv_limit r).
Proof. exact gen_fit_recv_limit. Qed.
Print Assumptions fit_recv_limit_least.

(** ** lengths *)

Theorem length_roundtrip : forall n, 0 <= n < 2 ^ 24 -> bytes_to_int (int_to_bytes n) = n.
Proof. exact gen_length_roundtrip. Qed.
Print Assumptions length_roundtrip.

(** ** frames *)

(** messages within the receiver's limit (and the 24-bit length field) arrive
    intact, in order, and nothing else happens *)
Theorem frames_intact : forall d lim ms,
  Forall (fun m => len m <= lim /\ len m <= max_len) ms ->
  recv d gen_params lim (concat (map (frame 0) ms)) = map (deliver d) ms ++ [EvEOF].
Proof. exact frames_intact_gen. Qed.
Print Assumptions frames_intact.

(** the sender drops exactly the messages that are too large for the limit
    (or for the length field), each as a whole; the receiver gets the others
    unchanged and in order *)
Theorem oversize_dropped_whole : forall d lim ms,
  send_stream gen_params lim ms = concat (map (frame 0) (filter (sendable lim) ms)) /\
  recv d gen_params lim (send_stream gen_params lim ms) =
    map (deliver d) (filter (sendable lim) ms) ++ [EvEOF].
Proof. exact oversize_dropped_whole_gen. Qed.
Print Assumptions oversize_dropped_whole.

(** a frame of reserved type, or longer than the announced limit, closes the
    connection whatever follows *)
Theorem reserved_closes : forall d lim h a b c rest,
  is_byte h -> is_byte a -> is_byte b -> is_byte c ->
  (3 <= h mod 8 \/ hlen a b c > lim) ->
  recv d gen_params lim (h :: a :: b :: c :: rest) = [EvClose].
Proof. exact reserved_closes_gen. Qed.
Print Assumptions reserved_closes.

(** no byte stream at all makes the reader deliver a nil message (or panic) *)
Theorem never_nil : forall d lim inp, Forall is_byte inp ->
  ~ In EvNil (recv d gen_params lim inp) /\ ~ In EvPanic (recv d gen_params lim inp).
Proof. exact never_nil_gen. Qed.
Print Assumptions never_nil.

(** PING (any reserved upper bits) is answered by PONG with the same payload *)
Theorem ping_pong : forall d lim fl p rest,
  0 <= fl < 32 -> len p <= lim -> len p <= max_len ->
  recv d gen_params lim (frame (fl * 8 + 1) p ++ rest) =
  EvPong (frame 2 p) :: recv d gen_params lim rest.
Proof. exact ping_pong_gen. Qed.
Print Assumptions ping_pong.

(** any sequence of messages, PINGs and PONGs of a conforming peer *)
Theorem mixed_frames : forall d lim fs, Forall (wf_ok lim) fs ->
  recv d gen_params lim (concat (map wf_bytes fs)) = flat_map (wf_events d) fs ++ [EvEOF].
Proof. exact mixed_frames_gen. Qed.
Print Assumptions mixed_frames.

(** ** the two writing goroutines *)

(** when both goroutines write their frames inside one critical section of a
    common mutex, header and body of every frame are adjacent on the wire:
    for every schedule, any messages, any PINGs *)
Theorem no_interleave :
  discipline_ok GenC15.send_ops gen_ping_ops = true ->
  forall bodies pings sched,
    contiguous (tags (run sched (init (writer_frames gen_params gen_mutex bodies)
                                      (reader_frames gen_ping_ops gen_mutex pings)))).
Proof. exact no_interleave_gen. Qed.
Print Assumptions no_interleave.

(** the code without the mutex (RawLegacy.v; which of the two shapes /repo
    has today is decided by Transport/RawConformDiscipline.v): refuted by the
    schedule writer-header, reader-PONG, writer-body *)
Theorem no_interleave_refuted :
  exists bodies pings sched,
    let s := run sched (init (writer_frames legacy_params "m" bodies)
                             (reader_frames (legacy_ping_ops 1) "m" pings)) in
    finished s = true /\ ~ contiguous (tags s).
Proof. exact no_interleave_refuted_legacy. Qed.
Print Assumptions no_interleave_refuted.

(** ... and it holds again under exactly the excluded trigger: no goroutine
    writes while the other one is between two Writes of one frame (i.e. no
    PING is answered while a message frame is being written, and vice versa) *)
Theorem no_interleave_partial : forall n bodies pings sched,
  let s0 := init (writer_frames legacy_params "m" bodies)
                 (reader_frames (legacy_ping_ops n) "m" pings) in
  calm sched s0 -> contiguous (tags (run sched s0)).
Proof. exact no_interleave_partial_legacy. Qed.
Print Assumptions no_interleave_partial.

(** ** websocket *)

(** both sender loops of the websocket peer (keep-alive off / on) write
    exactly the serializable messages of the queue, in order: a message the
    codec cannot encode is dropped alone ([ser m = None]: cannot be encoded) *)
Theorem ws_unserialisable_dropped_alone : forall (M : Type) (ser : M -> option (list Z)) msgs,
  ws_send M ser GenC15.ws_send_plain msgs = keep_ser M ser msgs /\
  ws_send M ser GenC15.ws_send_keepalive msgs = keep_ser M ser msgs.
Proof. exact ws_unserialisable_dropped_alone_gen. Qed.
Print Assumptions ws_unserialisable_dropped_alone.

(** ** non-vacuity: the hypotheses above are satisfiable, on concrete inputs *)

Example ex_handshake : handshake_run 2 4096 0 64 =
  (HsPeer [[127; 242; 0; 0]] SerMsgpack 4096 16777216, HsPeer [[127; 50; 0; 0]] SerMsgpack 16777216 4096).
Proof. vm_compute. reflexivity. Qed.

Example ex_fail_clean : server_handshake 0 64 [127; 4; 0; 0] = HsErr [[127; 16; 0; 0]] "serializer unsupported"
  /\ exists e, server_handshake 0 64 [127; 16; 0; 0] = HsErr [] e.
Proof. vm_compute. split; [reflexivity|eexists; reflexivity]. Qed.

Example ex_frames_intact :
  recv (fun _ => true) gen_params 512 (frame 0 [91; 93] ++ frame 0 [91; 49; 93]) =
  [EvMsg [91; 93]; EvMsg [91; 49; 93]; EvEOF].
Proof. vm_compute. reflexivity. Qed.

Example ex_oversize :
  send_stream gen_params 2 [[1; 2; 3]; [4; 5]] = frame 0 [4; 5] /\ sendable 2 [1; 2; 3] = false.
Proof. vm_compute. split; reflexivity. Qed.

Example ex_reserved : recv (fun _ => true) gen_params 512 [3; 0; 0; 0; 9; 9] = [EvClose]
  /\ recv (fun _ => true) gen_params 512 [0; 0; 2; 1] = [EvClose].
Proof. vm_compute. split; reflexivity. Qed.

Example ex_ping : recv (fun _ => true) gen_params 512 (frame 9 [7; 8]) = [EvPong (frame 2 [7; 8]); EvEOF].
Proof. vm_compute. reflexivity. Qed.

(** the interface the generic theorems assume is met by the reference
    instance, and [discipline_ok] by its op lists *)
Example ex_spec_ok : recv_ok spec_params /\ send_ok spec_params /\
  discipline_ok (p_send_ops spec_params) (ops_for spec_params 1 0) = true.
Proof. exact (conj spec_recv_ok (conj spec_send_ok eq_refl)). Qed.

Example ex_calm : calm [W; W; R; R] (init (writer_frames legacy_params "m" [ex_body])
                                         (reader_frames (legacy_ping_ops 1) "m" [(ex_ping_hdr, ex_ping_payload)])).
Proof. vm_compute. intuition discriminate. Qed.
