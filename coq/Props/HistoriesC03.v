(** * History-level corollaries for C03 over the whole router model

    One of three files (Props/HistoriesC02.v, HistoriesC03.v, HistoriesC05.v);
    the common explanation follows. *)
(** * History-level corollaries over the whole router model (C02, C05, C03)

    Statements only; proofs in Router/RealmTraceLib.v, RealmTrace.v,
    RealmTraceC05.v, RealmTraceInv.v, RealmTraceC03.v; concrete histories in
    Router/RealmTraceEx.v.

    Every statement is about [run (init_realm cfg) ops] for EVERY operation
    list [ops] (sessions joining, client messages with their tie-break oracle,
    transports dropping, virtual time passing), under the side hypotheses of the
    reachable-state theorems (Props/C05.v): [Forall op_ok ops] (a joining
    session id is a valid WAMP id) and the no-wrap bound
    [k0 cfg + length ops <= 2^53].

    [trace cfg ops] is the history as one list of events: each operation
    [EIn o] followed by the messages [EOut (receiver, message)] the router sent
    while handling it, in order.

    C02.  [mon_run (x, q) false tr] runs the reply monitor of call id
    (caller session [x], request id [q]) over [tr]: it opens at a
    [CALL q] from [x], must be open when a RESULT [q] / ERROR(CALL) [q] is sent
    to [x], and shuts at a final one (RESULT without [progress = true], or
    ERROR(CALL)); it fails ([None]) exactly when such a reply is sent while it
    is shut.  [realm_reply_discipline]: it never fails.  Its two readable
    consequences: [realm_reply_owned] and [realm_reply_unique].

    FOUND FALSE OF THE MODEL (and of router/realm.go authzMessage): without a
    hypothesis on the authorization gate the uniqueness statement fails.  When
    the authorizer refuses a further chunk of a pending progressive call, the
    realm answers ERROR(CALL) itself, the dealer is not told, the call stays
    recorded, and the callee's RESULT is delivered afterwards: two final
    replies for one CALL ([realm_reply_unique_refuted], a six-operation
    history).  (An authorizer may also hand back a different message, e.g.
    turn a PUBLISH into a CALL, which breaks ownership trivially.)  The
    theorems therefore carry [along gate_fresh (init_realm cfg) ops]: at every
    step of the history the gate (a) admits a message as a CALL [q] exactly when
    it received a CALL [q], and (b) refuses with an ERROR(CALL) only CALL
    messages whose id is not that of a recorded (pending) call.  It holds
    outright without authorizer ([gate_fresh_no_authz]) and for an authorizer
    that keeps the CALL identity of messages and never refuses a message of
    type CALL ([gate_fresh_call_safe]); [GateEx] shows it holding with an
    authorizer that does refuse a CALL.  These are the [_partial] statements;
    the full ones are the [_noauthz] corollaries.

    C03.  [inv_ev y b e]: event [e] is an INVOCATION with request id [b] sent
    to session [y]; [sent y b tr]: such an event occurs in [tr];
    [sent_live y b tr]: it occurs and no JOIN operation with session id [y]
    comes after it in [tr] (ids restart when a session id is used again).
    [invocation_ids_increase] needs no hypothesis on the gate.

    FOUND FALSE OF THE MODEL as literally stated: "after UNREGISTERED no
    INVOCATION naming that registration reaches the session unless it registers
    again" — a further chunk of a progressive call that was routed to the
    session before is still delivered to it, under the id of the registration
    the chunk's procedure currently resolves to
    ([invocation_after_unregistered_refuted]: shared registration, the other
    callee keeps it alive).  The true statement excepts further chunks
    ([no_invocation_after_unregistered_partial]); it carries
    [along gate_unreg_id]: the gate admits an UNREGISTER as the UNREGISTER it
    received (an authorizer could otherwise swap the registration id). *)
From Nexus Require Import Router.Realm Router.DealerLib Router.DealerReply Router.DealerTrace.
From Nexus Require Import Router.RealmWf Router.RealmStep.
From Nexus Require Import Router.RealmTraceLib Router.RealmTrace Router.RealmTraceC05 Router.RealmTraceInv
     Router.RealmTraceC03 Router.RealmTraceEx.


(** ** C03 over histories *)

(** every INVOCATION sent to [y] carries a request id greater than every id
    sent to [y] since the last JOIN with that session id (a new call: never
    used before towards that session), or repeats the id of an INVOCATION sent
    to [y] before (a further chunk of a progressive call) *)
Theorem invocation_ids_increase : forall cfg ops y pre e post b,
    Forall op_ok ops -> k0 cfg + N.of_nat (List.length ops) <= max_idN ->
    trace cfg ops = pre ++ e :: post -> inv_ev y b e ->
    (forall i, sent_live y i pre -> i < b) \/ sent y b pre.
Proof. exact invocation_ids_increase_all_proof. Qed.
Print Assumptions invocation_ids_increase.

(** after [y]'s UNREGISTER of [rid] was answered UNREGISTERED, an INVOCATION
    naming [rid] reaches [y] only if [y] was answered REGISTERED [rid] in
    between, or as a further chunk (its id was sent to [y] before) *)
Theorem no_invocation_after_unregistered_partial : forall cfg ops y rid pre0 q orc mid b det a kw post,
    Forall op_ok ops -> k0 cfg + N.of_nat (List.length ops) <= max_idN ->
    along gate_unreg_id (init_realm cfg) ops ->
    trace cfg ops = pre0 ++ EIn (OMsg y (CUnregister q rid) orc) :: EOut (y, RUnregistered q) ::
                    mid ++ EOut (y, RInvocation b rid det a kw) :: post ->
    (exists q', In (EOut (y, RRegistered q' rid)) mid) \/
    sent y b (pre0 ++ EIn (OMsg y (CUnregister q rid) orc) :: EOut (y, RUnregistered q) :: mid).
Proof. exact no_invocation_after_unregistered_proof. Qed.
Print Assumptions no_invocation_after_unregistered_partial.

Theorem gate_unreg_id_no_authz : forall cfg ops, c_authz cfg = None -> along gate_unreg_id (init_realm cfg) ops.
Proof. exact RealmTraceC03.gate_unreg_id_no_authz. Qed.
Print Assumptions gate_unreg_id_no_authz.

Theorem gate_unreg_id_static : forall cfg ops, authz_keeps_unregister cfg -> along gate_unreg_id (init_realm cfg) ops.
Proof. exact RealmTraceC03.gate_unreg_id_static. Qed.
Print Assumptions gate_unreg_id_static.

(** the literal statement (no exception for further chunks) is false, even
    without authorizer *)
Theorem invocation_after_unregistered_refuted :
    exists cfg ops y rid pre0 q orc mid b det a kw post,
      Forall op_ok ops /\ k0 cfg + N.of_nat (List.length ops) <= max_idN /\ c_authz cfg = None /\
      trace cfg ops = pre0 ++ EIn (OMsg y (CUnregister q rid) orc) :: EOut (y, RUnregistered q) ::
                      mid ++ EOut (y, RInvocation b rid det a kw) :: post /\
      forall q', ~ In (EOut (y, RRegistered q' rid)) mid.
Proof. exact UnregEx.invocation_after_unregistered. Qed.
Print Assumptions invocation_after_unregistered_refuted.

(** what one [step] from a well-formed realm does to INVOCATIONs, pending
    invocation keys, generators and registration membership: it is quiet
    ([qstep]), or a CALL routed to a client callee whose whole output is the one
    INVOCATION — fresh id = the callee's generator + 1 with the callee a member
    of the registration named, or the id of a pending invocation of that callee
    ([inv_step]) —, or a session joins ([join_step]) *)
Theorem step_invocation_facts : forall r o k,
    realm_wf r -> ids_below k r -> k < max_idN -> op_ok o ->
    qstep r (snd (step r o)) (fst (step r o)) \/
    inv_step r (snd (step r o)) (fst (step r o)) \/
    join_step r o (snd (step r o)) (fst (step r o)).
Proof. exact step_inv_facts. Qed.
Print Assumptions step_invocation_facts.

(** ** Non-vacuity *)
(** C03: the INVOCATIONs (and JOINs) of a history: ids 1, 2, 1 again (further
    chunk), and 1 afresh after session 11 joined again *)
Example histories_c03_ids_hypotheses_satisfiable :
    Forall op_ok InvEx.opsI /\ k0 InvEx.cfg0 + N.of_nat (List.length InvEx.opsI) <= max_idN.
Proof. exact InvEx.hyps. Qed.

Example histories_c03_invocations :
    filter (fun e => match e with EOut m => is_inv m | EIn (OJoin _ _ _) => true | EIn _ => false end)
           (trace InvEx.cfg0 InvEx.opsI) =
    [EIn (OJoin 10 false hello_all); EIn (OJoin 11 false hello_all);
     EOut InvEx.inv1; EOut InvEx.inv2; EOut InvEx.inv1'; EIn (OJoin 11 false hello_all); EOut InvEx.inv1''].
Proof. exact InvEx.invocations. Qed.

Example histories_c03_chunk_repeats :
    exists pre post, trace InvEx.cfg0 InvEx.opsI = pre ++ EOut InvEx.inv1' :: post /\
                     inv_ev 11 1 (EOut InvEx.inv1') /\ sent 11 1 pre.
Proof. exact InvEx.chunk_repeats. Qed.

(** C03: the hypotheses of [no_invocation_after_unregistered_partial] hold of
    the refuting history; the INVOCATION after UNREGISTERED is a further chunk *)
Example histories_c03_unreg_hypotheses_satisfiable :
    Forall op_ok UnregEx.opsU /\ k0 UnregEx.cfg0 + N.of_nat (List.length UnregEx.opsU) <= max_idN /\
    along gate_unreg_id (init_realm UnregEx.cfg0) UnregEx.opsU.
Proof. exact UnregEx.hyps. Qed.

Example histories_c03_unreg_further_chunk : sent 11 1 UnregEx.preU.
Proof. exact UnregEx.is_further_chunk. Qed.
