(** * History-level corollaries for C20 (event history) over the whole router
    model

    Statements only; proofs in Router/RealmTraceC01Seg.v (a step as a sequence
    of broker operations), RealmTraceC01Ok.v, RealmTraceC20Store.v,
    RealmTraceC20Query.v, RealmTraceC20Pubs.v; concrete history in
    Router/RealmTraceBrokerEx.v ([HistEx]).

    Every statement is about [run (init_realm cfg) ops] for EVERY operation
    list [ops], under [Forall op_ok ops] and the no-wrap bound
    [k0 cfg + length ops <= 2^53] (as in Props/HistoriesC01.v, C02, C03, C05).

    [realm_pubs cfg ops] is the list, in order, of the broker operations the
    realm performed along the history ([BrokerRun.bop]; each carries the id
    supply, the session lookup, the clock and the publisher it ran with): the
    SUBSCRIBEs, UNSUBSCRIBEs and session removals, and every PUBLISH — those of
    clients whose message the gate admitted and those of the meta session
    (session meta events, registration meta events, testaments)
    ([realm_pubs_by]).  [hist_ref cfg id t k] (Props/C20.v,
    [C20_hist_ref_def]) selects from them the reference publications of the
    history subscription (id, topic [t], policy [k]): accepted, matching, and
    carrying neither an [exclude] nor an [eligible] option key; subscription
    operations contribute nothing, so the list — and the store — do not depend
    on them.

    [realm_store_is_last_N]: after every history the store of every configured
    history subscription holds exactly the last <= limit reference
    publications, oldest first.  [realm_get_events_sound]: at every point of a
    history [wamp.subscription.get_events] answers the query function of
    Props/C20.v ([C20_query_shape], [C20_query_filter_spec], ...) applied to
    that list, or nothing; hence only entries published earlier in the history
    ([realm_get_events_only_published]). *)
From Nexus Require Import Router.Realm Router.RealmMetaProofs Router.BrokerWf Router.BrokerPublish Router.BrokerRun
     Router.BrokerHist Router.BrokerHistInit Router.BrokerQuery.
From Nexus Require Import Router.RealmWf Router.RealmStep.
From Nexus Require Import Router.RealmTraceLib Router.RealmTraceC01Seg Router.RealmTraceC20Store
     Router.RealmTraceC20Query Router.RealmTraceC20Pubs Router.RealmTraceBrokerEx.

(** ** The publications of a history *)

Theorem realm_pubs_def : forall cfg ops, realm_pubs cfg ops = bops_of (segs_run (init_realm cfg) ops).
Proof. exact (fun cfg ops => eq_refl). Qed.
Print Assumptions realm_pubs_def.

(** they are those of its steps, in order *)
Theorem realm_pubs_steps : forall cfg ops o,
    realm_pubs cfg (ops ++ [o]) = realm_pubs cfg ops ++ bops_of (segs_step (fst (run (init_realm cfg) ops)) o).
Proof. exact realm_pubs_snoc. Qed.
Print Assumptions realm_pubs_steps.

(** a PUBLISH among them is by an attached client whose message the gate
    admitted as that PUBLISH (run with the realm's id supply, lookup and clock),
    or by the meta session in some intermediate realm state *)
Theorem realm_pubs_by : forall cfg ops pg lk now pub req opts topic args kw,
    In (BPublish pg lk now pub req opts topic args kw) (realm_pubs cfg ops) ->
    exists pre op post,
      ops = pre ++ op :: post /\
      let r := fst (run (init_realm cfg) pre) in
      ((exists sid m orc, op = OMsg sid m orc /\ find_session (r_clients r) sid = Some pub /\
                          gate r pub m = inl (CPublish req opts topic args kw) /\
                          pg = r_pubgen r /\ lk = lookup r /\ now = r_now r) \/
       (exists r' mp, BPublish pg lk now pub req opts topic args kw =
                      BPublish (r_pubgen r') (lookup r') (r_now r') (r_meta r') 0
                               (mp_opts mp) (mp_topic mp) (mp_args mp) (mp_kw mp))).
Proof. exact realm_pubs_by_proof. Qed.
Print Assumptions realm_pubs_by.

(** an admitted client PUBLISH (no passthru violation) is the one broker operation of its step *)
Theorem realm_pubs_client_publish : forall r sid s m req opts topic args kw oracle,
    find_session (r_clients r) sid = Some s ->
    gate r s m = inl (CPublish req opts topic args kw) ->
    publish_aborts (r_cfg r) s opts topic = false ->
    bops_of (segs_step r (OMsg sid m oracle)) = [BPublish (r_pubgen r) (lookup r) (r_now r) s req opts topic args kw].
Proof. exact step_pubs_client. Qed.
Print Assumptions realm_pubs_client_publish.

(** ** (d) Retention *)

(** for every configured (topic, policy): the subscription exists before and
    after the history with the same id, and its store holds exactly the last
    <= limit reference publications of the history, oldest first ([1 <= limit]
    is checked by PreInitEventHistoryTopics; with a duplicated (topic, policy)
    the limit in force is that of one of the duplicates) *)
Theorem realm_store_is_last_N : forall cfg ops c,
    Forall op_ok ops -> k0 cfg + N.of_nat (List.length ops) <= max_idN ->
    Forall (fun c => 1 <= hc_limit c) (c_hist cfg) -> In c (c_hist cfg) ->
    exists id c' st,
      In c' (c_hist cfg) /\ hc_topic c' = hc_topic c /\ mkind_of (hc_match c') = mkind_of (hc_match c) /\
      sub_sig (r_broker (init_realm cfg)) id (hc_topic c) (mkind_of (hc_match c)) /\
      sub_sig (r_broker (fst (run (init_realm cfg) ops))) id (hc_topic c) (mkind_of (hc_match c)) /\
      nget (b_hist (r_broker (fst (run (init_realm cfg) ops)))) id = Some st /\
      hs_limit st = hc_limit c' /\
      hs_entries st = lastn (hc_limit c') (hist_ref cfg id (hc_topic c) (mkind_of (hc_match c)) (realm_pubs cfg ops)).
Proof. exact realm_store_is_last_N_proof. Qed.
Print Assumptions realm_store_is_last_N.

(** from any store of the initial broker (entries within the limit) *)
Theorem realm_store_from_initial : forall cfg ops id t kd st,
    Forall op_ok ops -> k0 cfg + N.of_nat (List.length ops) <= max_idN ->
    sub_sig (broker_init (c_hist cfg)) id t kd -> nget (b_hist (broker_init (c_hist cfg))) id = Some st -> store_ok st ->
    let b' := r_broker (fst (run (init_realm cfg) ops)) in
    sub_sig b' id t kd /\
    nget (b_hist b') id =
    Some (mkHStore (hs_limit st) (lastn (hs_limit st) (hs_entries st ++ hist_ref cfg id t kd (realm_pubs cfg ops)))).
Proof. exact realm_store_from. Qed.
Print Assumptions realm_store_from_initial.

(** one step, from any well-formed realm *)
Theorem realm_step_store : forall r o k id t kd st,
    realm_wf r -> ids_below k r -> k < max_idN -> op_ok o ->
    sub_sig (r_broker r) id t kd -> nget (b_hist (r_broker r)) id = Some st -> store_ok st ->
    let b' := r_broker (fst (step r o)) in
    sub_sig b' id t kd /\
    nget (b_hist b') id =
    Some (mkHStore (hs_limit st) (lastn (hs_limit st) (hs_entries st ++ hist_ref (r_cfg r) id t kd (bops_of (segs_step r o))))).
Proof. exact step_store. Qed.
Print Assumptions realm_step_store.

(** the reference list, hence the store, ignores the subscription operations of the history *)
Theorem realm_retention_independent_of_subscribers : forall cfg id t k ops,
    hist_ref cfg id t k (filter is_publish (realm_pubs cfg ops)) = hist_ref cfg id t k (realm_pubs cfg ops).
Proof. exact (fun cfg id t k ops => hist_ref_filter cfg id t k (realm_pubs cfg ops)). Qed.
Print Assumptions realm_retention_independent_of_subscribers.

(** every stored entry is an accepted, matching publication of the history
    WITHOUT exclude / eligible keys, with its id, arguments, kwargs and time *)
Theorem realm_restricted_never_stored : forall cfg ops id t k e,
    In e (hist_ref cfg id t k (realm_pubs cfg ops)) ->
    exists pg lookup now pub req opts topic args kw,
      In (BPublish pg lookup now pub req opts topic args kw) (realm_pubs cfg ops) /\
      dhas opts "exclude" = false /\ dhas opts "eligible" = false /\
      pub_accepted cfg pub opts topic /\ matches k t topic /\
      e = mkHEntry id (pg + 1) (ppt_part opts ++ event_details topic (is_pattern k) (opt_bool opts "disclose_me") pub None) args kw now.
Proof. exact (fun cfg ops id t k e => restricted_never_stored cfg id t k (realm_pubs cfg ops) e). Qed.
Print Assumptions realm_restricted_never_stored.

(** no history creates or removes a store *)
Theorem realm_stores_only_preinit : forall cfg ops id,
    Forall op_ok ops -> k0 cfg + N.of_nat (List.length ops) <= max_idN ->
    has_history (r_broker (fst (run (init_realm cfg) ops))) id = has_history (broker_init (c_hist cfg)) id.
Proof. exact RealmTraceC20Store.realm_stores_only_preinit. Qed.
Print Assumptions realm_stores_only_preinit.

(** ** (e) The query *)

(** at any point of a history the meta procedure changes nothing and answers
    either nothing or the query function applied to the last <= limit
    reference publications of the history so far, for the named configured
    subscription *)
Theorem realm_get_events_sound : forall cfg ops details args kw oracle vals kwr,
    Forall op_ok ops -> k0 cfg + N.of_nat (List.length ops) <= max_idN ->
    Forall (fun c => 1 <= hc_limit c) (c_hist cfg) ->
    let r := fst (run (init_realm cfg) ops) in
    resp_of (meta_call r "wamp.subscription.get_events" details args kw oracle) = MYield vals kwr ->
    realm_of (meta_call r "wamp.subscription.get_events" details args kw oracle) = r /\
    (vals = [] \/
     exists c id q,
       In c (c_hist cfg) /\ bind (arg0 args) as_id = Some id /\ parse_hquery kw = Some q /\
       sub_sig (r_broker r) id (hc_topic c) (mkind_of (hc_match c)) /\
       vals = map hentry_value
                  (hquery_run q (lastn (hc_limit c)
                                       (hist_ref cfg id (hc_topic c) (mkind_of (hc_match c)) (realm_pubs cfg ops))))).
Proof. exact realm_get_events_sound_proof. Qed.
Print Assumptions realm_get_events_sound.

(** the query function only selects from its input *)
Theorem query_selects_stored : forall q es x, In x (hquery_run q es) -> In x es.
Proof. exact hquery_run_sub. Qed.
Print Assumptions query_selects_stored.

(** ... hence every returned entry was published earlier in this history, on
    a matching topic, accepted, without exclude / eligible keys *)
Theorem realm_get_events_only_published : forall cfg ops details args kw oracle vals kwr v,
    Forall op_ok ops -> k0 cfg + N.of_nat (List.length ops) <= max_idN ->
    Forall (fun c => 1 <= hc_limit c) (c_hist cfg) ->
    let r := fst (run (init_realm cfg) ops) in
    resp_of (meta_call r "wamp.subscription.get_events" details args kw oracle) = MYield vals kwr ->
    In v vals ->
    exists c id e pg lookup now pub req opts topic a k,
      In c (c_hist cfg) /\ bind (arg0 args) as_id = Some id /\ v = hentry_value e /\
      In (BPublish pg lookup now pub req opts topic a k) (realm_pubs cfg ops) /\
      dhas opts "exclude" = false /\ dhas opts "eligible" = false /\
      pub_accepted cfg pub opts topic /\ matches (mkind_of (hc_match c)) (hc_topic c) topic /\
      e = mkHEntry id (pg + 1)
                   (ppt_part opts ++ event_details topic (is_pattern (mkind_of (hc_match c))) (opt_bool opts "disclose_me") pub None)
                   a k now.
Proof. exact realm_get_events_only_published_proof. Qed.
Print Assumptions realm_get_events_only_published.

(** ** Non-vacuity *)
(** two configured history subscriptions; publications by clients, a
    restricted one, a testament published by the meta session, session meta
    events; the only subscriber unsubscribes in between *)
Example histories_c20_hypotheses_satisfiable :
    Forall op_ok HistEx.opsH /\ k0 HistEx.cfgH + N.of_nat (List.length HistEx.opsH) <= max_idN /\
    Forall (fun c => 1 <= hc_limit c) (c_hist HistEx.cfgH).
Proof. exact HistEx.hyps. Qed.

Example histories_c20_outputs : snd (run (init_realm HistEx.cfgH) HistEx.opsH) =
    [[]; []; [(10, RSubscribed 1 1)]; [(10, REvent 1 4 [] [vnat 1] [])]; [];
     [(10, REvent 1 6 [] [vnat 3] [])]; [(10, RUnsubscribed 2)]; [(11, RResult 4 [] [] [])]; []; []; []; []].
Proof. exact HistEx.outs. Qed.

(** the first ring wrapped (4 reference publications, limit 2), the second is exactly full *)
Example histories_c20_stores :
    map h_pub (hist_ref HistEx.cfgH 1 "h.t" MExact (realm_pubs HistEx.cfgH HistEx.opsH)) = [4; 6; 9; 11] /\
    option_map (fun st => map h_pub (hs_entries st)) (nget (b_hist (r_broker HistEx.rH)) 1) = Some [9; 11] /\
    map h_pub (hist_ref HistEx.cfgH 2 "wamp.session" MPrefix (realm_pubs HistEx.cfgH HistEx.opsH)) = [1; 2; 10] /\
    option_map (fun st => map h_pub (hs_entries st)) (nget (b_hist (r_broker HistEx.rH)) 2) = Some [1; 2; 10] /\
    option_map sub_subs (nget (b_subs (r_broker HistEx.rH)) 1) = Some [].
Proof. exact HistEx.stores. Qed.

(** who published: the meta session (id 1: on_join twice, the testament, on_leave) and clients 11 and 10 *)
Example histories_c20_publishers :
    map (fun o => match o with BPublish _ _ _ pub _ _ topic _ _ => (s_id pub, topic) | _ => (0, "") end)
        (filter is_publish (realm_pubs HistEx.cfgH HistEx.opsH)) =
    [(1, t_on_join); (1, t_on_join);
     (11, "h.t"); (11, "h.t"); (11, "h.t"); (11, "other"); (1, "h.t"); (1, t_on_leave); (10, "h.t")].
Proof. exact HistEx.publishers. Qed.

(** get_events with limit 1: the most recent stored publication, also through a CALL *)
Example histories_c20_get_events :
    resp_of (meta_call HistEx.rH "wamp.subscription.get_events" [] [vid 1] [("limit", vnat 1)] 0) =
    MYield [VDict [("Subscription", vid 1); ("Publication", vid 11); ("Details", VDict []);
                   ("Arguments", VList [vnat 6]); ("ArgumentsKw", VDict [])]]
           [("is_limit_reached", VBool true)] /\
    snd (step HistEx.rH (OMsg 10 (CCall 9 [] "wamp.subscription.get_events" [vid 1] [("limit", vnat 1)]) 0)) =
    [(10, RResult 9 []
            [VDict [("Subscription", vid 1); ("Publication", vid 11); ("Details", VDict []);
                    ("Arguments", VList [vnat 6]); ("ArgumentsKw", VDict [])]]
            [("is_limit_reached", VBool true)])].
Proof. exact HistEx.get_events. Qed.
