(** * C06 — Router.Close and RemoveRealm are safe at any moment.

    Statements only; proofs are [exact] of lemmas of the [Conc] family.

    The model is [Conc/Shutdown.v]: the close protocol as processes of the
    generic machine [Conc/Machine.v] — the closer, K attach goroutines and the
    session handlers they become, the realm, dealer and broker goroutines, the
    meta-session handler, metaProcedureHandler, call timers and the router
    goroutine — for arbitrary K, client scripts and queue sizes.  With all
    repair flags on it transcribes the code after fixes/C06-series; it is tied
    to today's source by the translator's inventory and the per-run obligation
    [skeleton_conforms] (shutdown sequences equal by order).  The Go scheduler
    and runtime are sampled by the harness, not modelled. *)

From Coq Require Import String List NArith Bool Arith.
From Nexus Require Import Conc.SkelTypes Conc.Machine Conc.MachineFacts Conc.Shutdown
  Conc.ShutdownWitness Conc.ShutdownProofs Conc.ShutdownLock Conc.ShutdownFlag Conc.ShutdownWg Conc.ShutdownCloser Conc.ShutdownTimers Conc.ShutdownServers Conc.ShutdownOwn Conc.Skeleton Conc.SkelObligationsC06 gen.GenSkeleton.
From Nexus Require Conc.CallTimers Conc.PeerClose.
Import ListNotations.

(** ** Tie to the source, re-established on every run *)

Theorem skeleton_conforms :
  Skeleton.skeleton_conforms gen_funcs gen_submitters = true.
Proof. exact skeleton_conforms_holds. Qed.
Print Assumptions skeleton_conforms.

Theorem closable_senders_covered :
  Skeleton.closable_senders_covered gen_funcs = true.
Proof. exact closable_senders_covered_holds. Qed.
Print Assumptions closable_senders_covered.

Theorem close_lock_sections :
  lock_sections_ranked gen_funcs = true /\ attribution_closed gen_funcs gen_entries = true.
Proof. exact close_lock_sections_hold. Qed.
Print Assumptions close_lock_sections.


(** ** The repaired protocol, for ANY number K of sessions, any client scripts,
       any queue capacities and either way of closing *)

(** Channels that the repaired code never closes — the router's action channel
    (fix 05), the meta peer and the meta INVOCATION queue (fix 04), reply
    channels — are open in every reachable state: a send on them can never be
    a send on a closed channel (part of close_no_panic). *)
Theorem close_no_panic_never_closed :
  forall (scr : nat -> list msg * bool) (K : nat) (p : params) (c : ch) (s : sstate),
    never_closed c = true -> sreach all_fixed scr K (init p) s ->
    c_closed (chans s c) = false.
Proof. exact ShutdownProofs.never_closed_stays_open. Qed.
Print Assumptions close_no_panic_never_closed.

(** [closeLock] is held by exactly the goroutines that are inside
    handleSession's or realm.close's critical section, never by two. *)
Theorem close_lock_exclusive :
  forall (scr : nat -> list msg * bool) (K : nat) (p : params) (s : sstate),
    sreach all_fixed scr K (init p) s -> outcome s = None ->
    count holds (procs s) = (if locks s LClose then 1 else 0).
Proof. intros scr K p s Hr Ho. exact (proj2 (lock_invariant scr K p s Hr Ho)). Qed.
Print Assumptions close_lock_exclusive.

(** late_attach_refused: once the realm is marked closed, no attach goroutine
    is past the check, none can get past it any more (the flag never goes
    back), and the check sends every later attach down the refusal path. *)
Theorem late_attach_refused :
  forall (scr : nat -> list msg * bool) (K : nat) (p : params) (s : sstate),
    sreach all_fixed scr K (init p) s -> outcome s = None ->
    vars s VRealmClosed = 1%N ->
    (forall l, In l (procs s) -> joining l = false) /\
    (forall j i, nth_error (procs s) i = Some (AtCheck j) ->
       sstep all_fixed scr K s (EInt i 0) = Some (set_proc s i (AtRefUnlock j))).
Proof. exact ShutdownFlag.late_attach_refused. Qed.
Print Assumptions late_attach_refused.


(** [waitHandlers] counts exactly the sessions between [waitHandlers.Add] and
    [waitHandlers.Done] — what [realm.close] relies on when it waits for the
    handlers — and a handler's [Done] is never the negative-counter panic
    (part of close_no_panic). *)
Theorem wait_handlers_counts_live_sessions :
  forall (scr : nat -> list msg * bool) (K : nat) (p : params) (s : sstate),
    sreach all_fixed scr K (init p) s -> outcome s = None ->
    wgs s WHandlers = count live (procs s).
Proof. intros scr K p s Hr Ho. exact (proj2 (wg_handlers_invariant scr K p s Hr Ho)). Qed.
Print Assumptions wait_handlers_counts_live_sessions.

Theorem close_no_panic_wait_group :
  forall (scr : nat -> list msg * bool) (K : nat) (p : params) (s : sstate) i l k,
    sreach all_fixed scr K (init p) s -> outcome s = None ->
    nth_error (procs s) i = Some l -> code all_fixed scr K l = AWgDone WHandlers k ->
    wgs s WHandlers <> 0.
Proof. exact ShutdownWg.wg_handlers_never_negative. Qed.
Print Assumptions close_no_panic_wait_group.


(** Once realm.close is past [waitHandlers.Wait()] (positions 6..17 of
    [realm_close_seq]: ending the meta session, stopping dealer and broker,
    closing the shut-down peers, stopping the realm goroutine), the closed flag
    is set, the counter is zero, NO session handler or attach-in-progress is
    alive and none can appear any more — for any number of sessions. *)
Theorem handlers_gone_after_wait :
  forall (scr : nat -> list msg * bool) (K : nat) (p : params) (s : sstate) (l : L),
    sreach all_fixed scr K (init p) s -> outcome s = None ->
    In l (procs s) -> 6 <= cpos l -> cpos l <= 17 ->
    vars s VRealmClosed = 1%N /\
    wgs s WHandlers = 0 /\
    (forall l', In l' (procs s) -> live l' = false) /\
    (forall l', In l' (procs s) -> joining l' = false).
Proof. exact ShutdownCloser.handlers_gone_after_wait. Qed.
Print Assumptions handlers_gone_after_wait.


(** [dealer.timers] (fix 01) counts exactly the call-timer goroutines that have
    not finished, plus the dealer between [timers.Add(1)] and the [go]
    statement — what [dealer.close] relies on when it waits for the timers
    before closing its action channel. *)
Theorem call_timers_counted :
  forall (scr : nat -> list msg * bool) (K : nat) (p : params) (s : sstate),
    sreach all_fixed scr K (init p) s -> outcome s = None ->
    wgs s WTimers = count tlive (procs s).
Proof. intros scr K p s Hr Ho. exact (proj2 (wg_timers_invariant scr K p s Hr Ho)). Qed.
Print Assumptions call_timers_counted.


(** The meta session is ended and the action channels of dealer, broker and
    realm are closed only when no session handler and no attach in progress is
    alive, and once one of them is closed none appears any more — so no session
    handler (PUBLISH, CALL, REGISTER, onLeave ...) can ever send on a closed
    action channel (the session-handler part of close_no_panic). *)
Theorem close_no_panic_handlers_vs_servers :
  forall (scr : nat -> list msg * bool) (K : nat) (p : params) (s : sstate) (c : ch),
    sreach all_fixed scr K (init p) s -> outcome s = None ->
    late_closed c = true -> c_closed (chans s c) = true ->
    (forall l, In l (procs s) -> live l = false) /\
    (forall l, In l (procs s) -> joining l = false).
Proof. exact ShutdownServers.servers_closed_handlers_gone. Qed.
Print Assumptions close_no_panic_handlers_vs_servers.


(** realm.close itself never closes one of its channels twice and never sends
    on one it has already closed (the closer part of close_no_panic): a run of
    realm.close that passed the closed check and has not reached the position
    where [c] is closed sees [c] open — whether Router.Close and RemoveRealm run
    concurrently, one after the other, or twice. *)
Theorem close_no_panic_closer :
  forall (scr : nat -> list msg * bool) (K : nat) (p : params) (s : sstate) (l : L) (c : ch),
    sreach all_fixed scr K (init p) s -> outcome s = None ->
    In l (procs s) -> late_closed c = true ->
    2 <= cpos l -> cpos l <= close_pos c ->
    c_closed (chans s c) = false.
Proof. exact ShutdownOwn.closer_channels_open. Qed.
Print Assumptions close_no_panic_closer.

Theorem closed_flag_monotone :
  forall (scr : nat -> list msg * bool) (K : nat) (s : sstate) e s',
    sstep all_fixed scr K s e = Some s' -> outcome s' = None ->
    vars s VRealmClosed = 1%N -> vars s' VRealmClosed = 1%N.
Proof. exact ShutdownFlag.flag_monotone. Qed.
Print Assumptions closed_flag_monotone.

(** ** The current code (all repair flags off) violates the statements

    Each witness is a concrete run of the model of the current code, replayed
    by [vm_compute]; the harness reproduces the same schedules on the real
    router.  They are the reason for fixes/C06-series. *)

(** A call timer fires after the dealer's action channel was closed. *)
Theorem close_no_panic_refuted_timer :
  exists s, srun current scr_timer 1 (init (p1 ByClose)) tr_timer = Some s /\
            outcome s = Some PanicSendClosed.
Proof. exact current_timer_panics. Qed.
Print Assumptions close_no_panic_refuted_timer.

(** At shutdown a handler closes its peer while the broker still sends to it. *)
Theorem close_no_panic_refuted_shutdown_peer :
  exists s, srun current scr_pub 2 (init (p2 ByClose)) tr_peer = Some s /\
            outcome s = Some PanicSendClosed.
Proof. exact current_shutdown_peer_panics. Qed.
Print Assumptions close_no_panic_refuted_shutdown_peer.

(** WELCOME is sent on a peer the just-started handler already closed. *)
Theorem close_no_panic_refuted_welcome :
  exists s, srun current scr_bye 1 (init (p1 ByClose)) tr_welcome = Some s /\
            outcome s = Some PanicSendClosed.
Proof. exact current_welcome_panics. Qed.
Print Assumptions close_no_panic_refuted_welcome.

(** Attach after Close sends on the router's closed action channel. *)
Theorem late_attach_refused_refuted :
  exists s, srun current scr_none 1 (init (p1 ByClose)) tr_late = Some s /\
            outcome s = Some PanicSendClosed.
Proof. exact current_late_attach_panics. Qed.
Print Assumptions late_attach_refused_refuted.

(** Close never returns: a reachable deadlock with the closer waiting for metaDone. *)
Theorem close_terminates_refuted :
  exists s, srun current scr_meta 1 (init (p1 ByClose)) tr_meta = Some s /\
            deadlock ch_eqb vr_eqb lk_eqb wgn_eqb (code current scr_meta 1) s.
Proof. exact current_meta_deadlocks. Qed.
Print Assumptions close_terminates_refuted.

(** The same schedules end well in the repaired model (non-vacuity of what follows). *)
Example repaired_runs_end_well :
  ends_well scr_timer 1 (p1 ByClose) [7; 8; 3; 4; 2; 5; 6; 1; 0; 9] = true /\
  ends_well scr_bye 1 (p1 ByClose) [8; 1; 2; 3; 4; 5; 6; 7; 0] = true /\
  ends_well scr_none 1 (p1 ByClose) [0; 1; 2; 3; 4; 5; 6; 7] = true /\
  ends_well scr_meta 1 (p1 ByClose) [7; 8; 3; 4; 2; 5; 1; 0; 6] = true /\
  ends_well scr_pub 2 (p2 ByRemoveRealm) [7; 8; 3; 4; 2; 5; 6; 1; 0] = true.
Proof. exact ShutdownWitness.repaired_runs_end_well. Qed.

(** ** Close takes no time: call-timeout timers

    Model [Conc/CallTimers.v] (timed): the invocations that own a timer, the
    live timer goroutines with their deadlines, the clock; operations: arm (a
    CALL with timeout, or a further chunk re-arming it), drop of an invocation
    (final YIELD, ERROR, CANCEL, a party leaves), time passing, an expired timer
    firing, a stopped timer goroutine exiting.  For EVERY sequence of
    operations: every armed timer belongs to an invocation still in the
    dealer's table — which is what [dealer.close] relies on when it stops the
    timers of [d.invocations] and then waits for all timer goroutines — so
    that wait takes no time. *)
Theorem armed_timers_tracked :
  forall ops : list CallTimers.op, CallTimers.tracked (CallTimers.run true ops).
Proof. exact CallTimers.armed_timers_tracked. Qed.
Print Assumptions armed_timers_tracked.

Theorem close_waits_for_no_timer :
  forall ops : list CallTimers.op,
    CallTimers.close_wait (CallTimers.close_cancel (CallTimers.run true ops)) = 0%N.
Proof. exact CallTimers.close_waits_for_no_timer. Qed.
Print Assumptions close_waits_for_no_timer.

(** If an invocation may be dropped with its timer running the statement is
    FALSE in the model: Close waits for the whole client-chosen timeout. *)
Theorem close_waits_refuted_without_cancel :
  forall (c : nat) (dur : N),
    CallTimers.close_wait (CallTimers.close_cancel
      (CallTimers.run false [CallTimers.Arm c dur; CallTimers.Drop c])) = dur.
Proof. exact CallTimers.close_waits_refuted_without_cancel. Qed.
Print Assumptions close_waits_refuted_without_cancel.

(** Per run: the translator's reading of today's dealer.go — every
    [delete(_.invocations, _)] and every overwrite of [timerCancel] is preceded
    by a [timerCancel()] call. *)
Theorem invocation_drops_cancel_timer :
  Skeleton.invocation_drops_cancel_timer gen_invocation_drops = true.
Proof. exact invocation_drops_cancel_timer_holds. Qed.
Print Assumptions invocation_drops_cancel_timer.

(** ** Close terminates: network clients that stopped reading

    Model [Conc/PeerClose.v] (timed): closing a network peer waits for its
    sender goroutine, which may be inside a network write to a client that
    takes the frame later, or never.  With the write deadline T that [Close]
    sets before it waits, for EVERY number of network clients, EVERY subset of
    them that stopped reading and every state of every sender, the shutdown
    ends after at most T per peer. *)
Theorem shutdown_terminates_with_stalled_clients :
  forall (T : N) (ps : list PeerClose.sender),
    exists t, PeerClose.shutdown_time true T ps = Some t /\ (t <= N.of_nat (length ps) * T)%N.
Proof. exact PeerClose.shutdown_terminates_with_stalled_clients. Qed.
Print Assumptions shutdown_terminates_with_stalled_clients.

(** Without the deadline (the code before 313de37) one such client is enough:
    the shutdown never ends. *)
Theorem close_terminates_refuted_stalled_network_client :
  forall (T : N) (ps : list PeerClose.sender),
    In (PeerClose.Writing None) ps -> PeerClose.shutdown_time false T ps = None.
Proof. exact PeerClose.shutdown_never_ends_refuted_without_deadline. Qed.
Print Assumptions close_terminates_refuted_stalled_network_client.

(** Per run: the translator's reading of today's transport package. *)
Theorem peer_close_bounds_pending_write :
  Skeleton.peer_close_bounds_pending_write gen_peer_close_bounds_write = true.
Proof. exact peer_close_bounds_pending_write_holds. Qed.
Print Assumptions peer_close_bounds_pending_write.

(** Per run: no goroutine of the inventory sends to a client's queue with a
    blocking send, except the two handshake sends of the attach goroutine
    (WELCOME / ABORT, the first message of an empty queue): a session handler
    can therefore always reach its exit path, which [realm.close] waits for. *)
Theorem handlers_never_block_on_client :
  Skeleton.no_blocking_send_to_client gen_funcs = true.
Proof. exact handlers_never_block_on_client_holds. Qed.
Print Assumptions handlers_never_block_on_client.
