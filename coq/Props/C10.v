(** * C10 — A message is acted upon iff the Authorizer allowed it

    Statements only; proofs in Router/RealmProofs.v.  The model is
    Router/Realm.v ([gate] = authzMessage, [step] = one client-side event run to
    quiescence), validated against the router by differential runs.  The
    authorizer [f] is a universally quantified function of (session id,
    local?, session details, message) returning allow-with-possibly-rewritten
    message / deny / fail.  [set_authz r a] is [r] with the configuration field
    [c_authz] replaced by [a] and nothing else ([set_authz_only_authz]). *)
From Nexus Require Import Router.Realm Router.RealmProofs.

(** ** gate_total: a client message reaches [handle] only through [gate]; a
    message of an unknown session is dropped. *)
Theorem gate_total : forall r sid m oracle,
    step r (OMsg sid m oracle) =
    match find_session (r_clients r) sid with
    | None => (r, [])
    | Some s => match gate r s m with
                | inr o => (r, o)
                | inl m' => handle r s m' oracle
                end
    end.
Proof. exact step_msg_eq. Qed.
Print Assumptions gate_total.

(** what [set_authz] is *)
Theorem set_authz_only_authz : forall r a,
    r_clients (set_authz r a) = r_clients r /\ r_meta (set_authz r a) = r_meta r /\
    r_testaments (set_authz r a) = r_testaments r /\ r_broker (set_authz r a) = r_broker r /\
    r_dealer (set_authz r a) = r_dealer r /\ r_metaprocs (set_authz r a) = r_metaprocs r /\
    r_now (set_authz r a) = r_now r /\ r_pubgen (set_authz r a) = r_pubgen r /\
    c_authz (r_cfg (set_authz r a)) = a /\
    c_strict (r_cfg (set_authz r a)) = c_strict (r_cfg r) /\
    c_disclose (r_cfg (set_authz r a)) = c_disclose (r_cfg r) /\
    c_meta_strict (r_cfg (set_authz r a)) = c_meta_strict (r_cfg r) /\
    c_meta_kill (r_cfg (set_authz r a)) = c_meta_kill (r_cfg r) /\
    c_meta_modify (r_cfg (set_authz r a)) = c_meta_modify (r_cfg r) /\
    c_local_authz (r_cfg (set_authz r a)) = c_local_authz (r_cfg r) /\
    c_hist (r_cfg (set_authz r a)) = c_hist (r_cfg r) /\
    set_authz r (c_authz (r_cfg r)) = r.
Proof. exact set_authz_only_authz_proof. Qed.
Print Assumptions set_authz_only_authz.

(** ** denied_no_trace: the realm is THE SAME realm afterwards (every table,
    counter and session record), and the output is exactly [refusal …]. *)
Theorem denied_no_trace :
  forall (f : N -> bool -> dict -> cmsg -> adecision) r sid s,
    c_authz (r_cfg r) = Some f ->
    find_session (r_clients r) sid = Some s ->
    forall m oracle,
      s_local s && negb (c_local_authz (r_cfg r)) = false ->
      f sid (s_local s) (s_details s) m = ADeny ->
      step r (OMsg sid m oracle) = (r, refusal e_not_authorized [] sid m).
Proof. exact RealmProofs.denied_no_trace. Qed.
Print Assumptions denied_no_trace.

Theorem failed_no_trace :
  forall (f : N -> bool -> dict -> cmsg -> adecision) r sid s,
    c_authz (r_cfg r) = Some f ->
    find_session (r_clients r) sid = Some s ->
    forall m oracle,
      s_local s && negb (c_local_authz (r_cfg r)) = false ->
      f sid (s_local s) (s_details s) m = AFail ->
      step r (OMsg sid m oracle) = (r, refusal e_authz_failed [vstr "<text>"] sid m).
Proof. exact RealmProofs.failed_no_trace. Qed.
Print Assumptions failed_no_trace.

(** [refusal] is exactly one ERROR of the request's type and id, addressed to
    the sender, except for a PUBLISH without acknowledge=true: nothing. *)
Theorem refusal_exactly_one : forall err eargs sid m,
    unacked_publish m = false ->
    refusal err eargs sid m = [(sid, RError (cmsg_code m) (req_of m) [] err eargs [])].
Proof. exact refusal_one. Qed.
Print Assumptions refusal_exactly_one.

Theorem refusal_unacked_publish_silent : forall err eargs sid req opts topic args kw,
    opt_bool opts "acknowledge" = false ->
    refusal err eargs sid (CPublish req opts topic args kw) = [].
Proof. exact refusal_unacked_publish_silent_proof. Qed.
Print Assumptions refusal_unacked_publish_silent.

(** ** allowed_same: an allowed message is acted upon in the form [m'] the
    authorizer left it, exactly as the realm without authorizer acts upon [m']:
    same outputs, same resulting realm up to the [c_authz] field. *)
Theorem allowed_same :
  forall (f : N -> bool -> dict -> cmsg -> adecision) r sid s,
    c_authz (r_cfg r) = Some f ->
    find_session (r_clients r) sid = Some s ->
    forall m m' oracle,
      s_local s && negb (c_local_authz (r_cfg r)) = false ->
      f sid (s_local s) (s_details s) m = AAllow m' ->
      step r (OMsg sid m oracle) =
      (set_authz (fst (step (set_authz r None) (OMsg sid m' oracle))) (Some f),
       snd (step (set_authz r None) (OMsg sid m' oracle))).
Proof. exact RealmProofs.allowed_same. Qed.
Print Assumptions allowed_same.

(** ** local_exempt: a local session's messages are not shown to the
    authorizer unless local authorization is required. *)
Theorem local_exempt :
  forall (f : N -> bool -> dict -> cmsg -> adecision) r sid s,
    c_authz (r_cfg r) = Some f ->
    find_session (r_clients r) sid = Some s ->
    forall m oracle,
      s_local s = true -> c_local_authz (r_cfg r) = false ->
      step r (OMsg sid m oracle) =
      (set_authz (fst (step (set_authz r None) (OMsg sid m oracle))) (Some f),
       snd (step (set_authz r None) (OMsg sid m oracle))).
Proof. exact RealmProofs.local_exempt. Qed.
Print Assumptions local_exempt.

(** ** The meta session's publications (join / leave / registration meta
    events, testaments) and the timers never pass the gate: joins, departures
    and clock ticks behave the same whatever the authorizer is. *)
Theorem non_msg_ops_ignore_authz : forall r a o,
    (forall sid m oracle, o <> OMsg sid m oracle) ->
    step (set_authz r a) o = (set_authz (fst (step r o)) a, snd (step r o)).
Proof. exact RealmProofs.non_msg_ops_ignore_authz. Qed.
Print Assumptions non_msg_ops_ignore_authz.

(** ... and [handle] itself (everything behind the gate) never reads the authorizer. *)
Theorem handle_ignores_authz : forall r a s m oracle,
    handle (set_authz r a) s m oracle =
    (set_authz (fst (handle r s m oracle)) a, snd (handle r s m oracle)).
Proof. exact handle_sa. Qed.
Print Assumptions handle_ignores_authz.

(** ** Non-vacuity: a reachable realm (three joins, two subscriptions) whose
    authorizer denies topic "deny", fails on "fail", and rewrites every other
    PUBLISH to topic "rewritten". *)
Example c10_hypotheses_satisfiable :
  c_authz (r_cfg C10Ex.r0) = Some C10Ex.f0 /\
  find_session (r_clients C10Ex.r0) 10 = Some C10Ex.s10 /\
  s_local C10Ex.s10 && negb (c_local_authz (r_cfg C10Ex.r0)) = false /\
  find_session (r_clients C10Ex.r0) 12 = Some C10Ex.s12 /\ s_local C10Ex.s12 = true /\
  c_local_authz (r_cfg C10Ex.r0) = false.
Proof. exact C10Ex.hyps. Qed.

Example c10_denied_example :
  C10Ex.f0 10 false (s_details C10Ex.s10) (CPublish 7 C10Ex.ack "deny" [] []) = ADeny /\
  step C10Ex.r0 (OMsg 10 (CPublish 7 C10Ex.ack "deny" [] []) 0) =
    (C10Ex.r0, [(10, RError c_PUBLISH 7 [] e_not_authorized [] [])]) /\
  step C10Ex.r0 (OMsg 10 (CPublish 7 [] "deny" [] []) 0) = (C10Ex.r0, []) /\
  step C10Ex.r0 (OMsg 10 (CPublish 7 C10Ex.ack "fail" [] []) 0) =
    (C10Ex.r0, [(10, RError c_PUBLISH 7 [] e_authz_failed [vstr "<text>"] [])]).
Proof. exact C10Ex.denied. Qed.

Example c10_allowed_rewritten_example :
  snd (step C10Ex.r0 (OMsg 10 (CPublish 7 C10Ex.ack "x" [vnat 5] []) 0)) =
  [(11, REvent 1 8 [] [vnat 5] []); (10, RPublished 7 8)].
Proof. exact C10Ex.allowed. Qed.

Example c10_local_exempt_example :
  snd (step C10Ex.r0 (OMsg 12 (CPublish 7 [] "deny" [] []) 0)) = [(11, REvent 2 8 [] [] [])].
Proof. exact C10Ex.local_delivers. Qed.
