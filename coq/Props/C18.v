(** * C18 — Meta API and meta events mirror the realm's actual state

    Statements only; proofs in Router/RealmMetaProofs.v (and Router/RealmWf.v for
    the statements that need the reachable-state invariant).  [meta_call r proc
    details args kw oracle] is the handler of one meta procedure in realm state
    [r]: it returns the new realm, the response (YIELD arguments or ERROR uri)
    and the sessions to kill with the GOODBYE they are sent ([resp_of],
    [realm_of], [kills_of] are the three components).  All statements hold for
    EVERY realm state, every argument list and every oracle, unless a
    hypothesis says otherwise.  The broker and dealer functions ([subscribe],
    [register], ...) return the meta events they announce; [leave] is a
    session's departure for whatever reason. *)
From Nexus Require Import Router.Realm Router.RealmProofs Router.RealmMetaProofs.
From Nexus Require Import Router.BrokerWf Router.RealmWf Router.RealmStep Router.RealmC05.

(** ** count_is_length: for the same arguments the count procedure yields the
    length of the list the list procedure yields (and fails when it fails). *)
Theorem session_count_is_length : forall r d1 d2 args kw1 kw2 o1 o2,
    match resp_of (meta_call r "wamp.session.list" d1 args kw1 o1) with
    | MYield [VList l] [] =>
        resp_of (meta_call r "wamp.session.count" d2 args kw2 o2) = MYield [vnat (N.of_nat (List.length l))] []
    | MError e => resp_of (meta_call r "wamp.session.count" d2 args kw2 o2) = MError e
    | _ => False
    end.
Proof. exact RealmMetaProofs.session_count_is_length. Qed.
Print Assumptions session_count_is_length.

Theorem callee_count_is_length : forall r d1 d2 args kw1 kw2 o1 o2,
    match resp_of (meta_call r "wamp.registration.list_callees" d1 args kw1 o1) with
    | MYield [VList l] [] =>
        resp_of (meta_call r "wamp.registration.count_callees" d2 args kw2 o2) = MYield [vnat (N.of_nat (List.length l))] []
    | MError e => resp_of (meta_call r "wamp.registration.count_callees" d2 args kw2 o2) = MError e
    | _ => False
    end.
Proof. exact RealmMetaProofs.callee_count_is_length. Qed.
Print Assumptions callee_count_is_length.

Theorem subscriber_count_is_length : forall r d1 d2 args kw1 kw2 o1 o2,
    match resp_of (meta_call r "wamp.subscription.list_subscribers" d1 args kw1 o1) with
    | MYield [VList l] [] =>
        resp_of (meta_call r "wamp.subscription.count_suscribers" d2 args kw2 o2) = MYield [vnat (N.of_nat (List.length l))] []
    | MError e => resp_of (meta_call r "wamp.subscription.count_suscribers" d2 args kw2 o2) = MError e
    | _ => False
    end.
Proof. exact RealmMetaProofs.subscriber_count_is_length. Qed.
Print Assumptions subscriber_count_is_length.

Theorem reading_procs_pure : forall r proc d args kw o,
    In proc reading_procs ->
    realm_of (meta_call r proc d args kw o) = r /\ kills_of (meta_call r proc d args kw o) = None.
Proof. exact RealmMetaProofs.reading_procs_pure. Qed.
Print Assumptions reading_procs_pure.

(** ** unknown_id_errors (ids not in the table, and arguments that are no ids) *)
Theorem session_unknown_id_errors : forall r d args kw o,
    (forall sid, bind (arg0 args) as_id = Some sid -> find_session (r_clients r) sid = None) ->
    meta_call r "wamp.session.get" d args kw o = (r, MError e_no_such_session, None).
Proof. exact RealmMetaProofs.session_unknown_id_errors. Qed.
Print Assumptions session_unknown_id_errors.

Theorem registration_unknown_id_errors : forall r d args kw o proc,
    In proc ["wamp.registration.get"; "wamp.registration.list_callees"; "wamp.registration.count_callees"] ->
    (forall id, bind (arg0 args) as_id = Some id -> nget (d_regs (r_dealer r)) id = None) ->
    meta_call r proc d args kw o = (r, MError e_no_such_registration, None).
Proof. exact RealmMetaProofs.registration_unknown_id_errors. Qed.
Print Assumptions registration_unknown_id_errors.

Theorem subscription_unknown_id_errors : forall r d args kw o proc,
    In proc ["wamp.subscription.get"; "wamp.subscription.list_subscribers"; "wamp.subscription.count_suscribers"] ->
    (forall id, bind (arg0 args) as_id = Some id -> nget (b_subs (r_broker r)) id = None) ->
    meta_call r proc d args kw o = (r, MError e_no_such_subscription, None).
Proof. exact RealmMetaProofs.subscription_unknown_id_errors. Qed.
Print Assumptions subscription_unknown_id_errors.

Theorem non_id_argument : forall args,
    (match arg0 args with
     | None => True
     | Some (VInt k z) => (to_int64 k z <= 0)%Z \/ (max_id < to_int64 k z)%Z
     | Some _ => True
     end) -> bind (arg0 args) as_id = None.
Proof. exact RealmMetaProofs.non_id_argument. Qed.
Print Assumptions non_id_argument.

(** ** kill_exact: exactly the targeted sessions, the given reason, never the caller *)
Theorem kill_exact : forall r d args kw o target reason message,
    bind (arg0 args) as_id = Some target ->
    caller_of d <> target ->
    kill_reason kw = Some (reason, message) ->
    find_session (r_clients r) target <> None ->
    meta_call r "wamp.session.kill" d args kw o =
    (r, MYield [] [], Some ([target], goodbye_msg reason message)).
Proof. exact RealmMetaProofs.kill_exact. Qed.
Print Assumptions kill_exact.

Theorem kill_refused : forall r d args kw o,
    (forall target, bind (arg0 args) as_id = Some target ->
                    caller_of d = target \/ (kill_reason kw <> None /\ find_session (r_clients r) target = None)) ->
    meta_call r "wamp.session.kill" d args kw o = (r, MError e_no_such_session, None).
Proof. exact RealmMetaProofs.kill_refused. Qed.
Print Assumptions kill_refused.

Theorem kill_by_attr_exact : forall r d args kw o proc key val reason message,
    (proc = "wamp.session.kill_by_authid" /\ key = "authid") \/
    (proc = "wamp.session.kill_by_authrole" /\ key = "authrole") ->
    bind (arg0 args) as_string = Some val ->
    kill_reason kw = Some (reason, message) ->
    exists victims,
      meta_call r proc d args kw o =
      (r, MYield [vnat (N.of_nat (List.length victims))] [], Some (victims, goodbye_msg reason message)) /\
      ~ In (caller_of d) victims /\
      (forall x, In x victims <->
                 exists s, In s (r_clients r) /\ s_id s = x /\ x <> caller_of d /\ matches_attr key val s = true).
Proof. exact RealmMetaProofs.kill_by_attr_exact. Qed.
Print Assumptions kill_by_attr_exact.

Theorem kill_all_exact : forall r d args kw o reason message,
    kill_reason kw = Some (reason, message) ->
    exists victims g,
      meta_call r "wamp.session.kill_all" d args kw o =
      (r, MYield [vnat (N.of_nat (List.length victims))] [], Some (victims, g)) /\
      ~ In (caller_of d) victims /\
      (forall x, In x victims <-> In x (map s_id (r_clients r)) /\ x <> caller_of d) /\
      g = RGoodbye (dset (if nonempty message then [("message", vstr message)] else []) "all" VNull)
                   (if nonempty reason then reason else e_close_normal).
Proof. exact RealmMetaProofs.kill_all_exact. Qed.
Print Assumptions kill_all_exact.

Theorem kill_bad_reason_kills_nobody : forall r d args kw o proc,
    In proc ["wamp.session.kill"; "wamp.session.kill_by_authid"; "wamp.session.kill_by_authrole"; "wamp.session.kill_all"] ->
    kill_reason kw = None ->
    realm_of (meta_call r proc d args kw o) = r /\ kills_of (meta_call r proc d args kw o) = None /\
    exists e, resp_of (meta_call r proc d args kw o) = MError e.
Proof. exact RealmMetaProofs.kill_bad_reason_kills_nobody. Qed.
Print Assumptions kill_bad_reason_kills_nobody.

(** ** testament_api: add appends to the right scope of the CALLER's bucket only;
    flush clears exactly the named scope *)
Theorem add_testament_exact : forall r d args kw o c a0 a1 a2 topic targs tkw,
    match dget d "caller" with Some v => as_id v | None => None end = Some c ->
    arg0 args = Some a0 -> arg1 args = Some a1 -> arg2 args = Some a2 ->
    as_string a0 = Some topic -> as_list a1 = Some targs -> as_dict a2 = Some tkw ->
    scope_of kw = "destroyed" \/ scope_of kw = "detached" ->
    let t := mkTest topic targs tkw (match bind (dget kw "publish_options") as_dict with Some x => x | None => [] end) in
    let r' := realm_of (meta_call r "wamp.session.add_testament" d args kw o) in
    resp_of (meta_call r "wamp.session.add_testament" d args kw o) = MYield [] [] /\
    kills_of (meta_call r "wamp.session.add_testament" d args kw o) = None /\
    r' = r_set_testaments r (r_testaments r') /\
    (forall c', c' <> c -> nget (r_testaments r') c' = nget (r_testaments r) c') /\
    test_bucket r' c =
      (if String.eqb (scope_of kw) "destroyed"
       then (fst (test_bucket r c), snd (test_bucket r c) ++ [t])
       else (fst (test_bucket r c) ++ [t], snd (test_bucket r c))).
Proof. exact RealmMetaProofs.add_testament_exact. Qed.
Print Assumptions add_testament_exact.

Theorem add_testament_bad_scope : forall r d args kw o,
    scope_of kw <> "destroyed" -> scope_of kw <> "detached" ->
    meta_call r "wamp.session.add_testament" d args kw o = (r, MError e_invalid_argument, None).
Proof. exact RealmMetaProofs.add_testament_bad_scope. Qed.
Print Assumptions add_testament_bad_scope.

Theorem flush_testaments_exact : forall r d args kw o c,
    match dget d "caller" with Some v => as_id v | None => None end = Some c ->
    scope_of kw = "destroyed" \/ scope_of kw = "detached" ->
    let r' := realm_of (meta_call r "wamp.session.flush_testaments" d args kw o) in
    resp_of (meta_call r "wamp.session.flush_testaments" d args kw o) = MYield [] [] /\
    kills_of (meta_call r "wamp.session.flush_testaments" d args kw o) = None /\
    r' = r_set_testaments r (r_testaments r') /\
    (forall c', c' <> c -> nget (r_testaments r') c' = nget (r_testaments r) c') /\
    test_bucket r' c =
      (if String.eqb (scope_of kw) "destroyed"
       then (fst (test_bucket r c), [])
       else ([], snd (test_bucket r c))).
Proof. exact RealmMetaProofs.flush_testaments_exact. Qed.
Print Assumptions flush_testaments_exact.

(** ** meta_event_order *)
Theorem register_event_order : forall cfg d s req opts proc,
    let '(d', o, mps) := register cfg d s req opts proc in
    (d' = d /\ mps = [] /\ is_error_reply (s_id s) c_REGISTER req o) \/
    (exists id, o = [(s_id s, RRegistered req id)] /\
       (mps = [] \/ mps = [mp_register (s_id s) id] \/
        exists rg, mps = [mp_create (s_id s) rg; mp_register (s_id s) id] /\
                   reg_id rg = id /\ reg_callees rg = [s_id s] /\ nget (d_regs d') id = Some rg)).
Proof. exact RealmMetaProofs.register_event_order. Qed.
Print Assumptions register_event_order.

Theorem unregister_event_order : forall d sid req regid,
    let '(d', o, mps) := unregister d sid req regid in
    (mps = [] /\ o = [(sid, RError c_UNREGISTER req [] e_no_such_registration [] [])]) \/
    (o = [(sid, RUnregistered req)] /\
     ((mps = [mp_unregister sid regid] /\ nget (d_regs d') regid <> None) \/
      (mps = [mp_unregister sid regid; mp_delete sid regid] /\ nget (d_regs d') regid = None))).
Proof. exact RealmMetaProofs.unregister_event_order. Qed.
Print Assumptions unregister_event_order.

Theorem dealer_remove_session_event_order : forall lk d sid,
    exists l, snd (dealer_remove_session lk d sid) = reg_leave_events sid l /\
              (forall x, In x (map fst l) ->
                         In x (match nget (d_callee_regs d) sid with Some l => l | None => [] end)).
Proof. exact RealmMetaProofs.dealer_remove_session_event_order. Qed.
Print Assumptions dealer_remove_session_event_order.

Theorem subscribe_event_order : forall cfg b pg sid req opts topic,
    let '(b', pg', o) := subscribe cfg b pg sid req opts topic in
    (b' = b /\ pg' = pg /\ is_error_reply sid c_SUBSCRIBE req o) \/
    (exists id, pg' = pg /\ o = [(sid, RSubscribed req id)]) \/
    (exists id, pg' = pg + 1 /\
       o = [(sid, RSubscribed req id)] ++ sub_meta_event b' t_sub_on_subscribe sid (pg + 1) [vid sid; vid id]) \/
    (exists s, pg' = pg + 2 /\ nget (b_subs b') (sub_id s) = Some s /\ sub_subs s = [sid] /\
       o = [(sid, RSubscribed req (sub_id s))]
             ++ sub_meta_event b' t_sub_on_create sid (pg + 1) [vid sid; sub_dict s]
             ++ sub_meta_event b' t_sub_on_subscribe sid (pg + 2) [vid sid; vid (sub_id s)]).
Proof. exact RealmMetaProofs.subscribe_event_order. Qed.
Print Assumptions subscribe_event_order.

Theorem unsubscribe_event_order : forall b pg sid req subid,
    let '(b', pg', o) := unsubscribe b pg sid req subid in
    (b' = b /\ pg' = pg /\ o = [(sid, RError c_UNSUBSCRIBE req [] e_no_such_subscription [] [])]) \/
    (pg' = pg + 1 /\
     o = [(sid, RUnsubscribed req)] ++ sub_meta_event b' t_sub_on_unsubscribe sid (pg + 1) [vid sid; vid subid]) \/
    (pg' = pg + 2 /\
     o = [(sid, RUnsubscribed req)]
           ++ sub_meta_event b' t_sub_on_unsubscribe sid (pg + 1) [vid sid; vid subid]
           ++ sub_meta_event b' t_sub_on_delete sid (pg + 2) [vid sid; vid subid]).
Proof. exact RealmMetaProofs.unsubscribe_event_order. Qed.
Print Assumptions unsubscribe_event_order.

Theorem leave_event_order : forall r sid s,
    find_session (r_clients r) sid = Some s ->
    leave r sid =
    let '(r4, o12, mps) := leave_core r sid in
    let '(r5, o3) := meta_publish_all r4 (mps ++ testament_pubs r sid ++ [on_leave_pub s]) in
    (r5, o12 ++ o3).
Proof. exact RealmMetaProofs.leave_event_order. Qed.
Print Assumptions leave_event_order.

Theorem leave_core_reg_events : forall r sid,
    exists l, snd (leave_core r sid) = reg_leave_events sid l.
Proof. exact RealmMetaProofs.leave_core_reg_events. Qed.
Print Assumptions leave_core_reg_events.

(** ** a session end announces each of the leaver's subscriptions *)
From Nexus Require Import Router.BrokerLeave Router.BrokerExamples.

(** For every well-formed broker: the output of [broker_remove_session] is,
    for every subscription id in the leaver's [b_sess] list (each once, in list
    order), exactly one on_unsubscribe meta publication [sid; subid] followed
    by exactly one on_delete [sid; subid] iff the subscription had no other
    subscriber and no history store ([sole_no_hist]) — as UNSUBSCRIBE does.
    A step [x] records the subscription [ls_sub x], the broker [ls_broker x]
    whose meta subscriptions receive the events (every other session holds in
    it exactly what it held before; the leaver no longer holds [ls_sub x]),
    the id supply before ([ls_pg x]) and whether the subscription went away
    ([ls_del x]); publication ids are consecutive ([pg_chain]). *)
Theorem leave_announces_unsubscribe : forall b pg sid ids b' pg' o,
    broker_wf b -> nget (b_sess b) sid = Some ids ->
    broker_remove_session b pg sid = (b', pg', o) ->
    NoDup ids /\
    exists steps : list (N * broker * N * bool),
      map ls_sub steps = ids /\
      o = flat_map (fun x =>
            sub_meta_event (ls_broker x) t_sub_on_unsubscribe sid (ls_pg x + 1) [vid sid; vid (ls_sub x)] ++
            (if ls_del x
             then sub_meta_event (ls_broker x) t_sub_on_delete sid (ls_pg x + 2) [vid sid; vid (ls_sub x)]
             else [])) steps /\
      pg_chain pg steps pg' /\
      (forall x, In x steps ->
         ls_del x = sole_no_hist b sid (ls_sub x) /\
         forall r, r <> sid -> forall id t k,
             holds_sig (ls_broker x) r id t k <-> holds_sig b r id t k).
Proof. exact BrokerLeave.leave_announces_unsubscribe. Qed.
Print Assumptions leave_announces_unsubscribe.

(** [ls_del]: no other subscriber and no history store *)
Theorem leave_deletes_iff : forall b sid subid,
    sole_no_hist b sid subid = true <->
    exists s, nget (b_subs b) subid = Some s /\ (forall x, In x (sub_subs s) -> x = sid) /\
              has_history b subid = false.
Proof. exact BrokerLeave.sole_no_hist_spec. Qed.
Print Assumptions leave_deletes_iff.

(** a leaver without subscriptions is silent *)
Theorem leave_without_subscriptions : forall b pg sid,
    nget (b_sess b) sid = None -> broker_remove_session b pg sid = (b, pg, []).
Proof. exact BrokerLeave.leave_without_subscriptions. Qed.
Print Assumptions leave_without_subscriptions.

(** session 10 holds "a.b" (id 1, shared with 11) and "solo" (id 2, alone);
    session 20 watches both meta topics (subscriptions 3 and 4): on_unsubscribe
    for both, on_delete for "solo" only, ids 101, 102, 103 *)
Example c18_leave_example :
  (broker_wf ex_lb /\ nget (b_sess ex_lb) 10 = Some [1; 2]) /\
  (sole_no_hist ex_lb 10 1 = false /\ sole_no_hist ex_lb 10 2 = true) /\
  snd (broker_remove_session ex_lb 100 10) =
  [(20, REvent 3 101 [] [vid 10; vid 1] []);
   (20, REvent 3 102 [] [vid 10; vid 2] []);
   (20, REvent 4 103 [] [vid 10; vid 2] [])] /\
  snd (fst (broker_remove_session ex_lb 100 10)) = 103.
Proof. exact (conj ex_lb_wf (conj ex_lb_flags ex_lb_leave)). Qed.

(** ** not_echoed *)
Theorem not_echoed : forall b mtopic cause pub args x,
    In x (sub_meta_event b mtopic cause pub args) -> fst x <> cause.
Proof. exact RealmMetaProofs.not_echoed. Qed.
Print Assumptions not_echoed.

Theorem sub_meta_event_receivers : forall b mtopic cause pub args x,
    In x (sub_meta_event b mtopic cause pub args) ->
    exists s st, In (s, st) (matching_subs b mtopic) /\ In (fst x) (sub_subs s) /\
                 snd x = REvent (sub_id s) pub (if st then [("topic", vuri mtopic)] else []) args [].
Proof. exact RealmMetaProofs.sub_meta_event_receivers. Qed.
Print Assumptions sub_meta_event_receivers.

(** ** ineffective_silent: a refused request leaves the realm as it was and its
    output is exactly the one ERROR — no meta event *)
Theorem subscribe_refused_silent : forall r s req opts topic oracle,
    valid_uri (c_strict (r_cfg r)) (opt_string opts "match") topic = false ->
    handle r s (CSubscribe req opts topic) oracle =
    (r, [(s_id s, RError c_SUBSCRIBE req [] e_invalid_uri [vstr "<text>"] [])]).
Proof. exact RealmMetaProofs.subscribe_refused_silent. Qed.
Print Assumptions subscribe_refused_silent.

Theorem subscribe_repeated_silent : forall r s req opts topic oracle id sub,
    valid_uri (c_strict (r_cfg r)) (opt_string opts "match") topic = true ->
    sget (b_map (r_broker r) (mkind_of (opt_string opts "match"))) topic = Some id ->
    nget (b_subs (r_broker r)) id = Some sub -> nmem (s_id s) (sub_subs sub) = true ->
    handle r s (CSubscribe req opts topic) oracle = (r, [(s_id s, RSubscribed req (sub_id sub))]).
Proof. exact RealmMetaProofs.subscribe_repeated_silent. Qed.
Print Assumptions subscribe_repeated_silent.

Theorem unsubscribe_refused_silent : forall r s req subid oracle,
    (forall sub, nget (b_subs (r_broker r)) subid = Some sub -> nmem (s_id s) (sub_subs sub) = false) ->
    handle r s (CUnsubscribe req subid) oracle =
    (r, [(s_id s, RError c_UNSUBSCRIBE req [] e_no_such_subscription [] [])]).
Proof. exact RealmMetaProofs.unsubscribe_refused_silent. Qed.
Print Assumptions unsubscribe_refused_silent.

Theorem register_refused_silent : forall r s req opts proc oracle e a,
    snd (fst (register (r_cfg r) (r_dealer r) s req opts proc)) = [(s_id s, RError c_REGISTER req [] e a [])] ->
    handle r s (CRegister req opts proc) oracle = (r, [(s_id s, RError c_REGISTER req [] e a [])]).
Proof. exact RealmMetaProofs.register_refused_silent. Qed.
Print Assumptions register_refused_silent.

Theorem register_refusals : forall cfg d s req opts proc,
    let m := opt_string opts "match" in
    valid_uri (c_strict cfg) m proc = false \/
    (str_prefix_wamp proc = true /\ s_id s <> meta_id) \/
    (c_disclose cfg = false /\ opt_bool opts "disclose_caller" = true /\
     attr_of (s_details s) "authrole" <> "trusted") \/
    (exists id rg, sget (d_map d (mkind_of m)) proc = Some id /\ nget (d_regs d) id = Some rg /\
                   (shared_policy (reg_policy rg) = false \/ reg_policy rg <> opt_string opts "invoke" \/
                    In (s_id s) (reg_callees rg))) ->
    exists e a, register cfg d s req opts proc = (d, [(s_id s, RError c_REGISTER req [] e a [])], []).
Proof. exact RealmMetaProofs.register_refusals. Qed.
Print Assumptions register_refusals.

Theorem unregister_refused_silent : forall r s req regid oracle,
    (forall rg, nget (d_regs (r_dealer r)) regid = Some rg -> nmem (s_id s) (reg_callees rg) = false) ->
    handle r s (CUnregister req regid) oracle =
    (r_set_dealer r (d_set_callee_regs (r_dealer r) (callee_del_reg (d_callee_regs (r_dealer r)) (s_id s) regid)),
     [(s_id s, RError c_UNREGISTER req [] e_no_such_registration [] [])]).
Proof. exact RealmMetaProofs.unregister_refused_silent. Qed.
Print Assumptions unregister_refused_silent.

Theorem unregister_refused_unchanged : forall r s req regid oracle,
    (forall rg, nget (d_regs (r_dealer r)) regid = Some rg -> nmem (s_id s) (reg_callees rg) = false) ->
    (forall ids, nget (d_callee_regs (r_dealer r)) (s_id s) = Some ids -> ids <> [] /\ ~ In regid ids) ->
    handle r s (CUnregister req regid) oracle =
    (r, [(s_id s, RError c_UNREGISTER req [] e_no_such_registration [] [])]).
Proof. exact RealmMetaProofs.unregister_refused_unchanged. Qed.
Print Assumptions unregister_refused_unchanged.

(** ** lookup_match_agree *)
Theorem registration_match_agrees : forall r d0 margs mkw oracle p,
    bind (arg0 margs) as_string = Some p ->
    forall caller req opts args kw,
    match match_procedure (r_dealer r) p oracle with
    | None =>
        meta_call r "wamp.registration.match" d0 margs mkw oracle = (r, MYield [vid 0] [], None) /\
        exists d',
          call (r_cfg r) (lookup r) (r_now r) (r_dealer r) caller req opts p args kw oracle =
          CallRefused d' [(s_id caller, RError c_CALL req [] e_no_such_procedure [] [])]
    | Some rg =>
        meta_call r "wamp.registration.match" d0 margs mkw oracle = (r, MYield [vid (reg_id rg)] [], None) /\
        forall d' callee o,
          call (r_cfg r) (lookup r) (r_now r) (r_dealer r) caller req opts p args kw oracle = CallInvoked d' callee o ->
          exists rcv invid det,
            o = [(rcv, RInvocation invid (reg_id rg) det args kw)] /\
            (cget (d_bycall (r_dealer r)) (s_id caller, req) = None -> In rcv (reg_callees rg))
    end.
Proof. exact RealmMetaProofs.registration_match_agrees. Qed.
Print Assumptions registration_match_agrees.

Theorem subscription_match_agrees : forall r d0 margs mkw oracle t,
    bind (arg0 margs) as_string = Some t ->
    meta_call r "wamp.subscription.match" d0 margs mkw oracle =
    (r, MYield [ids_value (map (fun p => sub_id (fst p)) (matching_subs (r_broker r) t))] [], None) /\
    forall pub req opts args kw,
      valid_uri (c_strict (r_cfg r)) "" t = true ->
      publish_aborts (r_cfg r) pub opts t = false ->
      opt_bool opts "disclose_me" && negb (c_disclose (r_cfg r)) = false ->
      snd (publish (r_cfg r) (lookup r) (r_now r) (r_broker r) (r_pubgen r) pub req opts t args kw) =
      pub_events (lookup r) pub (r_pubgen r + 1) opts t args kw (matching_subs (r_broker r) t)
      ++ (if opt_bool opts "acknowledge" then [(s_id pub, RPublished req (r_pubgen r + 1))] else []).
Proof. exact RealmMetaProofs.subscription_match_agrees. Qed.
Print Assumptions subscription_match_agrees.

Theorem pub_events_subs : forall lk pub pubid opts topic args kw subs rcv sub pid det a k,
    In (rcv, REvent sub pid det a k) (pub_events lk pub pubid opts topic args kw subs) ->
    In sub (map (fun p => sub_id (fst p)) subs) /\ pid = pubid.
Proof. exact RealmMetaProofs.pub_events_subs. Qed.
Print Assumptions pub_events_subs.

(** ** listed_fetchable (for realms satisfying the reachable-state invariant
    [realm_wf], see Props/C05.v [reachable_realm_wf]) *)
Theorem listed_sessions_fetchable : forall r d1 d2 args kw1 kw2 o1 o2 l x,
    realm_wf r ->
    resp_of (meta_call r "wamp.session.list" d1 args kw1 o1) = MYield [ids_value l] [] ->
    In x l ->
    exists det, meta_call r "wamp.session.get" d2 [vid x] kw2 o2 = (r, MYield [VDict det] [], None).
Proof. exact RealmC05.listed_sessions_fetchable. Qed.
Print Assumptions listed_sessions_fetchable.

Theorem listed_subscriptions_fetchable : forall r k0 d2 kw2 o2 kind x,
    realm_wf r -> ids_below k0 r -> k0 <= max_idN ->
    In x (match sub_ids_by (r_broker r) kind with VList l => l | _ => [] end) ->
    exists id s, x = vid id /\ nget (b_subs (r_broker r)) id = Some s /\
                 meta_call r "wamp.subscription.get" d2 [x] kw2 o2 = (r, MYield [sub_dict s] [], None).
Proof. exact RealmC05.listed_subscriptions_fetchable. Qed.
Print Assumptions listed_subscriptions_fetchable.

Theorem listed_registrations_fetchable : forall r k0 d2 kw2 o2 kind x,
    realm_wf r -> ids_below k0 r -> k0 <= max_idN ->
    In x (match reg_ids_by (r_dealer r) kind with VList l => l | _ => [] end) ->
    exists id rg, x = vid id /\ nget (d_regs (r_dealer r)) id = Some rg /\
                  meta_call r "wamp.registration.get" d2 [x] kw2 o2 = (r, MYield [reg_dict rg] [], None).
Proof. exact RealmC05.listed_registrations_fetchable. Qed.
Print Assumptions listed_registrations_fetchable.

(** ** Non-vacuity: a reachable realm (three sessions, a subscription, a
    registration, a meta-topic observer); the meta procedures reached through
    [step], i.e. a CALL routed to the meta session. *)
Example c18_counts_example :
  snd (step C18Ex.r0 (C18Ex.call12 "wamp.session.count" [] [])) = [(12, RResult 5 [] [vnat 3] [])] /\
  snd (step C18Ex.r0 (C18Ex.call12 "wamp.session.list" [] [])) = [(12, RResult 5 [] [VList [vid 10; vid 11; vid 12]] [])].
Proof. exact C18Ex.counts. Qed.

Example c18_kill_hypotheses_satisfiable :
  bind (arg0 [vid 11]) as_id = Some 11 /\ caller_of [("caller", vid 12)] <> 11 /\
  kill_reason [("reason", vuri "x.y")] = Some ("x.y", "") /\ find_session (r_clients C18Ex.r0) 11 <> None.
Proof. exact C18Ex.kill_hyps. Qed.

Example c18_kill_example :
  snd (step C18Ex.r0 (C18Ex.call12 "wamp.session.kill" [vid 11] [("reason", vuri "x.y")])) =
  [(12, RResult 5 [] [] []); (11, RGoodbye [] "x.y");
   (10, REvent 2 10 [("topic", vuri t_sub_on_unsubscribe)] [vid 11; vid 1] []);
   (10, REvent 2 11 [("topic", vuri t_sub_on_delete)] [vid 11; vid 1] []);
   (10, REvent 2 12 [("topic", vuri t_reg_on_unregister)] [vid 11; vid 24] []);
   (10, REvent 2 13 [("topic", vuri t_reg_on_delete)] [vid 11; vid 24] []);
   (10, REvent 2 14 [("topic", vuri t_on_leave)] [vid 11; vstr "<gen>"; vstr "anonymous"] [])] /\
  map s_id (r_clients (fst (step C18Ex.r0 (C18Ex.call12 "wamp.session.kill" [vid 11] [("reason", vuri "x.y")])))) = [10; 12].
Proof. exact C18Ex.kill. Qed.

Example c18_kill_refused_example :
  snd (step C18Ex.r0 (C18Ex.call12 "wamp.session.kill" [vid 12] [])) = [(12, RError c_CALL 5 [] e_no_such_session [] [])] /\
  snd (step C18Ex.r0 (C18Ex.call12 "wamp.session.kill" [vid 99] [])) = [(12, RError c_CALL 5 [] e_no_such_session [] [])].
Proof. exact C18Ex.kill_self. Qed.

Example c18_registration_match_example :
  snd (step C18Ex.r0 (C18Ex.call12 "wamp.registration.match" [vstr "p"] [])) = [(12, RResult 5 [] [vid 24] [])] /\
  snd (step C18Ex.r0 (C18Ex.call12 "p" [] [])) =
    [(11, RInvocation 1 24 [("progress", VBool false); ("procedure", vuri "p")] [] [])] /\
  match_procedure (r_dealer C18Ex.r0) "p" 0 <> None.
Proof. exact C18Ex.reg_match. Qed.

Example c18_subscription_match_example :
  snd (step C18Ex.r0 (C18Ex.call12 "wamp.subscription.match" [vstr "t"] [])) = [(12, RResult 5 [] [VList [vid 1]] [])] /\
  snd (step C18Ex.r0 (OMsg 12 (CPublish 5 [] "t" [] []) 0)) = [(11, REvent 1 10 [] [] [])].
Proof. exact C18Ex.sub_match. Qed.

Example c18_unsubscribe_example :
  snd (step C18Ex.r0 (OMsg 11 (CUnsubscribe 6 1) 0)) =
    [(11, RUnsubscribed 6);
     (10, REvent 2 10 [("topic", vuri t_sub_on_unsubscribe)] [vid 11; vid 1] []);
     (10, REvent 2 11 [("topic", vuri t_sub_on_delete)] [vid 11; vid 1] [])] /\
  step C18Ex.r0 (OMsg 12 (CUnsubscribe 6 1) 0) = (C18Ex.r0, [(12, RError c_UNSUBSCRIBE 6 [] e_no_such_subscription [] [])]).
Proof. exact C18Ex.unsub. Qed.

Example c18_testament_example :
  r_testaments (fst (step C18Ex.r0 (C18Ex.call12 "wamp.session.add_testament" [vstr "bye"; VList []; VDict []] []))) =
  [(12, ([], [mkTest "bye" [] [] []]))].
Proof. exact C18Ex.testament. Qed.
