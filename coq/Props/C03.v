(** * C03 — calls reach the right callee with payload and ids intact (dealer side)

    Statements about the executable router model Router/Dealer.v, for every
    dealer state / every history (induction, no bounds).  The invariant
    [dealer_wf lookup d] (Router/DealerProofs.v) says:
    - registration side ([regs_core], [cr_ok], [regs_att]): every entry of the
      three procedure maps points to a registration with that procedure and
      match kind; every registration is found through the map of its kind under
      its own id (<= the id generator); keys are unique; [reg_callees] is
      non-empty, duplicate-free, every member attached, several members only
      under a sharing policy; [d_callee_regs] lists for each session exactly
      the registrations it is a callee of;
    - call side ([calls_core], [calls_att]): [d_bycall]/[d_invs] are in
      bijection, [d_calls] is defined exactly on the keys of [d_bycall] and
      maps (c,q) to c, the invocation key is (callee, id) with id <= the
      callee's generator, caller and callee attached; every armed timer
      belongs to a pending call whose invocation names it, timer ids are
      unique and <= the generator.
    Proofs: Router/DealerReg.v, DealerCall.v, DealerWf*.v, DealerRemove.v,
    DealerReply.v, DealerOwned.v.  Examples: Router/DealerExamples.v. *)
From Nexus Require Import Router.Realm Router.DealerLib Router.DealerProofs Router.DealerReg
     Router.DealerCall Router.DealerWfCalls Router.DealerWfRegs Router.DealerWf Router.DealerRemove
     Router.DealerReply Router.DealerOwned Router.DealerExamples.

(** ** The invariant holds initially and is preserved by every dealer function *)
Theorem dealer_wf_init : forall cfg, dealer_wf (lookup (init_realm cfg)) (r_dealer (init_realm cfg)).
Proof. exact init_realm_wf. Qed.
Print Assumptions dealer_wf_init.

Theorem dealer_wf_register : forall cfg lookup d callee req opts proc,
    dealer_wf lookup d -> attached lookup (s_id callee) -> d_idgen d < max_idN ->
    dealer_wf lookup (fst (fst (register cfg d callee req opts proc))).
Proof. exact register_wf. Qed.
Print Assumptions dealer_wf_register.

Theorem dealer_wf_unregister : forall lookup d sid req regid,
    dealer_wf lookup d -> dealer_wf lookup (fst (fst (unregister d sid req regid))).
Proof. exact unregister_wf. Qed.
Print Assumptions dealer_wf_unregister.

(** CALL, all three outcomes; an INVOCATION advances the callee's generator,
    so the invariant is stated for any session table that has the updated callee *)
Theorem dealer_wf_call : forall cfg lookup now d caller req opts proc args kw oracle,
    dealer_wf lookup d -> lookup_ok lookup -> nowrap lookup -> attached lookup (s_id caller) ->
    match call cfg lookup now d caller req opts proc args kw oracle with
    | CallRefused d' _ => dealer_wf lookup d'
    | CallAbort _ => True
    | CallInvoked d' callee' _ =>
        attached lookup (s_id callee') /\
        forall lookup', lookup_le lookup lookup' -> lookup' (s_id callee') = Some callee' ->
                        dealer_wf lookup' d'
    end.
Proof. exact call_wf. Qed.
Print Assumptions dealer_wf_call.

Theorem dealer_wf_cancel : forall lookup lk d caller req opts,
    dealer_wf lookup d -> dealer_wf lookup (fst (cancel lk d caller req opts)).
Proof. exact cancel_wf. Qed.
Print Assumptions dealer_wf_cancel.

Theorem dealer_wf_sync_cancel : forall lookup lk d caller req mode reason ea,
    dealer_wf lookup d -> dealer_wf lookup (fst (sync_cancel lk d caller req mode reason ea)).
Proof. exact sync_cancel_wf. Qed.
Print Assumptions dealer_wf_sync_cancel.

Theorem dealer_wf_yield : forall lookup lk d callee req opts args kw,
    dealer_wf lookup d -> dealer_wf lookup (fst (sync_yield lk d callee req opts args kw)).
Proof. exact sync_yield_wf. Qed.
Print Assumptions dealer_wf_yield.

Theorem dealer_wf_error : forall lookup d callee req det err args kw,
    dealer_wf lookup d -> dealer_wf lookup (fst (sync_error d callee req det err args kw)).
Proof. exact sync_error_wf. Qed.
Print Assumptions dealer_wf_error.

Theorem dealer_wf_fire_timers : forall lookup lk now d,
    dealer_wf lookup d -> dealer_wf lookup (fst (fire_timers lk now d)).
Proof. exact fire_timers_wf. Qed.
Print Assumptions dealer_wf_fire_timers.

(** the session is then removed from the session table ([lookup'] may map it to anything) *)
Theorem dealer_wf_remove_session : forall lookup lookup' lk d sid,
    dealer_wf lookup d -> (forall x, x <> sid -> lookup' x = lookup x) ->
    let d' := fst (fst (dealer_remove_session lk d sid)) in
    dealer_wf lookup' d' /\
    nget (d_callee_regs d') sid = None /\ d_idgen d' = d_idgen d /\
    (forall id rg, nget (d_regs d') id = Some rg -> ~ In sid (reg_callees rg)) /\
    (forall c x, cget (d_calls d') c = Some x -> fst c <> sid) /\
    (forall c k, cget (d_bycall d') c = Some k -> fst c <> sid /\ fst k <> sid) /\
    (forall k inv, cget (d_invs d') k = Some inv -> fst k <> sid /\ fst (inv_call inv) <> sid).
Proof. exact dealer_remove_session_wf. Qed.
Print Assumptions dealer_wf_remove_session.

Example dealer_wf_ex :
    dealer_wf (lk 0 0) d2s /\ dealer_wf (lk 1 0) d3 /\ dealer_wf (lk 1 0) d4 /\ dealer_wf (lk 1 1) d5 /\
    List.length (d_regs d2s) = 23%nat /\ List.length (d_calls d5) = 2%nat /\ List.length (d_timers d3) = 1%nat.
Proof.
  split; [exact wf_d2s|]. split; [exact wf_d3|]. split; [exact wf_d4|]. split; [exact wf_d5|].
  vm_compute. repeat split; reflexivity.
Qed.

(** ** Best match: exact first, else the longest matching prefix, else a
    longest matching wildcard (the oracle only chooses among those) *)
Theorem best_match_spec : forall lookup d proc,
    dealer_wf lookup d ->
    (forall oracle r, match_procedure d proc oracle = Some r -> best_match d proc r) /\
    (forall r, best_match d proc r ->
       (exists oracle, match_procedure d proc oracle = Some r) /\
       (reg_kind r <> MWildcard -> forall oracle, match_procedure d proc oracle = Some r)) /\
    (forall oracle, match_procedure d proc oracle = None <->
                    (no_exact d proc /\ no_prefix d proc /\ no_wildcard d proc)).
Proof. exact best_match_spec_proof. Qed.
Print Assumptions best_match_spec.

Example best_match_ex :
    option_map reg_id (match_procedure d2s "com.x" 0) = Some 19 /\       (* exact *)
    option_map reg_id (match_procedure d2s "com.y" 5) = Some 20 /\       (* prefix "com." *)
    option_map reg_id (match_procedure d2s "org.a.z" 3) = Some 21 /\     (* wildcard "org..z" *)
    match_procedure d2s "net.other" 0 = None.
Proof. vm_compute. repeat split; reflexivity. Qed.

(** ** Callee selection *)
Theorem select_spec : forall r oracle,
    let cs := reg_callees r in
    let n := N.of_nat (List.length cs) in
    match cs with
    | [] => select_callee r oracle = None
    | [c] => select_callee r oracle = Some (c, reg_next r)
    | c0 :: _ :: _ =>
        (reg_policy r = "first" -> select_callee r oracle = Some (c0, reg_next r)) /\
        (reg_policy r = "last" -> select_callee r oracle = Some (last cs c0, reg_next r)) /\
        (reg_policy r = "random" ->
           select_callee r oracle = Some (nth (N.to_nat ((oracle / 8) mod n)) cs c0, reg_next r) /\
           (oracle / 8) mod n < n) /\
        (reg_policy r = "roundrobin" ->
           let i := rr_index n (reg_next r) in
           select_callee r oracle = Some (nth (N.to_nat i) cs c0, i + 1) /\ i < n) /\
        (shared_policy (reg_policy r) = false -> select_callee r oracle = None)
    end.
Proof. exact select_spec_proof. Qed.
Print Assumptions select_spec.

Theorem select_is_member : forall r oracle c nx,
    select_callee r oracle = Some (c, nx) -> In c (reg_callees r).
Proof. exact select_member. Qed.
Print Assumptions select_is_member.

(** with membership unchanged, consecutive first-chunk calls (each stores the
    cursor it was given, [reg_set_next]) visit consecutive members cyclically *)
Theorem roundrobin_cyclic : forall oracles r k,
    reg_policy r = "roundrobin" -> (2 <= List.length (reg_callees r))%nat ->
    (k < List.length oracles)%nat ->
    let n := N.of_nat (List.length (reg_callees r)) in
    nth_error (rr_calls r oracles) k =
    nth_error (reg_callees r) (N.to_nat ((rr_index n (reg_next r) + N.of_nat k) mod n)).
Proof. exact roundrobin_cyclic_proof. Qed.
Print Assumptions roundrobin_cyclic.

Example roundrobin_ex :
    exists r, nget (d_regs d2s) 19 = Some r /\ reg_policy r = "roundrobin" /\ reg_callees r = [11; 12] /\
              rr_calls r [0; 0; 0; 0; 0] = [11; 12; 11; 12; 11].
Proof. eexists. vm_compute. repeat split; reflexivity. Qed.

(** ** The INVOCATION of a first chunk *)
Theorem invocation_spec : forall cfg lookup now d caller req opts proc args kw oracle d' callee' o,
    call cfg lookup now d caller req opts proc args kw oracle = CallInvoked d' callee' o ->
    cget (d_bycall d) (s_id caller, req) = None ->
    exists r callee_id next callee,
      match_procedure d proc oracle = Some r /\
      select_callee r oracle = Some (callee_id, next) /\ In callee_id (reg_callees r) /\
      lookup callee_id = Some callee /\
      let invid := idgen_next (s_invgen callee) in
      let det := call_details cfg caller callee callee_id r opts proc in
      o = [(callee_id, RInvocation invid (reg_id r) det args kw)] /\
      callee' = set_invgen callee invid /\
      d' = call_first_state now d (s_id caller, req) opts r callee_id next callee /\
      dget det "progress" = Some (VBool (opt_bool opts "progress")) /\
      dget det "receive_progress" =
        (if opt_bool opts "receive_progress" && sess_feature callee "callee" f_prog_res
            && sess_feature callee "callee" f_call_canceling then Some (VBool true) else None) /\
      dget det "procedure" = (if String.eqb (reg_match r) "exact" then None else Some (vuri proc)) /\
      pending d' (s_id caller, req) (callee_id, invid) (first_inv d (s_id caller, req) callee_id callee r opts) (s_id caller).
Proof. exact invocation_spec_proof. Qed.
Print Assumptions invocation_spec.

(** the id is new for that callee (no wrap-around): above every invocation id it was sent *)
Theorem inv_id_fresh : forall lookup d callee_id callee,
    dealer_wf lookup d -> lookup callee_id = Some callee -> s_invgen callee < max_idN ->
    idgen_next (s_invgen callee) = s_invgen callee + 1 /\
    forall i inv, cget (d_invs d) (callee_id, i) = Some inv -> i < idgen_next (s_invgen callee).
Proof. exact inv_id_fresh_proof. Qed.
Print Assumptions inv_id_fresh.

(** a further chunk: same callee, same invocation id, no new id drawn *)
Theorem chunk_spec : forall cfg lookup now d caller req opts proc args kw oracle d' callee' o ikey,
    call cfg lookup now d caller req opts proc args kw oracle = CallInvoked d' callee' o ->
    cget (d_bycall d) (s_id caller, req) = Some ikey ->
    exists r inv,
      match_procedure d proc oracle = Some r /\
      cget (d_invs d) ikey = Some inv /\ lookup (inv_callee inv) = Some callee' /\
      o = [(s_id callee', RInvocation (snd ikey) (reg_id r) [("progress", VBool (opt_bool opts "progress"))] args kw)] /\
      d' = chunk_state now d (s_id caller, req) ikey inv callee' r (opt_bool opts "progress").
Proof. exact chunk_spec_proof. Qed.
Print Assumptions chunk_spec.

(** payload passthru: the ppt options are copied into the details iff the CALL
    uses passthru mode, and then both peers announced the feature *)
Theorem invocation_ppt : forall cfg lookup now d caller req opts proc args kw oracle d' callee' o,
    call cfg lookup now d caller req opts proc args kw oracle = CallInvoked d' callee' o ->
    cget (d_bycall d) (s_id caller, req) = None ->
    exists r callee_id callee,
      match_procedure d proc oracle = Some r /\ lookup callee_id = Some callee /\
      let det := call_details cfg caller callee callee_id r opts proc in
      o = [(callee_id, RInvocation (idgen_next (s_invgen callee)) (reg_id r) det args kw)] /\
      (forall k, In k ppt_keys -> dget det k = if ppt_active opts then ppt_val opts k else None) /\
      (ppt_active opts = true ->
       sess_feature caller "caller" f_ppt = true /\ sess_feature callee "callee" f_ppt = true).
Proof. exact invocation_ppt_proof. Qed.
Print Assumptions invocation_ppt.

Example invocation_ex :
    (exists o, the_call = CallInvoked d3 (set_invgen s11 1) o /\
               o = [(11, RInvocation 1 19 [("progress", VBool false); ("receive_progress", VBool true);
                                           ("procedure", vuri "com.x")] [vnat 1] [("k", vnat 2)])]) /\
    cget (d_bycall d2s) (10, 7) = None /\
    (* a further chunk of a progressive call *)
    (exists d' o, cget (d_bycall dp1) (10, 9) = Some (11, 1) /\
                  call cfg0 (lk 1 0) 6 dp1 s10 9 [] "net.solo" [vnat 5] [] 0 = CallInvoked d' (set_invgen s11 1) o /\
                  o = [(11, RInvocation 1 23 [("progress", VBool false)] [vnat 5] [])]).
Proof.
  split; [eexists; vm_compute; split; reflexivity|]. split; [vm_compute; reflexivity|].
  eexists; eexists. vm_compute. repeat split; reflexivity.
Qed.

(** ** Answer routing: only to the session that made that call, payload unchanged.
    A YIELD of the invocation's owner sends [yield_out]: the RESULT to the
    caller (details: [progress] for a progressive one, plus the passthru
    options when passthru mode is used and both peers announced it); when a
    passthru YIELD cannot be delivered the caller gets, for a final YIELD,
    ERROR(CALL) with its own request id instead, and the yielding callee an
    ABORT (it lacks the feature) or an ERROR(YIELD) (the caller lacks it).
    At most one message is a reply, it goes to the caller of that call; every
    other message goes back to the yielding callee. *)
Theorem answer_routing_yield : forall lookup lk d callee req opts args kw,
    dealer_wf lookup d ->
    match cget (d_invs d) (callee, req) with
    | Some inv =>
        let cid := inv_call inv in
        let o := snd (sync_yield lk d callee req opts args kw) in
        pending d cid (callee, req) inv (fst cid) /\
        o = yield_out lk callee req opts args kw cid (fst cid) /\
        (ppt_active opts = false ->
         o = [(fst cid, RResult (snd cid) (if opt_bool opts "progress" then [("progress", VBool true)] else []) args kw)]) /\
        (forall m, In m o -> reply_of m = Some (cid, negb (opt_bool opts "progress")) \/
                             (fst m = callee /\ reply_of m = None)) /\
        (forall o1 m o2, o = o1 ++ m :: o2 -> reply_of m <> None -> forall m', In m' (o1 ++ o2) -> reply_of m' = None)
    | None =>     (* not the owner of such an invocation: nothing changes, nothing reaches a caller *)
        sync_yield lk d callee req opts args kw =
        (d, if opt_bool opts "progress" then [(callee, RInterrupt req [("mode", vstr "killnowait")])] else [])
    end.
Proof. exact answer_routing_yield_proof. Qed.
Print Assumptions answer_routing_yield.

Theorem answer_routing_error : forall lookup d callee req det err args kw,
    dealer_wf lookup d ->
    match cget (d_invs d) (callee, req) with
    | Some inv =>
        let cid := inv_call inv in
        pending d cid (callee, req) inv (fst cid) /\
        snd (sync_error d callee req det err args kw) = [(fst cid, RError c_CALL (snd cid) det err args kw)]
    | None => sync_error d callee req det err args kw = (d, [])
    end.
Proof. exact answer_routing_error_proof. Qed.
Print Assumptions answer_routing_error.

Example answer_routing_ex :
    snd (sync_yield (lk 1 0) d3 11 1 [] [vnat 9] [("r", vnat 8)]) = [(10, RResult 7 [] [vnat 9] [("r", vnat 8)])] /\
    sync_yield (lk 1 0) d3 12 1 [] [vnat 9] [] = (d3, []) /\                    (* wrong yielder *)
    (* passthru mode: the options travel in the RESULT details *)
    snd (sync_yield (lk 1 0) d3 11 1 ppt_opts [vnat 1] []) =
      [(10, RResult 7 [("ppt_scheme", vstr "mqtt"); ("ppt_serializer", vstr "cbor")] [vnat 1] [])] /\
    snd (sync_error d3 11 1 [("x", vnat 1)] "com.err" [vnat 9] []) = [(10, RError c_CALL 7 [("x", vnat 1)] "com.err" [vnat 9] [])] /\
    sync_error d3 12 1 [] "com.err" [] [] = (d3, []).
Proof. vm_compute. repeat split; reflexivity. Qed.

(** ** Sharing rules of REGISTER *)
Theorem share_rules : forall cfg d callee req opts proc,
    let sid := s_id callee in
    let m := opt_string opts "match" in
    let invoke := opt_string opts "invoke" in
    (valid_uri (c_strict cfg) m proc = false \/ (str_prefix_wamp proc = true /\ sid <> meta_id) ->
     register cfg d callee req opts proc = (d, [(sid, RError c_REGISTER req [] e_invalid_uri [vstr "<text>"] [])], [])) /\
    (forall r, reg_prechecks cfg callee opts proc -> reg_lookup d m proc = Some r ->
       ((exists d' mps, register cfg d callee req opts proc = (d', [(sid, RRegistered req (reg_id r))], mps))
        <-> ((reg_policy r = "roundrobin" \/ reg_policy r = "random" \/ reg_policy r = "first" \/ reg_policy r = "last")
             /\ invoke = reg_policy r /\ ~ In sid (reg_callees r))) /\
       (share_ok r invoke sid = true ->
        exists mps, register cfg d callee req opts proc =
                    (share_state d r sid (opt_bool opts "disclose_caller") (opt_bool opts "forward_timeout"),
                     [(sid, RRegistered req (reg_id r))], mps)) /\
       (share_ok r invoke sid = false ->
        register cfg d callee req opts proc = (d, [(sid, RError c_REGISTER req [] e_procedure_exists [] [])], []))).
Proof. exact share_rules_proof. Qed.
Print Assumptions share_rules.

Example share_rules_ex :
    (* accepted: same sharing policy *)
    snd (fst (register cfg0 d1 s12 1 rr_opts "com.x")) = [(12, RRegistered 1 19)] /\
    (* different policy / same session again / single: procedure_already_exists, nothing changes *)
    register cfg0 d1 s12 1 [("invoke", vstr "first")] "com.x" = (d1, [(12, RError c_REGISTER 1 [] e_procedure_exists [] [])], []) /\
    register cfg0 d2 s12 1 rr_opts "com.x" = (d2, [(12, RError c_REGISTER 1 [] e_procedure_exists [] [])], []) /\
    register cfg0 d2s s12 1 [] "net.solo" = (d2s, [(12, RError c_REGISTER 1 [] e_procedure_exists [] [])], []) /\
    (* wamp.* from a client, invalid URI *)
    register cfg0 d1 s12 1 [] "wamp.session.count" = (d1, [(12, RError c_REGISTER 1 [] e_invalid_uri [vstr "<text>"] [])], []) /\
    register cfg0 d1 s12 1 [] "com..x" = (d1, [(12, RError c_REGISTER 1 [] e_invalid_uri [vstr "<text>"] [])], []) /\
    reg_prechecks cfg0 s12 rr_opts "com.x".
Proof. vm_compute. repeat split; reflexivity. Qed.

(** ** No call is routed to a callee that is gone *)
Theorem no_route_after_unregister : forall lookup d sid req regid d' mps,
    dealer_wf lookup d ->
    unregister d sid req regid = (d', [(sid, RUnregistered req)], mps) ->
    dealer_wf lookup d' /\
    forall rg, nget (d_regs d') regid = Some rg -> ~ In sid (reg_callees rg).
Proof. exact no_route_after_unregister_proof. Qed.
Print Assumptions no_route_after_unregister.

Theorem no_route_after_remove_session : forall lookup lookup' lk d sid,
    dealer_wf lookup d -> (forall x, x <> sid -> lookup' x = lookup x) ->
    let d' := fst (fst (dealer_remove_session lk d sid)) in
    dealer_wf lookup' d' /\
    (forall id rg, nget (d_regs d') id = Some rg -> ~ In sid (reg_callees rg)) /\
    forall cfg now caller req opts proc args kw oracle d'' callee' o,
      call cfg lookup' now d' caller req opts proc args kw oracle = CallInvoked d'' callee' o ->
      cget (d_bycall d') (s_id caller, req) = None ->
      forall m, In m o -> fst m <> sid.
Proof. exact no_route_after_remove_session_proof. Qed.
Print Assumptions no_route_after_remove_session.

(** a first-chunk INVOCATION goes to a member of the registration it names *)
Theorem no_route_to_non_callee : forall cfg lookup now d caller req opts proc args kw oracle d' callee' o sid,
    dealer_wf lookup d ->
    call cfg lookup now d caller req opts proc args kw oracle = CallInvoked d' callee' o ->
    cget (d_bycall d) (s_id caller, req) = None ->
    forall x inv_id rid det a k, In (x, RInvocation inv_id rid det a k) o ->
      exists r, nget (d_regs d) rid = Some r /\ In x (reg_callees r) /\
                ((forall rg, nget (d_regs d) rid = Some rg -> ~ In sid (reg_callees rg)) -> x <> sid).
Proof. exact no_route_to_non_callee_proof. Qed.
Print Assumptions no_route_to_non_callee.

Example no_route_ex :
    (* 11 unregisters from the shared "com.x": every later call goes to 12 *)
    (exists d' mps, unregister d2s 11 5 19 = (d', [(11, RUnregistered 5)], mps) /\
        option_map reg_callees (nget (d_regs d') 19) = Some [12] /\
        (exists d'' c o, call cfg0 (lk 0 0) 5 d' s10 7 [] "com.x" [] [] 0 = CallInvoked d'' c o /\ map fst o = [12])) /\
    (* 11 leaves: "net.solo", "com.fwd", "org..z" disappear, "com.x" keeps 12 *)
    (let d' := fst (fst (dealer_remove_session (lk 0 0) d2s 11)) in
     List.length (d_regs d') = 20%nat /\ option_map reg_callees (nget (d_regs d') 19) = Some [12] /\
     nget (d_callee_regs d') 11 = None).
Proof.
  split.
  - eexists; eexists. split; [vm_compute; reflexivity|]. split; [vm_compute; reflexivity|].
    eexists; eexists; eexists. vm_compute. split; reflexivity.
  - vm_compute. repeat split; reflexivity.
Qed.
