(** C08 — Per-peer ordering guarantees hold under concurrency.

    Statements only.  Objects: [Order/Model.v] (the labelled transition system:
    any number of sessions, one handler process per session, broker and dealer
    worker processes with rendezvous hand-over, per-receiver bounded FIFO
    queues with try-send, ghost sequence numbers), [Order/Spec.v] (the order
    predicates and the executable monitor), [Order/Sites.v] (the attribution
    table tied to /repo by coq/gen/GenC08Sites.v + Order/Conform.v).

    [reach cf st] : [st] is reached from [init] by SOME label sequence - every
    interleaving of client sends, handler steps, hand-overs, worker micro
    steps (each try-send is one step), client receptions, timer firings and
    yield retries, with every oracle choice (URI matching, callee selection,
    filters, refusals, cancel modes, retry deadline).
    [stream st r] : what session [r] has received followed by what is queued
    for it.  [att st r] : every try-send ever made to [r], with its outcome.
    Sequence numbers are drawn from one counter at [ClientSend]
    ([seq_is_send_order]): smaller number = sent earlier by that session. *)
From Coq Require Import List NArith Bool Sorted.
From Nexus Require Import Order.Model Order.Spec Order.Sites Order.SitesProofs Order.Examples
  Order.SpecProofs Order.Thm.
Import ListNotations.
Open Scope N_scope.

(** 1. Events published by one session [p] to one topic [t] reach each
    subscriber [r], per subscription [sb], in publication order. *)
Theorem event_order : forall cf st r pre mid post sb p t y1 y2,
  reach cf st ->
  stream st r = pre ++ SEvent sb (Some p) t y1 :: mid ++ SEvent sb (Some p) t y2 :: post ->
  y1 < y2.
Proof. exact event_order_x. Qed.
Print Assumptions event_order.

(** 2. Calls by one caller [c] routed to the same callee [e] arrive there in
    call order ([y] = number of the CALL message). *)
Theorem call_order : forall cf st e pre mid post c rg1 inv1 cid1 y1 f1 rg2 inv2 cid2 y2 f2,
  reach cf st ->
  stream st e = pre ++ SInvocation rg1 inv1 c cid1 y1 f1 :: mid
                    ++ SInvocation rg2 inv2 c cid2 y2 f2 :: post ->
  y1 < y2.
Proof. exact call_order_x. Qed.
Print Assumptions call_order.

(** 3. For each call [cid], RESULTs reach the caller in YIELD order ([y] =
    number of the YIELD message) and nothing for the call follows its final
    reply.  Full strength ([final_reply]: any ERROR, or the RESULT that ended
    the call) for the router with fixes/C08-refused-chunk applied ... *)
Theorem progress_order : forall cf st c,
  repaired cf = true -> reach cf st ->
  (forall pre mid post cid y1 e1 p1 c1 y2 e2 p2 c2,
      stream st c = pre ++ SResult cid y1 e1 p1 c1 :: mid ++ SResult cid y2 e2 p2 c2 :: post ->
      y1 < y2) /\
  (forall pre f post m cid,
      stream st c = pre ++ f :: post -> final_reply cid f = true -> In m post ->
      is_reply cid m = false).
Proof. exact progress_order_x. Qed.
Print Assumptions progress_order.

(** ... for the code as it is, the same with "final reply" read as the reply
    that erased the call record ([closing]).  The gap: ERROR(CALL,
    no_such_procedure) answering a further CALL message of a pending
    progressive call does not erase the call (router/dealer.go syncCall) ... *)
Theorem progress_order_partial : forall cf st c,
  reach cf st ->
  (forall pre mid post cid y1 e1 p1 c1 y2 e2 p2 c2,
      stream st c = pre ++ SResult cid y1 e1 p1 c1 :: mid ++ SResult cid y2 e2 p2 c2 :: post ->
      y1 < y2) /\
  (forall pre f post m cid,
      stream st c = pre ++ f :: post -> closing cid f = true -> In m post ->
      is_reply cid m = false).
Proof. exact progress_order_partial_x. Qed.
Print Assumptions progress_order_partial.

(** ... and so the full-strength claim fails in the faithful model: *)
Theorem progress_order_refuted :
  exists st c pre cid cl post y e p cl2,
    reach cfg8 st /\ stream st c = pre ++ SErrorCall cid cl :: post /\
    In (SResult cid y e p cl2) post.
Proof. exact progress_order_refuted_x. Qed.
Print Assumptions progress_order_refuted.

(** 4-7.  Side condition, exactly: the SUBSCRIBED (REGISTERED) itself was not
    dropped on a full queue - a try-send that fails is lost, and the router
    keeps the subscription.  On the attempt log no condition is needed
    ([sub_reg_attempts]). *)
Theorem subscribed_before_event : forall cf st r sb pub t y pre post,
  reach cf st -> ~ In (SSubscribed sb, false) (att st r) ->
  stream st r = pre ++ SEvent sb pub t y :: post -> In (SSubscribed sb) pre.
Proof. exact subscribed_before_event_x. Qed.
Print Assumptions subscribed_before_event.

Theorem no_event_after_unsubscribed : forall cf st r sb pub t y pre mid post,
  reach cf st -> ~ In (SSubscribed sb, false) (att st r) ->
  stream st r = pre ++ SUnsubscribed sb :: mid ++ SEvent sb pub t y :: post ->
  In (SSubscribed sb) mid.
Proof. exact no_event_after_unsubscribed_x. Qed.
Print Assumptions no_event_after_unsubscribed.

Theorem registered_before_invocation : forall cf st e rg inv c cid y pre post,
  reach cf st -> ~ In (SRegistered rg, false) (att st e) ->
  stream st e = pre ++ SInvocation rg inv c cid y true :: post -> In (SRegistered rg) pre.
Proof. exact registered_before_invocation_x. Qed.
Print Assumptions registered_before_invocation.

(** "new" INVOCATION: [first = true]; a further chunk of a pending progressive
    call still goes to the callee that holds the invocation. *)
Theorem no_invocation_after_unregistered : forall cf st e rg inv c cid y pre mid post,
  reach cf st -> ~ In (SRegistered rg, false) (att st e) ->
  stream st e = pre ++ SUnregistered rg :: mid ++ SInvocation rg inv c cid y true :: post ->
  In (SRegistered rg) mid.
Proof. exact no_invocation_after_unregistered_x. Qed.
Print Assumptions no_invocation_after_unregistered.

Theorem sub_reg_attempts : forall cf st r k,
  reach cf st ->
  (forall pub t y pre post, map fst (att st r) = pre ++ SEvent k pub t y :: post ->
                            In (SSubscribed k) pre) /\
  (forall pub t y pre mid post,
      map fst (att st r) = pre ++ SUnsubscribed k :: mid ++ SEvent k pub t y :: post ->
      In (SSubscribed k) mid) /\
  (forall inv c cid y pre post,
      map fst (att st r) = pre ++ SInvocation k inv c cid y true :: post ->
      In (SRegistered k) pre) /\
  (forall inv c cid y pre mid post,
      map fst (att st r) = pre ++ SUnregistered k :: mid ++ SInvocation k inv c cid y true :: post ->
      In (SRegistered k) mid).
Proof. exact sub_reg_attempts_x. Qed.
Print Assumptions sub_reg_attempts.

(** Sequence numbers mean sending order. *)
Theorem seq_order : forall cf st s, reach cf st -> StronglySorted N.lt (map fst (inbox st s)).
Proof. exact seq_is_send_order. Qed.
Print Assumptions seq_order.

(** The attribution table is what the LTS does: an owned kind is enqueued by
    its owner goroutine only. *)
Theorem attribution_sound : forall cf st l st',
  reach cf st -> step cf st l = Some st' -> InvSend.sends l = true ->
  exists r m ok who,
    att st' = upd (att st) r (att st r ++ [(m, ok)]) /\
    forall g, owner (kind_of m) = Some g -> gor_of who = g.
Proof. exact model_owner_sound. Qed.
Print Assumptions attribution_sound.

(** The extracted monitor decides exactly the predicates (client-side reading:
    every ERROR(CALL) and every non-progressive RESULT is final). *)
Theorem monitor_correct : forall l,
  monitor l = [] <->
  ordered_by sel_event l /\ ordered_by sel_inv l /\
  (ordered_by sel_res l /\ nothing_after final_looking l) /\
  (forall sb, opened_before (sub_mark sb) l /\ none_after_close (sub_mark sb) l) /\
  (forall rg, opened_before (reg_mark rg) l /\ none_after_close (reg_mark rg) l).
Proof. exact monitor_spec. Qed.
Print Assumptions monitor_correct.

(* ---------------------------------------------------------------- non-vacuity *)

(** reachable states in which the hypotheses of the theorems are met *)
Example ex_events :
  obs cfg8 tr_events 1 =
  Some [SSubscribed 5; SEvent 5 (Some 2) 7 2; SEvent 5 (Some 2) 7 3;
        SUnsubscribed 5; SSubscribed 5; SEvent 5 (Some 2) 7 7].
Proof. vm_compute. reflexivity. Qed.

Example ex_calls :
  obs cfg8 tr_calls 1 =
  Some [SRegistered 9; SInvocation 9 1 2 1 2 true; SInvocation 9 2 2 2 3 true].
Proof. vm_compute. reflexivity. Qed.

Example ex_progress :
  obs cfg8r tr_progress 2 = Some [SResult 1 4 1 true false; SResult 1 5 1 false true].
Proof. vm_compute. reflexivity. Qed.

(** the yield-retry path: a dropped RESULT (queue of capacity 1), retried while
    the callee's next YIELD waits; the stream is still in yield order *)
Example ex_retry :
  attempts cfg1 tr_retry 2 =
  Some [(SResult 1 3 1 true false, true); (SResult 1 4 1 true false, false);
        (SResult 1 4 1 true false, true); (SResult 1 5 1 false true, true)].
Proof. vm_compute. reflexivity. Qed.

(** with the repair, the refused chunk ends the call: nothing follows *)
Example ex_refused_repaired : obs cfg8r tr_refused 2 = Some [SErrorCall 1 true].
Proof. vm_compute. reflexivity. Qed.

Example ex_monitor_accepts :
  monitor [SSubscribed 5; SEvent 5 (Some 2) 7 2; SEvent 5 (Some 2) 7 3; SUnsubscribed 5] = [].
Proof. vm_compute. reflexivity. Qed.

Example ex_monitor_rejects :
  monitor [SSubscribed 5; SEvent 5 (Some 2) 7 3; SEvent 5 (Some 2) 7 2; SUnsubscribed 5;
           SEvent 5 (Some 2) 7 4; SErrorCall 1 true; SResult 1 9 3 true false] = [1; 3; 4].
Proof. vm_compute. reflexivity. Qed.
