(** * C20 — Event history returns the retained publications, and only those
    (broker side: retention and the query function).

    Model: coq/Router/Broker.v ([hist_push], the history branch of
    [pub_event]), coq/Router/Realm.v ([parse_hquery], [hquery_run]); the model
    mirrors the repaired /repo.  Proofs: Router/BrokerHist.v,
    BrokerHistInit.v, BrokerQuery.v.

    Operation sequences are lists of [bop]; every operation carries the value
    [pg] of the publication-id supply it runs with (an oracle — the router
    draws random ids), so the theorems hold for EVERY id supply; [threaded]
    is the supply of the realm model (a counter).  [hist_ref cfg id t k ops]
    — defined by recursion over [ops] — is the list, in order, of the
    publications in [ops] that were accepted (valid topic, no passthru-mode
    violation, no refused disclose_me), matched (t, k) and carried neither an
    [exclude] nor an [eligible] option key; the stored details are
    [ppt_part opts ++ event_details …] as in the EVENT.  Side hypothesis
    [… <= max_idN]: fewer than 2^53 subscriptions are ever created. *)
From Nexus Require Import Router.BrokerProofs Router.BrokerExamples.

(** the reference list, unfolded *)
Theorem C20_hist_ref_def : forall cfg id t k ops,
    hist_ref cfg id t k ops =
    flat_map (fun o => match o with
      | BPublish pg lookup now pub req opts topic args kw =>
          if valid_uri (c_strict cfg) "" topic
             && negb (publish_aborts cfg pub opts topic)
             && negb (opt_bool opts "disclose_me" && negb (c_disclose cfg))
             && matches_b k t topic
             && negb (dhas opts "exclude" || dhas opts "eligible")
          then [mkHEntry id (pg + 1)
                         (ppt_part opts ++ event_details topic (is_pattern k) (opt_bool opts "disclose_me") pub None)
                         args kw now]
          else []
      | _ => [] end) ops.
Proof. reflexivity. Qed.
Print Assumptions C20_hist_ref_def.

(** ** Retention *)

(** from any well-formed broker and store (entries within the limit) *)
Theorem C20_store_is_last_N : forall cfg id t k ops b st,
    broker_wf b -> (b_idgen b + N.of_nat (List.length ops) <= max_idN)%N ->
    sub_sig b id t k -> nget (b_hist b) id = Some st ->
    (1 <= hs_limit st)%N /\ (N.of_nat (List.length (hs_entries st)) <= hs_limit st)%N ->
    sub_sig (brun cfg b ops) id t k /\
    nget (b_hist (brun cfg b ops)) id =
    Some (mkHStore (hs_limit st) (lastn (hs_limit st) (hs_entries st ++ hist_ref cfg id t k ops))).
Proof. exact store_is_last_N_gen. Qed.
Print Assumptions C20_store_is_last_N.

(** from the realm's initial broker: for every configured (topic, policy) the
    subscription exists before and after, keeps its id, and its store holds
    exactly the last <= limit reference publications, oldest first
    ([1 <= limit] is checked by PreInitEventHistoryTopics; with a duplicated
    (topic, policy) the limit in force is that of one of the duplicates) *)
Theorem C20_store_is_last_N_init : forall cfg cfgs ops c,
    (N.of_nat (List.length cfgs) + N.of_nat (List.length ops) <= max_idN)%N ->
    Forall (fun c => (1 <= hc_limit c)%N) cfgs -> In c cfgs ->
    exists id c' st,
      In c' cfgs /\ hc_topic c' = hc_topic c /\ mkind_of (hc_match c') = mkind_of (hc_match c) /\
      sub_sig (broker_init cfgs) id (hc_topic c) (mkind_of (hc_match c)) /\
      sub_sig (brun cfg (broker_init cfgs) ops) id (hc_topic c) (mkind_of (hc_match c)) /\
      nget (b_hist (brun cfg (broker_init cfgs) ops)) id = Some st /\
      hs_limit st = hc_limit c' /\
      hs_entries st = lastn (hc_limit c') (hist_ref cfg id (hc_topic c) (mkind_of (hc_match c)) ops).
Proof. exact store_is_last_N_init. Qed.
Print Assumptions C20_store_is_last_N_init.

Example C20_ex_store :
  broker_wf ex_b /\ (b_idgen ex_b + N.of_nat (List.length ex_pubs) <= max_idN)%N /\
  sub_sig ex_b 1 "hist.topic" MExact /\ nget (b_hist ex_b) 1%N = Some (mkHStore 2 []) /\
  store_ok (mkHStore 2 []) /\
  (* four publications, one restricted, limit 2: the ring wrapped *)
  map h_pub (hist_ref ex_cfg 1 "hist.topic" MExact ex_pubs) = [101; 104; 107]%N /\
  option_map (fun st => map h_pub (hs_entries st)) (nget (b_hist (brun ex_cfg ex_b ex_pubs)) 1%N) = Some [104; 107]%N /\
  (* ... while every subscriber left *)
  option_map sub_subs (nget (b_subs (brun ex_cfg ex_b ex_pubs)) 1%N) = Some [] /\
  In (mkHistCfg "hist" "prefix" 3) (c_hist ex_cfg) /\ Forall (fun c => (1 <= hc_limit c)%N) (c_hist ex_cfg).
Proof.
  exact (conj ex_b_wf (conj ex_hist_bound (conj ex_hist_sub (conj ex_hist_store (conj ex_store_ok
        (conj ex_hist_ref (conj ex_hist_result (conj ex_hist_no_subscribers ex_configured)))))))).
Qed.

(** every stored entry is an accepted, matching publication WITHOUT exclude /
    eligible keys, with its publication id, arguments, kwargs and time *)
Theorem C20_restricted_never_stored : forall cfg id t k ops e,
    In e (hist_ref cfg id t k ops) ->
    exists pg lookup now pub req opts topic args kw,
      In (BPublish pg lookup now pub req opts topic args kw) ops /\
      dhas opts "exclude" = false /\ dhas opts "eligible" = false /\
      pub_accepted cfg pub opts topic /\ matches k t topic /\
      e = mkHEntry id (pg + 1) (ppt_part opts ++ event_details topic (is_pattern k) (opt_bool opts "disclose_me") pub None) args kw now.
Proof. exact restricted_never_stored. Qed.
Print Assumptions C20_restricted_never_stored.

Theorem C20_hist_push_length : forall st e, (1 <= hs_limit st)%N ->
    (N.of_nat (List.length (hs_entries st)) <= hs_limit st)%N ->
    (N.of_nat (List.length (hs_entries (hist_push st e))) <= hs_limit st)%N /\
    hs_entries (hist_push st e) = lastn (hs_limit st) (hs_entries st ++ [e]).
Proof. exact (fun st e H1 H2 => conj (hist_push_length st e H1 H2) (hist_push_entries st e H1 H2)). Qed.
Print Assumptions C20_hist_push_length.

(** the hypothesis [1 <= limit] cannot be dropped: a limit-0 ring keeps one entry *)
Example C20_ex_limit0 : forall e, hs_entries (hist_push (mkHStore 0 []) e) = [e].
Proof. exact ex_limit0. Qed.

(** the store after [ops] equals the store after [ops] with every SUBSCRIBE /
    UNSUBSCRIBE / session removal deleted; the subscription survives, with
    its id, in both runs *)
Theorem C20_retention_independent_of_subscribers : forall cfg id t k ops b st,
    broker_wf b -> (b_idgen b + N.of_nat (List.length ops) <= max_idN)%N ->
    sub_sig b id t k -> nget (b_hist b) id = Some st -> store_ok st ->
    nget (b_hist (brun cfg b ops)) id = nget (b_hist (brun cfg b (filter is_publish ops))) id /\
    sub_sig (brun cfg b ops) id t k /\ sub_sig (brun cfg b (filter is_publish ops)) id t k.
Proof. exact retention_independent_of_subscribers. Qed.
Print Assumptions C20_retention_independent_of_subscribers.

(** no operation creates or removes a history store *)
Theorem C20_stores_only_preinit : forall cfg b o id, broker_wf b ->
    has_history (bnext cfg b o) id = has_history b id.
Proof. exact bstep_hist_keys. Qed.
Print Assumptions C20_stores_only_preinit.

(** with the threaded id supply the stored publication ids are pairwise
    distinct, so each splits the store as the publication bounds need *)
Theorem C20_store_pubs_unique : forall cfg id t k ops b pg st,
    broker_wf b -> (b_idgen b + N.of_nat (List.length ops) <= max_idN)%N ->
    sub_sig b id t k -> nget (b_hist b) id = Some st -> hs_entries st = [] -> (1 <= hs_limit st)%N ->
    threaded cfg b pg ops ->
    exists st', nget (b_hist (brun cfg b ops)) id = Some st' /\ NoDup (map h_pub (hs_entries st')) /\
                forall e, In e (hs_entries st') -> exists l1 l2, split_at (h_pub e) (hs_entries st') l1 e l2.
Proof.
  exact (fun cfg id t k ops b pg st W Hb Hs Eh He Hl Ht =>
           match store_pubs_unique cfg id t k ops b pg st W Hb Hs Eh He Hl Ht with
           | ex_intro _ st' (conj E ND) =>
               ex_intro _ st' (conj E (conj ND (fun e HI => unique_split_at (hs_entries st') e ND HI)))
           end).
Qed.
Print Assumptions C20_store_pubs_unique.

Example C20_ex_threaded : threaded ex_cfg ex_b 100 ex_pubs.
Proof. exact ex_threaded. Qed.

(** ** The query *)

(** shape: select by the scan, then [limit] keeps the most recent n (applied
    BEFORE [reverse]), then [reverse] returns exactly the reversed list *)
Theorem C20_query_shape : forall q es,
    hquery_run q es =
    (let sel := scan_sel q es in
     let lim := match q_limit q with Some n => lastn n sel | None => sel end in
     if q_reverse q then rev lim else lim).
Proof. exact hquery_run_post. Qed.
Print Assumptions C20_query_shape.

(** without publication bounds the selection is exactly the entries whose time
    satisfies every given time bound and whose topic is the given one *)
Theorem C20_query_filter_spec : forall q es, no_pub_bounds q ->
    hquery_run q es = post q (filter (keep q) es).
Proof. exact query_filter_spec. Qed.
Print Assumptions C20_query_filter_spec.

Theorem C20_time_ok_spec : forall q t,
    time_ok q t = true <->
    (forall x, q_from_t q = Some x -> (x <= t)%N) /\
    (forall x, q_after_t q = Some x -> (x < t)%N) /\
    (forall x, q_before_t q = Some x -> (t < x)%N) /\
    (forall x, q_until_t q = Some x -> (t <= x)%N).
Proof. exact time_ok_spec. Qed.
Print Assumptions C20_time_ok_spec.

(** no bound at all: the stored list; limit n: the most recent n; reverse *)
Theorem C20_query_unbounded : forall q es, no_pub_bounds q -> no_time_topic q ->
    hquery_run q es = post q es /\
    (q_limit q = None -> q_reverse q = false -> hquery_run q es = es) /\
    (forall n, q_limit q = Some n -> q_reverse q = false -> hquery_run q es = lastn n es) /\
    (q_limit q = None -> q_reverse q = true -> hquery_run q es = rev es) /\
    (forall n, q_limit q = Some n -> q_reverse q = true -> hquery_run q es = rev (lastn n es)).
Proof.
  exact (fun q es H1 H2 => conj (query_unbounded q es H1 H2)
          (conj (query_plain q es H1 H2)
          (conj (fun n => query_limit q es n H1 H2)
          (conj (query_reverse q es H1 H2) (fun n => query_limit_reverse q es n H1 H2))))).
Qed.
Print Assumptions C20_query_unbounded.

(** publication bounds, when [e] is the first entry with id [p]
    ([split_at p es l1 e l2]: es = l1 ++ e :: l2, h_pub e = p, p not in l1) *)
Theorem C20_query_publication_bounds : forall q es p l1 e l2, no_time_topic q ->
    split_at p es l1 e l2 ->
    (q_from_p q = Some p -> q_after_p q = None -> q_before_p q = None -> q_until_p q = None ->
     hquery_run q es = post q (e :: l2)) /\
    (q_from_p q = None -> q_after_p q = Some p -> q_before_p q = None -> q_until_p q = None ->
     hquery_run q es = post q l2) /\
    (q_from_p q = None -> q_after_p q = None -> q_before_p q = Some p -> q_until_p q = None ->
     hquery_run q es = post q l1) /\
    (q_from_p q = None -> q_after_p q = None -> q_before_p q = None -> q_until_p q = Some p ->
     hquery_run q es = post q (l1 ++ [e])).
Proof.
  exact (fun q es p l1 e l2 Hn Hs =>
    conj (fun a b c d => query_from_publication q es p l1 e l2 Hn a b c d Hs)
   (conj (fun a b c d => query_after_publication q es p l1 e l2 Hn a b c d Hs)
   (conj (fun a b c d => query_before_publication q es p l1 e l2 Hn a b c d Hs)
         (fun a b c d => query_until_publication q es p l1 e l2 Hn a b c d Hs)))).
Qed.
Print Assumptions C20_query_publication_bounds.

Example C20_ex_query :
  no_pub_bounds ex_q0 /\ no_time_topic ex_q0 /\
  split_at 105 ex_entries [ex_e 101 10] (ex_e 105 20) [ex_e 108 30; ex_e 110 40] /\
  (* limit 2 + reverse + after_time 10 over [101;105;108;110]: the two most recent, newest first *)
  map h_pub (hquery_run (mkHQ (Some 2%N) true None (Some 10%N) None None "" None None None None) ex_entries) = [110; 108]%N.
Proof. exact (conj ex_no_pub_bounds (conj ex_no_time_topic (conj ex_split_at ex_query_run))). Qed.

(** the parsed query does not depend on the numeric KIND (int / int64 / uint64 /
    ID / float64) under which limit and the publication bounds arrive *)
Theorem C20_query_numkind_invariant : forall kw kw',
    Forall2 (fun a b : string * value =>
       fst a = fst b /\
       (snd a = snd b \/
        (In (fst a) ["limit"; "from_publication"; "after_publication"; "before_publication"; "until_publication"] /\
         exists k k' z, snd a = VInt k z /\ snd b = VInt k' z /\ (- two63 <= z < two63)%Z))) kw kw' ->
    parse_hquery kw = parse_hquery kw'.
Proof. exact query_numkind_invariant. Qed.
Print Assumptions C20_query_numkind_invariant.

Example C20_ex_numkind :
  kw_numkind_rel ex_kw ex_kw' /\
  parse_hquery ex_kw = Some (mkHQ (Some 2%N) true None None None None "" (Some 105%N) None None None).
Proof. exact (conj ex_kw_rel ex_kw_parsed). Qed.
