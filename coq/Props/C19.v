(** * C19 — URI validation/matching and id generation follow the WAMP rules

    Every function below ([valid_uri], [prefix_match], [wildcard_match],
    [nth_id], [idgen_result], [global_id], [as_id], [is_new], [update_last])
    is the term the translator go/cmd/genc19 produced from /repo/wamp on THIS
    run (coq/gen/GenC19*.v); every rule ([uri_rule], [split_dot], [int_value])
    is hand-written in coq/Wamp.  All statements quantify over all byte
    strings / all 64-bit values.  Proofs: Wamp/C19Uri.v, C19Match.v, C19Ids.v. *)

From Coq Require Import String.
From Coq Require Import List Bool Ascii NArith ZArith.
From Nexus Require Import Wamp.Regex Wamp.UriRule Wamp.Match Wamp.Ids Wamp.Convert.
From Nexus Require Import Wamp.C19Uri Wamp.C19Match Wamp.C19Ids.
Import ListNotations.

(** ** URI validation *)

Theorem valid_uri_rule : forall (strict : bool) (m : policy) (s : bytes),
    valid_uri strict m s = uri_rule strict m s.
Proof. exact valid_uri_rule_proof. Qed.
Print Assumptions valid_uri_rule.

(** Same verdict when the expression is run on the runes of the UTF-8
    decoding (any merging of runs of non-ASCII/"other" bytes into one letter). *)
Theorem valid_uri_rune_view : forall (strict : bool) (m : policy) (s : bytes) (w' : list cls),
    merge_other (classes s) w' ->
    matches_c (abstract (gen.GenC19Regex.gen_select strict m)) w' = valid_uri strict m s.
Proof. exact valid_uri_rune_view_proof. Qed.
Print Assumptions valid_uri_rune_view.

(** ** Pattern matching ([Some b] = returns b, [None] = would panic) *)

Theorem prefix_match_iff : forall u p : bytes,
    (exists b, prefix_match u p = Some b) /\
    (prefix_match u p = Some true <-> exists t, u = p ++ t).
Proof. exact prefix_match_proof. Qed.
Print Assumptions prefix_match_iff.

Theorem wildcard_match_iff : forall u w : bytes,
    (exists b, wildcard_match u w = Some b) /\
    (wildcard_match u w = Some true <->
     length (split_dot u) = length (split_dot w) /\
     Forall2 (fun part wc => wc = [] \/ part = wc) (split_dot u) (split_dot w)).
Proof. exact wildcard_match_proof. Qed.
Print Assumptions wildcard_match_iff.

(** ** Request ids of a session: 1, 2, ..., 2^53, 1, ... *)

Theorem idgen_seq : forall n : N, nth_id n = (n mod 2 ^ 53 + 1)%N.
Proof. exact idgen_seq_proof. Qed.
Print Assumptions idgen_seq.

Theorem idgen_next_range : forall s : N, (s <= 2 ^ 53)%N ->
    (1 <= idgen_result s <= 2 ^ 53)%N /\ (idgen_state s <= 2 ^ 53)%N.
Proof. exact idgen_next_range_proof. Qed.
Print Assumptions idgen_next_range.

(** ** Router-wide random ids ([r] = what secureInt63n(MaxID) returned) *)

Theorem global_id_range : forall r : Z, (0 <= r < 2 ^ 53)%Z ->
    (1 <= global_id r <= 2 ^ 53)%N /\ global_id r = (Z.to_N r + 1)%N.
Proof. exact global_id_range_proof. Qed.
Print Assumptions global_id_range.

(** ** Ids read from messages, for every dynamic type AsInt64 accepts *)

Theorem as_id_iff : forall (v : value) (i : N), wf_value v ->
    (as_id v = Some i <->
     exists z : Z, int_value v = Some z /\ (1 <= z <= 2 ^ 53)%Z /\ i = Z.to_N z).
Proof. exact as_id_iff_proof. Qed.
Print Assumptions as_id_iff.

(** ** New received request id: larger than the last one, or within the wrap-around window *)

Theorem is_new_iff : forall last id : N, (last < 2 ^ 64)%N -> (id < 2 ^ 64)%N ->
    (is_new last id = true <->
     (1 <= id <= 2 ^ 53)%N /\
     (last = 0%N \/ (last < id)%N \/
      ((id < last)%N /\ (0 <= 2 ^ 53 - Z.of_N last + Z.of_N id < 500)%Z))).
Proof. exact is_new_window_proof. Qed.
Print Assumptions is_new_iff.

Theorem is_new_valid_last : forall last id : N, (last <= 2 ^ 53)%N -> (id < 2 ^ 64)%N ->
    (is_new last id = true <->
     (1 <= id <= 2 ^ 53)%N /\
     (last = 0%N \/ (id > last)%N \/ ((id < last)%N /\ (2 ^ 53 - last + id < 500)%N))).
Proof. exact is_new_valid_last_proof. Qed.
Print Assumptions is_new_valid_last.

Theorem last_recv_invariant : forall last id : N, (last < 2 ^ 64)%N -> (id < 2 ^ 64)%N ->
    (last <= 2 ^ 53)%N -> (update_last last id <= 2 ^ 53)%N.
Proof. exact last_recv_invariant_proof. Qed.
Print Assumptions last_recv_invariant.

(** ** Non-vacuity: the hypotheses are satisfiable, the functions do return both answers *)

Definition b (s : string) : bytes := list_ascii_of_string s.

Example ex_valid_exact : valid_uri false MExact (b "com.example.topic") = true
                         /\ valid_uri false MExact (b "com..topic") = false
                         /\ valid_uri false MWildcard (b "com..topic") = true
                         /\ valid_uri false MPrefix (b "com.example.") = true
                         /\ valid_uri true MExact (b "com.Example") = false
                         /\ valid_uri false MExact (b "com.Example") = true
                         /\ valid_uri false MExact (b "a b") = false.
Proof. vm_compute. repeat split. Qed.

Example ex_rune_view : merge_other (classes (b "a" ++ [ascii_of_N 195; ascii_of_N 169]))
                                   [CStrict; COther].
Proof. vm_compute. apply mo_same, mo_more, mo_same, mo_nil. Qed.

Example ex_match : prefix_match (b "a.b.c") (b "a.b") = Some true
                   /\ prefix_match (b "a.b") (b "a.b.c") = Some false
                   /\ wildcard_match (b "a.b.c") (b "a..c") = Some true
                   /\ wildcard_match (b "a.b.c") (b "a..d") = Some false
                   /\ wildcard_match (b "a.b") (b "a..c") = Some false.
Proof. vm_compute. repeat split. Qed.

Example ex_ids : nth_id 0 = 1%N /\ idgen_result (2 ^ 53) = 1%N /\ idgen_result (2 ^ 53 - 1) = (2 ^ 53)%N
                 /\ global_id 0 = 1%N /\ global_id (2 ^ 53 - 1) = (2 ^ 53)%N.
Proof. vm_compute. repeat split. Qed.

Example ex_wf : wf_value (VFloat64 4845873199050653696) /\ as_id (VFloat64 4845873199050653696) = Some (2 ^ 53)%N
                /\ as_id (VUint64 (2 ^ 64 - 1)) = None /\ as_id (VInt64 0) = None /\ as_id (VInt32 7) = Some 7%N.
Proof. vm_compute. repeat split; congruence. Qed.

Example ex_is_new : is_new (2 ^ 53) 1 = true /\ is_new (2 ^ 53 - 500) 1 = false
                    /\ is_new (2 ^ 53 - 499) 1 = false /\ is_new (2 ^ 53 - 498) 1 = true
                    /\ is_new 5 5 = false /\ is_new 5 6 = true /\ is_new 0 (2 ^ 53) = true
                    /\ is_new 7 (2 ^ 53 + 1) = false.
Proof. vm_compute. repeat split. Qed.
