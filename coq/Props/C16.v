(* Props/C16.v — Client calls return their own reply, once, and honour
   cancellation.  Statements only; the proofs are in Client/ClientModelProofs.v.

   Object: the executable protocol-level model Client/ClientModel.v of
   client/client.go.  "For all numbers of goroutines, reply orders and delays
   (incl. replies coinciding with timeouts and cancellations), invocation /
   interrupt orders" = for all label lists [tr] (executions [exec U c tr]),
   resp. for all states [s] and labels [l]: every interleaving of API
   goroutines, router messages, timers, context cancellations and handler
   returns is a label list.  The statements hold for BOTH pairs of unpackers
   U (checked / unchecked), i.e. independently of the C17 repair.

   Partial, said plainly: these are theorems about the MODEL.  The tie of the
   model to today's source is re-established on every run by
   Client/ClientConformC16.v (generated skeleton: event handlers are called
   synchronously in run, replies are dispatched on their own request field)
   and by the correspondence run of tools/checks/c16.py, in which the Go
   scheduler is sampled, not enumerated. *)

From Coq Require Import List NArith ZArith Bool String.
From Nexus Require Import Client.ClientModel Client.ClientModelProofs Client.ClientHistory.
Import ListNotations.
Open Scope N_scope.

(* ---- 1. correlation ---------------------------------------------------- *)

(* A router message makes an API call return only if it bears the request id
   under which that call waits -- the reply to its own request and no other --
   and the entry is gone afterwards (once); GOODBYE/ABORT make the calls in
   their first select return ErrNotConn; nobody else returns. *)
Theorem reply_correlated : forall U s m s' outs o k r,
  step U s (RouterMsg m) = Ok s' outs -> In (OReturn o k r) outs ->
  (msg_req m = Some k /\ exists w, alookup (s_awaiting s) k = Some w /\ w_o w = o /\
     reply_ret w m r /\ alookup (s_awaiting s') k = None)
  \/ ((m = RGoodbye \/ m = RAbort) /\ exists w, In (k, w) (s_awaiting s) /\ w_o w = o /\
        w_phase w = WWaiting /\ r = RetNotConn).
Proof. exact reply_correlated_step_proof. Qed.
Print Assumptions reply_correlated.

(* The table that statement speaks about is well formed in EVERY reachable
   state (all executions): request ids are pairwise distinct, never 0, never
   ahead of the id generator (so a fresh id collides with nothing), and an id
   handed over to its API goroutine is gone from the table. *)
Theorem awaiting_well_formed : forall U c tr, WF (x_state (exec U c tr)).
Proof. exact wf_reachable. Qed.
Print Assumptions awaiting_well_formed.

(* Over EVERY execution (all label lists): a return bearing request id k <> 0
   by goroutine o comes after the ApiStart by which THAT goroutine issued k,
   no return for k precedes that ApiStart, and it is the only return for k in
   the whole execution: each call returns for its own request, once. *)
Theorem returns_own_request_once : forall U c tr o k r,
  k <> 0 -> In (EOut (OReturn o k r)) (x_events (exec U c tr)) ->
  exists pre p post, x_events (exec U c tr) = pre ++ ELab (ApiStart o p k) :: post /\
    count_ret_ev k pre = 0%nat /\ count_ret_ev k post = 1%nat.
Proof. exact returns_own_request_once_proof. Qed.
Print Assumptions returns_own_request_once.

Example reply_correlated_nonvacuous :
  exists s s' outs, step checked s (RouterMsg (RSubscribed 1 77)) = Ok s' outs /\
    x_state (exec checked cfg0 [ApiStart 3 (OpSubscribe 5) 1; ApiStart 4 (OpSubscribe 6) 2]) = s /\
    alookup (s_awaiting s') 2 <> None /\ alookup (s_awaiting s') 1 = None.
Proof. eexists. eexists. eexists. split; [|split; [reflexivity|]]. - vm_compute. reflexivity. - vm_compute. split; [discriminate|reflexivity]. Qed.

(* every pending call has an armed response timer, except a Call in its first
   select on a live connection ("or an error when the reply does not come
   within the response timeout or the connection ends") *)
Theorem pending_call_has_timer_or_is_live_call : forall U c tr k w,
  In (k, w) (s_awaiting (x_state (exec U c tr))) ->
  (exists dl, w_timer w = Some dl) \/
  (is_call (w_op w) = true /\ w_phase w = WWaiting /\ s_connected (x_state (exec U c tr)) = true).
Proof. exact api_always_returns_model_proof. Qed.
Print Assumptions pending_call_has_timer_or_is_live_call.

(* ---- 2. progressive results --------------------------------------------- *)

(* The progress handler runs only as the immediate effect of a progressive
   RESULT bearing the call's own id while the call is still in its first
   select: in arrival order, never after Call returned or was cancelled. *)
Theorem progress_in_order_not_after_return : forall U s l s' outs o k t n,
  step U s l = Ok s' outs -> In (OProgress o k t n) outs ->
  exists d a w, l = RouterMsg (RResult k d a) /\ bool_ok (dget d "progress") = true /\
    alookup (s_awaiting s) k = Some w /\ w_o w = o /\ w_phase w = WWaiting /\ has_prog (w_op w) = true /\
    t = atag a /\ n = List.length a /\ outs = [OProgress o k t n] /\ s' = s.
Proof. exact progress_step_proof. Qed.
Print Assumptions progress_in_order_not_after_return.

Example progress_nonvacuous :
  let x := exec checked cfg0
     [ApiStart 1 (OpCall 7 true None) 1;
      RouterMsg (RResult 1 [("progress"%string, VBool true)] [VInt 5]);
      RouterMsg (RResult 1 [("progress"%string, VBool true)] [VInt 6]);
      RouterMsg (RResult 1 [] [VInt 7]); ApiFinish 1;
      RouterMsg (RResult 1 [("progress"%string, VBool true)] [VInt 8])] in
  filter (fun e => match e with EOut (OProgress _ _ _ _) | EOut (OReturn _ _ _) => true | _ => false end) (x_events x)
  = [EOut (OProgress 1 1 5 1); EOut (OProgress 1 1 6 1); EOut (OReturn 1 1 (RetResult 1 7 1 false))].
Proof. vm_compute. reflexivity. Qed.

(* ---- 3. cancellation ------------------------------------------------------ *)

(* Cancelling or expiring the context of a waiting Call sends exactly one
   CANCEL, for its own request, with the CONFIGURED mode; the call then waits,
   under a fresh response timer, for the answer to that CANCEL only. *)
Theorem cancel_sends_mode_and_returns_ctx_err : forall U s o (expired : bool) s' outs,
  step U s (if expired then CtxExpire o else CtxCancel o) = Ok s' outs ->
  exists k w, waiter_of (s_awaiting s) o = Some (k, w) /\ is_call (w_op w) = true /\ w_phase w = WWaiting /\
    outs = [OSend (CCancel k (cfg_mode (s_cfg s)))] /\
    alookup (s_awaiting s') k =
      Some {| w_o := o; w_op := w_op w; w_phase := WCancelWait expired;
              w_timer := Some (s_now s + cfg_rt (s_cfg s)); w_ctx := w_ctx w |}.
Proof. exact cancel_sends_mode_proof. Qed.
Print Assumptions cancel_sends_mode_and_returns_ctx_err.

(* "the configured mode" is the LAST accepted SetCallCancelMode: "" selects
   killnowait, a valid mode itself, anything else is refused and changes
   nothing -- and no other step touches the configuration. *)
Theorem configured_mode_is_last_accepted_setting : forall U s r,
  exists s' ok, step U s (SetMode r) = Ok s' [OSetMode ok] /\
    cfg_mode (s_cfg s') = match r with MRDefault => MKillNoWait | MRSet m => m | MRInvalid => cfg_mode (s_cfg s) end /\
    ok = match r with MRInvalid => false | _ => true end /\
    s_awaiting s' = s_awaiting s.
Proof. exact set_mode_proof. Qed.
Print Assumptions configured_mode_is_last_accepted_setting.

Theorem mode_only_changed_by_setmode : forall U s l s' outs,
  step U s l = Ok s' outs -> (forall r, l <> SetMode r) -> s_cfg s' = s_cfg s.
Proof. exact mode_only_changed_by_setmode_proof. Qed.
Print Assumptions mode_only_changed_by_setmode.

Example set_mode_nonvacuous :
  let x := exec checked cfg0
     [SetMode (MRSet MKill); SetMode MRInvalid; SetMode (MRSet MSkip); SetMode MRDefault;
      ApiStart 1 (OpCall 7 false None) 1; CtxCancel 1] in
  filter (fun e => match e with EOut (OSend (CCancel _ _)) | EOut (OSetMode _) => true | _ => false end) (x_events x)
  = [EOut (OSetMode true); EOut (OSetMode false); EOut (OSetMode true); EOut (OSetMode true);
     EOut (OSend (CCancel 1 MKillNoWait))].
Proof. vm_compute. reflexivity. Qed.

(* From then on a router message makes it return only the context's error,
   and only on the ERROR (anything else is discarded) ... *)
Theorem cancelled_call_returns_ctx_err : forall U s m s' outs o k r w dl,
  WF s ->
  step U s (RouterMsg m) = Ok s' outs -> In (OReturn o k r) outs ->
  alookup (s_awaiting s) k = Some w -> w_phase w = WCancelWait dl ->
  r = RetCtx dl /\ exists rq t, m = RError rq t.
Proof. exact cancelled_call_returns_ctx_err_proof. Qed.
Print Assumptions cancelled_call_returns_ctx_err.

(* ... and its only other exit is its response timer (no ERROR within the
   response timeout): never a RESULT, never ErrNotConn. *)
Theorem cancelled_call_other_exit_is_timeout : forall U s l s' outs o k r w dl,
  WF s -> step U s l = Ok s' outs -> In (OReturn o k r) outs ->
  alookup (s_awaiting s) k = Some w -> w_phase w = WCancelWait dl ->
  (forall m, l <> RouterMsg m) ->
  r = RetTimeout /\ l = TimerFire o.
Proof. exact cancelled_call_other_exit_proof. Qed.
Print Assumptions cancelled_call_other_exit_is_timeout.

Example cancel_nonvacuous :
  let x := exec checked {| cfg_rt := 5000; cfg_mode := MKill; cfg_ppt := false; cfg_progcall := true |}
     [ApiStart 1 (OpCall 7 false None) 1; CtxCancel 1; RouterMsg (RResult 1 [] [VInt 5]);
      RouterMsg (RError 1 9); Tick 6000; TimerFire 1] in
  filter (fun e => match e with EOut _ => true | _ => false end) (x_events x)
  = [EOut (OSend (CCall 1 7 false false)); EOut (OSend (CCancel 1 MKill)); EOut (OReturn 1 1 (RetCtx false))].
Proof. vm_compute. reflexivity. Qed.

(* ---- 4. invocations -------------------------------------------------------- *)

(* The user handler is started only by the invocation's own goroutine taking
   the OLDEST queued chunk while no chunk is being handled ... *)
Theorem handler_once_per_invocation : forall U s l s' outs h req reg t n p cdone,
  step U s l = Ok s' outs -> In (OHandler h req reg t n p cdone) outs ->
  l = InvStart req /\
  exists i c q, inv_by_req (s_invs s) req = Some i /\ i_running i = false /\ i_queue_alive i = true /\
    i_queue i = c :: q /\ c_tag c = t /\ c_n c = n /\ c_progress c = p /\ i_h i = h /\ i_reg i = reg /\
    cdone = i_cancelled i /\ outs = [OHandler h req reg t n p cdone].
Proof. exact handler_start_step_proof. Qed.
Print Assumptions handler_once_per_invocation.

(* ... and a further INVOCATION for a (registration, request) whose run is
   alive is appended to the queue of that SAME run: no second run. *)
Theorem chunks_go_to_the_same_run : forall U s req reg d a h i,
  s_connected s = true -> alookup (s_ihandlers s) reg = Some h -> ppt_scheme d = None ->
  inv_find (s_invs s) reg req = Some i -> i_queue_alive i = true ->
  exists s', step U s (RouterMsg (RInvocation req reg d a)) = Ok s' [] /\
    s_invs s' = inv_replace (s_invs (update_last_recv s req))
      (upd_inv i (i_queue i ++ [{| c_tag := atag a; c_n := List.length a; c_progress := bool_ok (dget d "progress") |}])
         true (i_running i) (i_more i) (i_cancelled i) (i_outer i) (i_recvprog i)).
Proof. exact repeated_invocation_same_run_proof. Qed.
Print Assumptions chunks_go_to_the_same_run.

(* INTERRUPT cancels the handler's context; ERROR "canceled" goes out iff the
   invocation had not been answered. *)
Theorem interrupt_cancels_ctx : forall U s req i,
  s_connected s = true -> inv_by_req (s_invs (update_last_recv s req)) req = Some i -> i_outer i = true ->
  exists s' outs, step U s (RouterMsg (RInterrupt req)) = Ok s' outs /\
    outs = (if negb (i_cancelled i) then [OSend (CErrorInv req IECanceled)] else []) /\
    (forall i', inv_by_req (s_invs s') req = Some i' -> In i' (s_invs (update_last_recv s req)) \/
        (i_cancelled i' = true /\ i_outer i' = false)).
Proof. exact interrupt_cancels_ctx_proof. Qed.
Print Assumptions interrupt_cancels_ctx.

(* A final reply (YIELD without progress, ERROR canceled / application error)
   for request req is sent only on behalf of the current, unanswered, not
   cancelled invocation record of req on a connected client; at most one per
   step; it carries that invocation's own request id; and the step marks the
   record answered -- so there is never a second one for the same run. *)
Theorem exactly_one_yield_or_error : forall U s l s' outs req,
  step U s l = Ok s' outs -> (0 < count_final req outs)%nat ->
  count_final req outs = 1%nat /\ s_connected s = true /\
  exists i i', s_invs s' = inv_gc (inv_replace (s_invs s) i') /\
    inv_by_req (s_invs s) req = Some i /\ i_outer i = true /\ i_cancelled i = false /\
    i_outer i' = false /\ i_req i' = req /\ i_reg i' = i_reg i.
Proof. exact final_reply_once_step_proof. Qed.
Print Assumptions exactly_one_yield_or_error.

Example exactly_one_nonvacuous :
  let x := exec checked cfg0
     [ApiStart 1 (OpRegister 7) 1; RouterMsg (RRegistered 1 50); ApiFinish 1;
      RouterMsg (RInvocation 9 50 [] [VInt 3]); InvStart 9; HandlerReturn 9 (HOk 4);
      RouterMsg (RInterrupt 9); HandlerReturn 9 (HOk 5)] in
  filter (fun e => match e with EOut (OSend (CYield _ _ _)) | EOut (OSend (CErrorInv _ _)) => true | _ => false end)
         (x_events x) = [EOut (OSend (CYield 9 4 false))].
Proof. vm_compute. reflexivity. Qed.

(* ---- 5. events --------------------------------------------------------------- *)

(* Over every execution: the event-handler calls are, in order, a subsequence
   of the EVENT messages taken from the router (each handler runs while its
   own message is being processed by the one run goroutine: one at a time, in
   arrival order; events that find no handler are skipped). *)
Theorem events_serial_in_order : forall U c tr,
  sublist (flat_map ev_call (x_events (exec U c tr))) (flat_map ev_label (x_events (exec U c tr))).
Proof. exact events_serial_in_order_proof. Qed.
Print Assumptions events_serial_in_order.

Theorem event_handler_called_for_its_own_event : forall U s l s' outs h sub pub t n,
  step U s l = Ok s' outs -> In (OEvent h sub pub t n) outs ->
  exists d a, l = RouterMsg (REvent sub pub d a) /\ outs = [OEvent h sub pub t n] /\
    alookup (s_ehandlers s) sub = Some h /\ s' = s.
Proof. exact event_step_proof. Qed.
Print Assumptions event_handler_called_for_its_own_event.

(* ---- 6. stale invocations ------------------------------------------------------ *)

(* An INVOCATION whose request id is not new (wamp.Session.IsNewRecvID) and
   for which no queue exists is dropped: no handler run, no reply, no change. *)
Theorem stale_invocation_ignored : forall U s req reg d a h,
  s_connected s = true -> alookup (s_ihandlers s) reg = Some h -> ppt_scheme d = None ->
  (forall i, inv_find (s_invs s) reg req = Some i -> i_queue_alive i = false) ->
  is_new_recv_id (s_last_recv s) req = false ->
  step U s (RouterMsg (RInvocation req reg d a)) = Ok s [].
Proof. exact stale_invocation_ignored_proof. Qed.
Print Assumptions stale_invocation_ignored.

Example stale_invocation_nonvacuous :
  let x := exec checked cfg0
     [ApiStart 1 (OpRegister 7) 1; RouterMsg (RRegistered 1 50); ApiFinish 1;
      RouterMsg (RInvocation 9 50 [] [VInt 3]); InvStart 9; HandlerReturn 9 (HOk 4); InvExit 9;
      RouterMsg (RInvocation 9 50 [] [VInt 3]); RouterMsg (RInvocation 8 50 [] [VInt 3]); InvStart 9; InvStart 8] in
  List.length (filter (fun e => match e with EOut (OHandler _ _ _ _ _ _ _) => true | _ => false end) (x_events x)) = 1%nat.
Proof. vm_compute. reflexivity. Qed.
