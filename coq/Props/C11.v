(** * C11 — Nothing crosses realm boundaries

    Statements only; proofs in Router/RouterTopProofs.v.  The model is
    Router/RouterTop.v: the router is a table of realms, each realm a complete
    [Realm.realm] with its own broker, dealer, meta session, id generators and
    clock reading; [rstep] is one router operation (add / remove a realm, a
    client-side event in one realm, a clock tick everywhere), its outputs are
    tagged with the realm they are delivered in.  [project j] keeps the outputs
    delivered in realm [j]; [concerns j] keeps the operations addressed to
    realm [j] (and the ticks).  [rt_wf] — realm names are unique — holds of
    every router reachable from the empty one ([reachable_wf]). *)
From Nexus Require Import Router.RouterTop Router.RouterTopProofs.

Theorem reachable_wf : forall h, rt_wf (fst (rrun empty_router h)).
Proof. exact RouterTopProofs.reachable_wf. Qed.
Print Assumptions reachable_wf.

Theorem rstep_wf : forall rt o, rt_wf rt -> rt_wf (fst (rstep rt o)).
Proof. exact RouterTopProofs.rstep_wf. Qed.
Print Assumptions rstep_wf.

(** ** frame: an operation in realm [i] (a client event, adding it, removing
    it) leaves every other realm's state exactly as it was and delivers
    nothing in any other realm. *)
Theorem frame : forall rt o i j,
    rt_wf rt -> target o = Some i -> j <> i ->
    nget (rt_realms (fst (rstep rt o))) j = nget (rt_realms rt) j /\
    project j (snd (rstep rt o)) = [].
Proof. exact RouterTopProofs.frame. Qed.
Print Assumptions frame.

Theorem outputs_tagged : forall rt o i,
    target o = Some i -> Forall (fun x : rout => fst x = i) (snd (rstep rt o)).
Proof. exact RouterTopProofs.outputs_tagged. Qed.
Print Assumptions outputs_tagged.

(** What realm [j] sees of ANY operation is a function of realm [j]'s own
    state before it ([local_step] never looks at another realm). *)
Theorem rstep_view : forall rt o j,
    rt_wf rt ->
    (nget (rt_realms (fst (rstep rt o))) j, project j (snd (rstep rt o))) =
    local_step j (nget (rt_realms rt) j) o.
Proof. exact RouterTopProofs.rstep_view. Qed.
Print Assumptions rstep_view.

(** ** remove_realm_frame / add_realm_frame *)
Theorem remove_realm_frame : forall rt i,
    rt_wf rt ->
    let res := rstep rt (RRemoveRealm i) in
    nget (rt_realms (fst res)) i = None /\
    (forall j, j <> i -> nget (rt_realms (fst res)) j = nget (rt_realms rt) j /\ project j (snd res) = []) /\
    snd res = match nget (rt_realms rt) i with Some r => tag i (shutdown_outs r) | None => [] end.
Proof. exact RouterTopProofs.remove_realm_frame. Qed.
Print Assumptions remove_realm_frame.

Theorem add_realm_frame : forall rt i cfg,
    rt_wf rt ->
    let res := rstep rt (RAddRealm i cfg) in
    snd res = [] /\
    (forall j, j <> i -> nget (rt_realms (fst res)) j = nget (rt_realms rt) j) /\
    nget (rt_realms (fst res)) i =
      match nget (rt_realms rt) i with Some r => Some r | None => Some (init_realm cfg) end.
Proof. exact RouterTopProofs.add_realm_frame. Qed.
Print Assumptions add_realm_frame.

(** ** non_interference: for every history and realm [j], the state of [j]
    and everything delivered in [j] are those of the history restricted to
    what concerns [j] — in total, and step by step ([at_concerning] selects
    the outputs at the positions of operations concerning [j]; at all other
    positions [j] receives nothing). *)
Theorem non_interference : forall rt h j,
    rt_wf rt ->
    nget (rt_realms (fst (rrun rt h))) j = nget (rt_realms (fst (rrun rt (filter (concerns j) h)))) j /\
    List.concat (map (project j) (snd (rrun rt h))) =
    List.concat (map (project j) (snd (rrun rt (filter (concerns j) h)))) /\
    at_concerning j h (map (project j) (snd (rrun rt h))) =
    map (project j) (snd (rrun rt (filter (concerns j) h))) /\
    Forall (fun p => concerns j (fst p) = false -> snd p = [])
           (combine h (map (project j) (snd (rrun rt h)))).
Proof. exact RouterTopProofs.non_interference. Qed.
Print Assumptions non_interference.

(** the same for two different routers and histories that agree on realm [j] *)
Theorem non_interference_general : forall rt1 rt2 h1 h2 j,
    rt_wf rt1 -> rt_wf rt2 ->
    nget (rt_realms rt1) j = nget (rt_realms rt2) j ->
    filter (concerns j) h1 = filter (concerns j) h2 ->
    nget (rt_realms (fst (rrun rt1 h1))) j = nget (rt_realms (fst (rrun rt2 h2))) j /\
    List.concat (map (project j) (snd (rrun rt1 h1))) = List.concat (map (project j) (snd (rrun rt2 h2))) /\
    at_concerning j h1 (map (project j) (snd (rrun rt1 h1))) =
    at_concerning j h2 (map (project j) (snd (rrun rt2 h2))).
Proof. exact RouterTopProofs.non_interference_general. Qed.
Print Assumptions non_interference_general.

(** A realm inside a router behaves exactly as the realm-level [run] on the
    operations addressed to it ([realm_ops]: defined when the realm is neither
    re-added nor removed during the history). *)
Theorem realm_runs_alone : forall rt h j r ops,
    rt_wf rt -> nget (rt_realms rt) j = Some r -> realm_ops j h = Some ops ->
    nget (rt_realms (fst (rrun rt h))) j = Some (fst (run r ops)) /\
    List.concat (map (project j) (snd (rrun rt h))) = List.concat (snd (run r ops)).
Proof. exact RouterTopProofs.realm_runs_alone. Qed.
Print Assumptions realm_runs_alone.

(** ** same_ids_no_confusion: two realms in the same state that receive the
    same operations, interleaved in any way, produce identical outputs (same
    session, request, subscription, registration, publication and invocation
    ids) and end in identical states — ids do collide across realms, and
    nevertheless (by [frame]) neither realm ever affects the other. *)
Theorem same_ids_no_confusion : forall rt h i j r ops,
    rt_wf rt -> i <> j ->
    nget (rt_realms rt) i = Some r -> nget (rt_realms rt) j = Some r ->
    realm_ops i h = Some ops -> realm_ops j h = Some ops ->
    nget (rt_realms (fst (rrun rt h))) i = nget (rt_realms (fst (rrun rt h))) j /\
    List.concat (map (project i) (snd (rrun rt h))) = List.concat (map (project j) (snd (rrun rt h))) /\
    List.concat (map (project i) (snd (rrun rt h))) = List.concat (snd (run r ops)).
Proof. exact RouterTopProofs.same_ids_no_confusion. Qed.
Print Assumptions same_ids_no_confusion.

(** ** Non-vacuity: realms 1, 2, 3 created from one configuration; the same
    scenario (two joins, a subscription, an acknowledged publication) in realms
    1 and 2 interleaved op by op; a session in realm 3. *)
Example c11_hypotheses_satisfiable :
  rt_wf C11Ex.rt0 /\ nget (rt_realms C11Ex.rt0) 1 = Some (init_realm C11Ex.cfg0) /\
  nget (rt_realms C11Ex.rt0) 2 = Some (init_realm C11Ex.cfg0) /\
  realm_ops 1 C11Ex.tail = Some C11Ex.scenario /\ realm_ops 2 C11Ex.tail = Some C11Ex.scenario.
Proof. exact C11Ex.hyps. Qed.

Example c11_ids_collide :
  List.concat (map (project 1) (snd (rrun C11Ex.rt0 C11Ex.tail))) =
  List.concat (map (project 2) (snd (rrun C11Ex.rt0 C11Ex.tail))) /\
  In (11, REvent 1 5 [] [vnat 7] []) (List.concat (map (project 1) (snd (rrun C11Ex.rt0 C11Ex.tail)))).
Proof. exact C11Ex.collide. Qed.

Example c11_remove_realm_example :
  snd (rstep (fst (rrun C11Ex.rt0 [ROp 3 (OJoin 10 false C11Ex.hello0)])) (RRemoveRealm 3)) =
  [(3, (10, RGoodbye [] e_system_shutdown))].
Proof. exact C11Ex.removal. Qed.
