(** * History-level corollaries for C02 over the whole router model

    One of three files (Props/HistoriesC02.v, HistoriesC03.v, HistoriesC05.v);
    the common explanation follows. *)
(** * History-level corollaries over the whole router model (C02, C05, C03)

    Statements only; proofs in Router/RealmTraceLib.v, RealmTrace.v,
    RealmTraceC05.v, RealmTraceInv.v, RealmTraceC03.v; concrete histories in
    Router/RealmTraceEx.v.

    Every statement is about [run (init_realm cfg) ops] for EVERY operation
    list [ops] (sessions joining, client messages with their tie-break oracle,
    transports dropping, virtual time passing), under the side hypotheses of the
    reachable-state theorems (Props/C05.v): [Forall op_ok ops] (a joining
    session id is a valid WAMP id) and the no-wrap bound
    [k0 cfg + length ops <= 2^53].

    [trace cfg ops] is the history as one list of events: each operation
    [EIn o] followed by the messages [EOut (receiver, message)] the router sent
    while handling it, in order.

    C02.  [mon_run (x, q) false tr] runs the reply monitor of call id
    (caller session [x], request id [q]) over [tr]: it opens at a
    [CALL q] from [x], must be open when a RESULT [q] / ERROR(CALL) [q] is sent
    to [x], and shuts at a final one (RESULT without [progress = true], or
    ERROR(CALL)); it fails ([None]) exactly when such a reply is sent while it
    is shut.  [realm_reply_discipline]: it never fails.  Its two readable
    consequences: [realm_reply_owned] and [realm_reply_unique].

    FOUND FALSE OF THE MODEL (and of router/realm.go authzMessage): without a
    hypothesis on the authorization gate the uniqueness statement fails.  When
    the authorizer refuses a further chunk of a pending progressive call, the
    realm answers ERROR(CALL) itself, the dealer is not told, the call stays
    recorded, and the callee's RESULT is delivered afterwards: two final
    replies for one CALL ([realm_reply_unique_refuted], a six-operation
    history).  (An authorizer may also hand back a different message, e.g.
    turn a PUBLISH into a CALL, which breaks ownership trivially.)  The
    theorems therefore carry [along gate_fresh (init_realm cfg) ops]: at every
    step of the history the gate (a) admits a message as a CALL [q] exactly when
    it received a CALL [q], and (b) refuses with an ERROR(CALL) only CALL
    messages whose id is not that of a recorded (pending) call.  It holds
    outright without authorizer ([gate_fresh_no_authz]) and for an authorizer
    that keeps the CALL identity of messages and never refuses a message of
    type CALL ([gate_fresh_call_safe]); [GateEx] shows it holding with an
    authorizer that does refuse a CALL.  These are the [_partial] statements;
    the full ones are the [_noauthz] corollaries.

    C03.  [inv_ev y b e]: event [e] is an INVOCATION with request id [b] sent
    to session [y]; [sent y b tr]: such an event occurs in [tr];
    [sent_live y b tr]: it occurs and no JOIN operation with session id [y]
    comes after it in [tr] (ids restart when a session id is used again).
    [invocation_ids_increase] needs no hypothesis on the gate.

    FOUND FALSE OF THE MODEL as literally stated: "after UNREGISTERED no
    INVOCATION naming that registration reaches the session unless it registers
    again" — a further chunk of a progressive call that was routed to the
    session before is still delivered to it, under the id of the registration
    the chunk's procedure currently resolves to
    ([invocation_after_unregistered_refuted]: shared registration, the other
    callee keeps it alive).  The true statement excepts further chunks
    ([no_invocation_after_unregistered_partial]); it carries
    [along gate_unreg_id]: the gate admits an UNREGISTER as the UNREGISTER it
    received (an authorizer could otherwise swap the registration id). *)
From Nexus Require Import Router.Realm Router.DealerLib Router.DealerReply Router.DealerTrace.
From Nexus Require Import Router.RealmWf Router.RealmStep.
From Nexus Require Import Router.RealmTraceLib Router.RealmTrace Router.RealmTraceC05 Router.RealmTraceInv
     Router.RealmTraceC03 Router.RealmTraceEx.


(** ** C02 over histories *)

(** the monitor of every call id accepts every history *)
Theorem realm_reply_discipline_partial : forall cfg ops c,
    Forall op_ok ops -> k0 cfg + N.of_nat (List.length ops) <= max_idN ->
    along gate_fresh (init_realm cfg) ops ->
    mon_run c false (trace cfg ops) <> None.
Proof. exact realm_reply_discipline_proof. Qed.
Print Assumptions realm_reply_discipline_partial.

(** [x] receives a RESULT [q] / ERROR(CALL) [q] only after it sent a CALL [q] *)
Theorem realm_reply_owned_partial : forall cfg ops x q pre e post fin,
    Forall op_ok ops -> k0 cfg + N.of_nat (List.length ops) <= max_idN ->
    along gate_fresh (init_realm cfg) ops ->
    trace cfg ops = pre ++ e :: post -> is_reply_ev (x, q) fin e ->
    exists e0, In e0 pre /\ is_call_ev (x, q) e0.
Proof. exact realm_reply_owned_proof. Qed.
Print Assumptions realm_reply_owned_partial.

(** after the FINAL reply [e1] for ([x], [q]), a further reply [e2] for
    ([x], [q]) — progressive or final — comes only after a new CALL [q] of [x]:
    between two CALLs [q] of [x] (or from the last one to the end) there is at
    most one final reply, only progressive RESULTs precede it and nothing for
    ([x], [q]) follows it *)
Theorem realm_reply_unique_partial : forall cfg ops x q pre e1 mid e2 post fin,
    Forall op_ok ops -> k0 cfg + N.of_nat (List.length ops) <= max_idN ->
    along gate_fresh (init_realm cfg) ops ->
    trace cfg ops = pre ++ e1 :: mid ++ e2 :: post ->
    is_reply_ev (x, q) true e1 -> is_reply_ev (x, q) fin e2 ->
    exists e0, In e0 mid /\ is_call_ev (x, q) e0.
Proof. exact realm_reply_unique_proof. Qed.
Print Assumptions realm_reply_unique_partial.

(** the gate hypothesis, discharged *)
Theorem gate_fresh_no_authz : forall cfg ops, c_authz cfg = None -> along gate_fresh (init_realm cfg) ops.
Proof. exact RealmTrace.gate_fresh_no_authz. Qed.
Print Assumptions gate_fresh_no_authz.

Theorem gate_fresh_call_safe : forall cfg ops, authz_call_safe cfg -> along gate_fresh (init_realm cfg) ops.
Proof. exact RealmTrace.gate_fresh_call_safe. Qed.
Print Assumptions gate_fresh_call_safe.

(** full strength, realms without authorizer *)
Theorem realm_reply_owned_noauthz : forall cfg ops x q pre e post fin,
    c_authz cfg = None ->
    Forall op_ok ops -> k0 cfg + N.of_nat (List.length ops) <= max_idN ->
    trace cfg ops = pre ++ e :: post -> is_reply_ev (x, q) fin e ->
    exists e0, In e0 pre /\ is_call_ev (x, q) e0.
Proof. exact realm_reply_owned_noauthz_proof. Qed.
Print Assumptions realm_reply_owned_noauthz.

Theorem realm_reply_unique_noauthz : forall cfg ops x q pre e1 mid e2 post fin,
    c_authz cfg = None ->
    Forall op_ok ops -> k0 cfg + N.of_nat (List.length ops) <= max_idN ->
    trace cfg ops = pre ++ e1 :: mid ++ e2 :: post ->
    is_reply_ev (x, q) true e1 -> is_reply_ev (x, q) fin e2 ->
    exists e0, In e0 mid /\ is_call_ev (x, q) e0.
Proof. exact realm_reply_unique_noauthz_proof. Qed.
Print Assumptions realm_reply_unique_noauthz.

(** the statement without the gate hypothesis is false: an authorizer that
    never alters a message, a history of six operations, two final replies for
    (10, 7) with no CALL of session 10 in between *)
Theorem realm_reply_unique_refuted :
    exists cfg ops x q pre e1 mid e2 post,
      Forall op_ok ops /\ k0 cfg + N.of_nat (List.length ops) <= max_idN /\
      trace cfg ops = pre ++ e1 :: mid ++ e2 :: post /\
      is_reply_ev (x, q) true e1 /\ is_reply_ev (x, q) true e2 /\
      forall e0, In e0 mid -> ~ is_call_ev (x, q) e0.
Proof. exact Refute.reply_unique_refuted. Qed.
Print Assumptions realm_reply_unique_refuted.

(** the four per-step facts behind the monitor theorem, for one [step] from a
    well-formed realm: a reply is owned by a recorded call or answers the CALL
    being handled; a final reply leaves no record; a record appears only by the
    CALL being handled; within the step's output nothing for a call follows its
    final reply *)
Theorem step_reply_facts : forall r o k,
    realm_wf r -> ids_below k r -> k < max_idN -> op_ok o -> gate_fresh r o ->
    exists l, ok4 (rrec r) l (snd (step r o)) (rrec (fst (step r o))) /\
              (forall c, l = Some c -> is_call_op c o = true).
Proof. exact step_rok. Qed.
Print Assumptions step_reply_facts.

(** neither the broker nor the meta session's publications ever send a RESULT,
    an ERROR(CALL), an INVOCATION, an INTERRUPT or a REGISTERED/UNREGISTERED *)
Theorem broker_outputs_quiet :
    (forall cfg lk now b pg pub req opts topic args kw, allb (snd (publish cfg lk now b pg pub req opts topic args kw))) /\
    (forall cfg b pg sid req opts topic, allb (snd (subscribe cfg b pg sid req opts topic))) /\
    (forall b pg sid req subid, allb (snd (unsubscribe b pg sid req subid))) /\
    (forall b pg sid, allb (snd (broker_remove_session b pg sid))) /\
    (forall mps r, allb (snd (meta_publish_all r mps))) /\
    (forall m, bmsg m = true -> reply_of m = None).
Proof. exact broker_outputs_quiet_proof. Qed.
Print Assumptions broker_outputs_quiet.

(** ** Non-vacuity *)
(** C02: a history without authorizer; request id 7 of session 10 is used for
    two calls (progressive RESULT, final RESULT; then the callee's ERROR), a
    meta procedure is called, a call is refused *)
Example histories_c02_hypotheses_satisfiable :
    Forall op_ok ReplyEx.ops0 /\ k0 ReplyEx.cfg0 + N.of_nat (List.length ReplyEx.ops0) <= max_idN /\
    along gate_fresh (init_realm ReplyEx.cfg0) ReplyEx.ops0.
Proof. exact ReplyEx.hyps. Qed.

Example histories_c02_replies :
    filter (fun e => match e with EOut m => match reply_of m with Some _ => true | None => false end
                                 | EIn _ => false end) (trace ReplyEx.cfg0 ReplyEx.ops0) =
    map EOut [ReplyEx.r_prog; ReplyEx.r_fin1; ReplyEx.r_fin2; ReplyEx.r_meta; ReplyEx.r_none].
Proof. exact ReplyEx.replies. Qed.

Example histories_c02_pattern :
    exists post, trace ReplyEx.cfg0 ReplyEx.ops0 =
                 ReplyEx.pre0 ++ EOut ReplyEx.r_fin1 :: ReplyEx.mid0 ++ EOut ReplyEx.r_fin2 :: post /\
                 is_reply_ev (10, 7) true (EOut ReplyEx.r_fin1) /\ is_reply_ev (10, 7) true (EOut ReplyEx.r_fin2) /\
                 In (EIn ReplyEx.call2) ReplyEx.mid0 /\ is_call_ev (10, 7) (EIn ReplyEx.call2).
Proof. exact ReplyEx.pattern. Qed.

(** C02: [gate_fresh] holds along a history in which the authorizer refuses a CALL *)
Example histories_c02_gate_hypotheses_satisfiable :
    Forall op_ok GateEx.ops1 /\ k0 GateEx.cfg1 + N.of_nat (List.length GateEx.ops1) <= max_idN /\
    along gate_fresh (init_realm GateEx.cfg1) GateEx.ops1.
Proof. exact GateEx.hyps. Qed.

(** C02: in the refuting history it is [gate_fresh] that fails *)
Example histories_c02_refutation_breaks_gate_fresh :
    ~ along gate_fresh (init_realm Refute.cfgA) Refute.opsA.
Proof. exact Refute.not_fresh. Qed.
