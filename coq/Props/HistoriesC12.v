(** * History-level theorems for C12 over the whole router model:
    identity is disclosed only when allowed

    Statements only; proofs in Router/RealmTraceC12Dealer.v (dealer functions:
    no EVENT, registrations kept, REGISTER characterised), RealmTraceC12Ev.v
    (broker, meta publications, testaments at [leave], kills),
    RealmTraceC12Step.v (one step, EVENTs; the meta session's record),
    RealmTraceC12Inv.v (one step, INVOCATIONs), RealmTraceC12Reg.v (origin of a
    registration's disclose flag, invariant along histories), RealmTraceC12.v
    (the history theorems); concrete histories in RealmTraceC12Ex.v.

    Every statement is about [run (init_realm cfg) ops] for EVERY operation
    list [ops], under the side hypotheses of the reachable-state theorems
    (Props/C05.v, Props/HistoriesC05.v): [Forall op_ok ops] and the no-wrap
    bound [k0 cfg + length ops <= 2^53].  Shape: [ops = pre ++ o :: post],
    [r = fst (run (init_realm cfg) pre)] is the state BEFORE the step [o],
    [snd (step r o)] is what the router sends while handling [o] (it is the
    entry of [snd (run (init_realm cfg) ops)] at position [length pre]:
    RealmTraceC05.run_output_at).  All session records named in the
    conclusions ([rs], [ps], [xs], [ys], [zs]) are the records in [r]: inside
    a step only a callee's invocation id generator and
    wamp.session.modify_details change a record, and neither is followed by a
    disclosure in the same step.

    THE AUTHORIZER.  An authorizer may hand back a different message (Msg.v
    [AAllow m']).  The theorems without suffix hold for EVERY authorizer and
    speak of the message as the authorizer left it
    ([gate r ps m = inl (CPublish ...)]): the identity disclosed is that of the
    session that SENT the operation, and the admitted message asks for it.
    The [_noauthz] corollaries ([c_authz cfg = None], hence [gate] is the
    identity: RealmProofs.gate_none) speak of the operation itself.

    EVENT ([realm_no_identity_leak_event]).  An EVENT sent in any step of any
    history has one of the keys publisher / publisher_authid /
    publisher_authrole only if the realm allows disclosure, the receiver is an
    attached client whose record announces
    subscriber/publisher_identification, and
    - EITHER the step is a PUBLISH of client [p] with [disclose_me = true]
      (Go bool), and the values are [p]'s own id, authid, authrole;
    - OR the EVENT is a publication of the realm's META session, and then it
      is a TESTAMENT: its payload is that of a testament stored (in [r]) for an
      attached session that DEPARTS in this step (dropped, GOODBYE, protocol
      violation, killed through wamp.session.kill*: not attached in
      [fst (step r o)]), with publish options asking for [disclose_me] — every
      other meta publication (session, registration, subscription meta
      events) has no options and is never disclosed —, and the identity shown
      is the META session's (id 1, authrole "trusted", no authid), never the
      departing client's.  The meta session's id, HELLO and details are the
      same in every reachable state (RealmTraceC12Step.run_meta_fixed).

    INVOCATION ([realm_invocation_identity_iff], [realm_no_identity_leak_
    invocation]).  An INVOCATION leaves a step only in a CALL step, to a client
    callee (INVOCATIONs for the meta session are consumed inside the step).  A
    further chunk of a progressive call carries [progress] only.  A first
    chunk for callee [y] under registration [rid] ↦ [rg] carries
    caller / caller_authid / caller_authrole EXACTLY when
    [reg_disclose rg = true], or the caller asked ([disclose_me]), the realm
    allows disclosure and [y]'s record announces callee/caller_identification;
    the values are the caller's own.

    THE REGISTRATION'S FLAG ([realm_disclose_flag_origin], used in
    [realm_no_identity_leak_invocation]).  Genuinely historical: a registration
    with the flag set and a client callee has, earlier in the history, its
    creating step: a REGISTER answered REGISTERED with this registration id,
    with [disclose_caller = true], admitted because the realm allows disclosure
    or that session's authrole was "trusted" ([disc_witness], spelled out by
    [disc_witness_meaning]).

    FOUND FALSE OF THE MODEL (and of router/dealer.go syncRegister): the flag
    is the CREATOR's.  A callee that joins an existing shared registration
    (roundrobin / random / first / last) inherits it; its own
    [disclose_caller] option is checked against the realm setting but not
    recorded.  So in a realm that does NOT allow disclosure an anonymous
    callee — even one whose own REGISTER with [disclose_caller = true] was
    refused option_disallowed.disclose_me — receives the callers' identities
    through a shared registration created by a trusted session:
    [realm_invocation_callee_asked_refuted] (seven operations;
    RealmTraceC12Ex.SharedEx).  Conversely a callee that joins with
    [disclose_caller = true] a registration created without it is answered
    REGISTERED and receives no identities. *)
From Nexus Require Import Router.Realm Router.DealerLib.
From Nexus Require Import Router.RealmWf Router.RealmStep.
From Nexus Require Import Router.RealmTraceLib Router.RealmTrace Router.RealmTraceC05.
From Nexus Require Import Router.RealmTraceC12Reg Router.RealmTraceC12 Router.RealmTraceC12Ex.

(** ** EVENT *)
Theorem realm_no_identity_leak_event : forall cfg pre o post y sub pubid det a k,
    let ops := pre ++ o :: post in
    let r := fst (run (init_realm cfg) pre) in
    Forall op_ok ops -> k0 cfg + N.of_nat (List.length ops) <= max_idN ->
    In (y, REvent sub pubid det a k) (snd (step r o)) ->
    dhas det "publisher" = true \/ dhas det "publisher_authid" = true \/ dhas det "publisher_authrole" = true ->
    c_disclose cfg = true /\
    (exists rs, find_session (r_clients r) y = Some rs /\
                sess_feature rs "subscriber" "publisher_identification" = true) /\
    ((* a client's publication that asked for it: the publisher's own identity *)
     (exists p m orc ps req opts topic,
         o = OMsg p m orc /\ find_session (r_clients r) p = Some ps /\
         gate r ps m = inl (CPublish req opts topic a k) /\ opt_bool opts "disclose_me" = true /\
         dget det "publisher" = Some (vid p) /\
         dget det "publisher_authid" = dget (s_details ps) "authid" /\
         dget det "publisher_authrole" = dget (s_details ps) "authrole")
     \/
     (* a testament, published by the meta session: the META session's identity *)
     (dget det "publisher" = Some (vid meta_id) /\ dget det "publisher_authid" = None /\
      dget det "publisher_authrole" = Some (vstr "trusted") /\
      exists z zs dt ds t,
        find_session (r_clients r) z = Some zs /\ nget (r_testaments r) z = Some (dt, ds) /\ In t (dt ++ ds) /\
        opt_bool (t_opts t) "disclose_me" = true /\ a = t_args t /\ k = t_kw t /\
        (* the testament's owner departs in this step *)
        find_session (r_clients (fst (step r o))) z = None)).
Proof. exact realm_no_identity_leak_event_proof. Qed.
Print Assumptions realm_no_identity_leak_event.

Theorem realm_no_identity_leak_event_noauthz : forall cfg pre o post y sub pubid det a k,
    let ops := pre ++ o :: post in
    let r := fst (run (init_realm cfg) pre) in
    c_authz cfg = None ->
    Forall op_ok ops -> k0 cfg + N.of_nat (List.length ops) <= max_idN ->
    In (y, REvent sub pubid det a k) (snd (step r o)) ->
    dhas det "publisher" = true \/ dhas det "publisher_authid" = true \/ dhas det "publisher_authrole" = true ->
    c_disclose cfg = true /\
    (exists rs, find_session (r_clients r) y = Some rs /\
                sess_feature rs "subscriber" "publisher_identification" = true) /\
    ((exists p orc ps req opts topic,
         o = OMsg p (CPublish req opts topic a k) orc /\ find_session (r_clients r) p = Some ps /\
         opt_bool opts "disclose_me" = true /\
         dget det "publisher" = Some (vid p) /\
         dget det "publisher_authid" = dget (s_details ps) "authid" /\
         dget det "publisher_authrole" = dget (s_details ps) "authrole")
     \/
     (dget det "publisher" = Some (vid meta_id) /\ dget det "publisher_authid" = None /\
      dget det "publisher_authrole" = Some (vstr "trusted") /\
      exists z zs dt ds t,
        find_session (r_clients r) z = Some zs /\ nget (r_testaments r) z = Some (dt, ds) /\ In t (dt ++ ds) /\
        opt_bool (t_opts t) "disclose_me" = true /\ a = t_args t /\ k = t_kw t /\
        (* the testament's owner departs in this step *)
        find_session (r_clients (fst (step r o))) z = None)).
Proof. exact realm_no_identity_leak_event_noauthz_proof. Qed.
Print Assumptions realm_no_identity_leak_event_noauthz.

(** ** The registration's disclose flag *)

(** [disc_witness cfg ops rid]: the history [ops] contains the step that
    created registration [rid] with the flag set *)
Theorem disc_witness_meaning : forall cfg ops rid,
    disc_witness cfg ops rid <->
    exists pre o post x m orc xs req opts proc,
      ops = pre ++ o :: post /\
      o = OMsg x m orc /\ find_session (r_clients (fst (run (init_realm cfg) pre))) x = Some xs /\
      gate (fst (run (init_realm cfg) pre)) xs m = inl (CRegister req opts proc) /\
      In (x, RRegistered req rid) (snd (step (fst (run (init_realm cfg) pre)) o)) /\
      opt_bool opts "disclose_caller" = true /\
      (c_disclose cfg = true \/ attr_of (s_details xs) "authrole" = "trusted").
Proof. exact disc_witness_iff. Qed.
Print Assumptions disc_witness_meaning.

Theorem realm_disclose_flag_origin : forall cfg ops rid rg y,
    Forall op_ok ops -> k0 cfg + N.of_nat (List.length ops) <= max_idN ->
    nget (d_regs (r_dealer (fst (run (init_realm cfg) ops)))) rid = Some rg ->
    reg_disclose rg = true -> In y (reg_callees rg) -> y <> meta_id ->
    exists pre o post x m orc xs req opts proc,
      ops = pre ++ o :: post /\
      let r1 := fst (run (init_realm cfg) pre) in
      o = OMsg x m orc /\ find_session (r_clients r1) x = Some xs /\
      gate r1 xs m = inl (CRegister req opts proc) /\
      In (x, RRegistered req rid) (snd (step r1 o)) /\
      opt_bool opts "disclose_caller" = true /\
      (c_disclose cfg = true \/ attr_of (s_details xs) "authrole" = "trusted").
Proof. exact realm_disclose_flag_origin_proof. Qed.
Print Assumptions realm_disclose_flag_origin.

(** ** INVOCATION *)

(** every INVOCATION that leaves a step, and exactly when it carries the
    caller's identity *)
Theorem realm_invocation_identity_iff : forall cfg pre o post y inv rid det a k,
    let ops := pre ++ o :: post in
    let r := fst (run (init_realm cfg) pre) in
    Forall op_ok ops -> k0 cfg + N.of_nat (List.length ops) <= max_idN ->
    In (y, RInvocation inv rid det a k) (snd (step r o)) ->
    y <> meta_id /\
    exists x m orc xs q opts proc,
      o = OMsg x m orc /\ find_session (r_clients r) x = Some xs /\
      gate r xs m = inl (CCall q opts proc a k) /\
      ((* a further chunk of a pending progressive call *)
       (cget (d_bycall (r_dealer r)) (x, q) <> None /\ det = [("progress", VBool (opt_bool opts "progress"))]) \/
       (* a first chunk *)
       (cget (d_bycall (r_dealer r)) (x, q) = None /\
        exists rg ys,
          nget (d_regs (r_dealer r)) rid = Some rg /\ In y (reg_callees rg) /\
          find_session (r_clients r) y = Some ys /\
          let allowed := reg_disclose rg ||
                         (opt_bool opts "disclose_me" && c_disclose cfg &&
                          sess_feature ys "callee" "caller_identification") in
          dget det "caller" = (if allowed then Some (vid x) else None) /\
          dget det "caller_authid" = (if allowed then dget (s_details xs) "authid" else None) /\
          dget det "caller_authrole" = (if allowed then dget (s_details xs) "authrole" else None))).
Proof. exact realm_invocation_identity_iff_proof. Qed.
Print Assumptions realm_invocation_identity_iff.

Theorem realm_no_identity_leak_invocation : forall cfg pre o post y inv rid det a k,
    let ops := pre ++ o :: post in
    let r := fst (run (init_realm cfg) pre) in
    Forall op_ok ops -> k0 cfg + N.of_nat (List.length ops) <= max_idN ->
    In (y, RInvocation inv rid det a k) (snd (step r o)) ->
    dhas det "caller" = true \/ dhas det "caller_authid" = true \/ dhas det "caller_authrole" = true ->
    exists x m orc xs q opts proc rg ys,
      o = OMsg x m orc /\ find_session (r_clients r) x = Some xs /\
      gate r xs m = inl (CCall q opts proc a k) /\
      (* a first chunk *)
      cget (d_bycall (r_dealer r)) (x, q) = None /\
      y <> meta_id /\ find_session (r_clients r) y = Some ys /\
      nget (d_regs (r_dealer r)) rid = Some rg /\ In y (reg_callees rg) /\
      (* the caller's own identity *)
      dget det "caller" = Some (vid x) /\
      dget det "caller_authid" = dget (s_details xs) "authid" /\
      dget det "caller_authrole" = dget (s_details xs) "authrole" /\
      ((* the registration was CREATED with disclose_caller by a session allowed to ask *)
       (reg_disclose rg = true /\ disc_witness cfg pre rid) \/
       (* or the caller asked, the realm allows it, the callee announced the feature *)
       (opt_bool opts "disclose_me" = true /\ c_disclose cfg = true /\
        sess_feature ys "callee" "caller_identification" = true)).
Proof. exact realm_no_identity_leak_invocation_proof. Qed.
Print Assumptions realm_no_identity_leak_invocation.

Theorem realm_no_identity_leak_invocation_noauthz : forall cfg pre o post y inv rid det a k,
    let ops := pre ++ o :: post in
    let r := fst (run (init_realm cfg) pre) in
    c_authz cfg = None ->
    Forall op_ok ops -> k0 cfg + N.of_nat (List.length ops) <= max_idN ->
    In (y, RInvocation inv rid det a k) (snd (step r o)) ->
    dhas det "caller" = true \/ dhas det "caller_authid" = true \/ dhas det "caller_authrole" = true ->
    exists x orc xs q opts proc rg ys,
      o = OMsg x (CCall q opts proc a k) orc /\ find_session (r_clients r) x = Some xs /\
      cget (d_bycall (r_dealer r)) (x, q) = None /\
      y <> meta_id /\ find_session (r_clients r) y = Some ys /\
      nget (d_regs (r_dealer r)) rid = Some rg /\ In y (reg_callees rg) /\
      dget det "caller" = Some (vid x) /\
      dget det "caller_authid" = dget (s_details xs) "authid" /\
      dget det "caller_authrole" = dget (s_details xs) "authrole" /\
      ((reg_disclose rg = true /\ disc_witness cfg pre rid) \/
       (opt_bool opts "disclose_me" = true /\ c_disclose cfg = true /\
        sess_feature ys "callee" "caller_identification" = true)).
Proof. exact realm_no_identity_leak_invocation_noauthz_proof. Qed.
Print Assumptions realm_no_identity_leak_invocation_noauthz.

(** FALSE OF THE MODEL: "in a realm that does not allow disclosure, an
    INVOCATION with the caller's identity reaches only a callee that is
    trusted or asked for it, unless the caller asked".  Witness: the trusted
    session 20 creates a roundrobin registration with disclose_caller; the
    anonymous session 21 joins it; the second call goes to 21. *)
Theorem realm_invocation_callee_asked_refuted :
    exists cfg pre o post y inv rid det a k ys,
      let ops := pre ++ o :: post in
      let r := fst (run (init_realm cfg) pre) in
      c_authz cfg = None /\ Forall op_ok ops /\ k0 cfg + N.of_nat (List.length ops) <= max_idN /\
      c_disclose cfg = false /\
      In (y, RInvocation inv rid det a k) (snd (step r o)) /\ dhas det "caller" = true /\
      find_session (r_clients r) y = Some ys /\
      attr_of (s_details ys) "authrole" <> "trusted" /\
      (forall q opts proc orc, In (OMsg y (CRegister q opts proc) orc) ops -> opt_bool opts "disclose_caller" = false) /\
      (exists x q opts proc orc, o = OMsg x (CCall q opts proc a k) orc /\ opt_bool opts "disclose_me" = false).
Proof. exact SharedEx.callee_asked_refuted_proof. Qed.
Print Assumptions realm_invocation_callee_asked_refuted.

(** ** Non-vacuity *)

(** EVENT: ONE publication with disclose_me, delivered to 11 (announced
    publisher_identification: identity present) and to 12 (did not: absent);
    then the testament of the dropped session 10, stored with disclose_me:
    published by the meta session, whose identity is what 11 sees *)
Example histories_c12_event_hypotheses_satisfiable :
    Forall op_ok EvEx.ops /\ k0 EvEx.cfgd + N.of_nat (List.length EvEx.ops) <= max_idN /\ c_authz EvEx.cfgd = None /\
    EvEx.ops = EvEx.pre5 ++ EvEx.pub :: [EvEx.add_test; ODrop 10] /\ EvEx.ops = EvEx.pre7 ++ ODrop 10 :: [] /\
    snd (step (fst (run (init_realm EvEx.cfgd) EvEx.pre5)) EvEx.pub) =
    [(11, REvent 1 7 [("publisher", vid 10); ("publisher_authid", vstr "<gen>");
                      ("publisher_authrole", vstr "anonymous")] [vnat 7] []);
     (12, REvent 1 7 [] [vnat 7] [])] /\
    nget (r_testaments (fst (run (init_realm EvEx.cfgd) EvEx.pre7))) 10 =
      Some ([], [mkTest "t" [vnat 9] [] [("disclose_me", VBool true)]]) /\
    snd (step (fst (run (init_realm EvEx.cfgd) EvEx.pre7)) (ODrop 10)) =
    [(11, REvent 1 8 [("publisher", vid meta_id); ("publisher_authrole", vstr "trusted")] [vnat 9] []);
     (12, REvent 1 8 [] [vnat 9] [])].
Proof.
  destruct EvEx.hyps as (A & B & C & D & E). destruct EvEx.testament as (F & G).
  exact (conj A (conj B (conj C (conj D (conj E (conj EvEx.publication (conj F G))))))).
Qed.

(** the same testament published in a CALL step: 13 kills 10 through
    wamp.session.kill *)
Example histories_c12_testament_of_killed_session :
    snd (step (fst (run (init_realm EvEx.cfgd) EvEx.pre8)) EvEx.kill10) =
    [(13, RResult 1 [] [] []); (10, RGoodbye [] e_close_normal);
     (11, REvent 1 9 [("publisher", vid meta_id); ("publisher_authrole", vstr "trusted")] [vnat 9] []);
     (12, REvent 1 9 [] [vnat 9] [])].
Proof. exact EvEx.killed. Qed.

(** INVOCATION: the caller's identity through disclose_me (callee 14
    announced caller_identification), through the registration's
    disclose_caller (callee 15), and a plain call without it *)
Example histories_c12_invocation_hypotheses_satisfiable :
    Forall op_ok InvEx12.ops /\ k0 EvEx.cfgd + N.of_nat (List.length InvEx12.ops) <= max_idN /\
    InvEx12.ops = InvEx12.pre5 ++ InvEx12.call_me :: [InvEx12.call_q; InvEx12.call_p] /\
    InvEx12.ops = (InvEx12.pre5 ++ [InvEx12.call_me]) ++ InvEx12.call_q :: [InvEx12.call_p] /\
    InvEx12.ops = (InvEx12.pre5 ++ [InvEx12.call_me; InvEx12.call_q]) ++ InvEx12.call_p :: [] /\
    snd (step (fst (run (init_realm EvEx.cfgd) InvEx12.pre5)) InvEx12.call_me) =
      [(14, RInvocation 1 24 (("progress", VBool false) :: InvEx12.ident ++ [("procedure", vuri "p")]) [] [])] /\
    snd (step (fst (run (init_realm EvEx.cfgd) (InvEx12.pre5 ++ [InvEx12.call_me]))) InvEx12.call_q) =
      [(15, RInvocation 1 25 (("progress", VBool false) :: InvEx12.ident ++ [("procedure", vuri "q")]) [] [])] /\
    snd (step (fst (run (init_realm EvEx.cfgd) (InvEx12.pre5 ++ [InvEx12.call_me; InvEx12.call_q]))) InvEx12.call_p) =
      [(14, RInvocation 2 24 [("progress", VBool false); ("procedure", vuri "p")] [] [])].
Proof.
  destruct InvEx12.hyps as (A & B & C & D & E). destruct InvEx12.invocations as (F & G & H).
  exact (conj A (conj B (conj C (conj D (conj E (conj F (conj G H))))))).
Qed.

(** the flag: registration 25 of the history above has it, with client
    callee 15; its creating step is the REGISTER of 15 *)
Example histories_c12_flag_hypotheses_satisfiable :
    (exists rg, nget (d_regs (r_dealer (fst (run (init_realm EvEx.cfgd) InvEx12.ops)))) 25 = Some rg /\
                reg_disclose rg = true /\ In 15 (reg_callees rg) /\ 15 <> meta_id) /\
    In (15, RRegistered 1 25)
       (snd (step (fst (run (init_realm EvEx.cfgd)
                            [OJoin 10 false EvEx.hello_pub; OJoin 14 false InvEx12.hello_callee_id;
                             OJoin 15 false InvEx12.hello_callee; OMsg 14 (CRegister 1 [] "p") 0]))
                  (OMsg 15 (CRegister 1 [("disclose_caller", VBool true)] "q") 0))).
Proof. exact InvEx12.flag. Qed.

(** the shared registration: 21 asks and is refused, joins the registration
    of the trusted 20, and is sent the caller's identity *)
Example histories_c12_shared_registration :
    c_disclose SharedEx.cfgn = false /\
    snd (run (init_realm SharedEx.cfgn) (SharedEx.pre' ++ [SharedEx.call2])) =
    [[]; []; [];
     [(21, RError c_REGISTER 9 [] e_disclose_me [] [])];
     [(20, RRegistered 1 24)]; [(21, RRegistered 1 24)];
     [(20, RInvocation 1 24 SharedEx.det [] [])];
     [(21, RInvocation 1 24 SharedEx.det [] [])]].
Proof. exact (conj eq_refl SharedEx.outs'). Qed.
