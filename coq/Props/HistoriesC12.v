(** * History-level theorems for C12 over the whole router model:
    identity is disclosed only when allowed

    Statements only; proofs in Router/RealmTraceC12Dealer.v (dealer functions:
    no EVENT, registrations kept, REGISTER characterised), RealmTraceC12Ev.v
    (broker, meta publications, testaments at [leave], kills),
    RealmTraceC12Step.v (one step, EVENTs; the meta session's record),
    RealmTraceC12Inv.v (one step, INVOCATIONs), RealmTraceC12Reg.v (origin of a
    registration's disclose flag, invariant along histories), RealmTraceC12.v
    (the history theorems); concrete histories in RealmTraceC12Ex.v.

    Every statement is about [run (init_realm cfg) ops] for EVERY operation
    list [ops], under the side hypotheses of the reachable-state theorems
    (Props/C05.v, Props/HistoriesC05.v): [Forall op_ok ops] and the no-wrap
    bound [k0 cfg + length ops <= 2^53].  Shape: [ops = pre ++ o :: post],
    [r = fst (run (init_realm cfg) pre)] is the state BEFORE the step [o],
    [snd (step r o)] is what the router sends while handling [o] (it is the
    entry of [snd (run (init_realm cfg) ops)] at position [length pre]:
    RealmTraceC05.run_output_at).  All session records named in the
    conclusions ([rs], [ps], [xs], [ys], [zs]) are the records in [r]: inside
    a step only a callee's invocation id generator and
    wamp.session.modify_details change a record, and neither is followed by a
    disclosure in the same step.

    THE AUTHORIZER.  An authorizer may hand back a different message (Msg.v
    [AAllow m']).  The theorems without suffix hold for EVERY authorizer and
    speak of the message as the authorizer left it
    ([gate r ps m = inl (CPublish ...)]): the identity disclosed is that of the
    session that SENT the operation, and the admitted message asks for it.
    The [_noauthz] corollaries ([c_authz cfg = None], hence [gate] is the
    identity: RealmProofs.gate_none) speak of the operation itself.

    EVENT ([realm_no_identity_leak_event]).  An EVENT sent in any step of any
    history has one of the keys publisher / publisher_authid /
    publisher_authrole only if the realm allows disclosure, the receiver is an
    attached client whose record announces
    subscriber/publisher_identification, and
    - EITHER the step is a PUBLISH of client [p] with [disclose_me = true]
      (Go bool), and the values are [p]'s own id, authid, authrole;
    - OR the EVENT is a publication of the realm's META session, and then it
      is a TESTAMENT: its payload is that of a testament stored (in [r]) for an
      attached session that DEPARTS in this step (dropped, GOODBYE, protocol
      violation, killed through wamp.session.kill*: not attached in
      [fst (step r o)]), with publish options asking for [disclose_me] — every
      other meta publication (session, registration, subscription meta
      events) has no options and is never disclosed —, and the identity shown
      is the META session's (id 1, authrole "trusted", no authid), never the
      departing client's.  The meta session's id, HELLO and details are the
      same in every reachable state (RealmTraceC12Step.run_meta_fixed).

    INVOCATION ([realm_invocation_identity_iff], [realm_no_identity_leak_
    invocation], [realm_invocation_callee_asked]).  An INVOCATION leaves a step
    only in a CALL step, to a client callee (INVOCATIONs for the meta session
    are consumed inside the step).  A further chunk of a progressive call
    carries [progress] only.  A first chunk for callee [y] under registration
    [rid] ↦ [rg] carries caller / caller_authid / caller_authrole EXACTLY when
    [y] is in [reg_disclose rg] ([reg_discloses rg y]), or the caller asked
    ([disclose_me]), the realm allows disclosure and [y]'s record announces
    callee/caller_identification; the values are the caller's own.

    WHO IS IN [reg_disclose] ([realm_disclose_flag_origin], used in
    [realm_no_identity_leak_invocation]).  Genuinely historical and PER
    CALLEE: a client session [sid] in the list of registration [rid] in a
    reached state has, earlier in the history, ITS OWN asking step — a REGISTER
    by [sid] answered REGISTERED with this registration id, with
    [disclose_caller = true], admitted because the realm allows disclosure or
    [sid]'s authrole was "trusted" then — and in every state since it has been
    in the list, a callee of [rid] and attached; no UNREGISTER of [rid] by it
    was answered UNREGISTERED since.  ([disc_witness], spelled out by
    [disc_witness_meaning].)  A session that is not attached is in no list and
    joining changes no list: a session id that left and joins again starts
    without the flag ([realm_rejoin_without_flag]).

    HISTORY OF THIS FILE.  Before /repo adf4e26 the flag was one boolean per
    registration, the CREATOR's: a callee joining a shared registration
    inherited it (router/dealer.go syncRegister checked the joiner's
    [disclose_caller] but did not record it), so in a realm that does not
    allow disclosure an anonymous callee received the callers' identities
    through a registration created by a trusted session.  That was proved here
    as [realm_invocation_callee_asked_refuted], confirmed on the router and
    repaired (model: [reg_disclose : list N], per callee).  The refutation is
    replaced by the positive [realm_invocation_callee_asked]; its witness
    history is kept as an Example: the creator is sent identities, the joiner
    is not ([histories_c12_shared_registration]); conversely a joiner that
    asks and is allowed is sent identities although the creator did not ask
    ([histories_c12_joiner_asks]). *)
From Nexus Require Import Router.Realm Router.DealerLib.
From Nexus Require Import Router.RealmWf Router.RealmStep.
From Nexus Require Import Router.RealmTraceLib Router.RealmTrace Router.RealmTraceC05.
From Nexus Require Import Router.RealmTraceC12Reg Router.RealmTraceC12 Router.RealmTraceC12Ex.

(** ** EVENT *)
Theorem realm_no_identity_leak_event : forall cfg pre o post y sub pubid det a k,
    let ops := pre ++ o :: post in
    let r := fst (run (init_realm cfg) pre) in
    Forall op_ok ops -> k0 cfg + N.of_nat (List.length ops) <= max_idN ->
    In (y, REvent sub pubid det a k) (snd (step r o)) ->
    dhas det "publisher" = true \/ dhas det "publisher_authid" = true \/ dhas det "publisher_authrole" = true ->
    c_disclose cfg = true /\
    (exists rs, find_session (r_clients r) y = Some rs /\
                sess_feature rs "subscriber" "publisher_identification" = true) /\
    ((* a client's publication that asked for it: the publisher's own identity *)
     (exists p m orc ps req opts topic,
         o = OMsg p m orc /\ find_session (r_clients r) p = Some ps /\
         gate r ps m = inl (CPublish req opts topic a k) /\ opt_bool opts "disclose_me" = true /\
         dget det "publisher" = Some (vid p) /\
         dget det "publisher_authid" = dget (s_details ps) "authid" /\
         dget det "publisher_authrole" = dget (s_details ps) "authrole")
     \/
     (* a testament, published by the meta session: the META session's identity *)
     (dget det "publisher" = Some (vid meta_id) /\ dget det "publisher_authid" = None /\
      dget det "publisher_authrole" = Some (vstr "trusted") /\
      exists z zs dt ds t,
        find_session (r_clients r) z = Some zs /\ nget (r_testaments r) z = Some (dt, ds) /\ In t (dt ++ ds) /\
        opt_bool (t_opts t) "disclose_me" = true /\ a = t_args t /\ k = t_kw t /\
        (* the testament's owner departs in this step *)
        find_session (r_clients (fst (step r o))) z = None)).
Proof. exact realm_no_identity_leak_event_proof. Qed.
Print Assumptions realm_no_identity_leak_event.

Theorem realm_no_identity_leak_event_noauthz : forall cfg pre o post y sub pubid det a k,
    let ops := pre ++ o :: post in
    let r := fst (run (init_realm cfg) pre) in
    c_authz cfg = None ->
    Forall op_ok ops -> k0 cfg + N.of_nat (List.length ops) <= max_idN ->
    In (y, REvent sub pubid det a k) (snd (step r o)) ->
    dhas det "publisher" = true \/ dhas det "publisher_authid" = true \/ dhas det "publisher_authrole" = true ->
    c_disclose cfg = true /\
    (exists rs, find_session (r_clients r) y = Some rs /\
                sess_feature rs "subscriber" "publisher_identification" = true) /\
    ((exists p orc ps req opts topic,
         o = OMsg p (CPublish req opts topic a k) orc /\ find_session (r_clients r) p = Some ps /\
         opt_bool opts "disclose_me" = true /\
         dget det "publisher" = Some (vid p) /\
         dget det "publisher_authid" = dget (s_details ps) "authid" /\
         dget det "publisher_authrole" = dget (s_details ps) "authrole")
     \/
     (dget det "publisher" = Some (vid meta_id) /\ dget det "publisher_authid" = None /\
      dget det "publisher_authrole" = Some (vstr "trusted") /\
      exists z zs dt ds t,
        find_session (r_clients r) z = Some zs /\ nget (r_testaments r) z = Some (dt, ds) /\ In t (dt ++ ds) /\
        opt_bool (t_opts t) "disclose_me" = true /\ a = t_args t /\ k = t_kw t /\
        (* the testament's owner departs in this step *)
        find_session (r_clients (fst (step r o))) z = None)).
Proof. exact realm_no_identity_leak_event_noauthz_proof. Qed.
Print Assumptions realm_no_identity_leak_event_noauthz.

(** ** Who is in a registration's [reg_disclose] *)

(** [disc_witness cfg ops rid sid]: the history [ops] contains the step at
    which [sid] itself asked for the caller's identity on registration [rid]
    and was allowed to, and [sid] has been in the list of [rid] ever since *)
Theorem disc_witness_meaning : forall cfg ops rid sid,
    disc_witness cfg ops rid sid <->
    exists pre o post m orc xs req opts proc,
      ops = pre ++ o :: post /\
      o = OMsg sid m orc /\ find_session (r_clients (fst (run (init_realm cfg) pre))) sid = Some xs /\
      gate (fst (run (init_realm cfg) pre)) xs m = inl (CRegister req opts proc) /\
      In (sid, RRegistered req rid) (snd (step (fst (run (init_realm cfg) pre)) o)) /\
      opt_bool opts "disclose_caller" = true /\
      (c_disclose cfg = true \/ attr_of (s_details xs) "authrole" = "trusted") /\
      forall mid rest, post = mid ++ rest ->
        exists rg, nget (d_regs (r_dealer (fst (run (init_realm cfg) (pre ++ o :: mid))))) rid = Some rg /\
                   In sid (reg_disclose rg).
Proof. exact disc_witness_iff. Qed.
Print Assumptions disc_witness_meaning.

Theorem realm_disclose_flag_origin : forall cfg ops rid rg sid,
    Forall op_ok ops -> k0 cfg + N.of_nat (List.length ops) <= max_idN ->
    nget (d_regs (r_dealer (fst (run (init_realm cfg) ops)))) rid = Some rg ->
    In sid (reg_disclose rg) -> sid <> meta_id ->
    exists pre o post m orc xs req opts proc,
      ops = pre ++ o :: post /\
      let r1 := fst (run (init_realm cfg) pre) in
      (* the session's own REGISTER, asking, admitted *)
      o = OMsg sid m orc /\ find_session (r_clients r1) sid = Some xs /\
      gate r1 xs m = inl (CRegister req opts proc) /\
      In (sid, RRegistered req rid) (snd (step r1 o)) /\
      opt_bool opts "disclose_caller" = true /\
      (c_disclose cfg = true \/ attr_of (s_details xs) "authrole" = "trusted") /\
      (* in every state since: attached, in the list, a callee of [rid] *)
      (forall mid rest, post = mid ++ rest ->
         let r2 := fst (run (init_realm cfg) (pre ++ o :: mid)) in
         client r2 sid /\
         exists rg2, nget (d_regs (r_dealer r2)) rid = Some rg2 /\ In sid (reg_disclose rg2) /\ In sid (reg_callees rg2)) /\
      (* no UNREGISTER of [rid] by it was answered UNREGISTERED since *)
      (forall mid u rest m2 orc2 s2 q q', post = mid ++ u :: rest ->
         let r2 := fst (run (init_realm cfg) (pre ++ o :: mid)) in
         u = OMsg sid m2 orc2 -> find_session (r_clients r2) sid = Some s2 ->
         gate r2 s2 m2 = inl (CUnregister q rid) -> ~ In (sid, RUnregistered q') (snd (step r2 u))).
Proof. exact realm_disclose_flag_origin_proof. Qed.
Print Assumptions realm_disclose_flag_origin.

(** a session that is not attached is in no list; joining puts it in none *)
Theorem realm_rejoin_without_flag : forall cfg ops sid l h rid,
    Forall op_ok ops -> k0 cfg + N.of_nat (List.length ops) <= max_idN ->
    sid <> meta_id -> ~ client (fst (run (init_realm cfg) ops)) sid ->
    (forall rg, nget (d_regs (r_dealer (fst (run (init_realm cfg) ops)))) rid = Some rg -> ~ In sid (reg_disclose rg)) /\
    (forall rg, nget (d_regs (r_dealer (fst (step (fst (run (init_realm cfg) ops)) (OJoin sid l h))))) rid = Some rg ->
                ~ In sid (reg_disclose rg)).
Proof. exact realm_rejoin_without_flag_proof. Qed.
Print Assumptions realm_rejoin_without_flag.

(** ** INVOCATION *)

(** every INVOCATION that leaves a step, and exactly when it carries the
    caller's identity *)
Theorem realm_invocation_identity_iff : forall cfg pre o post y inv rid det a k,
    let ops := pre ++ o :: post in
    let r := fst (run (init_realm cfg) pre) in
    Forall op_ok ops -> k0 cfg + N.of_nat (List.length ops) <= max_idN ->
    In (y, RInvocation inv rid det a k) (snd (step r o)) ->
    y <> meta_id /\
    exists x m orc xs q opts proc,
      o = OMsg x m orc /\ find_session (r_clients r) x = Some xs /\
      gate r xs m = inl (CCall q opts proc a k) /\
      ((* a further chunk of a pending progressive call *)
       (cget (d_bycall (r_dealer r)) (x, q) <> None /\ det = [("progress", VBool (opt_bool opts "progress"))]) \/
       (* a first chunk *)
       (cget (d_bycall (r_dealer r)) (x, q) = None /\
        exists rg ys,
          nget (d_regs (r_dealer r)) rid = Some rg /\ In y (reg_callees rg) /\
          find_session (r_clients r) y = Some ys /\
          let allowed := reg_discloses rg y ||
                         (opt_bool opts "disclose_me" && c_disclose cfg &&
                          sess_feature ys "callee" "caller_identification") in
          dget det "caller" = (if allowed then Some (vid x) else None) /\
          dget det "caller_authid" = (if allowed then dget (s_details xs) "authid" else None) /\
          dget det "caller_authrole" = (if allowed then dget (s_details xs) "authrole" else None))).
Proof. exact realm_invocation_identity_iff_proof. Qed.
Print Assumptions realm_invocation_identity_iff.

Theorem realm_no_identity_leak_invocation : forall cfg pre o post y inv rid det a k,
    let ops := pre ++ o :: post in
    let r := fst (run (init_realm cfg) pre) in
    Forall op_ok ops -> k0 cfg + N.of_nat (List.length ops) <= max_idN ->
    In (y, RInvocation inv rid det a k) (snd (step r o)) ->
    dhas det "caller" = true \/ dhas det "caller_authid" = true \/ dhas det "caller_authrole" = true ->
    exists x m orc xs q opts proc rg ys,
      o = OMsg x m orc /\ find_session (r_clients r) x = Some xs /\
      gate r xs m = inl (CCall q opts proc a k) /\
      (* a first chunk *)
      cget (d_bycall (r_dealer r)) (x, q) = None /\
      y <> meta_id /\ find_session (r_clients r) y = Some ys /\
      nget (d_regs (r_dealer r)) rid = Some rg /\ In y (reg_callees rg) /\
      (* the caller's own identity *)
      dget det "caller" = Some (vid x) /\
      dget det "caller_authid" = dget (s_details xs) "authid" /\
      dget det "caller_authrole" = dget (s_details xs) "authrole" /\
      ((* THIS callee asked at its own REGISTER, was allowed to, and has held the flag since *)
       (In y (reg_disclose rg) /\ disc_witness cfg pre rid y) \/
       (* or the caller asked, the realm allows it, the callee announced the feature *)
       (opt_bool opts "disclose_me" = true /\ c_disclose cfg = true /\
        sess_feature ys "callee" "caller_identification" = true)).
Proof. exact realm_no_identity_leak_invocation_proof. Qed.
Print Assumptions realm_no_identity_leak_invocation.

Theorem realm_no_identity_leak_invocation_noauthz : forall cfg pre o post y inv rid det a k,
    let ops := pre ++ o :: post in
    let r := fst (run (init_realm cfg) pre) in
    c_authz cfg = None ->
    Forall op_ok ops -> k0 cfg + N.of_nat (List.length ops) <= max_idN ->
    In (y, RInvocation inv rid det a k) (snd (step r o)) ->
    dhas det "caller" = true \/ dhas det "caller_authid" = true \/ dhas det "caller_authrole" = true ->
    exists x orc xs q opts proc rg ys,
      o = OMsg x (CCall q opts proc a k) orc /\ find_session (r_clients r) x = Some xs /\
      cget (d_bycall (r_dealer r)) (x, q) = None /\
      y <> meta_id /\ find_session (r_clients r) y = Some ys /\
      nget (d_regs (r_dealer r)) rid = Some rg /\ In y (reg_callees rg) /\
      dget det "caller" = Some (vid x) /\
      dget det "caller_authid" = dget (s_details xs) "authid" /\
      dget det "caller_authrole" = dget (s_details xs) "authrole" /\
      ((In y (reg_disclose rg) /\ disc_witness cfg pre rid y) \/
       (opt_bool opts "disclose_me" = true /\ c_disclose cfg = true /\
        sess_feature ys "callee" "caller_identification" = true)).
Proof. exact realm_no_identity_leak_invocation_noauthz_proof. Qed.
Print Assumptions realm_no_identity_leak_invocation_noauthz.

(** the reading that was FALSE before the repair of syncRegister and is now
    proved: an INVOCATION carries the caller's identity only if the caller
    asked (and the realm allows it and this callee announced
    caller_identification), or THIS callee asked at its own REGISTER
    (disclose_caller = true) and was allowed to (realm setting / "trusted") *)
Theorem realm_invocation_callee_asked : forall cfg pre o post y inv rid det a k,
    let ops := pre ++ o :: post in
    let r := fst (run (init_realm cfg) pre) in
    Forall op_ok ops -> k0 cfg + N.of_nat (List.length ops) <= max_idN ->
    In (y, RInvocation inv rid det a k) (snd (step r o)) ->
    dhas det "caller" = true \/ dhas det "caller_authid" = true \/ dhas det "caller_authrole" = true ->
    (exists x m orc xs q opts proc ys,
        o = OMsg x m orc /\ find_session (r_clients r) x = Some xs /\ gate r xs m = inl (CCall q opts proc a k) /\
        opt_bool opts "disclose_me" = true /\ c_disclose cfg = true /\
        find_session (r_clients r) y = Some ys /\ sess_feature ys "callee" "caller_identification" = true)
    \/
    (exists pre1 o1 post1 m1 orc1 ys1 q1 opts1 proc1,
        pre = pre1 ++ o1 :: post1 /\
        let r1 := fst (run (init_realm cfg) pre1) in
        o1 = OMsg y m1 orc1 /\ find_session (r_clients r1) y = Some ys1 /\
        gate r1 ys1 m1 = inl (CRegister q1 opts1 proc1) /\
        In (y, RRegistered q1 rid) (snd (step r1 o1)) /\
        opt_bool opts1 "disclose_caller" = true /\
        (c_disclose cfg = true \/ attr_of (s_details ys1) "authrole" = "trusted")).
Proof. exact realm_invocation_callee_asked_proof. Qed.
Print Assumptions realm_invocation_callee_asked.

Theorem realm_invocation_callee_asked_noauthz : forall cfg pre o post y inv rid det a k,
    let ops := pre ++ o :: post in
    let r := fst (run (init_realm cfg) pre) in
    c_authz cfg = None ->
    Forall op_ok ops -> k0 cfg + N.of_nat (List.length ops) <= max_idN ->
    In (y, RInvocation inv rid det a k) (snd (step r o)) ->
    dhas det "caller" = true \/ dhas det "caller_authid" = true \/ dhas det "caller_authrole" = true ->
    (exists x orc q opts proc ys,
        o = OMsg x (CCall q opts proc a k) orc /\
        opt_bool opts "disclose_me" = true /\ c_disclose cfg = true /\
        find_session (r_clients r) y = Some ys /\ sess_feature ys "callee" "caller_identification" = true)
    \/
    (exists pre1 post1 orc1 ys1 q1 opts1 proc1,
        pre = pre1 ++ OMsg y (CRegister q1 opts1 proc1) orc1 :: post1 /\
        let r1 := fst (run (init_realm cfg) pre1) in
        find_session (r_clients r1) y = Some ys1 /\
        In (y, RRegistered q1 rid) (snd (step r1 (OMsg y (CRegister q1 opts1 proc1) orc1))) /\
        opt_bool opts1 "disclose_caller" = true /\
        (c_disclose cfg = true \/ attr_of (s_details ys1) "authrole" = "trusted")).
Proof. exact realm_invocation_callee_asked_noauthz_proof. Qed.
Print Assumptions realm_invocation_callee_asked_noauthz.

(** ** Non-vacuity *)

(** EVENT: ONE publication with disclose_me, delivered to 11 (announced
    publisher_identification: identity present) and to 12 (did not: absent);
    then the testament of the dropped session 10, stored with disclose_me:
    published by the meta session, whose identity is what 11 sees *)
Example histories_c12_event_hypotheses_satisfiable :
    Forall op_ok EvEx.ops /\ k0 EvEx.cfgd + N.of_nat (List.length EvEx.ops) <= max_idN /\ c_authz EvEx.cfgd = None /\
    EvEx.ops = EvEx.pre5 ++ EvEx.pub :: [EvEx.add_test; ODrop 10] /\ EvEx.ops = EvEx.pre7 ++ ODrop 10 :: [] /\
    snd (step (fst (run (init_realm EvEx.cfgd) EvEx.pre5)) EvEx.pub) =
    [(11, REvent 1 7 [("publisher", vid 10); ("publisher_authid", vstr "<gen>");
                      ("publisher_authrole", vstr "anonymous")] [vnat 7] []);
     (12, REvent 1 7 [] [vnat 7] [])] /\
    nget (r_testaments (fst (run (init_realm EvEx.cfgd) EvEx.pre7))) 10 =
      Some ([], [mkTest "t" [vnat 9] [] [("disclose_me", VBool true)]]) /\
    snd (step (fst (run (init_realm EvEx.cfgd) EvEx.pre7)) (ODrop 10)) =
    [(11, REvent 1 8 [("publisher", vid meta_id); ("publisher_authrole", vstr "trusted")] [vnat 9] []);
     (12, REvent 1 8 [] [vnat 9] [])].
Proof.
  destruct EvEx.hyps as (A & B & C & D & E). destruct EvEx.testament as (F & G).
  exact (conj A (conj B (conj C (conj D (conj E (conj EvEx.publication (conj F G))))))).
Qed.

(** the same testament published in a CALL step: 13 kills 10 through
    wamp.session.kill *)
Example histories_c12_testament_of_killed_session :
    snd (step (fst (run (init_realm EvEx.cfgd) EvEx.pre8)) EvEx.kill10) =
    [(13, RResult 1 [] [] []); (10, RGoodbye [] e_close_normal);
     (11, REvent 1 9 [("publisher", vid meta_id); ("publisher_authrole", vstr "trusted")] [vnat 9] []);
     (12, REvent 1 9 [] [vnat 9] [])].
Proof. exact EvEx.killed. Qed.

(** INVOCATION: the caller's identity through disclose_me (callee 14
    announced caller_identification), through the registration's
    disclose_caller (callee 15), and a plain call without it *)
Example histories_c12_invocation_hypotheses_satisfiable :
    Forall op_ok InvEx12.ops /\ k0 EvEx.cfgd + N.of_nat (List.length InvEx12.ops) <= max_idN /\
    InvEx12.ops = InvEx12.pre5 ++ InvEx12.call_me :: [InvEx12.call_q; InvEx12.call_p] /\
    InvEx12.ops = (InvEx12.pre5 ++ [InvEx12.call_me]) ++ InvEx12.call_q :: [InvEx12.call_p] /\
    InvEx12.ops = (InvEx12.pre5 ++ [InvEx12.call_me; InvEx12.call_q]) ++ InvEx12.call_p :: [] /\
    snd (step (fst (run (init_realm EvEx.cfgd) InvEx12.pre5)) InvEx12.call_me) =
      [(14, RInvocation 1 24 (("progress", VBool false) :: InvEx12.ident ++ [("procedure", vuri "p")]) [] [])] /\
    snd (step (fst (run (init_realm EvEx.cfgd) (InvEx12.pre5 ++ [InvEx12.call_me]))) InvEx12.call_q) =
      [(15, RInvocation 1 25 (("progress", VBool false) :: InvEx12.ident ++ [("procedure", vuri "q")]) [] [])] /\
    snd (step (fst (run (init_realm EvEx.cfgd) (InvEx12.pre5 ++ [InvEx12.call_me; InvEx12.call_q]))) InvEx12.call_p) =
      [(14, RInvocation 2 24 [("progress", VBool false); ("procedure", vuri "p")] [] [])].
Proof.
  destruct InvEx12.hyps as (A & B & C & D & E). destruct InvEx12.invocations as (F & G & H).
  exact (conj A (conj B (conj C (conj D (conj E (conj F (conj G H))))))).
Qed.

(** the flag: 15 is in the list of registration 25 of the history above; its
    asking step is its REGISTER *)
Example histories_c12_flag_hypotheses_satisfiable :
    (exists rg, nget (d_regs (r_dealer (fst (run (init_realm EvEx.cfgd) InvEx12.ops)))) 25 = Some rg /\
                In 15 (reg_disclose rg) /\ In 15 (reg_callees rg) /\ 15 <> meta_id) /\
    In (15, RRegistered 1 25)
       (snd (step (fst (run (init_realm EvEx.cfgd)
                            [OJoin 10 false EvEx.hello_pub; OJoin 14 false InvEx12.hello_callee_id;
                             OJoin 15 false InvEx12.hello_callee; OMsg 14 (CRegister 1 [] "p") 0]))
                  (OMsg 15 (CRegister 1 [("disclose_caller", VBool true)] "q") 0))).
Proof. exact InvEx12.flag. Qed.

(** the shared registration (the history that refuted the property before
    the repair): the creator 20 (trusted, asked) is sent the caller's
    identity, the joiner 21 is not — whether it never asked ([ops]) or asked
    and was refused ([ops']); the list of registration 24 is [20] *)
Example histories_c12_shared_registration :
    c_disclose SharedEx.cfgn = false /\ c_authz SharedEx.cfgn = None /\
    Forall op_ok SharedEx.ops /\ k0 SharedEx.cfgn + N.of_nat (List.length SharedEx.ops) <= max_idN /\
    Forall op_ok SharedEx.ops' /\ k0 SharedEx.cfgn + N.of_nat (List.length SharedEx.ops') <= max_idN /\
    snd (run (init_realm SharedEx.cfgn) SharedEx.ops) =
    [[]; []; [];
     [(20, RRegistered 1 24)]; [(21, RRegistered 1 24)];
     [(20, RInvocation 1 24 SharedEx.det [] [])];
     [(21, RInvocation 1 24 SharedEx.plain [] [])]] /\
    snd (run (init_realm SharedEx.cfgn) SharedEx.ops') =
    [[]; []; [];
     [(21, RError c_REGISTER 9 [] e_disclose_me [] [])];
     [(20, RRegistered 1 24)]; [(21, RRegistered 1 24)];
     [(20, RInvocation 1 24 SharedEx.det [] [])];
     [(21, RInvocation 1 24 SharedEx.plain [] [])]] /\
    (exists rg, nget (d_regs (r_dealer (fst (run (init_realm SharedEx.cfgn) SharedEx.ops)))) 24 = Some rg /\
                reg_disclose rg = [20] /\ reg_callees rg = [20; 21]).
Proof.
  destruct SharedEx.hyps as (A & B & C & D & E & F).
  exact (conj A (conj B (conj C (conj D (conj E (conj F (conj SharedEx.outs (conj SharedEx.outs' SharedEx.lists)))))))).
Qed.

(** conversely: the realm allows disclosure, the creator 20 did not ask, the
    joiner 21 did: 21 is sent the caller's identity, 20 is not *)
Example histories_c12_joiner_asks :
    Forall op_ok ConvEx.ops /\ k0 EvEx.cfgd + N.of_nat (List.length ConvEx.ops) <= max_idN /\
    snd (run (init_realm EvEx.cfgd) ConvEx.ops) =
    [[]; []; [];
     [(20, RRegistered 1 24)]; [(21, RRegistered 1 24)];
     [(20, RInvocation 1 24 SharedEx.plain [] [])];
     [(21, RInvocation 1 24 SharedEx.det [] [])]].
Proof. exact ConvEx.outs. Qed.
