(** * C12 — Identity is disclosed only when allowed; recipients get independent
    messages.

    BROKER HALF (EVENT / disclose_me).  Model: coq/Router/Broker.v
    ([event_details], [disclose_dict], the disclose check of [publish]) —
    mirrors the repaired /repo (details built per recipient).  Proofs:
    Router/BrokerDisclose.v. *)
From Nexus Require Import Router.BrokerProofs Router.BrokerExamples.

(** The keys publisher / publisher_authid / publisher_authrole occur in the
    details of an EVENT produced by PUBLISH iff disclose_me = true (Go bool),
    the realm allows disclosure and THIS recipient announced
    subscriber/publisher_identification (authid / authrole additionally iff
    the publisher's session details have them); the values are the
    publisher's own. *)
Theorem C12_event_disclose_iff : forall cfg lookup now b pg pub req opts topic args kw b' pg' o,
    broker_wf b -> lookup_ok lookup -> pub_accepted cfg pub opts topic ->
    publish cfg lookup now b pg pub req opts topic args kw = (b', pg', o) ->
    forall r id pubid d a k', In (r, REvent id pubid d a k') o ->
    exists rs, lookup r = Some rs /\
      let allowed_here := opt_bool opts "disclose_me" = true /\ c_disclose cfg = true /\
                          sess_feature rs "subscriber" "publisher_identification" = true in
      (dhas d "publisher" = true <-> allowed_here) /\
      (dhas d "publisher_authid" = true <-> allowed_here /\ dhas (s_details pub) "authid" = true) /\
      (dhas d "publisher_authrole" = true <-> allowed_here /\ dhas (s_details pub) "authrole" = true) /\
      (forall v, dget d "publisher" = Some v -> v = vid (s_id pub)) /\
      (forall v, dget d "publisher_authid" = Some v -> dget (s_details pub) "authid" = Some v) /\
      (forall v, dget d "publisher_authrole" = Some v -> dget (s_details pub) "authrole" = Some v).
Proof. exact event_disclose_iff. Qed.
Print Assumptions C12_event_disclose_iff.

(** an EVENT's details have no other keys (besides the passthru ones) *)
Theorem C12_event_details_keys : forall opts topic st disc pub recv k,
    dhas (ppt_part opts ++ event_details topic st disc pub recv) k = true ->
    In k ["ppt_scheme"; "ppt_serializer"; "ppt_cipher"; "ppt_keyid"] \/
    k = "topic" \/ k = "publisher" \/ k = "publisher_authid" \/ k = "publisher_authrole".
Proof. exact event_dict_keys. Qed.
Print Assumptions C12_event_details_keys.

(** disclose_me requested, realm forbids: broker unchanged, no EVENT, the
    output is exactly the option_disallowed.disclose_me ERROR when
    acknowledged and nothing otherwise *)
Theorem C12_disallowed_disclose_refused : forall cfg lookup now b pg pub req opts topic args kw,
    valid_uri (c_strict cfg) "" topic = true ->
    publish_aborts cfg pub opts topic = false ->   (* the passthru violation is checked first *)
    opt_bool opts "disclose_me" = true -> c_disclose cfg = false ->
    publish cfg lookup now b pg pub req opts topic args kw =
    (b, pg, if opt_bool opts "acknowledge"
            then [(s_id pub, RError c_PUBLISH req [] "wamp.error.option_disallowed.disclose_me" [] [])] else []).
Proof. exact disallowed_disclose_refused. Qed.
Print Assumptions C12_disallowed_disclose_refused.

Example C12_ex_refused :
  valid_uri (c_strict ex_cfg_nodisclose) "" "a.b" = true /\
  publish_aborts ex_cfg_nodisclose ex_pub ex_opts "a.b" = false /\ opt_bool ex_opts "disclose_me" = true /\
  c_disclose ex_cfg_nodisclose = false.
Proof. repeat split. Qed.

(** The EVENT delivered to r through subscription (id, t, k) is the same in
    any two brokers in which r holds it — whatever other subscribers and
    subscriptions exist, in whatever order — and is this function of
    (the publication's passthru options, topic, kind, disclose flag,
    publisher, r's session). *)
Theorem C12_event_details_recipient_only :
  forall cfg lookup now1 now2 b1 b2 pg pub req opts topic args kw b1' pg1 o1 b2' pg2 o2 r id t k,
    broker_wf b1 -> broker_wf b2 -> lookup_ok lookup -> pub_accepted cfg pub opts topic ->
    holds_sig b1 r id t k -> holds_sig b2 r id t k ->
    publish cfg lookup now1 b1 pg pub req opts topic args kw = (b1', pg1, o1) ->
    publish cfg lookup now2 b2 pg pub req opts topic args kw = (b2', pg2, o2) ->
    (forall pubid d a k', In (r, REvent id pubid d a k') o1 <-> In (r, REvent id pubid d a k') o2) /\
    (forall pubid d a k' rs, In (r, REvent id pubid d a k') o1 -> lookup r = Some rs ->
        pubid = (pg + 1)%N /\ a = args /\ k' = kw /\
        d = ppt_part opts ++ event_details topic (is_pattern k) (opt_bool opts "disclose_me") pub (Some rs)).
Proof. exact event_details_recipient_only. Qed.
Print Assumptions C12_event_details_recipient_only.

(** non-vacuity: in the example broker session 11 (with the feature) and
    session 10 / 12 (without) receive the same publication; only 11's EVENTs
    carry the publisher *)
Example C12_ex_disclose :
  broker_wf ex_b /\ lookup_ok ex_lookup /\ pub_accepted ex_cfg ex_pub ex_opts "a.b" /\
  holds_sig ex_b 11 4 "a" MPrefix /\
  snd (publish ex_cfg ex_lookup 5 ex_b 100 ex_pub 7 ex_opts "a.b" [vnat 1] []) =
  [(10, REvent 3 101 [] [vnat 1] []);
   (11, REvent 3 101 [("publisher", vid 10); ("publisher_authid", vstr "pubid")] [vnat 1] []);
   (11, REvent 4 101 [("topic", vuri "a.b"); ("publisher", vid 10); ("publisher_authid", vstr "pubid")] [vnat 1] []);
   (12, REvent 5 101 [("topic", vuri "a.b")] [vnat 1] []);
   (10, RPublished 7 101)]%N.
Proof. exact (conj ex_b_wf (conj ex_lookup_ok (conj ex_accepted (conj ex_holds_11 ex_publish)))). Qed.

(** ------------------------------------------------------------------------
    DEALER HALF (INVOCATION / disclose_caller), proved in Router/DealerCall.v
    ------------------------------------------------------------------------ *)
From Nexus Require Import Router.Realm Router.DealerProofs Router.DealerReg Router.DealerCall Router.DealerWf
     Router.DealerExamples Router.DealerTrace Router.DealerDisclose.
From Coq Require Import Relations.

(** the caller's identity is in the INVOCATION details iff THIS callee asked
    for it when it registered ([reg_discloses r callee_id]: disclose_caller,
    checked at REGISTER, per callee of a shared registration) or the caller
    asked (disclose_me), the realm allows disclosure and the callee announced
    caller_identification *)
Theorem C12_invocation_disclose_iff : forall cfg lookup now d caller req opts proc args kw oracle d' callee' o,
    call cfg lookup now d caller req opts proc args kw oracle = CallInvoked d' callee' o ->
    cget (d_bycall d) (s_id caller, req) = None ->
    exists r callee_id callee invid det,
      match_procedure d proc oracle = Some r /\ lookup callee_id = Some callee /\
      o = [(callee_id, RInvocation invid (reg_id r) det args kw)] /\
      let allowed := reg_discloses r callee_id ||
                     (opt_bool opts "disclose_me" && c_disclose cfg && sess_feature callee "callee" f_caller_ident) in
      dget det "caller" = (if allowed then Some (vid (s_id caller)) else None) /\
      dget det "caller_authid" = (if allowed then dget (s_details caller) "authid" else None) /\
      dget det "caller_authrole" = (if allowed then dget (s_details caller) "authrole" else None).
Proof. exact invocation_disclose_iff_proof. Qed.
Print Assumptions C12_invocation_disclose_iff.

(** a disallowed disclose_me on a CALL is refused with
    option_disallowed.disclose_me, nothing is recorded, no INVOCATION *)
Theorem C12_call_disclose_refused : forall cfg lookup now d caller req opts proc args kw oracle r callee_id next callee,
    match_procedure d proc oracle = Some r -> reg_callees r <> [] ->
    call_abort_cond caller opts = false -> cget (d_bycall d) (s_id caller, req) = None ->
    select_callee r oracle = Some (callee_id, next) -> lookup callee_id = Some callee ->
    call_feature_refused callee opts = false ->
    call_ppt_abort caller opts = false -> call_ppt_refused callee opts = false ->
    opt_bool opts "disclose_me" = true -> reg_discloses r callee_id = false -> c_disclose cfg = false ->
    call cfg lookup now d caller req opts proc args kw oracle =
    CallRefused (call_d0 d r next) [(s_id caller, RError c_CALL req [] e_disclose_me [] [])] /\
    same_calls d (call_d0 d r next) /\ d_timers (call_d0 d r next) = d_timers d.
Proof. exact call_disclose_refused_proof. Qed.
Print Assumptions C12_call_disclose_refused.

Theorem C12_call_disclose_never_invoked : forall cfg lookup now d caller req opts proc args kw oracle d' callee' o r x m,
    call cfg lookup now d caller req opts proc args kw oracle = CallInvoked d' callee' o ->
    cget (d_bycall d) (s_id caller, req) = None ->
    match_procedure d proc oracle = Some r -> In (x, m) o ->
    opt_bool opts "disclose_me" = true -> reg_discloses r x = false -> c_disclose cfg = true.
Proof. exact call_disclose_never_invoked_proof. Qed.
Print Assumptions C12_call_disclose_never_invoked.

(** disclose_caller is the callee's own: along every history of dealer steps
    (REGISTER, UNREGISTER, session removal, CALL, and the steps that do not
    touch registrations), every member [sid] of [reg_disclose r] is a callee of
    [r], listed once, and justified ([J rid sid]); a step extends the
    justification only by "[sid] itself sent a REGISTER with disclose_caller =
    true, the realm allows disclosure or [sid] is trusted, and the answer was
    REGISTERED rid" ([C12_disclose_witness]).  It holds for the dealer of a
    fresh realm ([C12_disclose_init]). *)
Theorem C12_disclose_flag_is_callees_own : forall a b,
    clos_refl_trans _ dj_step a b -> disclose_own (snd a) (fst a) -> disclose_own (snd b) (fst b).
Proof. exact disclose_flag_is_callees_own_proof. Qed.
Print Assumptions C12_disclose_flag_is_callees_own.

Theorem C12_disclose_witness : forall d J d' J' rid sid,
    dj_step (d, J) (d', J') -> J' rid sid ->
    J rid sid \/
    exists cfg callee req opts proc,
      sid = s_id callee /\ opt_bool opts "disclose_caller" = true /\ disclose_allowed cfg callee /\
      snd (fst (register cfg d callee req opts proc)) = [(sid, RRegistered req rid)].
Proof. exact dj_step_witness. Qed.
Print Assumptions C12_disclose_witness.

Theorem C12_disclose_init : forall cfg,
    disclose_own (fun _ sid => sid = meta_id) (r_dealer (init_realm cfg)).
Proof. exact init_disclose_own. Qed.
Print Assumptions C12_disclose_init.

(** a callee that joins a shared registration without disclose_caller is not
    disclosed to, whatever the creator (or any other member) asked for; one
    that joins with it is the only one added *)
Theorem C12_joining_does_not_inherit : forall cfg lookup J d callee req opts proc r d' mps,
    dealer_wf lookup d -> disclose_own J d ->
    reg_lookup d (opt_string opts "match") proc = Some r ->
    register cfg d callee req opts proc = (d', [(s_id callee, RRegistered req (reg_id r))], mps) ->
    exists r', nget (d_regs d') (reg_id r) = Some r' /\
               reg_callees r' = reg_callees r ++ [s_id callee] /\
               reg_disclose r' = (if opt_bool opts "disclose_caller" then reg_disclose r ++ [s_id callee] else reg_disclose r) /\
               (opt_bool opts "disclose_caller" = false -> reg_discloses r' (s_id callee) = false) /\
               (forall x, x <> s_id callee -> reg_discloses r' x = reg_discloses r x).
Proof. exact joining_does_not_inherit_proof. Qed.
Print Assumptions C12_joining_does_not_inherit.

(** realm without disclosure; 30 is trusted, 12 anonymous *)
Example C12_joining_ex :
    option_map (fun r => (reg_callees r, reg_disclose r)) (nget (d_regs dx2) 24) = Some ([30; 12], [30]) /\
    inv_caller_key cx1 = Some (30, Some (vid 10)) /\ inv_caller_key cx2 = Some (12, None) /\
    option_map (fun r => (reg_callees r, reg_disclose r)) (nget (d_regs dy2) 24) = Some ([12; 30], [30]) /\
    inv_caller_key cy1 = Some (12, None) /\ inv_caller_key cy2 = Some (30, Some (vid 10)) /\
    register cfg_nodisclose dx1 s12 2 rr_disc "com.d" = (dx1, [(12, RError c_REGISTER 2 [] e_disclose_me [] [])], []) /\
    option_map (fun r => (reg_callees r, reg_disclose r)) (nget (d_regs (fst (fst (unregister dx2 30 9 24)))) 24) = Some ([12], []).
Proof. exact joining_does_not_inherit_ex. Qed.

Example C12_joining_hypotheses_ex :
    dealer_wf lkx dx1 /\ disclose_own (fun _ _ => True) dx1 /\
    (exists r mps, reg_lookup dx1 (opt_string rr_opts "match") "com.d" = Some r /\ reg_disclose r = [30] /\
                   register cfg_nodisclose dx1 s12 2 rr_opts "com.d" = (dx2, [(s_id s12, RRegistered 2 (reg_id r))], mps)) /\
    opt_bool rr_opts "disclose_caller" = false.
Proof. exact joining_hypotheses_ex. Qed.

(** ------------------------------------------------------------------------
    session meta events and wamp.session.get never expose transport
    authentication data (Router/RealmClean.v): [clean_details] is what on_join
    publishes ([join]) and what wamp.session.get answers ([meta_call])
    ------------------------------------------------------------------------ *)
From Nexus Require Import Router.RealmClean.

Theorem C12_clean_no_transport_auth : forall cfg d td,
  dget (clean_details cfg d) "transport" = Some (VDict td) ->
  match dget td "auth" with Some (VDict _) => False | _ => True end.
Proof. exact clean_no_transport_auth_proof. Qed.
Print Assumptions C12_clean_no_transport_auth.

Theorem C12_clean_keeps_other_keys : forall cfg d k,
  c_meta_strict cfg = false -> k <> "transport" ->
  dget (clean_details cfg d) k = dget d k.
Proof. exact clean_keeps_other_keys_proof. Qed.
Print Assumptions C12_clean_keeps_other_keys.
