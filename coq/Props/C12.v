(** * C12 — Identity is disclosed only when allowed; recipients get independent
    messages.

    BROKER HALF (EVENT / disclose_me).  Model: coq/Router/Broker.v
    ([event_details], [disclose_dict], the disclose check of [publish]) —
    mirrors the repaired /repo (details built per recipient).  Proofs:
    Router/BrokerDisclose.v. *)
From Nexus Require Import Router.BrokerProofs Router.BrokerExamples.

(** The keys publisher / publisher_authid / publisher_authrole occur in the
    details of an EVENT produced by PUBLISH iff disclose_me = true (Go bool),
    the realm allows disclosure and THIS recipient announced
    subscriber/publisher_identification (authid / authrole additionally iff
    the publisher's session details have them); the values are the
    publisher's own. *)
Theorem C12_event_disclose_iff : forall cfg lookup now b pg pub req opts topic args kw b' pg' o,
    broker_wf b -> lookup_ok lookup -> pub_accepted cfg pub opts topic ->
    publish cfg lookup now b pg pub req opts topic args kw = (b', pg', o) ->
    forall r id pubid d a k', In (r, REvent id pubid d a k') o ->
    exists rs, lookup r = Some rs /\
      let allowed_here := opt_bool opts "disclose_me" = true /\ c_disclose cfg = true /\
                          sess_feature rs "subscriber" "publisher_identification" = true in
      (dhas d "publisher" = true <-> allowed_here) /\
      (dhas d "publisher_authid" = true <-> allowed_here /\ dhas (s_details pub) "authid" = true) /\
      (dhas d "publisher_authrole" = true <-> allowed_here /\ dhas (s_details pub) "authrole" = true) /\
      (forall v, dget d "publisher" = Some v -> v = vid (s_id pub)) /\
      (forall v, dget d "publisher_authid" = Some v -> dget (s_details pub) "authid" = Some v) /\
      (forall v, dget d "publisher_authrole" = Some v -> dget (s_details pub) "authrole" = Some v).
Proof. exact event_disclose_iff. Qed.
Print Assumptions C12_event_disclose_iff.

(** an EVENT's details have no other keys (besides the passthru ones) *)
Theorem C12_event_details_keys : forall opts topic st disc pub recv k,
    dhas (ppt_part opts ++ event_details topic st disc pub recv) k = true ->
    In k ["ppt_scheme"; "ppt_serializer"; "ppt_cipher"; "ppt_keyid"] \/
    k = "topic" \/ k = "publisher" \/ k = "publisher_authid" \/ k = "publisher_authrole".
Proof. exact event_dict_keys. Qed.
Print Assumptions C12_event_details_keys.

(** disclose_me requested, realm forbids: broker unchanged, no EVENT, the
    output is exactly the option_disallowed.disclose_me ERROR when
    acknowledged and nothing otherwise *)
Theorem C12_disallowed_disclose_refused : forall cfg lookup now b pg pub req opts topic args kw,
    valid_uri (c_strict cfg) "" topic = true ->
    publish_aborts cfg pub opts topic = false ->   (* the passthru violation is checked first *)
    opt_bool opts "disclose_me" = true -> c_disclose cfg = false ->
    publish cfg lookup now b pg pub req opts topic args kw =
    (b, pg, if opt_bool opts "acknowledge"
            then [(s_id pub, RError c_PUBLISH req [] "wamp.error.option_disallowed.disclose_me" [] [])] else []).
Proof. exact disallowed_disclose_refused. Qed.
Print Assumptions C12_disallowed_disclose_refused.

Example C12_ex_refused :
  valid_uri (c_strict ex_cfg_nodisclose) "" "a.b" = true /\
  publish_aborts ex_cfg_nodisclose ex_pub ex_opts "a.b" = false /\ opt_bool ex_opts "disclose_me" = true /\
  c_disclose ex_cfg_nodisclose = false.
Proof. repeat split. Qed.

(** The EVENT delivered to r through subscription (id, t, k) is the same in
    any two brokers in which r holds it — whatever other subscribers and
    subscriptions exist, in whatever order — and is this function of
    (the publication's passthru options, topic, kind, disclose flag,
    publisher, r's session). *)
Theorem C12_event_details_recipient_only :
  forall cfg lookup now1 now2 b1 b2 pg pub req opts topic args kw b1' pg1 o1 b2' pg2 o2 r id t k,
    broker_wf b1 -> broker_wf b2 -> lookup_ok lookup -> pub_accepted cfg pub opts topic ->
    holds_sig b1 r id t k -> holds_sig b2 r id t k ->
    publish cfg lookup now1 b1 pg pub req opts topic args kw = (b1', pg1, o1) ->
    publish cfg lookup now2 b2 pg pub req opts topic args kw = (b2', pg2, o2) ->
    (forall pubid d a k', In (r, REvent id pubid d a k') o1 <-> In (r, REvent id pubid d a k') o2) /\
    (forall pubid d a k' rs, In (r, REvent id pubid d a k') o1 -> lookup r = Some rs ->
        pubid = (pg + 1)%N /\ a = args /\ k' = kw /\
        d = ppt_part opts ++ event_details topic (is_pattern k) (opt_bool opts "disclose_me") pub (Some rs)).
Proof. exact event_details_recipient_only. Qed.
Print Assumptions C12_event_details_recipient_only.

(** non-vacuity: in the example broker session 11 (with the feature) and
    session 10 / 12 (without) receive the same publication; only 11's EVENTs
    carry the publisher *)
Example C12_ex_disclose :
  broker_wf ex_b /\ lookup_ok ex_lookup /\ pub_accepted ex_cfg ex_pub ex_opts "a.b" /\
  holds_sig ex_b 11 4 "a" MPrefix /\
  snd (publish ex_cfg ex_lookup 5 ex_b 100 ex_pub 7 ex_opts "a.b" [vnat 1] []) =
  [(10, REvent 3 101 [] [vnat 1] []);
   (11, REvent 3 101 [("publisher", vid 10); ("publisher_authid", vstr "pubid")] [vnat 1] []);
   (11, REvent 4 101 [("topic", vuri "a.b"); ("publisher", vid 10); ("publisher_authid", vstr "pubid")] [vnat 1] []);
   (12, REvent 5 101 [("topic", vuri "a.b")] [vnat 1] []);
   (10, RPublished 7 101)]%N.
Proof. exact (conj ex_b_wf (conj ex_lookup_ok (conj ex_accepted (conj ex_holds_11 ex_publish)))). Qed.

(** ------------------------------------------------------------------------
    DEALER HALF (INVOCATION / disclose_caller), proved in Router/DealerCall.v
    ------------------------------------------------------------------------ *)
From Nexus Require Import Router.DealerProofs Router.DealerCall Router.DealerExamples.

(** the caller's identity is in the INVOCATION details iff the registration
    asked for it (disclose_caller, checked at REGISTER) or the caller asked
    (disclose_me), the realm allows disclosure and the callee announced
    caller_identification *)
Theorem C12_invocation_disclose_iff : forall cfg lookup now d caller req opts proc args kw oracle d' callee' o,
    call cfg lookup now d caller req opts proc args kw oracle = CallInvoked d' callee' o ->
    cget (d_bycall d) (s_id caller, req) = None ->
    exists r callee_id callee invid det,
      match_procedure d proc oracle = Some r /\ lookup callee_id = Some callee /\
      o = [(callee_id, RInvocation invid (reg_id r) det args kw)] /\
      let allowed := reg_disclose r ||
                     (opt_bool opts "disclose_me" && c_disclose cfg && sess_feature callee "callee" f_caller_ident) in
      dget det "caller" = (if allowed then Some (vid (s_id caller)) else None) /\
      dget det "caller_authid" = (if allowed then dget (s_details caller) "authid" else None) /\
      dget det "caller_authrole" = (if allowed then dget (s_details caller) "authrole" else None).
Proof. exact invocation_disclose_iff_proof. Qed.
Print Assumptions C12_invocation_disclose_iff.

(** a disallowed disclose_me on a CALL is refused with
    option_disallowed.disclose_me, nothing is recorded, no INVOCATION *)
Theorem C12_call_disclose_refused : forall cfg lookup now d caller req opts proc args kw oracle r callee_id next callee,
    match_procedure d proc oracle = Some r -> reg_callees r <> [] ->
    call_abort_cond caller opts = false -> cget (d_bycall d) (s_id caller, req) = None ->
    select_callee r oracle = Some (callee_id, next) -> lookup callee_id = Some callee ->
    call_feature_refused callee opts = false ->
    call_ppt_abort caller opts = false -> call_ppt_refused callee opts = false ->
    opt_bool opts "disclose_me" = true -> reg_disclose r = false -> c_disclose cfg = false ->
    call cfg lookup now d caller req opts proc args kw oracle =
    CallRefused (call_d0 d r next) [(s_id caller, RError c_CALL req [] e_disclose_me [] [])] /\
    same_calls d (call_d0 d r next) /\ d_timers (call_d0 d r next) = d_timers d.
Proof. exact call_disclose_refused_proof. Qed.
Print Assumptions C12_call_disclose_refused.

Theorem C12_call_disclose_never_invoked : forall cfg lookup now d caller req opts proc args kw oracle d' callee' o r,
    call cfg lookup now d caller req opts proc args kw oracle = CallInvoked d' callee' o ->
    cget (d_bycall d) (s_id caller, req) = None ->
    match_procedure d proc oracle = Some r ->
    opt_bool opts "disclose_me" = true -> reg_disclose r = false -> c_disclose cfg = true.
Proof. exact call_disclose_never_invoked_proof. Qed.
Print Assumptions C12_call_disclose_never_invoked.

(** ------------------------------------------------------------------------
    session meta events and wamp.session.get never expose transport
    authentication data (Router/RealmClean.v): [clean_details] is what on_join
    publishes ([join]) and what wamp.session.get answers ([meta_call])
    ------------------------------------------------------------------------ *)
From Nexus Require Import Router.RealmClean.

Theorem C12_clean_no_transport_auth : forall cfg d td,
  dget (clean_details cfg d) "transport" = Some (VDict td) ->
  match dget td "auth" with Some (VDict _) => False | _ => True end.
Proof. exact clean_no_transport_auth_proof. Qed.
Print Assumptions C12_clean_no_transport_auth.

Theorem C12_clean_keeps_other_keys : forall cfg d k,
  c_meta_strict cfg = false -> k <> "transport" ->
  dget (clean_details cfg d) k = dget d k.
Proof. exact clean_keeps_other_keys_proof. Qed.
Print Assumptions C12_clean_keeps_other_keys.
