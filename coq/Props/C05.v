(** * C05 — Ending a session removes all of its effects and state

    Statements only; proofs in Router/RealmLeave.v, RealmWf.v, RealmStep.v,
    RealmC05.v (which use the broker invariant of Router/BrokerWf.v, BrokerPres.v
    and the dealer invariant of Router/DealerProofs.v, DealerWf.v,
    DealerRemove.v).  Model: Router/Realm.v — [leave r sid] is onLeave for
    whatever reason (GOODBYE, lost transport, protocol violation, kill through
    the meta API); [step] is one client-side event run to quiescence.

    [realm_wf r] is the reachable-state invariant ([reachable_realm_wf]):
    broker and dealer invariants plus "every key of a per-session table names
    an attached session".  [ids_below k r] bounds the id generators; ids wrap
    around at 2^53 ([max_idN]) and every theorem about reachable states is for
    histories shorter than that.  [op_ok] says a joining session id is a valid
    WAMP id (the router draws them from [1, 2^53]).  [nowhere r sid]: [sid] is
    not in [r_clients], not a key of [r_testaments] / [b_sess] /
    [d_callee_regs], in no [sub_subs] and no [reg_callees], not caller or callee
    of any entry of [d_calls] / [d_bycall] / [d_invs].

    FOUND FALSE OF THE MODEL (and of the router): "no output of the leave step
    is addressed to the leaver" — a session that called a procedure it serves
    itself gets the "callee gone" ERROR of that call while leaving
    ([c05_departure_example], second output).  The statements below are about
    the tables after the step. *)
From Nexus Require Import Router.Realm Router.RealmProofs Router.RealmMetaProofs Router.RealmLeave.
From Nexus Require Import Router.BrokerWf Router.DealerProofs Router.DealerWf.
From Nexus Require Import Router.RealmWf Router.RealmStep Router.RealmC05 Router.RealmIdle Router.RealmOutputs.

(** ** The invariant holds initially, is preserved by every step, hence holds of
    every reachable realm *)
Theorem init_realm_wf : forall cfg,
    k0 cfg <= max_idN ->
    realm_wf (init_realm cfg) /\ ids_below (k0 cfg) (init_realm cfg).
Proof. exact RealmStep.init_realm_wf. Qed.
Print Assumptions init_realm_wf.

Theorem step_wf : forall r o k,
    realm_wf r -> ids_below k r -> k < max_idN -> op_ok o ->
    realm_wf (fst (step r o)) /\ ids_below (k + 1) (fst (step r o)).
Proof. exact RealmStep.step_wf. Qed.
Print Assumptions step_wf.

Theorem reachable_realm_wf : forall cfg ops,
    Forall op_ok ops -> k0 cfg + N.of_nat (List.length ops) <= max_idN ->
    realm_wf (fst (run (init_realm cfg) ops)).
Proof. exact RealmStep.reachable_realm_wf. Qed.
Print Assumptions reachable_realm_wf.

(** ** no_ref_after_leave *)
Theorem no_ref_after_leave : forall r sid k,
    realm_wf r -> ids_below k r -> client r sid -> nowhere (fst (leave r sid)) sid.
Proof. exact RealmC05.no_ref_after_leave. Qed.
Print Assumptions no_ref_after_leave.

Theorem no_ref_after_end : forall r o k sid,
    realm_wf r -> ids_below k r -> k < max_idN -> op_ok o ->
    client r sid -> ~ client (fst (step r o)) sid ->
    nowhere (fst (step r o)) sid.
Proof. exact RealmC05.no_ref_after_end. Qed.
Print Assumptions no_ref_after_end.

Theorem wf_not_client_nowhere : forall r sid,
    realm_wf r -> ~ client r sid -> sid <> meta_id -> nowhere r sid.
Proof. exact RealmC05.wf_not_client_nowhere. Qed.
Print Assumptions wf_not_client_nowhere.

Theorem drop_detaches : forall r sid, ~ client (fst (step r (ODrop sid))) sid.
Proof. exact RealmC05.drop_detaches. Qed.
Print Assumptions drop_detaches.

Theorem goodbye_detaches : forall r s det reason oracle,
    ~ client (fst (handle r s (CGoodbye det reason) oracle)) (s_id s).
Proof. exact RealmC05.goodbye_detaches. Qed.
Print Assumptions goodbye_detaches.

Theorem violation_detaches : forall r s code oracle,
    ~ client (fst (handle r s (COther code) oracle)) (s_id s).
Proof. exact RealmC05.violation_detaches. Qed.
Print Assumptions violation_detaches.

Theorem publish_ppt_violation_detaches : forall r s req opts topic args kw oracle,
    publish_aborts (r_cfg r) s opts topic = true ->
    ~ client (fst (handle r s (CPublish req opts topic args kw) oracle)) (s_id s).
Proof. exact RealmC05.publish_ppt_violation_detaches. Qed.
Print Assumptions publish_ppt_violation_detaches.

Theorem yield_ppt_violation_detaches : forall r s req opts args kw oracle,
    yield_aborts (lookup r) (r_dealer r) (s_id s) req opts = true ->
    ~ client (fst (handle r s (CYield req opts args kw) oracle)) (s_id s).
Proof. exact RealmC05.yield_ppt_violation_detaches. Qed.
Print Assumptions yield_ppt_violation_detaches.

Theorem kill_detaches : forall sids r g x,
    In x sids -> ~ client (fst (kill_sessions r sids g)) x.
Proof. exact RealmC05.kill_detaches. Qed.
Print Assumptions kill_detaches.

Theorem leave_wf : forall r sid k,
    realm_wf r -> ids_below k r ->
    realm_wf (fst (leave r sid)) /\ ids_below k (fst (leave r sid)) /\
    (client r sid -> nowhere (fst (leave r sid)) sid).
Proof. exact RealmWf.leave_wf. Qed.
Print Assumptions leave_wf.

(** ** ... and consequently nothing is sent to a session after it ended: every
    message of every step is addressed to a session attached when the step
    starts (the meta session counts as attached; its own mail is consumed
    inside the step) or to the session that is joining. *)
Theorem outputs_to_attached : forall r o k x m,
    realm_wf r -> ids_below k r -> k < max_idN -> op_ok o ->
    In (x, m) (snd (step r o)) ->
    lookup r x <> None \/ (exists l h, o = OJoin x l h).
Proof. exact RealmOutputs.outputs_to_attached. Qed.
Print Assumptions outputs_to_attached.

Theorem no_output_to_ended : forall r o k sid m,
    realm_wf r -> ids_below k r -> k < max_idN -> op_ok o ->
    ~ client r sid -> sid <> meta_id -> (forall l h, o <> OJoin sid l h) ->
    ~ In (sid, m) (snd (step r o)).
Proof. exact RealmOutputs.no_output_to_ended. Qed.
Print Assumptions no_output_to_ended.

(** ** served_calls_error, own_calls_abandoned *)
Theorem served_calls_error : forall r sid k inv,
    realm_wf r -> client r sid ->
    cget (d_invs (r_dealer r)) k = Some inv -> inv_callee inv = sid ->
    In (fst (inv_call inv), RError c_CALL (snd (inv_call inv)) [] e_canceled [vstr "callee gone"] [])
       (snd (leave r sid)).
Proof. exact RealmC05.served_calls_error. Qed.
Print Assumptions served_calls_error.

Theorem leave_dealer_outputs_only_errors : forall r sid m,
    realm_wf r -> client r sid ->
    let r2 := r_set_testaments (r_set_clients r (del_session (r_clients r) sid))
                               (ndel (r_testaments r) sid) in
    In m (snd (fst (dealer_remove_session (lookup r2) (r_dealer r) sid))) ->
    exists k inv, cget (d_invs (r_dealer r)) k = Some inv /\ inv_callee inv = sid /\
                  m = (fst (inv_call inv), RError c_CALL (snd (inv_call inv)) [] e_canceled [vstr "callee gone"] []).
Proof. exact RealmC05.leave_dealer_outputs_only_errors. Qed.
Print Assumptions leave_dealer_outputs_only_errors.

Theorem own_calls_abandoned : forall r sid k0 callee q inv opts args kw,
    realm_wf r -> ids_below k0 r -> client r sid ->
    cget (d_invs (r_dealer r)) (callee, q) = Some inv -> fst (inv_call inv) = sid ->
    let r' := fst (leave r sid) in
    (forall inv', cget (d_invs (r_dealer r')) (callee, q) = Some inv' -> fst (inv_call inv') <> sid) /\
    cget (d_calls (r_dealer r')) (inv_call inv) = None /\
    cget (d_bycall (r_dealer r')) (inv_call inv) = None /\
    (cget (d_invs (r_dealer r')) (callee, q) = None ->
     forall lk, sync_yield lk (r_dealer r') callee q opts args kw =
     (r_dealer r', if opt_bool opts "progress" then [(callee, RInterrupt q [("mode", vstr "killnowait")])] else [])).
Proof. exact RealmC05.own_calls_abandoned. Qed.
Print Assumptions own_calls_abandoned.

(** ** testaments_once *)
Theorem testaments_once : forall r sid s,
    find_session (r_clients r) sid = Some s ->
    (* the publications of the meta session during the departure, in order:
       registration events, detached testaments, destroyed testaments, on_leave *)
    (exists r4 o12 mps l,
        leave_core r sid = (r4, o12, mps) /\ mps = reg_leave_events sid l /\
        leave r sid =
        (fst (meta_publish_all r4 (mps ++ testament_pubs r sid ++ [on_leave_pub s])),
         o12 ++ snd (meta_publish_all r4 (mps ++ testament_pubs r sid ++ [on_leave_pub s])))) /\
    (* afterwards nothing is stored for the session *)
    nget (r_testaments (fst (leave r sid))) sid = None.
Proof. exact RealmLeave.testaments_once. Qed.
Print Assumptions testaments_once.

Theorem testament_pubs_bucket : forall r sid,
    testament_pubs r sid = test_pubs (fst (test_bucket r sid)) ++ test_pubs (snd (test_bucket r sid)).
Proof. exact RealmLeave.testament_pubs_bucket. Qed.
Print Assumptions testament_pubs_bucket.

Theorem flushed_not_published : forall r sid,
    nget (r_testaments r) sid = None -> testament_pubs r sid = [].
Proof. exact RealmLeave.flushed_not_published. Qed.
Print Assumptions flushed_not_published.

Theorem kill_sessions_exact : forall sids r g,
    let r' := fst (kill_sessions r sids g) in
    map s_id (r_clients r') = filter (fun x => negb (nmem x sids)) (map s_id (r_clients r)) /\
    (forall x, In x sids -> In (x, g) (snd (kill_sessions r sids g))) /\
    r_cfg r' = r_cfg r /\ r_meta r' = r_meta r /\ r_metaprocs r' = r_metaprocs r /\ r_now r' = r_now r.
Proof. exact RealmLeave.kill_sessions_exact. Qed.
Print Assumptions kill_sessions_exact.

(** ** empty_when_idle: for every history from [init_realm] (below the id
    wrap-around), once no session is attached ALL table sizes are back to those
    of the initial realm: [sizes] lists clients, testaments, the three broker
    topic maps, subscriptions, the broker's session index, history stores, the
    three dealer procedure maps, registrations, the three call tables and the
    dealer's callee index.  What remains are the configured history
    subscriptions and the meta session's registrations.  This is the "no
    growth" statement: failed and refused requests included, nothing
    accumulates. *)
Theorem empty_when_idle : forall cfg ops,
    Forall op_ok ops -> k0 cfg + N.of_nat (List.length ops) <= max_idN ->
    r_clients (fst (run (init_realm cfg) ops)) = [] ->
    sizes (fst (run (init_realm cfg) ops)) = sizes (init_realm cfg).
Proof. exact RealmIdle.empty_when_idle. Qed.
Print Assumptions empty_when_idle.

(** the same for any two idle well-formed realms of one configuration *)
Theorem idle_sizes : forall r0 r,
    realm_wf r0 -> realm_wf r -> r_clients r0 = [] -> r_clients r = [] ->
    r_broker r0 = broker0 (r_cfg r) -> r_dealer r0 = dealer0 (r_cfg r) ->
    sizes r = sizes r0.
Proof. exact RealmIdle.idle_sizes. Qed.
Print Assumptions idle_sizes.

Theorem step_cfg : forall r o, r_cfg (fst (step r o)) = r_cfg r.
Proof. exact RealmIdle.step_cfg. Qed.
Print Assumptions step_cfg.

(** what an idle realm looks like, table by table *)
Theorem empty_when_idle_partial : forall r,
    realm_wf r -> r_clients r = [] ->
    r_testaments r = [] /\ b_sess (r_broker r) = [] /\
    d_calls (r_dealer r) = [] /\ d_bycall (r_dealer r) = [] /\ d_invs (r_dealer r) = [] /\
    (List.length (d_callee_regs (r_dealer r)) <= 1)%nat /\
    (forall id s, nget (b_subs (r_broker r)) id = Some s -> sub_subs s = []) /\
    (forall id rg, nget (d_regs (r_dealer r)) id = Some rg -> reg_callees rg = [meta_id]).
Proof. exact RealmC05.empty_when_idle_partial. Qed.
Print Assumptions empty_when_idle_partial.

(** ** Non-vacuity: a reachable realm in which session 11 holds a subscription,
    a registration and a testament, serves a call of 12 and a call of its own. *)
Example c05_hypotheses_satisfiable :
  realm_wf C05Ex.r0 /\ ids_below (k0 C05Ex.cfg0 + 10) C05Ex.r0 /\ k0 C05Ex.cfg0 + 10 < max_idN /\ client C05Ex.r0 11.
Proof. exact C05Ex.wf0. Qed.

Example c05_served_calls_example :
  cget (d_invs (r_dealer C05Ex.r0)) (11, 1) = Some (mkInv (12, 7) 11 false false None []) /\
  cget (d_invs (r_dealer C05Ex.r0)) (11, 2) = Some (mkInv (11, 8) 11 false false None []).
Proof. exact C05Ex.served. Qed.

Example c05_departure_example :
  snd (step C05Ex.r0 (ODrop 11)) =
  [(12, RError c_CALL 7 [] e_canceled [vstr "callee gone"] []);
   (11, RError c_CALL 8 [] e_canceled [vstr "callee gone"] []);
   (10, REvent 3 12 [("topic", vuri t_sub_on_unsubscribe)] [vid 11; vid 2] []);
   (10, REvent 3 13 [("topic", vuri t_sub_on_delete)] [vid 11; vid 2] []);
   (10, REvent 3 14 [("topic", vuri t_reg_on_unregister)] [vid 11; vid 24] []);
   (10, REvent 3 15 [("topic", vuri t_reg_on_delete)] [vid 11; vid 24] []);
   (12, REvent 4 16 [] [vnat 1] []);
   (10, REvent 3 17 [("topic", vuri t_on_leave)] [vid 11; vstr "<gen>"; vstr "anonymous"] [])].
Proof. exact C05Ex.drop11. Qed.

Example c05_sizes_example :
  sizes C05Ex.r0 = [3; 1; 3; 1; 0; 4; 3; 1; 24; 0; 0; 24; 2; 2; 2; 2] /\
  sizes (fst (step C05Ex.r0 (ODrop 11))) = [2; 0; 2; 1; 0; 3; 2; 1; 23; 0; 0; 23; 0; 0; 0; 1] /\
  sizes (fst (run C05Ex.r0 [ODrop 11; ODrop 10; OMsg 12 (CGoodbye [] "x") 0])) = sizes (init_realm C05Ex.cfg0) /\
  r_clients (fst (run C05Ex.r0 [ODrop 11; ODrop 10; OMsg 12 (CGoodbye [] "x") 0])) = [].
Proof. exact C05Ex.sizes_back. Qed.

Example c05_empty_when_idle_hypotheses_satisfiable :
  Forall op_ok IdleEx.ops1 /\ k0 C05Ex.cfg0 + N.of_nat (List.length IdleEx.ops1) <= max_idN /\
  r_clients (fst (run (init_realm C05Ex.cfg0) IdleEx.ops1)) = [] /\
  sizes (init_realm C05Ex.cfg0) = [0; 0; 1; 0; 0; 1; 0; 1; 23; 0; 0; 23; 0; 0; 0; 1].
Proof. exact IdleEx.hyps. Qed.
