(** * C13 — CANCEL modes and call timeouts behave as documented (dealer side)

    All statements are about the executable router model Router/Dealer.v
    (validated against /repo/router/dealer.go by the differential harness), for
    every dealer state; where the state must be consistent the hypothesis is
    the invariant [dealer_wf] (Props/C03.v shows it holds initially and is
    preserved by every dealer function) or its call-table half [calls_core].
    Proofs: Router/DealerProofs.v, DealerCall.v, DealerReply.v, DealerTimers.v.
    Examples evaluate the model on states reached from [init_realm] by
    REGISTER / CALL / CANCEL (Router/DealerExamples.v). *)
From Nexus Require Import Router.Realm Router.DealerLib Router.DealerProofs Router.DealerReg
     Router.DealerCall Router.DealerWfCalls Router.DealerWf Router.DealerReply Router.DealerTimers
     Router.DealerExamples Router.DealerTrace Router.DealerDisclose Router.DealerForward.
From Coq Require Import Relations.

(** ** CANCEL by the owner of a pending, not yet cancelled call *)

(** skip: the caller is answered at once with wamp.error.canceled, nothing is
    sent to the callee, the call is erased. *)
Theorem cancel_skip : forall lookup d caller req opts ikey inv x,
    opt_string opts "mode" = "skip" ->
    pending d (caller, req) ikey inv x -> inv_canceled inv = false ->
    exists d', cancel lookup d caller req opts = (d', [(caller, RError c_CALL req [] e_canceled [] [])]) /\
               d' = drop_call (cancel_state d ikey inv) (caller, req) ikey /\
               gone d' (caller, req) ikey.
Proof. exact cancel_skip_proof. Qed.
Print Assumptions cancel_skip.

Example cancel_skip_ex :
    exists ikey inv x, pending d3 (10, 7) ikey inv x /\ inv_canceled inv = false /\
      cancel (lk 1 0) d3 10 7 [("mode", vstr "skip")] =
      (fst (cancel (lk 1 0) d3 10 7 [("mode", vstr "skip")]), [(10, RError c_CALL 7 [] e_canceled [] [])]).
Proof. eexists; eexists; eexists. vm_compute. repeat split; reflexivity. Qed.

(** killnowait, also for an absent or empty mode: the same, plus exactly one
    INTERRUPT to a callee that announced call_canceling. *)
Theorem cancel_killnowait : forall lookup d caller req opts ikey inv x,
    opt_string opts "mode" = "killnowait" \/ opt_string opts "mode" = "" ->
    pending d (caller, req) ikey inv x -> inv_canceled inv = false ->
    exists d', cancel lookup d caller req opts =
               (d', (if callee_can_cancel lookup inv
                     then [(inv_callee inv, RInterrupt (snd ikey) [("reason", vuri e_canceled); ("mode", vstr "killnowait")])]
                     else [])
                    ++ [(caller, RError c_CALL req [] e_canceled [] [])]) /\
               d' = drop_call (cancel_state d ikey inv) (caller, req) ikey /\
               gone d' (caller, req) ikey.
Proof. exact cancel_killnowait_proof. Qed.
Print Assumptions cancel_killnowait.

Example cancel_killnowait_ex :
    snd (cancel (lk 1 0) d3 10 7 []) =
    [(11, RInterrupt 1 [("reason", vuri e_canceled); ("mode", vstr "killnowait")]);
     (10, RError c_CALL 7 [] e_canceled [] [])] /\
    snd (cancel (lk 1 1) d5 10 8 [("mode", vstr "killnowait")]) = [(10, RError c_CALL 8 [] e_canceled [] [])].
Proof. vm_compute. split; reflexivity. Qed.

(** kill, callee supports call_canceling: exactly one INTERRUPT carrying
    reason and mode; the call stays pending, marked cancelled, timer stopped. *)
Theorem cancel_kill : forall lookup d caller req opts ikey inv x,
    opt_string opts "mode" = "kill" ->
    pending d (caller, req) ikey inv x -> inv_canceled inv = false ->
    callee_can_cancel lookup inv = true ->
    exists d', cancel lookup d caller req opts =
               (d', [(inv_callee inv, RInterrupt (snd ikey) [("reason", vuri e_canceled); ("mode", vstr "kill")])]) /\
               d' = cancel_state d ikey inv /\
               pending d' (caller, req) ikey (inv_set_timer (inv_set_canceled inv true) None) x.
Proof. exact cancel_kill_proof. Qed.
Print Assumptions cancel_kill.

(** ... and the callee's next final YIELD, or its ERROR, becomes the caller's final reply *)
Theorem cancel_kill_then_answer : forall lookup d caller req opts ikey inv x,
    dealer_wf lookup d ->
    opt_string opts "mode" = "kill" ->
    pending d (caller, req) ikey inv x -> inv_canceled inv = false ->
    callee_can_cancel lookup inv = true ->
    let d1 := fst (cancel lookup d caller req opts) in
    (forall lk yopts args kw, opt_bool yopts "progress" = false ->
       exists d2 o, sync_yield lk d1 (fst ikey) (snd ikey) yopts args kw = (d2, o) /\
                    gone d2 (caller, req) ikey /\
                    (exists m, In m o /\ reply_of m = Some ((caller, req), true)) /\
                    (ppt_active yopts = false -> o = [(caller, RResult req [] args kw)])) /\
    (forall det err args kw,
       exists d2, sync_error d1 (fst ikey) (snd ikey) det err args kw = (d2, [(caller, RError c_CALL req det err args kw)]) /\
                  gone d2 (caller, req) ikey).
Proof. exact cancel_kill_then_answer_proof. Qed.
Print Assumptions cancel_kill_then_answer.

Example cancel_kill_ex :
    dealer_wf (lk 1 0) d3 /\
    (exists ikey inv x, pending d3 (10, 7) ikey inv x /\ inv_canceled inv = false /\
                        callee_can_cancel (lk 1 0) inv = true) /\
    snd (cancel (lk 1 0) d3 10 7 kill_opts) = [(11, RInterrupt 1 [("reason", vuri e_canceled); ("mode", vstr "kill")])] /\
    snd (sync_yield (lk 1 0) d4 11 1 [] [vnat 3] []) = [(10, RResult 7 [] [vnat 3] [])].
Proof.
  split; [exact wf_d3|]. split; [eexists; eexists; eexists; vm_compute; repeat split; reflexivity|].
  vm_compute. split; reflexivity.
Qed.

(** kill towards a callee that cannot be interrupted: as skip *)
Theorem cancel_kill_degrades : forall lookup d caller req opts ikey inv x,
    opt_string opts "mode" = "kill" ->
    pending d (caller, req) ikey inv x -> inv_canceled inv = false ->
    callee_can_cancel lookup inv = false ->
    exists d', cancel lookup d caller req opts = (d', [(caller, RError c_CALL req [] e_canceled [] [])]) /\
               d' = drop_call (cancel_state d ikey inv) (caller, req) ikey /\
               gone d' (caller, req) ikey.
Proof. exact cancel_kill_degrades_proof. Qed.
Print Assumptions cancel_kill_degrades.

Example cancel_kill_degrades_ex :
    (exists ikey inv x, pending d5 (10, 8) ikey inv x /\ inv_canceled inv = false /\
                        callee_can_cancel (lk 1 1) inv = false) /\
    snd (cancel (lk 1 1) d5 10 8 kill_opts) = [(10, RError c_CALL 8 [] e_canceled [] [])].
Proof. split; [eexists; eexists; eexists|]; vm_compute; repeat split; reflexivity. Qed.

(** any other mode: refused, nothing changes *)
Theorem cancel_bad_mode : forall lookup d caller req opts,
    let mode := opt_string opts "mode" in
    mode <> "killnowait" -> mode <> "kill" -> mode <> "skip" -> mode <> "" ->
    cancel lookup d caller req opts =
    (d, [(caller, RError c_CANCEL req [] e_invalid_argument [vstr "<text>"] [])]).
Proof. exact cancel_bad_mode_proof. Qed.
Print Assumptions cancel_bad_mode.

Example cancel_bad_mode_ex :
    cancel (lk 1 0) d3 10 7 [("mode", vstr "now")] =
    (d3, [(10, RError c_CANCEL 7 [] e_invalid_argument [vstr "<text>"] [])]).
Proof. apply cancel_bad_mode; vm_compute; discriminate. Qed.

(** repeated after a kill-mode cancel, from another session (the key contains
    the sender), for a finished or unknown call: no effect *)
Theorem cancel_noop : forall lookup d caller req opts,
    valid_cancel_mode (opt_string opts "mode") ->
    (cget (d_calls d) (caller, req) = None \/
     exists ikey inv, cget (d_bycall d) (caller, req) = Some ikey /\ cget (d_invs d) ikey = Some inv /\
                      inv_canceled inv = true) ->
    cancel lookup d caller req opts = (d, []).
Proof. exact cancel_noop_proof. Qed.
Print Assumptions cancel_noop.

Example cancel_noop_ex :
    (* repeated *)  cancel (lk 1 0) d4 10 7 kill_opts = (d4, []) /\
    (* foreign *)   cancel (lk 1 0) d3 12 7 kill_opts = (d3, []) /\
    (* unknown *)   cancel (lk 1 0) d3 10 99 [] = (d3, []) /\
    (exists ikey inv, cget (d_bycall d4) (10, 7) = Some ikey /\ cget (d_invs d4) ikey = Some inv /\ inv_canceled inv = true).
Proof.
  assert (H : exists ikey inv, cget (d_bycall d4) (10, 7) = Some ikey /\ cget (d_invs d4) ikey = Some inv /\ inv_canceled inv = true)
    by (eexists; eexists; vm_compute; repeat split; reflexivity).
  split; [|split; [|split; [|exact H]]].
  - apply cancel_noop; [right; left; reflexivity | right; exact H].
  - apply cancel_noop; [right; left; reflexivity | left; vm_compute; reflexivity].
  - apply cancel_noop; [right; right; right; reflexivity | left; vm_compute; reflexivity].
Qed.

(** ** Timeouts *)

(** The INVOCATION of a first chunk carries [timeout] iff the CALL's timeout is
    positive, the callee announced call_timeout and THIS callee asked for
    forward_timeout when it registered ([reg_forwards r callee_id], per callee
    of a shared registration); then no timer is armed.  Otherwise a positive timeout arms
    exactly one timer, due at now + timeout. *)
Theorem timeout_forwarded_iff : forall cfg now d caller req opts proc r callee_id next callee,
    let cid := (s_id caller, req) in
    let tmo := opt_int64 opts "timeout" in
    let det := call_details cfg caller callee callee_id r opts proc in
    let d' := call_first_state now d cid opts r callee_id next callee in
    let inv := first_inv d cid callee_id callee r opts in
    (dget det "timeout" <> None <->
       ((0 < tmo)%Z /\ sess_feature callee "callee" f_call_timeout = true /\ reg_forwards r callee_id = true)) /\
    (dget det "timeout" <> None ->
       dget det "timeout" = Some (VInt KInt64 tmo) /\ d_timers d' = d_timers d /\ inv_timer inv = None) /\
    (dget det "timeout" = None -> (0 < tmo)%Z ->
       d_timers d' = nset (d_timers d) (d_timergen d + 1) (now + Z.to_N tmo, cid) /\
       inv_timer inv = Some (d_timergen d + 1) /\ d_timergen d' = d_timergen d + 1) /\
    ((tmo <= 0)%Z -> d_timers d' = d_timers d /\ inv_timer inv = None).
Proof. exact timeout_forwarded_iff_proof. Qed.
Print Assumptions timeout_forwarded_iff.

(** [call_details] / [call_first_state] / [first_inv] are what a first chunk
    produces (Props/C03.v, [invocation_spec]). *)
Example timeout_forwarded_ex :
    (* forwarded: "com.fwd" was registered with forward_timeout by a callee with call_timeout *)
    (exists d' c det, call cfg0 (lk 0 0) 5 d2s s10 7 call_opts "com.fwd" [] [] 0 =
                      CallInvoked d' c [(11, RInvocation 1 22 det [] [])] /\
                      dget det "timeout" = Some (VInt KInt64 100) /\ d_timers d' = []) /\
    (* not forwarded: "com.x" *)
    d_timers d3 = [(1, (105, (10, 7)))].
Proof. split; [eexists; eexists; eexists|]; vm_compute; repeat split; reflexivity. Qed.

(** What [fire_timers] sends is, for a timer that was armed for call [cid] with
    a deadline that has been reached, whose call was still pending and not
    cancelled in kill mode: the ERROR wamp.error.timeout to the caller and, as
    for killnowait, one INTERRUPT to a callee with call_canceling; that call is
    then erased. *)
Theorem timeout_exact : forall lookup now d m,
    calls_core d -> In m (snd (fire_timers lookup now d)) ->
    exists tid dl cid k inv x,
      In (tid, (dl, cid)) (d_timers d) /\ dl <= now /\
      pending d cid k inv x /\ inv_canceled inv = false /\
      cget (d_calls (fst (fire_timers lookup now d))) cid = None /\
      (m = (fst cid, RError c_CALL (snd cid) [] e_timeout [vstr "call timeout"] []) \/
       (callee_can_cancel lookup inv = true /\
        m = (inv_callee inv, RInterrupt (snd k) [("reason", vuri e_timeout); ("mode", vstr "killnowait")]))).
Proof. exact timeout_exact_proof. Qed.
Print Assumptions timeout_exact.

(** never earlier *)
Theorem timeout_never_early : forall lookup now d,
    (forall tid dl cid, In (tid, (dl, cid)) (d_timers d) -> now < dl) ->
    fire_timers lookup now d = (d, []).
Proof. exact timeout_never_early_proof. Qed.
Print Assumptions timeout_never_early.

(** never after the call completed: a call that is no longer pending has no timer *)
Theorem no_timer_without_call : forall d cid,
    calls_core d -> cget (d_bycall d) cid = None ->
    forall t dl, nget (d_timers d) t <> Some (dl, cid).
Proof. exact no_timer_without_call_proof. Qed.
Print Assumptions no_timer_without_call.

(** exactly when it expires (also C02 prompt_timeout) *)
Theorem timeout_fires : forall lookup now d tid dl cid k inv x,
    calls_core d ->
    nget (d_timers d) tid = Some (dl, cid) -> dl <= now ->
    pending d cid k inv x -> inv_canceled inv = false ->
    In (fst cid, RError c_CALL (snd cid) [] e_timeout [vstr "call timeout"] []) (snd (fire_timers lookup now d)) /\
    gone (fst (fire_timers lookup now d)) cid k.
Proof. exact prompt_timeout_proof. Qed.
Print Assumptions timeout_fires.

Example timeout_ex :
    calls_core d3 /\
    fire_timers (lk 1 0) 104 d3 = (d3, []) /\
    snd (fire_timers (lk 1 0) 105 d3) =
      [(11, RInterrupt 1 [("reason", vuri e_timeout); ("mode", vstr "killnowait")]);
       (10, RError c_CALL 7 [] e_timeout [vstr "call timeout"] [])] /\
    (* after a kill-mode cancel the timer is gone: nothing fires *)
    snd (fire_timers (lk 1 0) 1000 d4) = [].
Proof.
  split; [apply (wf_calls _ _ wf_d3)|]. split.
  - apply timeout_never_early. vm_compute. intros tid dl cid [E|[]]. inversion E. reflexivity.
  - vm_compute. split; reflexivity.
Qed.

(** ** forward_timeout is the callee's own
    Along every history of dealer steps, every member [sid] of
    [reg_fwd_timeout r] is a callee of [r], listed once, and justified
    ([J rid sid]); a step extends the justification only by "[sid] itself sent
    a REGISTER with forward_timeout = true that was answered REGISTERED rid".
    In a fresh realm nobody is listed. *)
Theorem forward_flag_is_callees_own : forall a b,
    clos_refl_trans _ fj_step a b -> forward_own (snd a) (fst a) -> forward_own (snd b) (fst b).
Proof. exact forward_flag_is_callees_own_proof. Qed.
Print Assumptions forward_flag_is_callees_own.

Theorem forward_witness : forall d J d' J' rid sid,
    fj_step (d, J) (d', J') -> J' rid sid ->
    J rid sid \/
    exists cfg callee req opts proc,
      sid = s_id callee /\ opt_bool opts "forward_timeout" = true /\
      snd (fst (register cfg d callee req opts proc)) = [(sid, RRegistered req rid)].
Proof. exact fj_step_witness. Qed.
Print Assumptions forward_witness.

Theorem forward_init : forall cfg, forward_own (fun _ _ => False) (r_dealer (init_realm cfg)).
Proof. exact init_forward_own. Qed.
Print Assumptions forward_init.

(** a callee that joins a shared registration without forward_timeout does not
    inherit it from the creator (or anybody else); one that joins with it is
    the only one added *)
Theorem joining_does_not_inherit_forward : forall cfg lookup J d callee req opts proc r d' mps,
    dealer_wf lookup d -> forward_own J d ->
    reg_lookup d (opt_string opts "match") proc = Some r ->
    register cfg d callee req opts proc = (d', [(s_id callee, RRegistered req (reg_id r))], mps) ->
    exists r', nget (d_regs d') (reg_id r) = Some r' /\
               reg_callees r' = reg_callees r ++ [s_id callee] /\
               reg_fwd_timeout r' = (if opt_bool opts "forward_timeout" then reg_fwd_timeout r ++ [s_id callee] else reg_fwd_timeout r) /\
               (opt_bool opts "forward_timeout" = false -> reg_forwards r' (s_id callee) = false) /\
               (forall x, x <> s_id callee -> reg_forwards r' x = reg_forwards r x).
Proof. exact joining_does_not_inherit_forward_proof. Qed.
Print Assumptions joining_does_not_inherit_forward.

(** 11 and 30 both announce call_timeout; only 11 asked for forward_timeout *)
Example joining_forward_ex :
    option_map (fun r => (reg_callees r, reg_fwd_timeout r)) (nget (d_regs fx2) 24) = Some ([11; 30], [11]) /\
    inv_timeout_key fcx1 = Some (11, Some (VInt KInt64 100)) /\ d_timers (call_state fcx1 fx2) = [] /\
    inv_timeout_key fcx2 = Some (30, None) /\ d_timers (call_state fcx2 (call_state fcx1 fx2)) = [(1, (106, (10, 8)))] /\
    option_map (fun r => (reg_callees r, reg_fwd_timeout r)) (nget (d_regs fy2) 24) = Some ([30; 11], [11]) /\
    inv_timeout_key fcy1 = Some (30, None) /\ d_timers (call_state fcy1 fy2) = [(1, (105, (10, 7)))] /\
    inv_timeout_key fcy2 = Some (11, Some (VInt KInt64 100)) /\
    d_timers (call_state fcy2 (call_state fcy1 fy2)) = [(1, (105, (10, 7)))] /\
    option_map (fun r => (reg_callees r, reg_fwd_timeout r)) (nget (d_regs (fst (fst (unregister fx2 11 9 24)))) 24) = Some ([30], []).
Proof. exact joining_does_not_inherit_forward_ex. Qed.

Example joining_forward_hyps_ex :
    dealer_wf lkx fx1 /\ forward_own (fun _ _ => True) fx1 /\
    (exists r mps, reg_lookup fx1 (opt_string rr_opts "match") "com.t" = Some r /\ reg_fwd_timeout r = [11] /\
                   register cfg0 fx1 s30 2 rr_opts "com.t" = (fx2, [(s_id s30, RRegistered 2 (reg_id r))], mps)) /\
    opt_bool rr_opts "forward_timeout" = false.
Proof. exact joining_forward_hypotheses_ex. Qed.
