(* C04 -- No client input or timing can crash or wedge the router.

   What is THEOREM here (about the model, for all values / messages / traces):
     - accessors_total, bare_assertion_panics_iff : the wamp accessors never panic;
       a bare x.(T) panics exactly on a kind mismatch;
     - site_condition_sound / site_condition_complete : the decidable condition
       on a site is sufficient for "cannot panic on any client value" and, for
       the value-level kinds, necessary (with a witness);
     - entry_never_panics : every site of the inventory REGENERATED from the
       working tree that touches client-controlled data passes the condition,
       hence no message -- arbitrary values in every field, key, element,
       arbitrary lengths -- makes any of them panic;
     - peer_closed_once / no_send_after_close : close discipline of a peer over
       the regenerated peer-close sites, for all traces of the peer model;
     - nil_message_never_delivered, policy_panic_unreachable;
     - the generic refutations (`_refuted`): what a bare assertion, an
       unguarded index, a close outside the exit path, a deny-list policy
       guard do -- the concrete traces / values the check replays on the
       real router when an obligation breaks.
   What is NOT theorem (sampled by the hostile-stream harness, see docs/C04.md):
   that the translator reads the Go source faithfully, the Go scheduler, data
   races (-race runs), the third-party decoders, the WELCOME-vs-exit window of
   AttachClient (C06), liveness (wedging).  Hence the top statement is
   router_never_panics_partial. *)
From Coq Require Import String List ZArith NArith Bool.
From Nexus Require Import Safety.Values Safety.Accessors Safety.AccessorProofs Safety.FuelProofs.
From Nexus Require Import Safety.Sites Safety.SiteProofs Safety.Close Safety.CloseProofs.
From Nexus Require Import Safety.Policy Safety.PolicyProofs Safety.Locks Safety.LockProofs Safety.Conformance.
From Nexus Require Import gen.GenC04Sites.
Import ListNotations.

(* ---- values ---- *)

Theorem accessors_total :
  (forall v, as_string v <> Panic) /\ (forall v, as_uri v <> Panic) /\
  (forall v, as_int64 v <> Panic) /\ (forall v, as_id v <> Panic) /\
  (forall v, as_float64_ok v <> Panic) /\ (forall v, as_bool v <> Panic) /\
  (forall v, as_dict v <> Panic) /\ (forall v, as_list v <> Panic) /\
  (forall fuel v, normalize_dict fuel v <> Panic) /\
  (forall l, list_to_strings l <> Panic) /\ (forall d k, dict_child d k <> Panic) /\
  (forall t v, comma_ok t v <> Panic) /\
  (forall o k, option_string o k <> Panic) /\ (forall o k, option_uri o k <> Panic) /\
  (forall o k, option_id o k <> Panic) /\ (forall o k, option_int64 o k <> Panic) /\
  (forall o k, option_flag o k <> Panic) /\
  (forall d, set_roles d <> Panic) /\ (forall d, auth_methods d <> Panic) /\
  (forall o, publish_filter o <> Panic) /\
  (forall t v, bare t v = Panic <-> has_type t v = false).
Proof. exact accessors_total_proof. Qed.
Print Assumptions accessors_total.

(* the fuel the model gives NormalizeDict always suffices: it answers on every value *)
Theorem normalize_dict_answers : forall v, exists d, normalize v = Ok d.
Proof. exact normalize_answers. Qed.
Print Assumptions normalize_dict_answers.

Theorem bare_assertion_panics_iff : forall t v, bare t v = Panic <-> has_type t v = false.
Proof. exact bare_panics_iff. Qed.
Print Assumptions bare_assertion_panics_iff.

(* a bare assertion to ANY type is refuted by the nil value *)
Theorem bare_assertion_refuted : forall t, exists v, bare t v = Panic.
Proof. exact (fun t => ex_intro _ VNil (proj2 (bare_panics_iff t VNil) (has_type_nil t))). Qed.
Print Assumptions bare_assertion_refuted.

(* PUBLISH Options {ppt_scheme: "x", ppt_serializer: 5}: the value at key
   ppt_serializer makes the bare .(string) of pptOptionsToDetails panic *)
Example ppt_serializer_witness :
  bare TString (dict_get "ppt_serializer" (VDict [("ppt_scheme", VStr "x"); ("ppt_serializer", VInt KInt 5)])) = Panic.
Proof. exact eq_refl. Qed.

(* ---- sites ---- *)

Theorem site_condition_sound :
  forall c s, site_safe c s = true -> forall e, env_wf c e -> exec (s_kind s) e <> RPanic.
Proof. exact site_safe_sound. Qed.
Print Assumptions site_condition_sound.

Theorem site_condition_complete :
  forall c k e, kind_safe c k = false -> witness k = Some e -> env_wf c e /\ exec k e = RPanic.
Proof. exact witness_panics. Qed.
Print Assumptions site_condition_complete.

(* non-vacuity: the hypotheses of soundness are met by a real site and a real
   environment, and completeness produces a real witness *)
Example site_condition_examples :
  (site_safe gen_cfg (mkSite 0 1 0 false OClient "Options" "acknowledge" (SAssert true TBool)) = true /\
   env_wf gen_cfg (base_env (VStr "yes") 0 0 false)) /\
  (kind_safe gen_cfg (SIndex (IdxConst 1) 1) = false /\
   witness (SIndex (IdxConst 1) 1) = Some (base_env VNil 1 0 false)).
Proof. exact (conj (conj eq_refl (base_env_wf _ _ _ _ _)) (conj eq_refl eq_refl)). Qed.

Theorem entry_never_panics :
  forall m : message, read_sites gen_cfg gen_client_sites m <> RPanic.
Proof. exact (read_sites_no_panic gen_cfg gen_client_sites site_table_ok). Qed.
Print Assumptions entry_never_panics.

(* ---- close discipline ---- *)

Theorem no_send_after_close :
  forall t, run gen_close_paths init t <> CPanicCloseClosed /\ run gen_close_paths init t <> CPanicSendClosed.
Proof. exact (fun t => close_discipline gen_close_paths t close_table_ok). Qed.
Print Assumptions no_send_after_close.

Theorem peer_closed_once : forall t, (closes gen_close_paths init t <= 1)%nat.
Proof. exact (fun t => closed_at_most_once gen_close_paths t close_table_ok). Qed.
Print Assumptions peer_closed_once.

Theorem close_elsewhere_refuted :
  forall sites i j b d,
    nth_error sites i = Some CPOther -> nth_error sites j = Some (CPExit true b d) ->
    run sites init [EStartHandler; EClose i; EClose j] = CPanicCloseClosed /\
    run sites init [EStartHandler; EClose i; EHandlerSend] = CPanicSendClosed /\
    run sites init [EStartHandler; EJoin true false; EClose i; ERouterSend true] = CPanicSendClosed.
Proof.
  exact (fun sites i j b d Hi Hj =>
           conj (other_site_double_close sites i j b d Hi Hj)
                (conj (other_site_send_on_closed sites i Hi) (other_site_router_send_on_closed sites i Hi))).
Qed.
Print Assumptions close_elsewhere_refuted.

Theorem shutdown_close_before_stop_refuted :
  forall sites j sb sd, sb && sd = false -> nth_error sites j = Some (CPShutdown sb sd) ->
    run sites init [EStartHandler; EJoin true true; EShutdownExit; EClose j; ERouterSend true] = CPanicSendClosed.
Proof. exact shutdown_close_before_stop. Qed.
Print Assumptions shutdown_close_before_stop_refuted.

Theorem close_before_removal_refuted :
  forall sites j l,
    (forall d, nth_error sites j = Some (CPExit l false d) ->
       run sites init [EStartHandler; EJoin true false; EClose j; ERouterSend true] = CPanicSendClosed) /\
    (forall b, nth_error sites j = Some (CPExit l b false) ->
       run sites init [EStartHandler; EJoin false true; EClose j; ERouterSend false] = CPanicSendClosed).
Proof.
  exact (fun sites j l => conj (fun d => exit_without_broker_removal sites j l d)
                               (fun b => exit_without_dealer_removal sites j l b)).
Qed.
Print Assumptions close_before_removal_refuted.

(* ---- nil delivery, invocation policy ---- *)

Theorem nil_message_never_delivered : nil_may_be_delivered gen_sites = false.
Proof. exact delivery_ok. Qed.
Print Assumptions nil_message_never_delivered.

Theorem policy_panic_unreachable :
  gen_policy_panic_present = true ->
  forall ops, call_panics gen_policy_cases (prun gen_policy_share gen_policy_share_set ops) = false.
Proof.
  exact (fun P => policy_sound gen_policy_share gen_policy_share_set gen_policy_cases
                    (eq_ind _ (fun b => policy_conforms b gen_policy_share gen_policy_share_set gen_policy_cases = true)
                            policy_table_ok _ P)).
Qed.
Print Assumptions policy_panic_unreachable.

Theorem policy_denylist_refuted :
  forall set cases, exists p, call_panics cases (prun ShareNotIn set [PRegister p; PRegister p]) = true.
Proof. exact policy_refuted_notin. Qed.
Print Assumptions policy_denylist_refuted.

(* ---- session details: lock discipline (lockset criterion) ---- *)

(* Over the regenerated inventory: the uses of a session's details that can
   overlap the writer (wamp.session.modify_details / an Authorizer, under the
   session's own lock) all hold that lock, hence no two accesses conflict,
   whatever goroutine the writer runs in.  What the lockset criterion does not
   see (accesses outside the inventory, the after-removal ordering through the
   realm goroutine) is sampled by the -race streams. *)
Theorem session_details_race_free :
  forall owner other g,
    race_free (accesses_of owner other gen_details_states
                 {| a_goroutine := g; a_write := true; a_locks := [owner] |}) = true.
Proof. exact (fun owner other g => details_discipline owner other gen_details_states g details_table_ok). Qed.
Print Assumptions session_details_race_free.

Theorem details_wrong_lock_refuted :
  forall owner other, owner <> other ->
    race_free [ {| a_goroutine := 0; a_write := true; a_locks := [owner] |};
                {| a_goroutine := 1; a_write := false; a_locks := locks_of owner other LSWrongLock |} ] = false.
Proof. exact wrong_lock_races. Qed.
Print Assumptions details_wrong_lock_refuted.

(* ---- the property, as far as the model carries it ---- *)

Theorem router_never_panics_partial :
  (forall m : message, read_sites gen_cfg gen_client_sites m <> RPanic) /\
  (forall t, run gen_close_paths init t <> CPanicCloseClosed /\ run gen_close_paths init t <> CPanicSendClosed) /\
  (forall t, (closes gen_close_paths init t <= 1)%nat) /\
  nil_may_be_delivered gen_sites = false /\
  (gen_policy_panic_present = true ->
   forall ops, call_panics gen_policy_cases (prun gen_policy_share gen_policy_share_set ops) = false).
Proof.
  exact (conj entry_never_panics (conj no_send_after_close (conj peer_closed_once
        (conj nil_message_never_delivered policy_panic_unreachable)))).
Qed.
Print Assumptions router_never_panics_partial.
