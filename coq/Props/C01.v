(** * C01 — Pub/Sub delivers each event to exactly the matching, eligible subscribers
    (broker side).

    Model: coq/Router/Broker.v (validated against /repo/router/broker.go and
    publishfilter.go by differential runs).  Proofs: Router/BrokerWf.v,
    BrokerPres.v, BrokerPublish.v, BrokerSub.v, BrokerFilter.v, BrokerRun.v.
    All statements quantify over ALL broker states / operation sequences
    (induction, no bounds).  Side hypothesis where SUBSCRIBE can create a
    subscription: [b_idgen b < max_idN] — fewer than 2^53 subscriptions were
    ever created in the realm (at 2^53 the id generator wraps to 1).

    Abstract relation: [holds_sig b r id t k] — session r holds the
    subscription with id [id], topic/pattern [t], policy kind [k];
    [matches k t topic] — exact: equal; prefix: [prefix_match]; wildcard:
    [wildcard_match]. *)
From Nexus Require Import Router.BrokerProofs Router.BrokerExamples.

(** ** The invariant *)

(** [broker_wf] read entry by entry: the five tables (and the history table)
    describe one relation. *)
Theorem C01_broker_wf_tables : forall b,
    broker_wf b <->
    (forall k, NoDup (map fst (b_map b k))) /\
    (forall k t id, In (t, id) (b_map b k) ->
       exists s, In (id, s) (b_subs b) /\ sub_id s = id /\ sub_topic s = t /\ kind s = k) /\
    NoDup (map fst (b_subs b)) /\
    (forall id s, In (id, s) (b_subs b) ->
       sub_id s = id /\ In (sub_topic s, id) (b_map b (kind s)) /\ NoDup (sub_subs s) /\
       (1 <= id <= b_idgen b)%N /\ (sub_subs s = [] -> In id (map fst (b_hist b)))) /\
    NoDup (map fst (b_sess b)) /\
    (forall sid ids, In (sid, ids) (b_sess b) -> ids <> [] /\ NoDup ids) /\
    (forall sid id, (exists ids, In (sid, ids) (b_sess b) /\ In id ids) <->
                    (exists s, In (id, s) (b_subs b) /\ In sid (sub_subs s))) /\
    NoDup (map fst (b_hist b)) /\
    (forall id, In id (map fst (b_hist b)) -> In id (map fst (b_subs b))).
Proof. exact broker_wf_tables. Qed.
Print Assumptions C01_broker_wf_tables.

Theorem C01_broker_wf_init : forall cfgs,
    (N.of_nat (List.length cfgs) <= max_idN)%N ->
    broker_wf (preinit_history empty_broker cfgs).
Proof. exact preinit_wf. Qed.
Print Assumptions C01_broker_wf_init.

Theorem C01_broker_wf_subscribe : forall cfg b pg sid req opts topic b' pg' o,
    broker_wf b -> (b_idgen b < max_idN)%N ->
    subscribe cfg b pg sid req opts topic = (b', pg', o) -> broker_wf b'.
Proof. exact subscribe_wf. Qed.
Print Assumptions C01_broker_wf_subscribe.

Theorem C01_broker_wf_unsubscribe : forall b pg sid req subid b' pg' o,
    broker_wf b -> unsubscribe b pg sid req subid = (b', pg', o) -> broker_wf b'.
Proof. exact unsubscribe_wf. Qed.
Print Assumptions C01_broker_wf_unsubscribe.

Theorem C01_broker_wf_remove_session : forall b pg sid b' pg' o,
    broker_wf b -> broker_remove_session b pg sid = (b', pg', o) -> broker_wf b'.
Proof. exact remove_session_wf. Qed.
Print Assumptions C01_broker_wf_remove_session.

Theorem C01_broker_wf_publish : forall cfg lookup now b pg pub req opts topic args kw b' pg' o,
    broker_wf b -> publish cfg lookup now b pg pub req opts topic args kw = (b', pg', o) -> broker_wf b'.
Proof. exact publish_wf. Qed.
Print Assumptions C01_broker_wf_publish.

(** for every list of broker operations applied from the initial broker *)
Theorem C01_broker_wf_reachable : forall cfg cfgs ops,
    (N.of_nat (List.length cfgs) + N.of_nat (List.length ops) <= max_idN)%N ->
    broker_wf (brun cfg (broker_init cfgs) ops).
Proof. exact reachable_wf. Qed.
Print Assumptions C01_broker_wf_reachable.

Example C01_ex_wf : broker_wf ex_b /\ (b_idgen ex_b < max_idN)%N /\ nget (b_sess ex_b) 11%N = Some [4%N; 3%N].
Proof. exact (conj ex_b_wf (conj ex_b_idgen ex_sess)). Qed.

(** ** PUBLISH *)

(** The output of an accepted PUBLISH is, with no repetition, exactly: the
    PUBLISHED (iff acknowledge) and one EVENT per (subscription s, holder r)
    with s matching the topic under its policy, r not the publisher unless
    exclude_me is false, r attached and allowed by the filter.  Each EVENT
    carries s's id, the fresh publication id pg+1 (the one in PUBLISHED), the
    arguments unchanged, and the details [ppt_part opts ++ event_details …
    (is_pattern (kind s)) …] (passthru keys, then topic / disclosure). *)
Theorem C01_publish_exact : forall cfg lookup now b pg pub req opts topic args kw b' pg' o,
    broker_wf b -> lookup_ok lookup ->
    valid_uri (c_strict cfg) "" topic = true /\
    publish_aborts cfg pub opts topic = false /\    (* no passthru-mode violation *)
    (opt_bool opts "disclose_me" = true -> c_disclose cfg = true) ->
    publish cfg lookup now b pg pub req opts topic args kw = (b', pg', o) ->
    pg' = (pg + 1)%N /\ NoDup o /\
    forall x, In x o <->
      (opt_bool opts "acknowledge" = true /\ x = (s_id pub, RPublished req (pg + 1))) \/
      (exists s r rs,
          ((nget (b_subs b) (sub_id s) = Some s /\ In r (sub_subs s)) /\
           matches (kind s) (sub_topic s) topic /\
           ~ (r = s_id pub /\ exclude_me_of opts = true) /\
           lookup r = Some rs /\ allowed (make_filter opts) r (s_details rs) = true) /\
          x = (s_id rs, REvent (sub_id s) (pg + 1)
                               (ppt_part opts ++
                                event_details topic (is_pattern (kind s)) (opt_bool opts "disclose_me") pub (Some rs))
                               args kw)).
Proof. exact publish_exact. Qed.
Print Assumptions C01_publish_exact.

(** the realm's lookup meets [lookup_ok] (the meta session carries the meta id) *)
Theorem C01_realm_lookup_ok : forall r, s_id (r_meta r) = meta_id -> lookup_ok (lookup r).
Proof. exact realm_lookup_ok. Qed.
Print Assumptions C01_realm_lookup_ok.

(** exactly once: distinct (subscription, recipient) pairs get distinct EVENTs *)
Theorem C01_event_for_inj : forall lookup b pub pg opts topic args kw s1 r1 rs1 s2 r2 rs2,
    core_wf b -> lookup_ok lookup ->
    receives lookup b pub opts topic s1 r1 rs1 -> receives lookup b pub opts topic s2 r2 rs2 ->
    event_for pub pg opts topic args kw s1 rs1 = event_for pub pg opts topic args kw s2 rs2 ->
    s1 = s2 /\ r1 = r2 /\ rs1 = rs2.
Proof. exact event_for_inj. Qed.
Print Assumptions C01_event_for_inj.

(** [topic] is in the details iff the policy is a pattern, and then it is the published topic *)
Theorem C01_event_topic : forall opts topic k disc pub recv,
    (dhas (ppt_part opts ++ event_details topic (is_pattern k) disc pub recv) "topic" = true <-> k <> MExact) /\
    dget (ppt_part opts ++ event_details topic (is_pattern k) disc pub recv) "topic" =
    (if is_pattern k then Some (vuri topic) else None).
Proof. exact (fun opts topic k disc pub recv => conj (event_dict_topic_iff opts topic k disc pub recv) (event_dict_topic opts topic (is_pattern k) disc pub recv)). Qed.
Print Assumptions C01_event_topic.

(** passthru mode: for k in ppt_scheme / ppt_serializer / ppt_cipher / ppt_keyid
    the details carry the publisher's option, as a string, exactly when the
    publication is in passthru mode; every other key is untouched by it *)
Theorem C01_event_ppt_details : forall opts topic st disc pub recv k,
    (In k ppt_keys ->
     dget (ppt_part opts ++ event_details topic st disc pub recv) k =
     if ppt_active opts
     then option_map vstr (match dget opts k with Some v => as_string v | None => None end) else None) /\
    (~ In k ppt_keys ->
     dget (ppt_part opts ++ event_details topic st disc pub recv) k = dget (event_details topic st disc pub recv) k).
Proof. exact (fun opts topic st disc pub recv k => conj (event_ppt_details opts topic st disc pub recv k) (event_dict_other opts topic st disc pub recv k)). Qed.
Print Assumptions C01_event_ppt_details.

(** a passthru-mode PUBLISH (valid topic) by a publisher that did not announce
    the feature: broker and id supply unchanged, the output is exactly the
    ABORT — no EVENT, no PUBLISHED, nothing stored *)
Theorem C01_publish_ppt_violation_aborts : forall cfg lookup now b pg pub req opts topic args kw,
    valid_uri (c_strict cfg) "" topic = true -> ppt_active opts = true ->
    sess_feature pub "publisher" "payload_passthru_mode" = false ->
    publish cfg lookup now b pg pub req opts topic args kw =
    (b, pg, [(s_id pub, RAbort [("message", vstr "<text>")] "wamp.error.protocol_violation")]).
Proof. exact publish_ppt_violation_aborts. Qed.
Print Assumptions C01_publish_ppt_violation_aborts.

Example C01_ex_ppt :
  (pub_accepted ex_cfg ex_ppt_pub ex_ppt_opts "a.b" /\ ppt_active ex_ppt_opts = true) /\
  snd (publish ex_cfg ex_lookup 5 ex_b 100 ex_ppt_pub 7 ex_ppt_opts "a.b" [vnat 1] []) =
  [(10, REvent 3 101 [("ppt_scheme", vstr "x_custom"); ("ppt_serializer", vstr "cbor")] [vnat 1] []);
   (11, REvent 3 101 [("ppt_scheme", vstr "x_custom"); ("ppt_serializer", vstr "cbor")] [vnat 1] []);
   (11, REvent 4 101 [("ppt_scheme", vstr "x_custom"); ("ppt_serializer", vstr "cbor"); ("topic", vuri "a.b")] [vnat 1] []);
   (12, REvent 5 101 [("ppt_scheme", vstr "x_custom"); ("ppt_serializer", vstr "cbor"); ("topic", vuri "a.b")] [vnat 1] [])]%N /\
  (valid_uri (c_strict ex_cfg) "" "a.b" = true /\ ppt_active ex_ppt_opts = true /\
   sess_feature ex_pub "publisher" f_ppt = false).
Proof. exact (conj ex_ppt_accepted (conj ex_ppt_publish ex_ppt_violation)). Qed.

Theorem C01_publish_invalid_uri : forall cfg lookup now b pg pub req opts topic args kw,
    valid_uri (c_strict cfg) "" topic = false ->
    publish cfg lookup now b pg pub req opts topic args kw =
    (b, pg, if opt_bool opts "acknowledge"
            then [(s_id pub, RError c_PUBLISH req [] e_invalid_uri [vstr "<text>"] [])] else []).
Proof. exact publish_invalid_uri. Qed.
Print Assumptions C01_publish_invalid_uri.

Example C01_ex_publish :
  broker_wf ex_b /\ lookup_ok ex_lookup /\ pub_accepted ex_cfg ex_pub ex_opts "a.b" /\
  snd (publish ex_cfg ex_lookup 5 ex_b 100 ex_pub 7 ex_opts "a.b" [vnat 1] []) =
  [(10, REvent 3 101 [] [vnat 1] []);
   (11, REvent 3 101 [("publisher", vid 10); ("publisher_authid", vstr "pubid")] [vnat 1] []);
   (11, REvent 4 101 [("topic", vuri "a.b"); ("publisher", vid 10); ("publisher_authid", vstr "pubid")] [vnat 1] []);
   (12, REvent 5 101 [("topic", vuri "a.b")] [vnat 1] []);
   (10, RPublished 7 101)]%N.
Proof. exact (conj ex_b_wf (conj ex_lookup_ok (conj ex_accepted ex_publish))). Qed.

(** ** The publish filter *)
Theorem C01_allowed_spec : forall f sid details,
    allowed f sid details = true <->
    ~ In sid (f_bl_ids f) /\
    (f_wl_ids f <> [] -> In sid (f_wl_ids f)) /\
    (forall attr vals, In (attr, vals) (f_bl f) ->
                       attr_of details attr = "" \/ ~ In (attr_of details attr) vals) /\
    (forall attr vals, In (attr, vals) (f_wl f) ->
                       attr_of details attr <> "" /\ In (attr_of details attr) vals).
Proof. exact allowed_spec. Qed.
Print Assumptions C01_allowed_spec.

(** ids go through [as_id]; out-of-range ids are dropped *)
Theorem C01_make_filter_ids : forall opts,
    (f_bl_ids (make_filter opts) = ids_of (dget opts "exclude") /\
     f_wl_ids (make_filter opts) = ids_of (dget opts "eligible") /\
     f_bl (make_filter opts) = attr_map "exclude_" opts /\
     f_wl (make_filter opts) = attr_map "eligible_" opts) /\
    (forall v i, In i (ids_of (Some v)) <-> exists l e, as_list v = Some l /\ In e l /\ as_id e = Some i) /\
    (forall v i, as_id v = Some i <->
                 exists k z, v = VInt k z /\ (0 < to_int64 k z <= max_id)%Z /\ i = Z.to_N (to_int64 k z)) /\
    (forall o i, In i (ids_of o) -> (1 <= i <= max_idN)%N).
Proof. exact (fun opts => conj (make_filter_ids opts) (conj ids_of_In (conj as_id_spec ids_of_range))). Qed.
Print Assumptions C01_make_filter_ids.

(** attribute maps: every entry comes from an option "prefix ++ attr" whose
    value is a list; non-strings and empty strings are skipped; a value list
    that is empty after that yields no filter; the (last) contributing entry
    is the filter *)
Theorem C01_make_filter_attrs :
    (forall prefix opts attr vals, sget (attr_map prefix opts) attr = Some vals ->
        exists k v, In (k, v) opts /\ contributes prefix k v = Some (attr, vals)) /\
    (forall prefix k v attr vals, contributes prefix k v = Some (attr, vals) ->
        vals <> [] /\ (forall s, In s vals -> s <> "") /\ strip_prefix prefix k = Some attr /\
        exists l, as_list v = Some l /\ vals = strings_of l) /\
    (forall l s, In s (strings_of l) <-> s <> "" /\ exists e, In e l /\ as_string e = Some s) /\
    (forall prefix opts attr,
        (forall k v vals, In (k, v) opts -> contributes prefix k v <> Some (attr, vals)) ->
        sget (attr_map prefix opts) attr = None) /\
    (forall prefix o1 k v o2 attr vals,
        contributes prefix k v = Some (attr, vals) ->
        (forall k' v' vals', In (k', v') o2 -> contributes prefix k' v' <> Some (attr, vals')) ->
        sget (attr_map prefix (o1 ++ (k, v) :: o2)) attr = Some vals).
Proof. exact (conj attr_map_sound (conj contributes_vals (conj strings_of_In (conj attr_map_none attr_map_last)))). Qed.
Print Assumptions C01_make_filter_attrs.

(** ** SUBSCRIBE / UNSUBSCRIBE *)

(** SUBSCRIBE answers SUBSCRIBED (the only message to the subscriber) with the
    id of the existing subscription for (topic, kind) — for a new holder and
    for a repeated request alike — otherwise with a fresh id greater than
    every existing one; exact effect on the holding relation. *)
Theorem C01_subscribe_id_stable : forall cfg b pg sid req opts topic b' pg' o,
    broker_wf b -> (b_idgen b < max_idN)%N ->
    valid_uri (c_strict cfg) (opt_string opts "match") topic = true ->
    subscribe cfg b pg sid req opts topic = (b', pg', o) ->
    let k := mkind_of (opt_string opts "match") in
    exists id rest,
      o = (sid, RSubscribed req id) :: rest /\ (forall x, In x rest -> fst x <> sid) /\
      (forall id0, sub_sig b id0 topic k -> id = id0) /\
      ((forall id0, ~ sub_sig b id0 topic k) ->
       id = (b_idgen b + 1)%N /\ forall id' s', nget (b_subs b) id' = Some s' -> (id' < id)%N) /\
      (forall r id' t' k', holds_sig b' r id' t' k' <->
                           holds_sig b r id' t' k' \/ (r = sid /\ id' = id /\ t' = topic /\ k' = k)).
Proof. exact subscribe_effect. Qed.
Print Assumptions C01_subscribe_id_stable.

Example C01_ex_subscribe :
  broker_wf ex_b /\ (b_idgen ex_b < max_idN)%N /\
  valid_uri (c_strict ex_cfg) (opt_string [] "match") "a.b" = true /\
  sub_sig ex_b 3 "a.b" MExact /\ (forall id0, ~ sub_sig ex_b id0 "zzz" MExact).
Proof. exact (conj ex_b_wf (conj ex_b_idgen (conj eq_refl (conj ex_sub_sig ex_no_sub_sig)))). Qed.

(** errors: the only output is the ERROR and the broker is unchanged *)
Theorem C01_sub_errors :
    (forall cfg b pg sid req opts topic,
        valid_uri (c_strict cfg) (opt_string opts "match") topic = false ->
        subscribe cfg b pg sid req opts topic =
        (b, pg, [(sid, RError c_SUBSCRIBE req [] e_invalid_uri [vstr "<text>"] [])])) /\
    (forall b pg sid req subid,
        ~ (exists s, nget (b_subs b) subid = Some s /\ In sid (sub_subs s)) ->
        unsubscribe b pg sid req subid =
        (b, pg, [(sid, RError c_UNSUBSCRIBE req [] e_no_such_subscription [] [])])).
Proof. exact (conj subscribe_invalid_uri unsubscribe_no_such). Qed.
Print Assumptions C01_sub_errors.

Example C01_ex_unsub_error : ~ sub_has (b_subs ex_b) 4 10 /\ sub_has (b_subs ex_b) 4 11.
Proof. exact (conj ex_not_holder ex_holder). Qed.

(** a holder's UNSUBSCRIBE: UNSUBSCRIBED is the only message to it; exact effect *)
Theorem C01_unsubscribe_effect :
    (forall b pg sid req subid b' pg' o,
        core_wf b -> unsubscribe b pg sid req subid = (b', pg', o) ->
        forall r id t k, holds_sig b' r id t k <-> holds_sig b r id t k /\ ~ (r = sid /\ id = subid)) /\
    (forall b pg sid req subid b' pg' o,
        sub_has (b_subs b) subid sid -> unsubscribe b pg sid req subid = (b', pg', o) ->
        exists rest, o = (sid, RUnsubscribed req) :: rest /\ forall x, In x rest -> fst x <> sid).
Proof. exact (conj unsubscribe_effect unsubscribe_ok). Qed.
Print Assumptions C01_unsubscribe_effect.

(** frames: the holdings of every other session are unchanged *)
Theorem C01_subscribe_frame : forall cfg b pg sid req opts topic b' pg' o,
    broker_wf b -> (b_idgen b < max_idN)%N ->
    subscribe cfg b pg sid req opts topic = (b', pg', o) ->
    forall r, r <> sid -> forall id t k, holds_sig b' r id t k <-> holds_sig b r id t k.
Proof. exact subscribe_frame. Qed.
Print Assumptions C01_subscribe_frame.

Theorem C01_unsubscribe_frame : forall b pg sid req subid b' pg' o,
    core_wf b -> unsubscribe b pg sid req subid = (b', pg', o) ->
    forall r, r <> sid -> forall id t k, holds_sig b' r id t k <-> holds_sig b r id t k.
Proof. exact unsubscribe_frame. Qed.
Print Assumptions C01_unsubscribe_frame.

(** a departing session loses all its holdings, nobody else any; nothing is sent to it *)
Theorem C01_remove_session_effect : forall b pg sid b' pg' o,
    broker_wf b -> broker_remove_session b pg sid = (b', pg', o) ->
    (forall r id t k, holds_sig b' r id t k <-> holds_sig b r id t k /\ r <> sid) /\
    (forall x, In x o -> fst x <> sid).
Proof. exact remove_session_effect. Qed.
Print Assumptions C01_remove_session_effect.

(** ... and in particular what PUBLISH delivers to the sessions in [P] depends
    only on the holdings of the sessions in [P] (take P r := r <> sid and
    b2 := the broker after sid's SUBSCRIBE / UNSUBSCRIBE / departure) *)
Theorem C01_publish_frame : forall cfg lookup now now' b1 b2 pg pub req opts topic args kw b1' pg1 o1 b2' pg2 o2 (P : N -> Prop),
    broker_wf b1 -> broker_wf b2 -> lookup_ok lookup -> pub_accepted cfg pub opts topic ->
    (forall r, P r -> forall id t k, holds_sig b1 r id t k <-> holds_sig b2 r id t k) ->
    publish cfg lookup now b1 pg pub req opts topic args kw = (b1', pg1, o1) ->
    publish cfg lookup now' b2 pg pub req opts topic args kw = (b2', pg2, o2) ->
    forall x, P (fst x) -> (In x o1 <-> In x o2).
Proof. exact publish_depends_on_holdings. Qed.
Print Assumptions C01_publish_frame.

Example C01_ex_frame : holds_sig ex_b 11 4 "a" MPrefix /\ holds_sig ex_b 10 3 "a.b" MExact.
Proof. exact (conj ex_holds_11 ex_holds_10). Qed.
