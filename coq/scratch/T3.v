From Nexus Require Import Safety.Values Safety.Sites.
