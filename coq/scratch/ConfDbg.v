From Coq Require Import String List NArith Bool.
From Nexus Require Import Safety.Values Safety.Accessors Safety.Sites Safety.Close Safety.Policy.
From Nexus Require Import gen.GenC04Sites.
Import ListNotations.
Definition gen_policy_ok : bool :=
  policy_conforms gen_policy_panic_present gen_policy_share gen_policy_share_set gen_policy_cases.
Definition gen_cfg : gcfg :=
  {| nil_possible := nil_may_be_delivered gen_sites; policy_ok := gen_policy_ok |}.
Eval vm_compute in (map (fun s => (s_file s, s_line s, s_kind s)) (filter (fun s => negb (site_safe gen_cfg s)) (client_sites gen_sites))).
