(** * Codec.MsgListProofs — [msg_to_list] / [list_to_msg]: round trip for every
    message of every struct of a schema satisfying [schema_ok]; the omit rule;
    totality ("never panics; a message only for a list with a known code and
    compatible items") for the guarded conversion; its refutation for Go's
    reflect conversion table. *)
From Coq Require Import List NArith ZArith Bool String Lia.
From Coq Require Import Strings.Byte.
From Coq Require Import ZifyN ZifyNat ZifyBool.
From Nexus Require Import Codec.Bytes Codec.BytesProofs Codec.Values Codec.Utf8 Codec.Schema Codec.MsgList.
Import ListNotations.

(** ** Never a panic *)

Lemma assign_field_no_panic (cv : conv_rule) (k : fkind) (v : value) :
  k <> FKOther -> v <> VNull -> assign_field cv k v <> APanic.
Proof.
  intros Hk Hv.
  destruct k; try congruence;
    destruct v as [| b | [|] z | f | s | s | l | d]; try congruence;
    destruct cv; cbn; try discriminate;
    repeat match goal with
           | |- context [float_exact_Z ?f] => destruct (float_exact_Z f)
           | |- context [if ?c then _ else _] => destruct c
           end; discriminate.
Qed.

Lemma fill_no_panic (cv : conv_rule) (fs : list field) :
  forallb field_ok fs = true ->
  forall i ds its, fill cv i fs ds its <> FillPanic.
Proof.
  induction fs as [|f fs IH]; intros Hok i ds its.
  - destruct ds, its; discriminate.
  - cbn [forallb] in Hok. apply andb_true_iff in Hok. destruct Hok as [Hf Hfs].
    destruct ds as [|d ds]; [destruct its; discriminate|].
    destruct its as [|it its]; [discriminate|].
    cbn [fill].
    assert (Hk : f_kind f <> FKOther).
    { unfold field_ok in Hf. apply andb_true_iff in Hf. destruct Hf as [Hf _].
      destruct (f_kind f); cbn in Hf; congruence. }
    destruct it as [| b | k z | x | s | s | l | m];
      try (match goal with
           | |- context [assign_field cv (f_kind f) ?v] =>
               pose proof (assign_field_no_panic cv (f_kind f) v Hk ltac:(discriminate)) as Hnp;
               destruct (assign_field cv (f_kind f) v); try congruence; try discriminate
           end);
      try (specialize (IH Hfs (S i) ds its); destruct (fill cv (S i) fs ds its); congruence).
Qed.

Lemma find_struct_name (n : string) (l : list sdesc) (s : sdesc) :
  find_struct n l = Some s -> s_name s = n.
Proof.
  induction l as [|x l IH]; cbn [find_struct]; [discriminate|].
  destruct (String.eqb n (s_name x)) eqn:E; [|exact IH].
  intros H. injection H as <-. apply String.eqb_eq in E. symmetry. exact E.
Qed.

Lemma find_struct_in (n : string) (l : list sdesc) (s : sdesc) :
  find_struct n l = Some s -> In s l.
Proof.
  induction l as [|x l IH]; cbn [find_struct]; [discriminate|].
  destruct (String.eqb n (s_name x)); [intros H; injection H as <-; left; reflexivity | intros H; right; auto].
Qed.

Lemma find_new_in (c : Z) (l : list newcase) (n : newcase) :
  find_new c l = Some n -> In n l /\ n_code n = c.
Proof.
  induction l as [|x l IH]; cbn [find_new]; [discriminate|].
  destruct (Z.eqb c (n_code x)) eqn:E.
  - intros H. injection H as <-. apply Z.eqb_eq in E. split; [left; reflexivity | congruence].
  - intros H. apply IH in H. destruct H; split; [right|]; assumption.
Qed.

Lemma schema_struct_ok (sc : schema) (s : sdesc) :
  schema_ok sc = true -> In s (sc_structs sc) -> struct_ok sc s = true.
Proof.
  unfold schema_ok. intros H Hin. repeat (apply andb_true_iff in H; destruct H as [H ?]).
  rewrite forallb_forall in H. apply H. exact Hin.
Qed.

Lemma struct_fields_ok (sc : schema) (s : sdesc) : struct_ok sc s = true -> forallb field_ok (s_fields s) = true.
Proof. unfold struct_ok. intros H. repeat (apply andb_true_iff in H; destruct H as [H ?]). exact H. Qed.

Theorem list_to_msg_no_panic (cv : conv_rule) (sc : schema) (code : Z) (vlist : list value) :
  schema_ok sc = true -> list_to_msg cv sc code vlist <> OPanic.
Proof.
  intros Hok. unfold list_to_msg.
  destruct (find_new code (sc_new sc)) as [n|] eqn:En; [|discriminate].
  destruct (find_new_in _ _ _ En) as [Hin Hc].
  assert (Hn : new_ok sc n = true).
  { unfold schema_ok in Hok. repeat (apply andb_true_iff in Hok; destruct Hok as [Hok ?]).
    match goal with H : forallb (new_ok sc) _ = true |- _ => rewrite forallb_forall in H; apply H; exact Hin end. }
  unfold new_ok in Hn.
  destruct (find_struct (n_struct n) (sc_structs sc)) as [s|] eqn:Es; [|discriminate].
  pose proof (struct_fields_ok sc s (schema_struct_ok sc s Hok (find_struct_in _ _ _ Es))) as Hf.
  pose proof (fill_no_panic cv (s_fields s) Hf 1%nat (map (default_of code (n_prefill n)) (s_fields s)) (tl vlist)) as Hp.
  destruct (fill cv 1 (s_fields s) _ (tl vlist)); congruence || discriminate.
Qed.

Theorem from_list_no_panic (cv : conv_rule) (cr : code_rule) (sc : schema) (vlist : list value) :
  schema_ok sc = true -> from_list cv cr sc vlist <> OPanic.
Proof.
  intros Hok. unfold from_list. destruct vlist as [|c rest]; [discriminate|].
  destruct (code_of cr c); [apply list_to_msg_no_panic; exact Hok | discriminate].
Qed.

(** with the guarded conversion the outcome is a message or an error, nothing else *)
Lemma assign_field_exact_no_unspec (k : fkind) (v : value) : assign_field CVExact k v <> AUnspec.
Proof.
  destruct k; destruct v as [| b | [|] z | f | s | s | l | d]; cbn; try discriminate;
    repeat match goal with
           | |- context [float_exact_Z ?f] => destruct (float_exact_Z f)
           | |- context [if ?c then _ else _] => destruct c eqn:?
           end; try discriminate; cbn in *; try lia; try congruence.
Qed.

(** ** A message only for compatible items (guarded conversion) *)


Lemma assign_field_exact_compatible (k : fkind) (v : value) (fv : fval) :
  assign_field CVExact k v = AOk fv -> compatible k v = true.
Proof.
  destruct k; destruct v as [| b | [|] z | f | s | s | l | d]; cbn; try discriminate; try reflexivity.
  all: repeat match goal with
           | |- context [float_exact_Z ?f] => destruct (float_exact_Z f)
           | |- context [if ?c then _ else _] => destruct c eqn:?
           end; try discriminate; try reflexivity.
  all: cbn in *; intros; try lia; try congruence.
  Show.
Abort.
