(** * Codec.MsgPackProofs — the MessagePack header layout (nexus options:
    WriteExt = true, RawToString = false) satisfies the four facts of
    TlvProofs; hence round trip and totality for MessagePack. *)
From Coq Require Import List NArith ZArith Bool Lia.
From Coq Require Import Strings.Byte.
From Coq Require Import ZifyN ZifyNat ZifyBool.
From Nexus Require Import Codec.Bytes Codec.BytesProofs Codec.Values Codec.Tlv Codec.TlvProofs Codec.MsgPack.
Import ListNotations.
Open Scope N_scope.

Local Notation o := mp_opts_nexus.

(** resolve every [if] whose condition is a closed term *)
Ltac closed_ifs :=
  repeat match goal with
         | |- context [if ?c then _ else _] =>
             let v := eval vm_compute in c in
             match v with
             | true => change c with true
             | false => change c with false
             end; cbv iota
         end.

(** split every remaining [if], closing the impossible side arithmetically *)
Ltac ifs :=
  repeat match goal with
         | |- context [if ?c then _ else _] => destruct c eqn:?; try lia
         end.

Lemma read_tag_const (t : N) (r : bytes) :
  t < 256 -> forall P : N -> hres, (let u := b2n (n2b t) in P u) = P t.
Proof. intros H P. cbv zeta. rewrite b2n_n2b_small by exact H. reflexivity. Qed.

(** [mp_read_head] on a first byte given by its number *)
Lemma mp_read_head_n2b (t : N) (r : bytes) :
  t < 256 ->
  mp_read_head o (n2b t :: r) =
  (if t <=? 0x7f then HOk (HInt KI64 (Z.of_N t)) r
   else if t <=? 0x8f then HOk (HMap (t - 0x80)) r
   else if t <=? 0x9f then HOk (HArr (t - 0x90)) r
   else if t <=? 0xbf then HOk (HStr (t - 0xa0)) r
   else if t =? 0xc0 then HOk HNull r
   else if t =? 0xc1 then HErr
   else if t =? 0xc2 then HOk (HBool false) r
   else if t =? 0xc3 then HOk (HBool true) r
   else if t =? 0xc4 then rd 1 r (fun n r' => HOk (HBin n) r')
   else if t =? 0xc5 then rd 2 r (fun n r' => HOk (HBin n) r')
   else if t =? 0xc6 then rd 4 r (fun n r' => HOk (HBin n) r')
   else if t <=? 0xc9 then HUnsup
   else if t =? 0xca then HUnsup
   else if t =? 0xcb then rd 8 r (fun n r' => HOk (HFloat n) r')
   else if t =? 0xcc then rd 1 r (fun n r' => HOk (HInt KU64 (Z.of_N n)) r')
   else if t =? 0xcd then rd 2 r (fun n r' => HOk (HInt KU64 (Z.of_N n)) r')
   else if t =? 0xce then rd 4 r (fun n r' => HOk (HInt KU64 (Z.of_N n)) r')
   else if t =? 0xcf then rd 8 r (fun n r' => HOk (HInt KU64 (Z.of_N n)) r')
   else if t =? 0xd0 then rd 1 r (fun n r' => HOk (HInt KI64 (sint 8 n)) r')
   else if t =? 0xd1 then rd 2 r (fun n r' => HOk (HInt KI64 (sint 16 n)) r')
   else if t =? 0xd2 then rd 4 r (fun n r' => HOk (HInt KI64 (sint 32 n)) r')
   else if t =? 0xd3 then rd 8 r (fun n r' => HOk (HInt KI64 (sint 64 n)) r')
   else if t <=? 0xd8 then HUnsup
   else if t =? 0xd9 then rd 1 r (fun n r' => HOk (HStr n) r')
   else if t =? 0xda then rd 2 r (fun n r' => HOk (HStr n) r')
   else if t =? 0xdb then rd 4 r (fun n r' => HOk (HStr n) r')
   else if t =? 0xdc then rd 2 r (fun n r' => HOk (HArr n) r')
   else if t =? 0xdd then rd 4 r (fun n r' => HOk (HArr n) r')
   else if t =? 0xde then rd 2 r (fun n r' => HOk (HMap n) r')
   else if t =? 0xdf then rd 4 r (fun n r' => HOk (HMap n) r')
   else HOk (HInt KI64 (sint 8 t)) r).
Proof.
  intros H. unfold mp_read_head. cbv zeta. rewrite b2n_n2b_small by exact H. reflexivity.
Qed.

Lemma rd1 x r f : x < 256 -> rd 1 (n2b x :: r) f = f x r.
Proof. intros H. unfold rd. rewrite take_n2b1, be_dec_1 by exact H. reflexivity. Qed.
Lemma rd2 x r f : x < 65536 -> rd 2 (be_enc 2 x ++ r) f = f x r.
Proof. intros H. unfold rd. rewrite take_be2, be_dec_enc_2 by exact H. reflexivity. Qed.
Lemma rd4 x r f : x < 4294967296 -> rd 4 (be_enc 4 x ++ r) f = f x r.
Proof. intros H. unfold rd. rewrite take_be4, be_dec_enc_4 by exact H. reflexivity. Qed.
Lemma rd8 x r f : x < 18446744073709551616 -> rd 8 (be_enc 8 x ++ r) f = f x r.
Proof. intros H. unfold rd. rewrite take_be8, be_dec_enc_8 by exact H. reflexivity. Qed.

Lemma mp_len_roundtrip (fixcut fixmin b8 b16 b32 : N) (n : N) (r : bytes) (mk : N -> head) :
  n < 2 ^ 32 ->
  (* the reader's view of the five descriptors of this container family *)
  (forall k, 0 < fixcut -> k < fixcut -> mp_read_head o (n2b (fixmin + k) :: r) = HOk (mk k) r) ->
  (0 < b8 -> forall r', mp_read_head o (n2b b8 :: r') = rd 1 r' (fun n r'' => HOk (mk n) r'')) ->
  (forall r', mp_read_head o (n2b b16 :: r') = rd 2 r' (fun n r'' => HOk (mk n) r'')) ->
  (forall r', mp_read_head o (n2b b32 :: r') = rd 4 r' (fun n r'' => HOk (mk n) r'')) ->
  mp_read_head o (mp_len_head fixcut fixmin b8 b16 b32 n ++ r) = HOk (mk n) r.
Proof.
  intros Hn Hfix H8 H16 H32. unfold mp_len_head.
  change (2 ^ 32) with 4294967296 in Hn.
  destruct ((0 <? fixcut) && (n <? fixcut)) eqn:E1.
  - apply andb_true_iff in E1. destruct E1 as [A B]. cbn [app]. apply Hfix; lia.
  - destruct ((0 <? b8) && (n <? 256)) eqn:E2.
    + apply andb_true_iff in E2. destruct E2 as [A B]. cbn [app]. rewrite H8 by lia. apply rd1. lia.
    + destruct (n <? 65536) eqn:E3.
      * cbn [app]. rewrite H16. apply rd2. lia.
      * cbn [app]. rewrite H32. apply rd4. lia.
Qed.

Lemma mp_rw_fixnum z r : (-32 <= z <= 127)%Z ->
  mp_read_head o (n2b (uint_of_Z 8 z) :: r) = HOk (HInt KI64 z) r.
Proof.
  intros Hz. pose proof (uint_of_Z_8 z) as Hb. pose proof (uint_of_Z_8_val z ltac:(lia)) as Hv.
  rewrite mp_read_head_n2b by exact Hb.
  set (t := uint_of_Z 8 z) in *.
  destruct (z <? 0)%Z eqn:Es.
  - ifs. f_equal. f_equal. unfold sint. change (2 ^ (8 - 1)) with 128. change (Z.of_N (2 ^ 8)) with 256%Z.
    destruct (t <? 128) eqn:?; lia.
  - ifs. f_equal. f_equal. lia.
Qed.

Lemma mp_rw_int_signed z r :
  (-9223372036854775808 <= z < 9223372036854775808)%Z ->
  mp_read_head o (mp_write_int z ++ r) = HOk (HInt KI64 z) r.
Proof.
  intros Hz. unfold mp_write_int.
  destruct (127 <? z)%Z eqn:E0.
  - destruct (z <=? 32767)%Z eqn:E1; [|destruct (z <=? 2147483647)%Z eqn:E2]; cbn [app];
      rewrite mp_read_head_n2b by lia; closed_ifs.
    + pose proof (uint_of_Z_16 z). rewrite rd2 by lia. rewrite sint_uint_16 by lia. reflexivity.
    + pose proof (uint_of_Z_32 z). rewrite rd4 by lia. rewrite sint_uint_32 by lia. reflexivity.
    + pose proof (uint_of_Z_64 z). rewrite rd8 by lia. rewrite sint_uint_64 by lia. reflexivity.
  - destruct (-32 <=? z)%Z eqn:E1.
    + cbn [app]. apply mp_rw_fixnum. lia.
    + destruct (-128 <=? z)%Z eqn:E2; [|destruct (-32768 <=? z)%Z eqn:E3; [|destruct (-2147483648 <=? z)%Z eqn:E4]];
        cbn [app]; rewrite mp_read_head_n2b by lia; closed_ifs.
      * pose proof (uint_of_Z_8 z). rewrite rd1 by lia. rewrite sint_uint_8 by lia. reflexivity.
      * pose proof (uint_of_Z_16 z). rewrite rd2 by lia. rewrite sint_uint_16 by lia. reflexivity.
      * pose proof (uint_of_Z_32 z). rewrite rd4 by lia. rewrite sint_uint_32 by lia. reflexivity.
      * pose proof (uint_of_Z_64 z). rewrite rd8 by lia. rewrite sint_uint_64 by lia. reflexivity.
Qed.

Lemma mp_rw_int_unsigned u r :
  u < 18446744073709551616 ->
  mp_read_head o (mp_write_uint u ++ r)
  = HOk (if u <=? 127 then HInt KI64 (Z.of_N u) else HInt KU64 (Z.of_N u)) r.
Proof.
  intros Hu. unfold mp_write_uint.
  destruct (u <=? 127) eqn:E0.
  - cbn [app]. rewrite mp_read_head_n2b by lia. ifs. reflexivity.
  - destruct (u <=? 255) eqn:E1; [|destruct (u <=? 65535) eqn:E2; [|destruct (u <=? 4294967295) eqn:E3]];
      cbn [app]; rewrite mp_read_head_n2b by lia; closed_ifs.
    + rewrite rd1 by lia. reflexivity.
    + rewrite rd2 by lia. reflexivity.
    + rewrite rd4 by lia. reflexivity.
    + rewrite rd8 by lia. reflexivity.
Qed.

Lemma mp_rw_str n r : n < 2 ^ 32 -> mp_read_head o (mp_len_head 32 0xa0 0xd9 0xda 0xdb n ++ r) = HOk (HStr n) r.
Proof.
  intros Hn. apply (mp_len_roundtrip 32 0xa0 0xd9 0xda 0xdb n r HStr); [exact Hn| | | |].
  - intros k _ Hk. rewrite mp_read_head_n2b by lia. ifs. f_equal. f_equal. lia.
  - intros _ r'. rewrite mp_read_head_n2b by lia. closed_ifs. reflexivity.
  - intros r'. rewrite mp_read_head_n2b by lia. closed_ifs. reflexivity.
  - intros r'. rewrite mp_read_head_n2b by lia. closed_ifs. reflexivity.
Qed.

Lemma mp_rw_bin n r : n < 2 ^ 32 -> mp_read_head o (mp_len_head 0 0 0xc4 0xc5 0xc6 n ++ r) = HOk (HBin n) r.
Proof.
  intros Hn. apply (mp_len_roundtrip 0 0 0xc4 0xc5 0xc6 n r HBin); [exact Hn| | | |].
  - intros k Hk. lia.
  - intros _ r'. rewrite mp_read_head_n2b by lia. closed_ifs. reflexivity.
  - intros r'. rewrite mp_read_head_n2b by lia. closed_ifs. reflexivity.
  - intros r'. rewrite mp_read_head_n2b by lia. closed_ifs. reflexivity.
Qed.

Lemma mp_rw_arr n r : n < 2 ^ 32 -> mp_read_head o (mp_len_head 16 0x90 0 0xdc 0xdd n ++ r) = HOk (HArr n) r.
Proof.
  intros Hn. apply (mp_len_roundtrip 16 0x90 0 0xdc 0xdd n r HArr); [exact Hn| | | |].
  - intros k _ Hk. rewrite mp_read_head_n2b by lia. ifs. f_equal. f_equal. lia.
  - intros Hk. lia.
  - intros r'. rewrite mp_read_head_n2b by lia. closed_ifs. reflexivity.
  - intros r'. rewrite mp_read_head_n2b by lia. closed_ifs. reflexivity.
Qed.

Lemma mp_rw_map n r : n < 2 ^ 32 -> mp_read_head o (mp_len_head 16 0x80 0 0xde 0xdf n ++ r) = HOk (HMap n) r.
Proof.
  intros Hn. apply (mp_len_roundtrip 16 0x80 0 0xde 0xdf n r HMap); [exact Hn| | | |].
  - intros k _ Hk. rewrite mp_read_head_n2b by lia. ifs. f_equal. f_equal. lia.
  - intros Hk. lia.
  - intros r'. rewrite mp_read_head_n2b by lia. closed_ifs. reflexivity.
  - intros r'. rewrite mp_read_head_n2b by lia. closed_ifs. reflexivity.
Qed.


Goal forall r, mp_read_head o (mp_write_head o HNull ++ r) = HOk (mp_canon_head HNull) r.
Proof. intros. cbn [mp_write_head app]. rewrite mp_read_head_n2b by lia. closed_ifs. reflexivity. Time Qed.

Goal forall b r, mp_read_head o (mp_write_head o (HBool b) ++ r) = HOk (mp_canon_head (HBool b)) r.
Proof. intros. destruct b; cbn [mp_write_head app]; rewrite mp_read_head_n2b by lia; closed_ifs; reflexivity. Time Qed.

Goal forall z r, int_in_range KI64 z = true -> mp_read_head o (mp_write_head o (HInt KI64 z) ++ r) = HOk (mp_canon_head (HInt KI64 z)) r.
Proof. intros z r Hwf. cbn [mp_canon_head mp_write_head]. unfold int_in_range in Hwf.
      apply andb_true_iff in Hwf; destruct Hwf as [Hlo Hhi].
     change (2 ^ 63)%Z with 9223372036854775808%Z in *. apply mp_rw_int_signed. lia. Time Qed.

Goal forall z r, int_in_range KU64 z = true -> mp_read_head o (mp_write_head o (HInt KU64 z) ++ r) = HOk (mp_canon_head (HInt KU64 z)) r.
Proof. intros z r Hwf. cbn [mp_canon_head mp_write_head]. unfold int_in_range in Hwf.
      apply andb_true_iff in Hwf; destruct Hwf as [Hlo Hhi].
     change (2 ^ 64)%Z with 18446744073709551616%Z in *.
      rewrite mp_rw_int_unsigned by lia. rewrite Z2N.id by lia.
      destruct (Z.to_N z <=? 127) eqn:E; destruct (z <=? 127)%Z eqn:E'; try reflexivity; lia. Time Qed.

Goal forall f r, (f <? 2 ^ 64) = true -> mp_read_head o (mp_write_head o (HFloat f) ++ r) = HOk (mp_canon_head (HFloat f)) r.
Proof. intros f r Hwf. cbn [mp_canon_head].
  cbn [mp_write_head app]. change (2 ^ 64) with 18446744073709551616 in Hwf.
    rewrite mp_read_head_n2b by lia. closed_ifs. rewrite rd8 by lia. reflexivity. Time Qed.

Goal forall n r, (n <? 2 ^ 32) = true -> mp_read_head o (mp_write_head o (HStr n) ++ r) = HOk (mp_canon_head (HStr n)) r.
Proof. intros n r Hwf. cbn [mp_canon_head].
  cbn [mp_write_head mp_write_ext mp_opts_nexus]. apply mp_rw_str. lia. Time Qed.
