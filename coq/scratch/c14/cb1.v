(** * Codec.CborProofs — the CBOR header layout satisfies the facts of
    TlvProofs; hence round trip and totality for CBOR. *)
From Coq Require Import List NArith ZArith Bool Lia.
From Coq Require Import Strings.Byte.
From Coq Require Import ZifyN ZifyNat ZifyBool.
From Nexus Require Import Codec.Bytes Codec.BytesProofs Codec.Values Codec.Tlv Codec.TlvProofs Codec.Cbor.
Import ListNotations.
Open Scope N_scope.

Ltac Zify.zify_post_hook ::= Z.div_mod_to_equations.

Ltac closed_ifs :=
  repeat match goal with
         | |- context [if ?c then _ else _] =>
             let v := eval vm_compute in c in
             match v with
             | true => change c with true
             | false => change c with false
             end; cbv iota
         end.

Ltac ifs :=
  repeat match goal with
         | |- context [if ?c then _ else _] => destruct c eqn:?; try lia
         end.

(** what [cb_read_head] does once the argument [n] of a header of major type
    [major] (0..5) is known *)
Definition cb_after (major n : N) (r' : bytes) : hres :=
  if major =? 0 then HOk (HInt KU64 (Z.of_N n)) r'
  else if major =? 1 then
    if n <? 2 ^ 63 then HOk (HInt KI64 (-1 - Z.of_N n)) r' else HUnsup
  else if 2 ^ 63 <=? n then HUnsup
  else if major =? 2 then HOk (HBin n) r'
  else if major =? 3 then HOk (HStr n) r'
  else if major =? 4 then HOk (HArr n) r'
  else HOk (HMap n) r'.

Lemma cb_read_head_low (t : N) (r : bytes) :
  t < 192 ->
  cb_read_head (n2b t :: r) =
  match cb_read_arg (t mod 32) r with
  | AErr => HErr
  | AIndef => if t / 32 <=? 1 then HErr else HUnsup
  | AOk n r' => cb_after (t / 32) n r'
  end.
Proof.
  intros H. unfold cb_read_head. cbv zeta. rewrite b2n_n2b_small by lia.
  destruct (t / 32 =? 7) eqn:E7; [lia|]. destruct (t / 32 =? 6) eqn:E6; [lia|]. reflexivity.
Qed.

Lemma cb_arg1 x r : x < 256 -> cb_read_arg 24 (n2b x :: r) = AOk x r.
Proof.
  intros H. unfold cb_read_arg. closed_ifs. rewrite take_n2b1, be_dec_1 by exact H. reflexivity.
Qed.
Lemma cb_arg2 x r : x < 65536 -> cb_read_arg 25 (be_enc 2 x ++ r) = AOk x r.
Proof.
  intros H. unfold cb_read_arg. closed_ifs. rewrite take_be2, be_dec_enc_2 by exact H. reflexivity.
Qed.
Lemma cb_arg4 x r : x < 4294967296 -> cb_read_arg 26 (be_enc 4 x ++ r) = AOk x r.
Proof.
  intros H. unfold cb_read_arg. closed_ifs. rewrite take_be4, be_dec_enc_4 by exact H. reflexivity.
Qed.
Lemma cb_arg8 x r : x < 18446744073709551616 -> cb_read_arg 27 (be_enc 8 x ++ r) = AOk x r.
Proof.
  intros H. unfold cb_read_arg. closed_ifs. rewrite take_be8, be_dec_enc_8 by exact H. reflexivity.
Qed.

Lemma cb_read_uint (m v : N) (r : bytes) :
  m <= 5 -> v < 18446744073709551616 ->
  cb_read_head (cb_uint (32 * m) v ++ r) = cb_after m v r.
Proof.
  intros Hm Hv. unfold cb_uint.
  destruct (v <=? 23) eqn:E0; [|destruct (v <=? 255) eqn:E1; [|destruct (v <=? 65535) eqn:E2; [|destruct (v <=? 4294967295) eqn:E3]]];
    cbn [app]; rewrite cb_read_head_low by lia.
  - replace ((32 * m + v) mod 32) with v by lia. replace ((32 * m + v) / 32) with m by lia.
    unfold cb_read_arg. rewrite E0. reflexivity.
  - replace ((32 * m + 24) mod 32) with 24 by lia. replace ((32 * m + 24) / 32) with m by lia.
    rewrite cb_arg1 by lia. reflexivity.
  - replace ((32 * m + 25) mod 32) with 25 by lia. replace ((32 * m + 25) / 32) with m by lia.
    rewrite cb_arg2 by lia. reflexivity.
  - replace ((32 * m + 26) mod 32) with 26 by lia. replace ((32 * m + 26) / 32) with m by lia.
    rewrite cb_arg4 by lia. reflexivity.
  - replace ((32 * m + 27) mod 32) with 27 by lia. replace ((32 * m + 27) / 32) with m by lia.
    rewrite cb_arg8 by lia. reflexivity.
Qed.

Lemma cb_rw_len (m n : N) (r : bytes) (mk : N -> head) :
  2 <= m <= 5 -> n < 2 ^ 63 ->
  (forall r', cb_after m n r' = HOk (mk n) r') ->
  cb_read_head (cb_uint (32 * m) n ++ r) = HOk (mk n) r.
Proof.
  intros Hm Hn Hk. change (2 ^ 63) with 9223372036854775808 in Hn.
  rewrite cb_read_uint by lia. apply Hk.
Qed.

Lemma cb_after_len (m n : N) (r : bytes) :
  2 <= m <= 5 -> n < 2 ^ 63 ->
  cb_after m n r = HOk (if m =? 2 then HBin n else if m =? 3 then HStr n else if m =? 4 then HArr n else HMap n) r.
Proof.
  intros Hm Hn. unfold cb_after.
  destruct (m =? 0) eqn:?; [lia|]. destruct (m =? 1) eqn:?; [lia|].
  destruct (2 ^ 63 <=? n) eqn:?; [lia|].
  destruct (m =? 2); [reflexivity|]. destruct (m =? 3); [reflexivity|]. destruct (m =? 4); reflexivity.
Qed.


Goal forall z r, (- 9223372036854775808 <= z < 0)%Z ->
  cb_after 1 (Z.to_N (-1 - z)) r = HOk (HInt KI64 z) r.
Proof.
  intros z r Hr. unfold cb_after.
  Time match goal with
         | |- context [if ?c then _ else _] => idtac c
         end.
  Time (let v := eval vm_compute in (1 =? 0) in idtac v).
  Time change (1 =? 0) with false. cbv iota.
  Time change (1 =? 1) with true. cbv iota.
  Show.
  Timeout 20 closed_ifs.
  Show.
Abort.
