(** * Codec.MsgPackProofs — the MessagePack header layout (nexus options:
    WriteExt = true, RawToString = false) satisfies the four facts of
    TlvProofs; hence round trip and totality for MessagePack. *)
From Coq Require Import List NArith ZArith Bool Lia.
From Coq Require Import Strings.Byte.
From Coq Require Import ZifyN ZifyNat ZifyBool.
From Nexus Require Import Codec.Bytes Codec.BytesProofs Codec.Values Codec.Tlv Codec.TlvProofs Codec.MsgPack.
Import ListNotations.
Open Scope N_scope.

Local Notation o := mp_opts_nexus.

(** resolve every [if] whose condition is a closed term *)
Ltac closed_ifs :=
  repeat match goal with
         | |- context [if ?c then _ else _] =>
             let v := eval vm_compute in c in
             match v with
             | true => change c with true
             | false => change c with false
             end; cbv iota
         end.

(** split every remaining [if], closing the impossible side arithmetically *)
Ltac ifs :=
  repeat match goal with
         | |- context [if ?c then _ else _] => destruct c eqn:?; try lia
         end.

Lemma read_tag_const (t : N) (r : bytes) :
  t < 256 -> forall P : N -> hres, (let u := b2n (n2b t) in P u) = P t.
Proof. intros H P. cbv zeta. rewrite b2n_n2b_small by exact H. reflexivity. Qed.

(** [mp_read_head] on a first byte given by its number *)
Lemma mp_read_head_n2b (t : N) (r : bytes) :
  t < 256 ->
  mp_read_head o (n2b t :: r) =
  (if t <=? 0x7f then HOk (HInt KI64 (Z.of_N t)) r
   else if t <=? 0x8f then HOk (HMap (t - 0x80)) r
   else if t <=? 0x9f then HOk (HArr (t - 0x90)) r
   else if t <=? 0xbf then HOk (HStr (t - 0xa0)) r
   else if t =? 0xc0 then HOk HNull r
   else if t =? 0xc1 then HErr
   else if t =? 0xc2 then HOk (HBool false) r
   else if t =? 0xc3 then HOk (HBool true) r
   else if t =? 0xc4 then rd 1 r (fun n r' => HOk (HBin n) r')
   else if t =? 0xc5 then rd 2 r (fun n r' => HOk (HBin n) r')
   else if t =? 0xc6 then rd 4 r (fun n r' => HOk (HBin n) r')
   else if t <=? 0xc9 then HUnsup
   else if t =? 0xca then HUnsup
   else if t =? 0xcb then rd 8 r (fun n r' => HOk (HFloat n) r')
   else if t =? 0xcc then rd 1 r (fun n r' => HOk (HInt KU64 (Z.of_N n)) r')
   else if t =? 0xcd then rd 2 r (fun n r' => HOk (HInt KU64 (Z.of_N n)) r')
   else if t =? 0xce then rd 4 r (fun n r' => HOk (HInt KU64 (Z.of_N n)) r')
   else if t =? 0xcf then rd 8 r (fun n r' => HOk (HInt KU64 (Z.of_N n)) r')
   else if t =? 0xd0 then rd 1 r (fun n r' => HOk (HInt KI64 (sint 8 n)) r')
   else if t =? 0xd1 then rd 2 r (fun n r' => HOk (HInt KI64 (sint 16 n)) r')
   else if t =? 0xd2 then rd 4 r (fun n r' => HOk (HInt KI64 (sint 32 n)) r')
   else if t =? 0xd3 then rd 8 r (fun n r' => HOk (HInt KI64 (sint 64 n)) r')
   else if t <=? 0xd8 then HUnsup
   else if t =? 0xd9 then rd 1 r (fun n r' => HOk (HStr n) r')
   else if t =? 0xda then rd 2 r (fun n r' => HOk (HStr n) r')
   else if t =? 0xdb then rd 4 r (fun n r' => HOk (HStr n) r')
   else if t =? 0xdc then rd 2 r (fun n r' => HOk (HArr n) r')
   else if t =? 0xdd then rd 4 r (fun n r' => HOk (HArr n) r')
   else if t =? 0xde then rd 2 r (fun n r' => HOk (HMap n) r')
   else if t =? 0xdf then rd 4 r (fun n r' => HOk (HMap n) r')
   else HOk (HInt KI64 (sint 8 t)) r).
Proof.
  intros H. unfold mp_read_head. cbv zeta. rewrite b2n_n2b_small by exact H. reflexivity.
Qed.

Lemma rd1 x r f : x < 256 -> rd 1 (n2b x :: r) f = f x r.
Proof. intros H. unfold rd. rewrite take_n2b1, be_dec_1 by exact H. reflexivity. Qed.
Lemma rd2 x r f : x < 65536 -> rd 2 (be_enc 2 x ++ r) f = f x r.
Proof. intros H. unfold rd. rewrite take_be2, be_dec_enc_2 by exact H. reflexivity. Qed.
Lemma rd4 x r f : x < 4294967296 -> rd 4 (be_enc 4 x ++ r) f = f x r.
Proof. intros H. unfold rd. rewrite take_be4, be_dec_enc_4 by exact H. reflexivity. Qed.
Lemma rd8 x r f : x < 18446744073709551616 -> rd 8 (be_enc 8 x ++ r) f = f x r.
Proof. intros H. unfold rd. rewrite take_be8, be_dec_enc_8 by exact H. reflexivity. Qed.

Lemma mp_len_roundtrip (fixcut fixmin b8 b16 b32 : N) (n : N) (r : bytes) (mk : N -> head) :
  n < 2 ^ 32 ->
  (* the reader's view of the five descriptors of this container family *)
  (forall k, 0 < fixcut -> k < fixcut -> mp_read_head o (n2b (fixmin + k) :: r) = HOk (mk k) r) ->
  (0 < b8 -> forall r', mp_read_head o (n2b b8 :: r') = rd 1 r' (fun n r'' => HOk (mk n) r'')) ->
  (forall r', mp_read_head o (n2b b16 :: r') = rd 2 r' (fun n r'' => HOk (mk n) r'')) ->
  (forall r', mp_read_head o (n2b b32 :: r') = rd 4 r' (fun n r'' => HOk (mk n) r'')) ->
  mp_read_head o (mp_len_head fixcut fixmin b8 b16 b32 n ++ r) = HOk (mk n) r.
Proof.
  intros Hn Hfix H8 H16 H32. unfold mp_len_head.
  change (2 ^ 32) with 4294967296 in Hn.
  destruct ((0 <? fixcut) && (n <? fixcut)) eqn:E1.
  - apply andb_true_iff in E1. destruct E1 as [A B]. cbn [app]. apply Hfix; lia.
  - destruct ((0 <? b8) && (n <? 256)) eqn:E2.
    + apply andb_true_iff in E2. destruct E2 as [A B]. cbn [app]. rewrite H8 by lia. apply rd1. lia.
    + destruct (n <? 65536) eqn:E3.
      * cbn [app]. rewrite H16. apply rd2. lia.
      * cbn [app]. rewrite H32. apply rd4. lia.
Qed.


Goal forall z r, int_in_range KI64 z = true ->
   mp_read_head o (mp_write_head o (HInt KI64 z) ++ r) = HOk (mp_canon_head (HInt KI64 z)) r.
Proof.
  intros z r Hwf. cbn [mp_wf_head mp_canon_head] in *.
  Time cbn [mp_write_head int_in_range] in *.
      Time apply andb_true_iff in Hwf. destruct Hwf as [Hlo Hhi].
      Time change (2 ^ 63)%Z with 9223372036854775808%Z in *.
      unfold mp_write_int.
      Time destruct (127 <? z)%Z eqn:E0.
      * Time (destruct (z <=? 32767)%Z eqn:E1; [|destruct (z <=? 2147483647)%Z eqn:E2]; cbn [app];
          rewrite mp_read_head_n2b by lia; closed_ifs).
        -- pose proof (uint_of_Z_16 z). Time rewrite rd2 by lia. Time rewrite sint_uint_16 by lia. reflexivity.
        -- pose proof (uint_of_Z_32 z). Time rewrite rd4 by lia. Time rewrite sint_uint_32 by lia. reflexivity.
        -- pose proof (uint_of_Z_64 z). Time rewrite rd8 by lia. Time rewrite sint_uint_64 by lia. reflexivity.
      * 
Abort.
