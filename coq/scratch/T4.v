From Coq Require Import String List NArith.
