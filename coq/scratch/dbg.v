(* Client/ClientLtsProofs.v — proofs about the goroutine-level machine. *)

From Coq Require Import List NArith Bool Arith Lia.
From Nexus Require Import Client.ClientLts.
Import ListNotations.
Open Scope N_scope.

(* ------------------------------------------------------------------ *)
(* association-list facts                                              *)

Lemma wlookup_update_same : forall l k w w0,
  wlookup l k = Some w0 -> wlookup (wupdate l k w) k = Some w.
Proof.
  induction l as [|[k' w'] r IH]; simpl; intros k w w0 H; [discriminate|].
  destruct (k =? k') eqn:E; simpl; rewrite E; [reflexivity|]. eapply IH; eauto.
Qed.

Lemma wlookup_update_other : forall l k k' w,
  k' <> k -> wlookup (wupdate l k w) k' = wlookup l k'.
Proof.
  induction l as [|[k0 w0] r IH]; simpl; intros k k' w H; [reflexivity|].
  destruct (k =? k0) eqn:E; simpl.
  - apply N.eqb_eq in E; subst k0.
    destruct (k' =? k) eqn:E'; [apply N.eqb_eq in E'; congruence|reflexivity].
  - destruct (k' =? k0); [reflexivity|]. apply IH; assumption.
Qed.

Lemma wlookup_update_some : forall l k k' w w1,
  wlookup l k' = Some w1 -> exists w2, wlookup (wupdate l k w) k' = Some w2.
Proof.
  intros l k k' w w1 H. destruct (N.eq_dec k' k) as [->|N].
  - exists w. eapply wlookup_update_same; eauto.
  - exists w1. rewrite wlookup_update_other; auto.
Qed.

Lemma mem_remove : forall l k k', mem k' (remove k l) = true -> mem k' l = true.
Proof.
  induction l as [|x r IH]; simpl; intros k k' H; [assumption|].
  destruct (k =? x) eqn:E.
  - apply IH in H. rewrite H. apply orb_true_r.
  - simpl in H. apply orb_true_iff in H. destruct H as [H|H].
    + rewrite H. reflexivity.
    + apply IH in H. rewrite H. apply orb_true_r.
Qed.

(* ------------------------------------------------------------------ *)
(* executions                                                          *)

Lemma exec_app : forall g s tr l, exec g s (tr ++ [l]) = exec_step g (exec g s tr) l.
Proof. intros. unfold exec. rewrite fold_left_app. reflexivity. Qed.

Lemma exec_app2 : forall g s t1 t2, exec g s (t1 ++ t2) = exec g (exec g s t1) t2.
Proof. intros. unfold exec. rewrite fold_left_app. reflexivity. Qed.

Lemma reachable_ind' : forall g (P : state -> Prop),
  P init -> (forall s l, reachable g s -> P s -> P (exec_step g s l)) ->
  forall s, reachable g s -> P s.
Proof.
  intros g P H0 Hs s [tr ->]. induction tr as [|l tr IH] using rev_ind; [exact H0|].
  rewrite exec_app. apply Hs; [exists tr; reflexivity|assumption].
Qed.

Lemma reachable_step : forall g s l, reachable g s -> reachable g (exec_step g s l).
Proof. intros g s l [tr ->]. exists (tr ++ [l]). rewrite exec_app. reflexivity. Qed.

Lemma reachable_exec : forall g s tr, reachable g s -> reachable g (exec g s tr).
Proof.
  intros g s tr [t0 ->]. exists (t0 ++ tr). rewrite exec_app2. reflexivity.
Qed.

(* ------------------------------------------------------------------ *)
(* The invariant                                                       *)

Definition closer_past_done (c : cpc) : bool :=
  match c with CWaitInv | CClosePeer | CReturned => true | _ => false end.
Definition closer_past_wait (c : cpc) : bool :=
  match c with CClosePeer | CReturned => true | _ => false end.

Record Inv (g : bool) (s : state) : Prop := {
  inv_aw : forall k, mem k (aw s) = true -> exists w, wlookup (ws s) k = Some w;
  inv_send : forall k, r_pc s = RSend k -> exists w, wlookup (ws s) k = Some w;
  inv_gone : forall k w, wlookup (ws s) k = Some w -> w_pc w = WReturned -> w_gone w = g;
  inv_done : done s = true <-> r_pc s = RExited;
  inv_cdone : closer_past_done (c_pc s) = true -> done s = true;
  inv_cwait2 : c_pc s = CWaitDone2 -> recv_done s = true;
  inv_couters : closer_past_wait (c_pc s) = true -> outers s = 0%nat;
  inv_peer : peer_closed s = true -> c_pc s = CReturned }.

Lemma inv_init : forall g, Inv g init.
Proof.
  intro g. constructor; simpl; intros; try discriminate; try congruence.
  split; intro H; discriminate.
Qed.

Ltac inv_split H := destruct H as [Haw Hsend Hgone Hdone Hcdone Hcw2 Hcout Hpeer].

(* waiter updates that neither return nor touch aw / run *)
Lemma inv_set_wpc : forall g s k w pc,
  Inv g s -> wlookup (ws s) k = Some w -> pc <> WReturned ->
  Inv g (set_wpc s k w pc).
Proof.
  intros g s k w pc H Hk Hpc. inv_split H. constructor; simpl; intros; eauto.
  - destruct (Haw _ H) as [w1 H1]. eapply wlookup_update_some; eauto.
  - destruct (Hsend _ H) as [w1 H1]. eapply wlookup_update_some; eauto.
  - destruct (N.eq_dec k0 k) as [->|N].
    + erewrite wlookup_update_same in H by eauto. inversion H; subst w0. simpl in H0. congruence.
    + rewrite wlookup_update_other in H by auto. eauto.
Qed.

Lemma inv_preserved : forall g s l, Inv g s -> Inv g (exec_step g s l).
Proof.
  intros g s l H. unfold exec_step.
  destruct (step g s l) as [s'|] eqn:E; [|assumption].
  destruct l; simpl in E.
  - (* LNewWaiter *)
    destruct (wlookup (ws s) k) eqn:Ek; [discriminate|].
    destruct (done s) eqn:Ed; [discriminate|]. inversion E; subst s'; clear E.
    inv_split H. constructor; simpl; intros; eauto.
    + destruct (k0 =? k) eqn:E0; [eauto|]. simpl in H. eauto.
    + destruct (k0 =? k) eqn:E0; [eauto|]. eauto.
    + destruct (k0 =? k) eqn:E0.
      * inversion H; subst w. simpl in H0. discriminate.
      * eauto.
  - (* LDeliver *)
    destruct (recv_closed s); [discriminate|]. inversion E; subst s'; clear E.
    inv_split H. constructor; simpl; eauto.
  - (* LTransportEnd *)
    destruct (recv_closed s); [discriminate|]. inversion E; subst s'; clear E.
    inv_split H. constructor; simpl; eauto.
  - (* LRouterStops *)
    destruct (router_reads s); [|discriminate]. inversion E; subst s'; clear E.
    inv_split H. constructor; simpl; eauto.
  - (* LCtx *)
    destruct (wlookup (ws s) k) as [w|] eqn:Ek; [|discriminate].
    destruct (w_pc w); try discriminate. destruct (w_call w); [|discriminate].
    inversion E; subst s'. apply inv_set_wpc; auto; discriminate.
  - (* LInvNew *)
    destruct (r_pc s) eqn:Er; try discriminate. inversion E; subst s'; clear E.
    inv_split H. constructor; simpl; eauto.
    intro Hc. exfalso.
    assert (Hd : done s = true).
    { apply Hcdone. destruct (c_pc s); simpl in *; try discriminate; reflexivity. }
    apply Hdone in Hd. congruence.
  - (* LRunTake *)
    destruct (r_pc s) eqn:Er; try discriminate.
    destruct (inbox s) as [|m rest] eqn:Ei; [discriminate|].
    inversion E; subst s'; clear E. inv_split H.
    destruct m; constructor; simpl; intros; eauto; try discriminate; try congruence.
    + split; intro X; [|discriminate]. apply Hdone in X. congruence.
    + split; intro; reflexivity.
    + split; intro X; [|discriminate]. apply Hdone in X. congruence.
  - (* LRunSeeEnd *)
    destruct (r_pc s) eqn:Er; try discriminate.
    destruct (recv_done s || (recv_closed s && match inbox s with [] => true | _ => false end)); [|discriminate].
    inversion E; subst s'; clear E. inv_split H.
    constructor; simpl; intros; eauto; try discriminate.
    split; intro; reflexivity.
  - (* LRunLookup *)
    destruct (r_pc s) eqn:Er; try discriminate. inversion E; subst s'; clear E.
    inv_split H. constructor; simpl; intros; eauto.
    + destruct (mem k (aw s)) eqn:Em; [|discriminate]. inversion H; subst k0. eauto.
    + split; intro X.
      * apply Hdone in X. congruence.
      * destruct (mem k (aw s)); discriminate.
  - (* LRunHandover *)
    destruct (r_pc s) eqn:Er; try discriminate.
    destruct (wlookup (ws s) k) as [w|] eqn:Ek; [|discriminate].
    assert (Hrl : forall pc, pc <> WReturned -> Inv g (set_rpc (set_wpc s k w pc) RLoop)).
    { intros pc Hpc. pose proof (inv_set_wpc g s k w pc H Ek Hpc) as H1.
      inv_split H1. constructor; simpl in *; intros; eauto; try discriminate.
      split; intro X; [|discriminate]. apply Hdone in X. congruence. }
    destruct (w_pc w) eqn:Ew; try discriminate.
    + destruct final.
      * inversion E; subst s'. apply Hrl. discriminate.
      * destruct (w_call w); [|discriminate]. inversion E; subst s'. apply Hrl. discriminate.
    + inversion E; subst s'. apply Hrl. destruct final; discriminate.
  - (* LRunGone *)
    destruct (r_pc s) eqn:Er; try discriminate.
    destruct (wlookup (ws s) k) as [w|] eqn:Ek; [|discriminate].
    destruct (g && w_gone w); [|discriminate]. inversion E; subst s'; clear E.
    inv_split H. constructor; simpl; intros; eauto; try discriminate.
    split; intro X; [|discriminate]. apply Hdone in X. congruence.
  - (* LRunSeeRecvDone *)
    destruct (r_pc s) eqn:Er; try discriminate.
    destruct (g && recv_done s); [|discriminate]. inversion E; subst s'; clear E.
    inv_split H. constructor; simpl; intros; eauto; try discriminate.
    split; intro X; [|discriminate]. apply Hdone in X. congruence.
  - (* LRunUserDone *)
    destruct (r_pc s) eqn:Er; try discriminate. inversion E; subst s'; clear E.
    inv_split H. constructor; simpl; intros; eauto; try discriminate.
    split; intro X; [|discriminate]. apply Hdone in X. congruence.
  - (* LSent *)
    destruct (wlookup (ws s) k) as [w|] eqn:Ek; [|discriminate].
    destruct (w_pc w); try discriminate. destruct (router_reads s); [|discriminate].
    inversion E; subst s'. apply inv_set_wpc; auto; discriminate.
  - (* LSendSeesDone *)
    destruct (wlookup (ws s) k) as [w|] eqn:Ek; [|discriminate].
    destruct (w_pc w); try discriminate. destruct (g && done s); [|discriminate].
    inversion E; subst s'. apply inv_set_wpc; auto; discriminate.
  - (* LTimer *)
    destruct (wlookup (ws s) k) as [w|] eqn:Ek; [|discriminate].
    destruct (w_pc w); try discriminate.
    + destruct (w_call w); [discriminate|]. inversion E; subst s'. apply inv_set_wpc; auto; discriminate.
    + inversion E; subst s'. apply inv_set_wpc; auto; discriminate.
  - (* LSeeDone *)
    destruct (wlookup (ws s) k) as [w|] eqn:Ek; [|discriminate].
    destruct (w_pc w); try discriminate. destruct (done s); [|discriminate].
    inversion E; subst s'. apply inv_set_wpc; auto; discriminate.
  - (* LCancelSent *)
    destruct (wlookup (ws s) k) as [w|] eqn:Ek; [|discriminate].
    destruct (w_pc w); try discriminate.
    inversion E; subst s'. apply inv_set_wpc; auto; discriminate.
  - (* LProgDone *)
    destruct (wlookup (ws s) k) as [w|] eqn:Ek; [|discriminate].
    destruct (w_pc w); try discriminate.
    inversion E; subst s'. apply inv_set_wpc; auto; discriminate.
  - (* LDelete *)
    destruct (wlookup (ws s) k) as [w|] eqn:Ek; [|discriminate].
    destruct (w_pc w); try discriminate. inversion E; subst s'; clear E.
    assert (Hd : WDeleted <> WReturned) by discriminate.
    pose proof (inv_set_wpc g s k w WDeleted H Ek Hd) as H1.
    inv_split H1. constructor; simpl in *; intros; eauto.
    apply mem_remove in H0. auto.
  - (* LCloseGone *)
    destruct (wlookup (ws s) k) as [w|] eqn:Ek; [|discriminate].
    destruct (w_pc w); try discriminate. inversion E; subst s'; clear E.
    inv_split H. constructor; simpl; intros; eauto.
    + destruct (Haw _ H) as [w1 H1]. eapply wlookup_update_some; eauto.
    + destruct (Hsend _ H) as [w1 H1]. eapply wlookup_update_some; eauto.
    + destruct (N.eq_dec k0 k) as [->|N].
      * erewrite wlookup_update_same in H by eauto. inversion H; subst w0. reflexivity.
      * rewrite wlookup_update_other in H by auto. eauto.
  - (* LCloseStart *)
    destruct (c_pc s) eqn:Ec; try discriminate. inversion E; subst s'; clear E.
    inv_split H. constructor; simpl; intros; eauto.
    + destruct (done s) eqn:Ed; [reflexivity|discriminate].
    + destruct (done s); discriminate.
    + destruct (done s); discriminate.
    + apply Hpeer in H. congruence.
  - (* LGoodbyeSent *)
    destruct (c_pc s) eqn:Ec; try discriminate. inversion E; subst s'; clear E.
    inv_split H. constructor; simpl; intros; eauto; try discriminate.
    apply Hpeer in H. congruence.
  - (* LCloseTimer *)
    inv_split H.
    destruct (c_pc s) eqn:Ec; try discriminate; inversion E; subst s'; clear E;
      constructor; simpl; intros; eauto; try discriminate;
      match goal with X : peer_closed s = true |- _ => apply Hpeer in X; congruence end.
  - (* LCloseSeeDone *)
    destruct (c_pc s) eqn:Ec; try discriminate. destruct (done s) eqn:Ed; [|discriminate].
    inversion E; subst s'; clear E.
    inv_split H. constructor; simpl; intros; eauto; try discriminate.
    apply Hpeer in H. congruence.
  - (* LEndRecv *)
    destruct (c_pc s) eqn:Ec; try discriminate. inversion E; subst s'; clear E.
    inv_split H. constructor; simpl; intros; eauto; try discriminate.
    apply Hpeer in H. congruence.
  - (* LCloseSeeDone2 *)
    destruct (c_pc s) eqn:Ec; try discriminate. destruct (done s) eqn:Ed; [|discriminate].
    inversion E; subst s'; clear E.
    inv_split H. constructor; simpl; intros; eauto; try discriminate.
    apply Hpeer in H. congruence.
  - (* LWgWait *)
    destruct (c_pc s) eqn:Ec; try discriminate. destruct (Nat.eqb (outers s) 0) eqn:Eo; [|discriminate].
    inversion E; subst s'; clear E.
    inv_split H. constructor; simpl; intros; eauto; try discriminate.
    + apply Hcdone. rewrite Ec. reflexivity.
    + apply Nat.eqb_eq in Eo. exact Eo.
    + apply Hpeer in H. congruence.
  - (* LClosePeer *)
    destruct (c_pc s) eqn:Ec; try discriminate. inversion E; subst s'; clear E.
    inv_split H. constructor; simpl; intros; eauto; try discriminate.
    + apply Hcdone. rewrite Ec. reflexivity.
    + apply Hcout. rewrite Ec. reflexivity.
  - (* LOuterExit *)
    destruct (outers s) eqn:Eo; [discriminate|]. inversion E; subst s'; clear E.
    inv_split H. constructor; simpl; intros; eauto.
    apply Hcout in H. congruence.
Qed.

Theorem inv_reachable : forall g s, reachable g s -> Inv g s.
Proof.
  intros g. apply reachable_ind'; [apply inv_init|]. intros. apply inv_preserved. assumption.
Qed.

(* ------------------------------------------------------------------ *)
(* T1. The run goroutine is never blocked forever in the hand-over      *)

Theorem run_never_stuck_lts : forall s, reachable true s -> ~ run_stuck true s.
Proof.
  intros s R (k & w & Hr & Hk & Hpc & Hg & _).
  pose proof (inv_reachable _ _ R) as I. rewrite (inv_gone _ _ I k w Hk Hpc) in Hg. discriminate.
Qed.

Definition run_move_enabled (g : bool) (s : state) : Prop :=
  enabled g s (LRunHandover true) = true \/ enabled g s LRunGone = true.

(* every label of tr is a step of waiter k and is enabled when its turn comes *)
Fixpoint waiter_path (g : bool) (k : id) (s : state) (tr : list label) : Prop :=
  match tr with
  | [] => True
  | l :: r => waiter_label_of l = Some k /\ enabled g s l = true /\ waiter_path g k (exec_step g s l) r
  end.

(* Positive form: whenever run sits in the hand-over select, its waiter
   exists and is at most two of ITS OWN always-enabled steps (delete the
   entry, close gone / finish the progress hand-over / finish sending CANCEL)
   away from a state in which run's select is ready. *)
Theorem run_unblocks : forall s k,
  reachable true s -> r_pc s = RSend k ->
  exists w tr, wlookup (ws s) k = Some w /\ (List.length tr <= release_rank (w_pc w))%nat /\
               waiter_path true k s tr /\
               (run_move_enabled true (exec true s tr) \/ (w_pc w = WSending /\ router_reads s = false)).
Proof.
  intros s k R Hr. pose proof (inv_reachable _ _ R) as I.
  destruct (inv_send _ _ I k Hr) as [w Hk]. exists w.
  destruct (w_pc w) eqn:Epc.
  - (* still handing its request to the peer *)
    destruct (router_reads s) eqn:Err.
    + exists [LSent k]. simpl. repeat split; auto.
      * unfold enabled. simpl. rewrite Hk, Epc, Err. reflexivity.
      * left. left. unfold exec_step. simpl. rewrite Hk, Epc, Err. unfold enabled. simpl. rewrite Hr.
        erewrite wlookup_update_same by eauto. reflexivity.
    + exists []. simpl. repeat split; auto.
  - exists []. simpl. repeat split; auto. left. left. unfold enabled. simpl. rewrite Hr, Hk, Epc. reflexivity.
  - exists [LProgDone k]. simpl. repeat split; auto.
    + unfold enabled. simpl. rewrite Hk, Epc. reflexivity.
    + left. left. unfold exec_step. simpl. rewrite Hk, Epc. unfold enabled. simpl. rewrite Hr.
      erewrite wlookup_update_same by eauto. reflexivity.
  - exists [LCancelSent k]. simpl. repeat split; auto.
    + unfold enabled. simpl. rewrite Hk, Epc. reflexivity.
    + left. left. unfold exec_step. simpl. rewrite Hk, Epc. unfold enabled. simpl. rewrite Hr.
      erewrite wlookup_update_same by eauto. reflexivity.
  - exists []. simpl. repeat split; auto. left. left. unfold enabled. simpl. rewrite Hr, Hk, Epc. reflexivity.
  - exists [LDelete k; LCloseGone k]. simpl. repeat split; auto.
    + unfold enabled. simpl. rewrite Hk, Epc. reflexivity.
    + unfold exec_step at 1. simpl. rewrite Hk, Epc. unfold enabled. simpl.
      erewrite wlookup_update_same by eauto. reflexivity.
    + left. right. unfold exec_step. simpl. rewrite Hk, Epc. simpl.
      erewrite wlookup_update_same by eauto. simpl. unfold enabled. simpl. rewrite Hr.
      erewrite wlookup_update_same.
      * reflexivity.
      * erewrite wlookup_update_same by eauto. reflexivity.
  - exists [LCloseGone k]. simpl. repeat split; auto.
    + unfold enabled. simpl. rewrite Hk, Epc. reflexivity.
    + left. right. unfold exec_step. simpl. rewrite Hk, Epc. unfold enabled. simpl. rewrite Hr.
      erewrite wlookup_update_same by eauto. reflexivity.
  - exists []. simpl. repeat split; auto. left. right. unfold enabled. simpl. rewrite Hr, Hk.
    rewrite (inv_gone _ _ I k w Hk Epc). reflexivity.
Qed.

(* ------------------------------------------------------------------ *)
(* T1'. In the UNGUARDED variant the stuck state is reachable and final  *)

Definition stuck_trace : list label :=
  [LNewWaiter 1 false; LSent 1; LDeliver (MReply 1); LRunTake; LRunLookup;
   LTimer 1; LDelete 1; LCloseGone 1].

Lemma stuck_reached : run_stuck false (exec false init stuck_trace).
Proof.
  exists 1, {| w_pc := WReturned; w_call := false; w_gone := false |}.
  vm_compute. repeat split; reflexivity.
Qed.

Definition stuck_inv (s : state) : Prop :=
  run_stuck false s /\ closer_past_done (c_pc s) = false.

Lemma stuck_step : forall s l, stuck_inv s -> stuck_inv (exec_step false s l).
Proof.
  intros s l [(k & w & Hr & Hk & Hpc & Hg & Hd) Hc]. unfold exec_step.
  destruct (step false s l) as [s'|] eqn:E; [|split; [exists k, w; auto|auto]].
  assert (Hkeep : forall s2, ws s2 = ws s -> r_pc s2 = r_pc s -> done s2 = done s -> run_stuck false s2).
  { intros s2 A B C. exists k, w. rewrite A, B, C. auto. }
  assert (Hother : forall k' w' pc, wlookup (ws s) k' = Some w' -> w_pc w' <> WReturned ->
            wlookup (wupdate (ws s) k' {| w_pc := pc; w_call := w_call w'; w_gone := w_gone w' |}) k = Some w).
  { intros k' w' pc A B. rewrite wlookup_update_other; auto. intro X; subst k'. rewrite Hk in A. inversion A; subst. auto. }
  destruct l; simpl in E.
  - destruct (wlookup (ws s) k0) eqn:Ek; [discriminate|]. rewrite Hd in E.
    inversion E; subst s'. split; simpl; auto.
    exists k, w. simpl. destruct (k =? k0) eqn:E0; [apply N.eqb_eq in E0; subst; congruence|]. auto.
  - destruct (recv_closed s); [discriminate|]. inversion E; subst. split; auto; try (apply Hkeep; reflexivity).
  - destruct (recv_closed s); [discriminate|]. inversion E; subst. split; auto; try (apply Hkeep; reflexivity).
  - destruct (router_reads s); [|discriminate]. inversion E; subst. split; auto; try (apply Hkeep; reflexivity).
  - destruct (wlookup (ws s) k0) as [w'|] eqn:Ek; [|discriminate].
    destruct (w_pc w') eqn:Ew; try discriminate. destruct (w_call w'); [|discriminate].
    inversion E; subst s'. split; simpl; auto. exists k, w. simpl. repeat split; auto.
    apply Hother; auto. rewrite Ew. discriminate.
  - rewrite Hr in E. discriminate.
  - rewrite Hr in E. discriminate.
  - rewrite Hr in E. discriminate.
  - rewrite Hr in E. discriminate.
  - rewrite Hr, Hk, Hpc in E. discriminate.
  - rewrite Hr, Hk in E. simpl in E. discriminate.
  - rewrite Hr in E. simpl in E. discriminate.
  - rewrite Hr in E. discriminate.
  - destruct (wlookup (ws s) k0) as [w'|] eqn:Ek; [|discriminate].
    destruct (w_pc w') eqn:Ew; try discriminate. destruct (router_reads s); [|discriminate].
    inversion E; subst s'. split; simpl; auto.
    exists k, w. simpl. repeat split; auto. apply Hother; auto. rewrite Ew. discriminate.
  - destruct (wlookup (ws s) k0) as [w'|] eqn:Ek; [|discriminate].
    destruct (w_pc w') eqn:Ew; try discriminate.
  - destruct (wlookup (ws s) k0) as [w'|] eqn:Ek; [|discriminate].
    destruct (w_pc w') eqn:Ew; try discriminate.
    + destruct (w_call w'); [discriminate|]. inversion E; subst s'. split; simpl; auto.
      exists k, w. simpl. repeat split; auto. apply Hother; auto. rewrite Ew. discriminate.
    + inversion E; subst s'. split; simpl; auto.
      exists k, w. simpl. repeat split; auto. apply Hother; auto. rewrite Ew. discriminate.
  - destruct (wlookup (ws s) k0) as [w'|] eqn:Ek; [|discriminate].
    destruct (w_pc w') eqn:Ew; try discriminate. rewrite Hd in E. discriminate.
  - destruct (wlookup (ws s) k0) as [w'|] eqn:Ek; [|discriminate].
    destruct (w_pc w') eqn:Ew; try discriminate.
    inversion E; subst s'. split; simpl; auto.
    exists k, w. simpl. repeat split; auto. apply Hother; auto. rewrite Ew. discriminate.
  - destruct (wlookup (ws s) k0) as [w'|] eqn:Ek; [|discriminate].
    destruct (w_pc w') eqn:Ew; try discriminate.
    inversion E; subst s'. split; simpl; auto.
    exists k, w. simpl. repeat split; auto. apply Hother; auto. rewrite Ew. discriminate.
  - destruct (wlookup (ws s) k0) as [w'|] eqn:Ek; [|discriminate].
    destruct (w_pc w') eqn:Ew; try discriminate.
    inversion E; subst s'. split; simpl; auto.
    exists k, w. simpl. repeat split; auto. apply Hother; auto. rewrite Ew. discriminate.
  - destruct (wlookup (ws s) k0) as [w'|] eqn:Ek; [|discriminate].
    destruct (w_pc w') eqn:Ew; try discriminate.
    inversion E; subst s'. split; simpl; auto.
    exists k, w. simpl. repeat split; auto.
    rewrite wlookup_update_other; auto. intro X; subst k0. rewrite Hk in Ek. inversion Ek; subst. congruence.
  - destruct (c_pc s) eqn:Ec; try discriminate. inversion E; subst s'. split.
    + apply Hkeep; reflexivity.
    + simpl. rewrite Hd. reflexivity.
  - destruct (c_pc s) eqn:Ec; try discriminate. inversion E; subst s'. split; [apply Hkeep; reflexivity|reflexivity].
  - destruct (c_pc s) eqn:Ec; try discriminate; inversion E; subst s'; (split; [apply Hkeep; reflexivity|reflexivity]).
  - destruct (c_pc s) eqn:Ec; try discriminate. rewrite Hd in E. discriminate.
  - destruct (c_pc s) eqn:Ec; try discriminate. inversion E; subst s'. split; [apply Hkeep; reflexivity|reflexivity].
  - destruct (c_pc s) eqn:Ec; try discriminate. rewrite Hd in E. discriminate.
  - destruct (c_pc s) eqn:Ec; try discriminate; try (simpl in Hc; discriminate).
  - destruct (c_pc s) eqn:Ec; try discriminate; try (simpl in Hc; discriminate).
  - destruct (outers s); [discriminate|]. inversion E; subst s'. split; auto; try (apply Hkeep; reflexivity).
Qed.

Lemma stuck_forever : forall tr s, stuck_inv s -> stuck_inv (exec false s tr).
Proof.
  induction tr as [|l tr IH]; intros s H; [exact H|]. simpl. apply IH. apply stuck_step. exact H.
Qed.

(* The unrepaired rendezvous: there is a schedule (a reply looked up just
   before the waiter's timeout commits) after which, WHATEVER happens next,
   run stays blocked, Done is never signalled and Close() never returns. *)
Theorem run_never_stuck_unguarded_refuted :
  exists tr, let s := exec false init tr in
    run_stuck false s /\
    forall tr', let s' := exec false s tr' in
      run_stuck false s' /\ done s' = false /\ c_pc s' <> CReturned.
Proof.
  exists stuck_trace. cbv zeta. split; [apply stuck_reached|].
  intros tr'. assert (H0 : stuck_inv (exec false init stuck_trace)).
  { split; [apply stuck_reached|vm_compute; reflexivity]. }
  destruct (stuck_forever tr' _ H0) as [Hs Hc]. split; [exact Hs|].
  destruct Hs as (k & w & _ & _ & _ & _ & Hd). split; [exact Hd|].
  intro X. rewrite X in Hc. discriminate.
Qed.

(* ------------------------------------------------------------------ *)
(* T2. API goroutines                                                   *)

Definition internal_waiter_label (l : label) : bool :=
  match l with LCtx _ => false | _ => true end.

(* An API goroutine that has not returned always has an enabled step of its
   own, EXCEPT (a) a Call in its first select while the connection is up: it
   waits for its reply, for its context, or for Done; (b) a goroutine that is
   handing its request to a peer that has stopped reading while the client has
   not stopped (in the repaired client: Done releases it). *)
Theorem api_always_returns_lts : forall g s k w,
  reachable g s -> wlookup (ws s) k = Some w -> w_pc w <> WReturned ->
  (exists l, waiter_label_of l = Some k /\ internal_waiter_label l = true /\ enabled g s l = true)
  \/ (w_call w = true /\ w_pc w = WSelect /\ done s = false /\ enabled g s (LCtx k) = true)
  \/ (w_pc w = WSending /\ router_reads s = false /\ (g && done s) = false).
Proof.
  intros g s k w _ Hk Hpc. unfold enabled.
  destruct (w_pc w) eqn:E; try congruence.
  - destruct (router_reads s) eqn:Err.
    + left. exists (LSent k). simpl. rewrite Hk, E, Err. auto.
    + destruct (g && done s) eqn:Egd.
      * left. exists (LSendSeesDone k). simpl. rewrite Hk, E, Egd. auto.
      * right. right. auto.
  - destruct (w_call w) eqn:Ec.
    + destruct (done s) eqn:Ed.
      * left. exists (LSeeDone k). simpl. rewrite Hk, E, Ed. auto.
      * right. left. simpl. rewrite Hk, E, Ec. auto.
    + left. exists (LTimer k). simpl. rewrite Hk, E, Ec. auto.
  - left. exists (LProgDone k). simpl. rewrite Hk, E. auto.
  - left. exists (LCancelSent k). simpl. rewrite Hk, E. auto.
  - left. exists (LTimer k). simpl. rewrite Hk, E. auto.
  - left. exists (LDelete k). simpl. rewrite Hk, E. auto.
  - left. exists (LCloseGone k). simpl. rewrite Hk, E. auto.
Qed.

(* The client as it was (plain send): a request issued when the peer's writer
   has just gone is never handed over, the end of the transport and Done do
   not release it: the API call never returns, whatever happens next. *)
Definition send_stuck_trace : list label :=
  [LRouterStops; LNewWaiter 1 false; LTransportEnd; LRunSeeEnd].

Definition send_stuck (s : state) : Prop :=
  exists w, wlookup (ws s) 1 = Some w /\ w_pc w = WSending /\ router_reads s = false.

Lemma send_stuck_step : forall s l, send_stuck s -> send_stuck (exec_step false s l).
Proof.
  intros s l (w & Hk & Hpc & Hrr). unfold exec_step.
  destruct (step false s l) as [s'|] eqn:E; [|exists w; auto].
  assert (Hother : forall k' w' pc, k' <> 1 ->
            wlookup (wupdate (ws s) k' {| w_pc := pc; w_call := w_call w'; w_gone := w_gone w' |}) 1 = Some w).
  { intros k' w' pc A. rewrite wlookup_update_other; auto. }
  assert (Hne : forall k' w', wlookup (ws s) k' = Some w' -> w_pc w' <> WSending -> k' <> 1).
  { intros k' w' A B X. subst k'. rewrite Hk in A. inversion A; subst. congruence. }
  destruct l; simpl in E;
    try (match type of E with context [wlookup (ws s) ?k0] =>
           destruct (wlookup (ws s) k0) as [w'|] eqn:Ek; [|discriminate];
           destruct (w_pc w') eqn:Ew; try discriminate end);
    repeat match type of E with
           | (if ?c then _ else _) = Some _ => destruct c eqn:?; try discriminate
           | match ?c with _ => _ end = Some _ => destruct c eqn:?; try discriminate
           end;
    try (inversion E; subst s'; clear E);
    try (exists w; simpl; repeat split; auto; fail);
    try (exists w; simpl; repeat split; auto; apply Hother; eapply Hne; eauto; rewrite Ew; discriminate).
  - (* LNewWaiter *) exists w. cbn -[N.eqb]. destruct (1 =? k) eqn:E1; [apply N.eqb_eq in E1; subst; congruence|]. repeat split; auto.

Show.
Abort.
