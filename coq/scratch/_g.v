(** C08 — the theorems: every reachable state of the LTS (any number of
    sessions, any interleaving, any oracle choices) satisfies the seven order
    predicates on every receiver's stream. *)
From Coq Require Import List NArith Bool Sorted Lia.
From Nexus Require Import Order.Model Order.Spec Order.SpecProofs Order.InvBase Order.InvSend
  Order.InvEvent Order.InvCall Order.InvScan Order.InvRec Order.InvYield.
Import ListNotations.
Open Scope N_scope.

Record allinv (st : state) : Prop := mkall {
  a_base : base st;
  a_hst : wf_hst st;
  a_ev : evinv st;
  a_call : cinv st;
  a_sub : subinv st;
  a_reg : reginv st;
  a_rec : recinv st;
  a_yield : yinv st }.

Lemma allinv_init : allinv init.
Proof.
  constructor; auto using base_init, wf_hst_init, evinv_init, cinv_init, subinv_init,
    reginv_init, recinv_init, yinv_init.
Qed.

Lemma allinv_step : forall cf st l st', allinv st -> step cf st l = Some st' -> allinv st'.
Proof.
  intros cf st l st' [B Hh E C S R Rc Y] H.
  destruct (base_step _ _ _ _ B Hh H) as [B' Hh'].
  constructor; auto.
  - apply (evinv_step cf st l st'); auto.
  - apply (cinv_step cf st l st'); auto.
  - apply (subinv_step cf st l st'); auto.
  - apply (reginv_step cf st l st'); auto.
  - apply (recinv_step cf st l st'); auto.
  - apply (yinv_step cf st l st'); auto.
Qed.

Theorem allinv_reach : forall cf st, reach cf st -> allinv st.
Proof.
  intros cf st [tr H]. eapply (run_invariant allinv cf); eauto using allinv_init.
  intros; eapply allinv_step; eauto.
Qed.

Lemma stream_accepted : forall st r, base st -> stream st r = accepted (att st r).
Proof. intros st r B. unfold stream. apply (b_queue st B). Qed.

(* ---------------------------------------------------------------- order claims *)

Theorem event_order_all : forall cf st r, reach cf st -> ordered_by sel_event (stream st r).
Proof.
  intros cf st r H. apply allinv_reach in H. rewrite stream_accepted by apply H.
  apply ordered_event_pub_topic, ordered_by_filter. apply (ev_ord st (a_ev st H)).
Qed.

Theorem call_order_all : forall cf st e, reach cf st -> ordered_by sel_inv (stream st e).
Proof.
  intros cf st e H. apply allinv_reach in H. rewrite stream_accepted by apply H.
  apply ordered_by_filter. apply (c_ord st (a_call st H)).
Qed.

Theorem progress_order_closing : forall cf st c, reach cf st ->
  ordered_by sel_res (stream st c) /\ nothing_after closing (stream st c).
Proof.
  intros cf st c H. apply allinv_reach in H. rewrite stream_accepted by apply H. split.
  - apply (y_ord st (a_yield st H)).
  - apply (r_after st (a_rec st H)).
Qed.

(** explicit forms *)
Lemma ordered_by_explicit : forall sel l,
  ordered_by sel l ->
  forall pre m1 mid m2 post k y1 y2,
    l = pre ++ m1 :: mid ++ m2 :: post -> sel m1 = Some (k, y1) -> sel m2 = Some (k, y2) -> y1 < y2.
Proof. intros sel l H pre m1 mid m2 post k y1 y2 E S1 S2. eapply H; eauto. Qed.

(* ---------------------------------------------------------------- open / close claims *)

Lemma scan_accepted : forall cls (l : list (smsg * bool)) b0 b0' b,
  scan cls (map fst l) b0 = Some b ->
  (b0 = true -> b0' = true) ->
  (forall m, In (m, false) l -> cls m <> MOpen) ->
  exists b', scan cls (accepted l) b0' = Some b' /\ (b = true -> b' = true).
Proof.
  intros cls l; induction l as [|[m ok] l IH]; intros b0 b0' b H Hb Hd; simpl in *.
  - inv H. exists b0'; auto.
  - assert (Hd' : forall m0, In (m0, false) l -> cls m0 <> MOpen) by (intros; apply Hd; auto).
    unfold accepted in *. destruct ok; simpl.
    + destruct (cls m) eqn:Em.
      * eapply IH; eauto.
      * eapply IH; eauto; discriminate.
      * destruct b0; [|discriminate]. rewrite (Hb eq_refl). eapply IH; eauto.
      * eapply IH; eauto.
    + destruct (cls m) eqn:Em.
      * exfalso. apply (Hd m); auto.
      * eapply IH; eauto; discriminate.
      * destruct b0; [|discriminate]. eapply IH; eauto.
      * eapply IH; eauto.
Qed.

Lemma scinv_attempts : forall w cls tab st r k,
  scinv w cls tab st -> scan_ok (cls k) (map fst (att st r)) = true.
Proof.
  intros w cls tab st r k I. destruct (I r k) as [b [H _]]. unfold future in H.
  apply scan_prefix in H as [b1 H]. unfold scan_ok. rewrite H. reflexivity.
Qed.

Lemma scinv_stream : forall w cls tab st r k,
  base st -> scinv w cls tab st ->
  (forall m, In (m, false) (att st r) -> cls k m <> MOpen) ->
  scan_ok (cls k) (stream st r) = true.
Proof.
  intros w cls tab st r k B I Hd. rewrite stream_accepted by auto.
  destruct (I r k) as [b [H _]]. unfold future in H. apply scan_prefix in H as [b1 H].
  destruct (scan_accepted _ _ false false b1 H (fun x => x) Hd) as [b' [H' _]].
  unfold scan_ok. rewrite H'. reflexivity.
Qed.

(** On the attempt log (every try-send, dropped or not) the claims hold
    without any side condition. *)
Theorem sub_claims_attempts : forall cf st r sb, reach cf st ->
  opened_before (sub_mark sb) (map fst (att st r)) /\
  none_after_close (sub_mark sb) (map fst (att st r)).
Proof.
  intros cf st r sb H. apply allinv_reach in H. apply scan_ok_sound.
  eapply scinv_attempts. apply (a_sub st H).
Qed.

Theorem reg_claims_attempts : forall cf st e rg, reach cf st ->
  opened_before (reg_mark rg) (map fst (att st e)) /\
  none_after_close (reg_mark rg) (map fst (att st e)).
Proof.
  intros cf st e rg H. apply allinv_reach in H. apply scan_ok_sound.
  eapply scinv_attempts. apply (a_reg st H).
Qed.

(** On what the client really receives they hold provided no SUBSCRIBED
    (REGISTERED) for that subscription (registration) was dropped on a full
    queue - the one thing the router's drop policy can take away. *)
Theorem sub_claims_stream : forall cf st r sb, reach cf st ->
  (forall m, In (m, false) (att st r) -> sub_mark sb m <> MOpen) ->
  opened_before (sub_mark sb) (stream st r) /\ none_after_close (sub_mark sb) (stream st r).
Proof.
  intros cf st r sb H Hd. apply allinv_reach in H. apply scan_ok_sound.
  eapply scinv_stream; eauto. apply H. apply (a_sub st H).
Qed.

Theorem reg_claims_stream : forall cf st e rg, reach cf st ->
  (forall m, In (m, false) (att st e) -> reg_mark rg m <> MOpen) ->
  opened_before (reg_mark rg) (stream st e) /\ none_after_close (reg_mark rg) (stream st e).
Proof.
  intros cf st e rg H Hd. apply allinv_reach in H. apply scan_ok_sound.
  eapply scinv_stream; eauto. apply H. apply (a_reg st H).
Qed.

(* ---------------------------------------------------------------- explicit statements *)

From Nexus Require Import Order.InvRepaired.

Lemma sub_open_iff : forall sb m, sub_mark sb m = MOpen <-> m = SSubscribed sb.
Proof.
  intros sb m; destruct m; simpl; try (split; [discriminate|intros H; discriminate]);
  destruct (N.eqb_spec sb0 sb); split; intros H; try discriminate; try congruence.
Qed.

Lemma reg_open_iff : forall rg m, reg_mark rg m = MOpen <-> m = SRegistered rg.
Proof.
  intros rg m; destruct m; simpl; try (split; [discriminate|intros H; discriminate]);
  try destruct first; try (split; [discriminate|intros H; discriminate]);
  destruct (N.eqb_spec rg0 rg); split; intros H; try discriminate; try congruence.
Qed.

Lemma no_dropped_sub : forall st r sb,
  ~ In (SSubscribed sb, false) (att st r) ->
  forall m, In (m, false) (att st r) -> sub_mark sb m <> MOpen.
Proof. intros st r sb H m Hin E. apply sub_open_iff in E. subst. auto. Qed.

Lemma no_dropped_reg : forall st e rg,
  ~ In (SRegistered rg, false) (att st e) ->
  forall m, In (m, false) (att st e) -> reg_mark rg m <> MOpen.
Proof. intros st e rg H m Hin E. apply reg_open_iff in E. subst. auto. Qed.

Theorem event_order_x : forall cf st r pre mid post sb p t y1 y2,
  reach cf st ->
  stream st r = pre ++ SEvent sb (Some p) t y1 :: mid ++ SEvent sb (Some p) t y2 :: post ->
  y1 < y2.
Proof.
  intros cf st r pre mid post sb p t y1 y2 H E.
  eapply (event_order_all cf st r H); eauto; reflexivity.
Qed.

Theorem call_order_x : forall cf st e pre mid post c rg1 inv1 cid1 y1 f1 rg2 inv2 cid2 y2 f2,
  reach cf st ->
  stream st e = pre ++ SInvocation rg1 inv1 c cid1 y1 f1 :: mid
                    ++ SInvocation rg2 inv2 c cid2 y2 f2 :: post ->
  y1 < y2.
Proof.
  intros cf st e pre mid post c rg1 inv1 cid1 y1 f1 rg2 inv2 cid2 y2 f2 H E.
  eapply (call_order_all cf st e H); eauto; reflexivity.
Qed.

Theorem progress_order_partial_x : forall cf st c,
  reach cf st ->
  (forall pre mid post cid y1 e1 p1 c1 y2 e2 p2 c2,
      stream st c = pre ++ SResult cid y1 e1 p1 c1 :: mid ++ SResult cid y2 e2 p2 c2 :: post ->
      y1 < y2) /\
  (forall pre f post m cid,
      stream st c = pre ++ f :: post -> closing cid f = true -> In m post ->
      is_reply cid m = false).
Proof.
  intros cf st c H. destruct (progress_order_closing cf st c H) as [A B]. split.
  - intros. eapply A; eauto; reflexivity.
  - intros. eapply B; eauto.
Qed.

Theorem ecinv_reach : forall cf st, repaired cf = true -> reach cf st -> ecinv st.
Proof.
  intros cf st Hr [tr H].
  assert (G : base st /\ wf_hst st /\ ecinv st).
  { apply (run_invariant (fun s => base s /\ wf_hst s /\ ecinv s) cf) with (tr := tr) (st := init); auto.
    - intros s l s' [A [B C]] Hs. destruct (base_step _ _ _ _ A B Hs). split; [|split]; auto.
      eapply ecinv_step; eauto.

Show.
Abort.
