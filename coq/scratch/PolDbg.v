From Coq Require Import String Ascii List Bool Arith Lia.
From Nexus Require Import Safety.Sites Safety.Policy.
Import ListNotations.
Open Scope string_scope.
Definition pinv (form : share_form) (set : list string) (r : reg) : Prop :=
  match r with
  | Some (q, n) => 1 < n -> shares form set q = true
  | None => True
  end.
Lemma pstep_inv form set r o : pinv form set r -> pinv form set (pstep form set r o).
Proof.
  destruct o as [p| |]; destruct r as [[q n]|]; simpl; auto.
  - intros H. destruct (shares form set q && String.eqb q p) eqn:E; simpl; auto.
  Show.
Abort.
