From Coq Require Import List Bool Ascii NArith String.
From Nexus Require Import Wamp.Regex Wamp.RegexEquiv Wamp.UriRule Wamp.UriRuleProofs.
Import ListNotations.
Open Scope N_scope.
Definition NC := CSet true [(9,10);(12,13);(32,32);(46,46);(35,35)].
Definition DOT := CSet false [(46,46)].
Definition r1 : re cset := Cat (Star (Cat (re_plus (Chr NC)) (Chr DOT))) (re_plus (Chr NC)).
Definition r3 : re cset := Cat (Star (Alt (Cat (re_plus (Chr NC)) (Chr DOT)) (Chr DOT))) (re_opt (re_plus (Chr NC))).
Time Eval vm_compute in respects_classes r1.
Time Eval vm_compute in uri_bisim r1 false MExact.
Time Eval vm_compute in uri_bisim r3 false MWildcard.
Time Eval vm_compute in uri_bisim r3 false MPrefix.
Time Eval vm_compute in uri_diff r3 false MPrefix.
Time Eval vm_compute in uri_diff r3 false MWildcard.
Time Eval vm_compute in matches_b r1 (list_ascii_of_string "abc.def.g").
Time Eval vm_compute in matches_b r1 (list_ascii_of_string "abc..g").
