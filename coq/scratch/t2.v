From Coq Require Import List NArith Bool.
From Nexus Require Import Order.Model Order.Spec Order.Examples.
Import ListNotations.
Open Scope N_scope.
Compute obs cfg8 tr_events 1.
Compute obs cfg8 tr_events 2.
Compute obs cfg8 tr_calls 1.
Compute obs cfg8 tr_progress 2.
Compute obs cfg1 tr_retry 2.
Compute attempts cfg1 tr_retry 2.
Compute obs cfg8 tr_refused 2.
Compute obs cfg8r tr_refused 2.
