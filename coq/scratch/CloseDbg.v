(* C04: a peer is closed once, and never written after it was closed, as long
   as every peer-close site of the inventory is on the handler's exit path
   (after the loop, after removal from broker and dealer) or on the attach
   path before a handler exists.  Conversely a close anywhere else, or an exit
   path that skips the removal, has a panicking trace. *)
From Coq Require Import List Bool Arith Lia.
From Nexus Require Import Safety.Sites Safety.Close.
Import ListNotations.

(* what holds in every reachable state when all sites are acceptable *)
Record inv (s : pstate) : Prop := {
  inv_none : hnd s = HNone -> in_broker s = false /\ in_dealer s = false;
  inv_closed : chan_closed s = true ->
               hnd s <> HRunning /\ in_broker s = false /\ in_dealer s = false /\
               ~ (att s = APre /\ hnd s = HNone);
  inv_started : hnd s <> HNone -> att s = AStarted
}.

Lemma inv_init : inv init.
Proof.
  constructor; simpl.
  - auto.
  - intros H; discriminate.
  - intros H; congruence.
Qed.

Lemma nth_ok sites i p :
  close_sites_ok sites = true -> nth_error sites i = Some p -> closepath_ok p = true.
Proof.
  unfold close_sites_ok. intros H N. rewrite forallb_forall in H.
  apply H. eapply nth_error_In; eauto.
Qed.

Ltac fin := intros; repeat split; try congruence; try (intros [? ?]; congruence); auto.

Lemma step_safe sites s e :
  close_sites_ok sites = true -> inv s ->
  match step sites s e with
  | CStep s' => inv s'
  | CDisabled => True
  | _ => False
  end.
Proof.
  intros OK I. destruct I as [In Ic Is].
  destruct e; simpl.
  - (* start handler *)
    destruct (att s) eqn:A; auto. destruct (hnd s) eqn:H; auto.
    constructor; simpl.
    + fin.
    + intros C. destruct (Ic C) as (_ & _ & _ & N). exfalso; apply N; auto.
    + fin.
  - (* join *)
    destruct (hnd s) eqn:H; auto.
    constructor; simpl; rewrite ?H.
    + fin.
    + intros C. destruct (Ic C) as (N & _). congruence.
    + intros _. apply Is. congruence.
  - (* handler send *)
    destruct (hnd s) eqn:H; auto. unfold do_send.
    destruct (chan_closed s) eqn:C.
    + destruct (Ic eq_refl) as (N & _). congruence.
    + constructor; auto. Show.
  - (* router send *)
    destruct (if from_broker then in_broker s else in_dealer s) eqn:M; auto.
    unfold do_send. destruct (chan_closed s) eqn:C.
    + destruct (Ic eq_refl) as (_ & B & D & _). destruct from_broker; congruence.
    + constructor; auto.
  - (* close site *)
    destruct (nth_error sites i) as [p|] eqn:N; auto.
    pose proof (nth_ok _ _ _ OK N) as P.
    destruct p as [l b d| |]; simpl in P; try discriminate.
    + apply andb_true_iff in P as [P Pd]. apply andb_true_iff in P as [Pl Pb]. subst.
      destruct (hnd s) eqn:H; auto. unfold do_close.
      destruct (chan_closed s) eqn:C.
      * destruct (Ic eq_refl) as (Nr & _). congruence.
      * constructor; simpl.
        -- fin.
        -- rewrite !andb_false_r. fin.
        -- intros _. apply Is. congruence.
    + destruct (att s) eqn:A; auto. destruct (hnd s) eqn:H; auto. unfold do_close.
      destruct (chan_closed s) eqn:C.
      * destruct (Ic eq_refl) as (_ & _ & _ & X). apply X; auto.
      * constructor; simpl.
        -- intros _. apply In; auto.
        -- intros _. destruct (In eq_refl) as [B D]. fin.
        -- fin.
Qed.

Theorem run_safe sites :
  close_sites_ok sites = true ->
  forall t s, inv s -> exists s', run sites s t = CStep s' /\ inv s'.
Proof.
  intros OK t; induction t as [|e r IH]; intros s I; simpl.
  - eauto.
  - pose proof (step_safe sites s e OK I) as S.
    destruct (step sites s e); try contradiction; auto.
Qed.

(* no trace ends in "close of closed channel" or "send on closed channel" *)
Theorem close_discipline sites t :
  close_sites_ok sites = true ->
  run sites init t <> CPanicCloseClosed /\ run sites init t <> CPanicSendClosed.
Proof.
  intros OK. destruct (run_safe sites OK t init inv_init) as (s' & R & _).
  rewrite R; split; discriminate.
Qed.

(* once the channel is closed no close site is enabled any more *)
Lemma closes_after_closed sites :
  close_sites_ok sites = true ->
  forall t s, inv s -> chan_closed s = true -> closes sites s t = 0.
Proof.
  intros OK t; induction t as [|e r IH]; intros s I C; simpl; auto.
  pose proof (step_safe sites s e OK I) as S.
  destruct (step sites s e) as [s'| | |] eqn:E; try contradiction; auto.
  rewrite C; simpl.
  apply IH; auto.
  (* the channel stays closed *)
  destruct e; simpl in E.
  - destruct (att s); try discriminate; destruct (hnd s); try discriminate; inversion E; subst; auto.
  - destruct (hnd s); try discriminate; inversion E; subst; auto.
  - destruct (hnd s); try discriminate. unfold do_send in E. rewrite C in E. discriminate.
  - destruct (if from_broker then in_broker s else in_dealer s); try discriminate.
    unfold do_send in E. rewrite C in E. discriminate.
  - destruct (nth_error sites i) as [p|]; try discriminate.
    destruct p; unfold do_close in E; rewrite C in E;
      repeat match type of E with context[match ?x with _ => _ end] => destruct x end; discriminate.
Qed.

Theorem closed_at_most_once sites t :
  close_sites_ok sites = true -> closes sites init t <= 1.
Proof.
  intros OK.
  assert (G : forall t s, inv s -> closes sites s t <= 1).
  { clear t. intros t; induction t as [|e r IH]; intros s I; simpl; auto.
    pose proof (step_safe sites s e OK I) as S.
    destruct (step sites s e) as [s'| | |] eqn:E; try contradiction; auto.
    destruct (negb (chan_closed s) && chan_closed s') eqn:B.
    - apply andb_true_iff in B as [_ B]. rewrite (closes_after_closed sites OK r s' S B). lia.
    - simpl. apply IH; auto. }
  apply G, inv_init.
Qed.

(* ---------------------------------------------------------------- *)
(* Refutations, for ANY inventory (hence for the generated one whenever it
   contains such sites): the concrete traces the check replays. *)

Theorem other_site_double_close sites i j b d :
  nth_error sites i = Some CPOther -> nth_error sites j = Some (CPExit true b d) ->
  run sites init [EStartHandler; EClose i; EClose j] = CPanicCloseClosed.
Proof. intros Hi Hj. simpl. rewrite Hi. simpl. rewrite Hj. reflexivity. Qed.

Theorem other_site_send_on_closed sites i :
  nth_error sites i = Some CPOther ->
  run sites init [EStartHandler; EClose i; EHandlerSend] = CPanicSendClosed.
Proof. intros Hi. simpl. rewrite Hi. reflexivity. Qed.

Theorem other_site_router_send_on_closed sites i :
  nth_error sites i = Some CPOther ->
  run sites init [EStartHandler; EJoin true false; EClose i; ERouterSend true] = CPanicSendClosed.
Proof. intros Hi. simpl. rewrite Hi. reflexivity. Qed.

(* removal from the broker must precede the close ... *)
Theorem exit_without_broker_removal sites j l d :
  nth_error sites j = Some (CPExit l false d) ->
  run sites init [EStartHandler; EJoin true false; EClose j; ERouterSend true] = CPanicSendClosed.
Proof. intros Hj. simpl. rewrite Hj. destruct l; reflexivity. Qed.

(* ... and so must removal from the dealer *)
Theorem exit_without_dealer_removal sites j l b :
  nth_error sites j = Some (CPExit l b false) ->
  run sites init [EStartHandler; EJoin false true; EClose j; ERouterSend false] = CPanicSendClosed.
Proof. intros Hj. simpl. rewrite Hj. destruct l; reflexivity. Qed.

(* a close in the handler's goroutine that is not after its loop *)
Theorem exit_before_loop_end sites j b d :
  nth_error sites j = Some (CPExit false b d) ->
  run sites init [EStartHandler; EClose j; EHandlerSend] = CPanicSendClosed.
Proof. intros Hj. simpl. rewrite Hj. reflexivity. Qed.

(* non-vacuity: the acceptable inventory of the repaired tree admits a run in
   which the peer is really closed, by the exit path *)
Example exit_path_closes :
  let sites := [CPExit true true true; CPPreSession; CPPreSession] in
  close_sites_ok sites = true /\
  closes sites init [EStartHandler; EJoin true true; EHandlerSend; ERouterSend true; EClose 0; ERouterSend true; EClose 0] = 1.
Proof. split; reflexivity. Qed.
