(* Per-run obligation (C17): the channel-operation skeleton that
   go/cmd/genclient extracted from today's client/client.go has no hazard
   outside what ClientLts.v transcribes (H1..H10 of ClientSkeleton.v). *)
From Coq Require Import List String Bool.
From Nexus Require Import Client.ClientSkeleton gen.GenClient.

Theorem skeleton_conforms : skeleton_conforms_b gen_ok gen_funcs gen_run_exits gen_reply_dispatch = true.
Proof. vm_compute. reflexivity. Qed.
