(* Per-run obligation (C17): every accessor site on router-controlled data
   that go/cmd/genclient found in today's client/client.go is of a checked
   kind.  A new bare assertion, an index without a dominating length check or
   a dereference of a decoded pointer without a nil check makes this fail. *)
From Coq Require Import List String Bool.
From Nexus Require Import Client.ClientSkeleton gen.GenClient.

Theorem site_table_ok : site_table_ok_b gen_ok gen_sites = true.
Proof. vm_compute. reflexivity. Qed.
